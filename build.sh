#!/bin/bash
# builds /verif/bin/regexlint from /verif/lint (offline; module cache only)
set -e
here="$(cd "$(dirname "${BASH_SOURCE[0]}")" && pwd)"
export GOFLAGS=-mod=mod GOPROXY=off GOSUMDB=off GOTOOLCHAIN=local GOWORK=off
export PATH=/opt/veriftools/go1.26.8/bin:$PATH
mkdir -p "$here/bin"
bin="$here/bin/regexlint"
if [ -x "$bin" ] && [ -z "$(find "$here/lint" -newer "$bin" -type f \( -name '*.go' -o -name '*.json' -o -name go.mod -o -name go.sum \) -print -quit)" ]; then
  exit 0
fi
cd "$here/lint" && go build -o "$bin" ./cmd/regexlint
