// regexlint decides one property of dlclark/regexp2 by static analysis of
// /repo's current working tree.
//
//	regexlint -prop C13 -tier quick|thorough [-repo /repo] [-verif /verif]
//	regexlint -prop C13 -replay evidence/violations/C13-1.json
//	regexlint -list
package main

import (
	"encoding/json"
	"flag"
	"fmt"
	"os"
	"path/filepath"
	"runtime/debug"
	"sort"
	"strconv"
	"strings"
	"time"

	"regexlint/internal/core"
	"regexlint/internal/rules"
)

func main() {
	prop := flag.String("prop", "", "property id (C01…)")
	tier := flag.String("tier", "quick", "quick or thorough")
	repo := flag.String("repo", "/repo", "repository under analysis")
	verif := flag.String("verif", "/verif", "verification directory (evidence, known findings)")
	replay := flag.String("replay", "", "replay file: re-evaluate that obligation")
	list := flag.Bool("list", false, "list properties")
	overlayFile := flag.String("overlay", "", "JSON file {path: contents} applied as an in-memory overlay (used by the sensitivity sweep)")
	noEvidence := flag.Bool("no-evidence", false, "do not write evidence (mutant runs)")
	flag.Parse()
	if *list {
		var ids []string
		for id := range rules.Props {
			ids = append(ids, id)
		}
		sort.Strings(ids)
		for _, id := range ids {
			fmt.Println(id)
		}
		return
	}
	if t := os.Getenv("VERIF_TIER"); t == "quick" || t == "thorough" {
		if !isFlagSet("tier") {
			*tier = t
		}
	}
	seed := 0
	if s, err := strconv.Atoi(os.Getenv("VERIF_SEED")); err == nil {
		seed = s
	}
	if *prop == "funcs" {
		// name, file and line range of every function declaration of the module (used by the generic mutant sweep)
		pg, err := core.Load(core.Config{Name: "default", Dir: *repo})
		if err != nil {
			fmt.Println("load:", err)
			os.Exit(2)
		}
		for _, pk := range pg.ModulePkgs() {
			for _, fd := range pg.FuncDecls(pk) {
				if fd.Body == nil || pg.IsTestFile(fd.Pos()) {
					continue
				}
				a := pg.Fset.Position(fd.Pos())
				b := pg.Fset.Position(fd.End())
				fmt.Printf("%s\t%s\t%d\t%d\n", core.DeclName(pk, fd), a.Filename, a.Line, b.Line)
			}
		}
		return
	}
	if *prop == "symbols" {
		// the symbol table the rename resolution compares against (internal/core/baseline_symbols.json)
		pg, err := core.Load(core.Config{Name: "default", Dir: *repo})
		if err != nil {
			fmt.Println("load:", err)
			os.Exit(2)
		}
		syms, _ := pg.CollectSymbols()
		b, _ := json.MarshalIndent(syms, "", " ")
		fmt.Println(string(b))
		return
	}
	if *prop == "all" {
		// mutant / seed runs: load once, run every property's rules, one line per reported obligation
		runAll(*repo, *verif, *overlayFile)
		return
	}
	pr := rules.Props[*prop]
	if pr == nil {
		fmt.Printf("unknown property %q\n", *prop)
		os.Exit(2)
	}
	start := time.Now()

	configs := []core.Config{{Name: "default", Dir: *repo}}
	if *tier == "thorough" {
		configs = append(configs,
			core.Config{Name: "tags=gofuzz", Dir: *repo, Tags: "gofuzz"},
			core.Config{Name: "GOARCH=386", Dir: *repo, GOARCH: "386"},
			core.Config{Name: "GOOS=windows", Dir: *repo, GOOS: "windows"},
		)
	}
	if *overlayFile != "" {
		b, err := os.ReadFile(*overlayFile)
		if err != nil {
			fmt.Println("overlay:", err)
			os.Exit(2)
		}
		ov := map[string]string{}
		if err := json.Unmarshal(b, &ov); err != nil {
			fmt.Println("overlay:", err)
			os.Exit(2)
		}
		for i := range configs {
			configs[i].Overlay = map[string][]byte{}
			for k, v := range ov {
				configs[i].Overlay[k] = []byte(v)
			}
		}
	}

	var total *core.Ctx
	var names []string
	for _, cfg := range configs {
		names = append(names, cfg.Name)
		ctx := runConfig(cfg, pr, *prop, *tier)
		if total == nil {
			total = ctx
		} else {
			total.Merge(ctx)
		}
	}
	if *replay != "" {
		replayOne(total, *replay)
		return
	}
	if *noEvidence {
		bad := 0
		for _, o := range total.Unlisted(*verif) {
			bad++
			fmt.Printf("  %s %s [%s] %s: %s\n", o.Status, o.Rule, o.Key, o.Pos, o.Detail)
		}
		fmt.Printf("%s: %d obligations, %d not discharged\n", *prop, len(total.Obligations()), bad)
		if bad > 0 {
			os.Exit(1)
		}
		return
	}
	extra := map[string]any{}
	if *tier == "quick" && *overlayFile == "" {
		extra["canary"] = runCanary(total, pr, *prop, *repo, *verif)
	}
	res := total.Finish(*verif, seed, start, extra, pr.Assumptions, pr.Explanation, names)
	os.Exit(res.Exit)
}

// runCanary applies the property's first catalogue mutant (tools/mutants.json) in memory
// and requires the rules to report it: a rule set that has silently become vacuous fails
// the check even though nothing is wrong with /repo.  If the edit no longer applies to
// the current sources the canary is skipped (and says so in the evidence).
func runCanary(total *core.Ctx, pr *rules.Prop, prop, repo, verif string) map[string]any {
	out := map[string]any{"status": "no catalogue entry"}
	b, err := os.ReadFile(filepath.Join(verif, "tools", "mutants.json"))
	if err != nil {
		out["status"] = "catalogue unreadable: " + err.Error()
		return out
	}
	var cat []struct{ Prop, File, From, To, Note string }
	if err := json.Unmarshal(b, &cat); err != nil {
		out["status"] = "catalogue unparsable: " + err.Error()
		return out
	}
	for _, m := range cat {
		if m.Prop != prop {
			continue
		}
		path := filepath.Join(repo, m.File)
		src, err := os.ReadFile(path)
		if err != nil || !strings.Contains(string(src), m.From) {
			out["status"] = "edit no longer applies to the current sources: " + m.Note
			continue
		}
		mutated := strings.Replace(string(src), m.From, m.To, 1)
		ctx := runConfig(core.Config{Name: "canary", Dir: repo, Overlay: map[string][]byte{path: []byte(mutated)}}, pr, prop, "quick")
		bad := 0
		first := ""
		for _, o := range ctx.Unlisted(verif) {
			bad++
			if first == "" {
				first = o.Rule + " [" + o.Key + "]"
			}
		}
		out = map[string]any{"mutant": m.Note + " (" + m.File + ")", "reported": bad, "first_report": first, "status": "detected"}
		if bad == 0 {
			out["status"] = "NOT detected"
			total.Rule("CANARY", "the property's canary mutant (first entry of tools/mutants.json for it), applied in memory, must be reported by the rules", 0)
			total.Unknown("canary / "+m.Note, 0, "the rules no longer report a change they are known to catch: they have become vacuous")
		}
		return out
	}
	return out
}

func isFlagSet(name string) bool {
	set := false
	flag.Visit(func(f *flag.Flag) {
		if f.Name == name {
			set = true
		}
	})
	return set
}

// runConfig loads one build configuration and runs every rule of the property.
// A loader failure or an analyser panic is an undecided obligation: it fails
// the check rather than passing vacuously.
func runConfig(cfg core.Config, pr *rules.Prop, prop, tier string) (ctx *core.Ctx) {
	p, err := core.Load(cfg)
	if err != nil {
		// synthesize a context that carries the failure
		ctx = core.NewCtx(&core.Program{Cfg: cfg}, prop, tier)
		ctx.Rule("LOAD", "the repository must load and type-check in every analysed build configuration", 0)
		ctx.Unknown("load / "+cfg.Name, 0, "%v", err)
		return ctx
	}
	ctx = core.NewCtx(p, prop, tier)
	for _, r := range pr.Rules {
		func() {
			defer func() {
				if e := recover(); e != nil {
					ctx.Rule("PANIC", "an analyser panic is a failed check, not a pass", 0)
					ctx.Unknown(fmt.Sprintf("analyser panic / %v", e), 0, "%s", debug.Stack())
				}
			}()
			r(ctx)
		}()
	}
	return ctx
}

func replayOne(ctx *core.Ctx, file string) {
	b, err := os.ReadFile(file)
	if err != nil {
		fmt.Println("replay:", err)
		os.Exit(2)
	}
	var rec struct {
		Property   string          `json:"property"`
		Obligation core.Obligation `json:"obligation"`
	}
	if err := json.Unmarshal(b, &rec); err != nil {
		fmt.Println("replay:", err)
		os.Exit(2)
	}
	for _, o := range ctx.Obligations() {
		if o.Rule == rec.Obligation.Rule && o.Key == rec.Obligation.Key {
			fmt.Printf("replay %s %s [%s] at %s: %s — %s\n", rec.Property, o.Rule, o.Key, o.Pos, o.Status, o.Detail)
			if o.Status != core.Discharged {
				fmt.Printf("VIOLATION property=%s replay=%s\n", rec.Property, file)
				os.Exit(1)
			}
			return
		}
	}
	fmt.Printf("replay: obligation %s [%s] no longer exists on the current tree\n", rec.Obligation.Rule, rec.Obligation.Key)
}

// runAll loads the default configuration once and evaluates every property on it.
func runAll(repo, verif, overlayFile string) {
	cfg := core.Config{Name: "default", Dir: repo}
	if overlayFile != "" {
		b, err := os.ReadFile(overlayFile)
		if err != nil {
			fmt.Println("overlay:", err)
			os.Exit(2)
		}
		ov := map[string]string{}
		if err := json.Unmarshal(b, &ov); err != nil {
			fmt.Println("overlay:", err)
			os.Exit(2)
		}
		cfg.Overlay = map[string][]byte{}
		for k, v := range ov {
			cfg.Overlay[k] = []byte(v)
		}
	}
	p, err := core.Load(cfg)
	if err != nil {
		fmt.Printf("LOAD [load / default]: %v\n", err)
		os.Exit(3)
	}
	var ids []string
	for id := range rules.Props {
		ids = append(ids, id)
	}
	sort.Strings(ids)
	bad := 0
	for _, id := range ids {
		ctx := core.NewCtx(p, id, "quick")
		for _, r := range rules.Props[id].Rules {
			func() {
				defer func() {
					if e := recover(); e != nil {
						ctx.Rule("PANIC", "an analyser panic is a failed check, not a pass", 0)
						ctx.Unknown(fmt.Sprintf("analyser panic / %v", e), 0, "%s", debug.Stack())
					}
				}()
				r(ctx)
			}()
		}
		for _, o := range ctx.Unlisted(verif) {
			bad++
			fmt.Printf("%s %s %s [%s] %s: %s\n", id, o.Status, o.Rule, o.Key, o.Pos, strings.ReplaceAll(o.Detail, "\n", " "))
		}
	}
	fmt.Printf("all: %d properties, %d obligations not discharged\n", len(ids), bad)
	if bad > 0 {
		os.Exit(1)
	}
}
