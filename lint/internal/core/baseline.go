package core

import (
	_ "embed"
	"encoding/json"
	"fmt"
	"go/types"
	"sort"
	"strings"

	"golang.org/x/tools/go/ssa"
)

// Rename resolution.
//
// Rules anchor on named functions, fields and package-level objects of /repo.
// A maintainer who renames `ignoreNextParen` to `skipNextCapture` changes no
// behaviour, so the anchor must follow the rename instead of failing.  The
// symbol table of the tree the rules were written against is embedded
// (baseline_symbols.json, regenerated with `regexlint -prop symbols`); when a
// name of that table is missing from the analysed tree and EXACTLY ONE symbol
// that the table does not know has appeared in the same container with the
// same type (field: same struct, same type; function: same package and
// receiver, same parameter and result types; variable/constant: same package,
// same type), the missing name is resolved to it and every name the rules
// print or compare (FuncName, SSAName, DeclName, BaseName) is reported under
// the old name, so obligation keys, exception tables and known-finding keys
// stay stable.  Anything less clear-cut (two candidates, a changed type) is
// not guessed: the anchor stays unresolved and the check fails loudly.

//go:embed baseline_symbols.json
var baselineJSON []byte

// Symbols is the symbol table of one tree.
type Symbols struct {
	// "pkg|Recv|name" -> parameter/result types (no names)
	Funcs map[string]string `json:"funcs"`
	// "pkg|T" -> fields in declaration order
	Fields map[string][][2]string `json:"fields"`
	// "pkg|name" -> "var T" / "const T"
	Objs map[string]string `json:"objs"`
}

func shortPkg(p *types.Package) string {
	if p == nil {
		return ""
	}
	return p.Name()
}

func typeStr(t types.Type) string {
	return types.TypeString(t, func(p *types.Package) string { return p.Name() })
}

func sigStr(sig *types.Signature) string {
	var b strings.Builder
	b.WriteString("(")
	for i := 0; i < sig.Params().Len(); i++ {
		if i > 0 {
			b.WriteString(", ")
		}
		if sig.Variadic() && i == sig.Params().Len()-1 {
			b.WriteString("...")
		}
		b.WriteString(typeStr(sig.Params().At(i).Type()))
	}
	b.WriteString(") (")
	for i := 0; i < sig.Results().Len(); i++ {
		if i > 0 {
			b.WriteString(", ")
		}
		b.WriteString(typeStr(sig.Results().At(i).Type()))
	}
	b.WriteString(")")
	return b.String()
}

func recvName(sig *types.Signature) string {
	if sig == nil || sig.Recv() == nil {
		return ""
	}
	t := sig.Recv().Type()
	if pt, ok := t.(*types.Pointer); ok {
		t = pt.Elem()
	}
	if n, ok := t.(*types.Named); ok {
		return n.Obj().Name()
	}
	return t.String()
}

// CollectSymbols builds the symbol table of the loaded (non-test) module packages.
func (p *Program) CollectSymbols() (*Symbols, map[string]types.Object) {
	s := &Symbols{Funcs: map[string]string{}, Fields: map[string][][2]string{}, Objs: map[string]string{}}
	objs := map[string]types.Object{}
	for _, pk := range p.ModulePkgs() {
		sc := pk.Types.Scope()
		pkn := pk.Types.Name()
		for _, name := range sc.Names() {
			obj := sc.Lookup(name)
			if p.IsTestFile(obj.Pos()) {
				continue
			}
			switch o := obj.(type) {
			case *types.Func:
				k := pkn + "||" + name
				s.Funcs[k] = sigStr(o.Type().(*types.Signature))
				objs["func:"+k] = o
			case *types.Var:
				k := pkn + "|" + name
				s.Objs[k] = "var " + typeStr(o.Type())
				objs["obj:"+k] = o
			case *types.Const:
				k := pkn + "|" + name
				s.Objs[k] = "const " + typeStr(o.Type())
				objs["obj:"+k] = o
			case *types.TypeName:
				if o.IsAlias() {
					continue
				}
				named, ok := o.Type().(*types.Named)
				if !ok {
					continue
				}
				if st, ok := named.Underlying().(*types.Struct); ok {
					k := pkn + "|" + name
					for i := 0; i < st.NumFields(); i++ {
						f := st.Field(i)
						s.Fields[k] = append(s.Fields[k], [2]string{f.Name(), typeStr(f.Type())})
						objs["field:"+k+"|"+f.Name()] = f
					}
				}
				for i := 0; i < named.NumMethods(); i++ {
					m := named.Method(i)
					if p.IsTestFile(m.Pos()) {
						continue
					}
					k := pkn + "|" + name + "|" + m.Name()
					s.Funcs[k] = sigStr(m.Type().(*types.Signature))
					objs["func:"+k] = m
				}
			}
		}
	}
	return s, objs
}

// Renames of the loaded program against the embedded baseline.
type renameTable struct {
	// lookups: old key -> current object
	funcs  map[string]*types.Func
	fields map[string]*types.Var
	objs   map[string]types.Object
	// reporting: current object -> old name
	oldName map[types.Object]string
	notes   []string
}

var activeRenames *renameTable

func (p *Program) renames() *renameTable {
	p.renOnce.Do(func() {
		rt := &renameTable{funcs: map[string]*types.Func{}, fields: map[string]*types.Var{}, objs: map[string]types.Object{}, oldName: map[types.Object]string{}}
		p.ren = rt
		activeRenames = rt
		var base Symbols
		if len(baselineJSON) == 0 || json.Unmarshal(baselineJSON, &base) != nil || base.Funcs == nil {
			return
		}
		cur, objs := p.CollectSymbols()
		// functions and methods: group by container "pkg|Recv"
		type cand struct{ key, name string }
		container := func(k string) string { return k[:strings.LastIndexByte(k, '|')] }
		missing := map[string][]cand{}
		fresh := map[string][]cand{}
		for k := range base.Funcs {
			if _, ok := cur.Funcs[k]; !ok {
				missing[container(k)] = append(missing[container(k)], cand{k, k[strings.LastIndexByte(k, '|')+1:]})
			}
		}
		for k := range cur.Funcs {
			if _, ok := base.Funcs[k]; !ok {
				fresh[container(k)] = append(fresh[container(k)], cand{k, k[strings.LastIndexByte(k, '|')+1:]})
			}
		}
		for cont, ms := range missing {
			for _, m := range ms {
				var hit []cand
				for _, f := range fresh[cont] {
					if cur.Funcs[f.key] == base.Funcs[m.key] {
						hit = append(hit, f)
					}
				}
				// the other direction must be unique too: no second missing function of that signature
				same := 0
				for _, m2 := range ms {
					if base.Funcs[m2.key] == base.Funcs[m.key] {
						same++
					}
				}
				if len(hit) == 1 && same == 1 {
					fn := objs["func:"+hit[0].key].(*types.Func)
					rt.funcs[m.key] = fn
					rt.oldName[fn] = m.name
					rt.notes = append(rt.notes, fmt.Sprintf("function %s resolved as renamed to %s (same container, same signature, only candidate)", strings.ReplaceAll(m.key, "|", "."), hit[0].name))
				}
			}
		}
		// fields
		for k, bfs := range base.Fields {
			cfs, ok := cur.Fields[k]
			if !ok {
				continue
			}
			bset, cset := map[string]string{}, map[string]string{}
			for _, f := range bfs {
				bset[f[0]] = f[1]
			}
			for _, f := range cfs {
				cset[f[0]] = f[1]
			}
			for name, typ := range bset {
				if _, ok := cset[name]; ok {
					continue
				}
				var hit []string
				for cn, ct := range cset {
					if _, known := bset[cn]; !known && ct == typ {
						hit = append(hit, cn)
					}
				}
				same := 0
				for bn, bt := range bset {
					if _, still := cset[bn]; !still && bt == typ {
						same++
					}
				}
				if len(hit) == 1 && same == 1 {
					f := objs["field:"+k+"|"+hit[0]].(*types.Var)
					rt.fields[k+"|"+name] = f
					rt.oldName[f] = name
					rt.notes = append(rt.notes, fmt.Sprintf("field %s.%s resolved as renamed to %s (same struct, same type, only candidate)", strings.ReplaceAll(k, "|", "."), name, hit[0]))
				}
			}
		}
		// package-level variables and constants
		byPkgMissing := map[string][]string{}
		byPkgFresh := map[string][]string{}
		for k := range base.Objs {
			if _, ok := cur.Objs[k]; !ok {
				byPkgMissing[k[:strings.IndexByte(k, '|')]] = append(byPkgMissing[k[:strings.IndexByte(k, '|')]], k)
			}
		}
		for k := range cur.Objs {
			if _, ok := base.Objs[k]; !ok {
				byPkgFresh[k[:strings.IndexByte(k, '|')]] = append(byPkgFresh[k[:strings.IndexByte(k, '|')]], k)
			}
		}
		for pkn, ms := range byPkgMissing {
			for _, m := range ms {
				var hit []string
				for _, f := range byPkgFresh[pkn] {
					if cur.Objs[f] == base.Objs[m] {
						hit = append(hit, f)
					}
				}
				same := 0
				for _, m2 := range ms {
					if base.Objs[m2] == base.Objs[m] {
						same++
					}
				}
				if len(hit) == 1 && same == 1 {
					o := objs["obj:"+hit[0]]
					rt.objs[m] = o
					rt.oldName[o] = m[strings.IndexByte(m, '|')+1:]
					rt.notes = append(rt.notes, fmt.Sprintf("%s resolved as renamed to %s (same package, same type, only candidate)", strings.ReplaceAll(m, "|", "."), hit[0][strings.IndexByte(hit[0], '|')+1:]))
				}
			}
		}
		sort.Strings(rt.notes)
	})
	return p.ren
}

// RenameNotes lists the renames that were resolved (for the evidence).
func (p *Program) RenameNotes() []string { return p.renames().notes }

// BaseName is obj's name as the rules know it: the baseline name when obj was
// resolved as a renamed symbol, its own name otherwise.  Accepts types.Object,
// *ssa.Function and nil.
func BaseName(x any) string {
	var obj types.Object
	switch v := x.(type) {
	case nil:
		return ""
	case *ssa.Function:
		if v == nil {
			return ""
		}
		if v.Object() == nil {
			return v.Name()
		}
		obj = v.Object()
		if f, ok := obj.(*types.Func); ok {
			obj = f.Origin()
		}
	case *types.Func:
		if v == nil {
			return ""
		}
		obj = v.Origin()
	case types.Object:
		obj = v
	default:
		return ""
	}
	if obj == nil {
		return ""
	}
	if activeRenames != nil {
		if old, ok := activeRenames.oldName[obj]; ok {
			return old
		}
	}
	return obj.Name()
}
