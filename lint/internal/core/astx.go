package core

import (
	"go/ast"
	"go/constant"
	"go/token"
	"go/types"

	"golang.org/x/tools/go/ast/astutil"
	"golang.org/x/tools/go/cfg"
	"golang.org/x/tools/go/packages"
	"golang.org/x/tools/go/types/typeutil"
)

// ConstInt evaluates e as an integer constant using the type checker's result.
func ConstInt(info *types.Info, e ast.Expr) (int64, bool) {
	tv, ok := info.Types[e]
	if !ok || tv.Value == nil {
		return 0, false
	}
	v := constant.ToInt(tv.Value)
	if v.Kind() != constant.Int {
		return 0, false
	}
	return constant.Int64Val(v)
}

// Callee resolves the static callee of a call (function, method, or nil for
// dynamic calls / conversions / builtins).
func Callee(info *types.Info, call *ast.CallExpr) *types.Func {
	fn, _ := typeutil.Callee(info, call).(*types.Func)
	if fn != nil {
		return fn.Origin()
	}
	return nil
}

// IsCallTo reports whether call statically resolves to fn.
func IsCallTo(info *types.Info, call *ast.CallExpr, fn *types.Func) bool {
	return fn != nil && Callee(info, call) == fn
}

// CallsIn returns every call expression in n whose static callee is fn, in
// source order.  Function literals are included.
func CallsIn(info *types.Info, n ast.Node, fn *types.Func) []*ast.CallExpr {
	var out []*ast.CallExpr
	ast.Inspect(n, func(x ast.Node) bool {
		if c, ok := x.(*ast.CallExpr); ok && IsCallTo(info, c, fn) {
			out = append(out, c)
		}
		return true
	})
	return out
}

// FieldOf returns the field variable selected by e (x.f), or nil.
func FieldOf(info *types.Info, e ast.Expr) *types.Var {
	sel, ok := ast.Unparen(e).(*ast.SelectorExpr)
	if !ok {
		return nil
	}
	if s := info.Selections[sel]; s != nil && s.Kind() == types.FieldVal {
		v, _ := s.Obj().(*types.Var)
		return v
	}
	// qualified identifier pkg.Var is not a field
	return nil
}

// ObjOf returns the object an identifier or selector's final identifier denotes.
func ObjOf(info *types.Info, e ast.Expr) types.Object {
	switch x := ast.Unparen(e).(type) {
	case *ast.Ident:
		return info.ObjectOf(x)
	case *ast.SelectorExpr:
		return info.ObjectOf(x.Sel)
	}
	return nil
}

// NamedOf strips pointers and returns the named type's object name and package path.
func NamedOf(t types.Type) (pkg, name string) {
	if t == nil {
		return "", ""
	}
	if p, ok := t.(*types.Pointer); ok {
		t = p.Elem()
	}
	t = types.Unalias(t)
	if n, ok := t.(*types.Named); ok {
		if n.Obj().Pkg() != nil {
			pkg = n.Obj().Pkg().Path()
		}
		return pkg, n.Obj().Name()
	}
	return "", ""
}

// IsNamed reports whether t (or *t) is the named type pkgpath.name.
func IsNamed(t types.Type, pkgpath, name string) bool {
	p, n := NamedOf(t)
	return p == pkgpath && n == name
}

// EnclosingFunc finds the FuncDecl that contains pos in pk.
func EnclosingFunc(pk *packages.Package, pos token.Pos) *ast.FuncDecl {
	for _, f := range pk.Syntax {
		if f.Pos() <= pos && pos <= f.End() {
			path, _ := astutil.PathEnclosingInterval(f, pos, pos)
			for _, n := range path {
				if fd, ok := n.(*ast.FuncDecl); ok {
					return fd
				}
			}
		}
	}
	return nil
}

// DeclName renders a FuncDecl as pkg.(*T).m using type info.
func DeclName(pk *packages.Package, fd *ast.FuncDecl) string {
	if fn, ok := pk.TypesInfo.Defs[fd.Name].(*types.Func); ok {
		return FuncName(fn)
	}
	return pk.Name + "." + fd.Name.Name
}

// ---------------------------------------------------------------- CFG

// Graph wraps a go/cfg graph with dominator information and a node index.
type Graph struct {
	*cfg.CFG
	Info  *types.Info
	idom  []int // immediate dominator by block index (-1 for entry/unreachable)
	order []int
	// where each AST node (top-level node of a block) lives
	nodeBlock map[ast.Node]*cfg.Block
	nodeIdx   map[ast.Node]int
}

// NoReturn is the mayReturn predicate used everywhere: calls to panic-like
// functions end a path.
func mayReturn(info *types.Info) func(*ast.CallExpr) bool {
	return func(c *ast.CallExpr) bool {
		if id, ok := ast.Unparen(c.Fun).(*ast.Ident); ok {
			if b, ok := info.Uses[id].(*types.Builtin); ok && b.Name() == "panic" {
				return false
			}
		}
		return true
	}
}

// NewGraph builds the CFG of a function body.
func NewGraph(info *types.Info, body *ast.BlockStmt) *Graph {
	g := &Graph{CFG: cfg.New(body, mayReturn(info)), Info: info, nodeBlock: map[ast.Node]*cfg.Block{}, nodeIdx: map[ast.Node]int{}}
	for _, b := range g.Blocks {
		for i, n := range b.Nodes {
			g.nodeBlock[n] = b
			g.nodeIdx[n] = i
		}
	}
	g.computeDom()
	return g
}

func (g *Graph) computeDom() {
	n := len(g.Blocks)
	g.idom = make([]int, n)
	for i := range g.idom {
		g.idom[i] = -1
	}
	if n == 0 {
		return
	}
	// reverse postorder
	seen := make([]bool, n)
	var post []int
	var dfs func(int)
	dfs = func(b int) {
		seen[b] = true
		for _, s := range g.Blocks[b].Succs {
			if !seen[s.Index] {
				dfs(int(s.Index))
			}
		}
		post = append(post, b)
	}
	dfs(0)
	rpoNum := make([]int, n)
	for i := range rpoNum {
		rpoNum[i] = -1
	}
	rpo := make([]int, 0, len(post))
	for i := len(post) - 1; i >= 0; i-- {
		rpoNum[post[i]] = len(rpo)
		rpo = append(rpo, post[i])
	}
	g.order = rpo
	preds := make([][]int, n)
	for _, b := range g.Blocks {
		for _, s := range b.Succs {
			preds[s.Index] = append(preds[s.Index], int(b.Index))
		}
	}
	g.idom[0] = 0
	intersect := func(a, b int) int {
		for a != b {
			for rpoNum[a] > rpoNum[b] {
				a = g.idom[a]
			}
			for rpoNum[b] > rpoNum[a] {
				b = g.idom[b]
			}
		}
		return a
	}
	for changed := true; changed; {
		changed = false
		for _, b := range rpo[1:] {
			nd := -1
			for _, p := range preds[b] {
				if g.idom[p] == -1 {
					continue
				}
				if nd == -1 {
					nd = p
				} else {
					nd = intersect(p, nd)
				}
			}
			if nd != -1 && g.idom[b] != nd {
				g.idom[b] = nd
				changed = true
			}
		}
	}
}

// Reachable reports whether block b is reachable from entry.
func (g *Graph) Reachable(b *cfg.Block) bool { return b.Index == 0 || g.idom[b.Index] != -1 }

// Dominates reports whether block a dominates block b.
func (g *Graph) Dominates(a, b *cfg.Block) bool {
	if !g.Reachable(b) {
		return true
	}
	x := int(b.Index)
	for {
		if x == int(a.Index) {
			return true
		}
		if x == 0 {
			return false
		}
		x = g.idom[x]
	}
}

// BlockOf finds the block and index of the top-level CFG node that contains the
// AST node n (by position), or nil.
func (g *Graph) BlockOf(n ast.Node) (*cfg.Block, int) {
	if b, ok := g.nodeBlock[n]; ok {
		return b, g.nodeIdx[n]
	}
	var best ast.Node
	for cand := range g.nodeBlock {
		if cand.Pos() <= n.Pos() && n.End() <= cand.End() {
			if best == nil || (cand.End()-cand.Pos()) < (best.End()-best.Pos()) {
				best = cand
			}
		}
	}
	if best == nil {
		return nil, 0
	}
	return g.nodeBlock[best], g.nodeIdx[best]
}

// Cond describes a two-way branch: Block ends in Cond; Succs[0] is the true
// edge, Succs[1] the false edge (go/cfg convention).
func (g *Graph) Cond(b *cfg.Block) ast.Expr {
	if len(b.Succs) != 2 || len(b.Nodes) == 0 {
		return nil
	}
	e, ok := b.Nodes[len(b.Nodes)-1].(ast.Expr)
	if !ok {
		return nil
	}
	if tv, ok := g.Info.Types[e]; ok {
		if bt, ok := tv.Type.Underlying().(*types.Basic); ok && bt.Info()&types.IsBoolean != 0 {
			return e
		}
	}
	return nil
}

// EdgeFact is a branch condition known to hold (Value=true) or not hold on
// the way to some block.
type EdgeFact struct {
	Cond  ast.Expr
	Value bool
}

// FactsAt returns the branch facts that hold on EVERY path from entry to block
// b: for each dominator d of b ending in a condition, if exactly one of d's
// successors dominates b (or is b), the corresponding polarity holds.
func (g *Graph) FactsAt(b *cfg.Block) []EdgeFact {
	var facts []EdgeFact
	if !g.Reachable(b) {
		return nil
	}
	x := int(b.Index)
	for x != 0 {
		d := g.idom[x]
		db := g.Blocks[d]
		if c := g.Cond(db); c != nil {
			t, f := db.Succs[0], db.Succs[1]
			td := t != f && g.edgeDominates(db, t, g.Blocks[x])
			fd := t != f && g.edgeDominates(db, f, g.Blocks[x])
			if td && !fd {
				facts = append(facts, EdgeFact{c, true})
			} else if fd && !td {
				facts = append(facts, EdgeFact{c, false})
			}
		}
		x = d
	}
	return facts
}

// edgeDominates: every path from entry to target goes through edge (from->to).
// Holds when `to` dominates target and `to`'s only way in is... approximated
// soundly: to dominates target AND every predecessor of `to` other than `from`
// is itself dominated by `to` (back edges).
func (g *Graph) edgeDominates(from, to, target *cfg.Block) bool {
	if !g.Dominates(to, target) {
		return false
	}
	for _, p := range g.Blocks {
		for _, s := range p.Succs {
			if s == to && p != from && g.Reachable(p) && !g.Dominates(to, p) {
				return false
			}
		}
	}
	return true
}

// ---------------------------------------------------------------- path queries

// NodePred classifies a CFG node.
type NodePred func(n ast.Node) bool

// MustPassBefore reports whether every path from entry to (block b, node index
// i) contains a node satisfying pred strictly before it.  If not, returns a
// witness description (block indexes of an avoiding path).
func (g *Graph) MustPassBefore(b *cfg.Block, i int, pred NodePred) bool {
	// forward must-analysis: in[b] = AND over preds out[p]; out = in || any node satisfies
	n := len(g.Blocks)
	has := make([]bool, n)
	for _, blk := range g.Blocks {
		for _, nd := range blk.Nodes {
			if pred(nd) {
				has[blk.Index] = true
				break
			}
		}
	}
	in := make([]bool, n)
	out := make([]bool, n)
	for i := range in {
		in[i], out[i] = true, true
	}
	in[0] = false
	preds := g.preds()
	for changed := true; changed; {
		changed = false
		for _, bi := range g.order {
			v := true
			if bi == 0 {
				v = false
			} else {
				for _, p := range preds[bi] {
					if g.Reachable(g.Blocks[p]) && !out[p] {
						v = false
					}
				}
			}
			o := v || has[bi]
			if v != in[bi] || o != out[bi] {
				in[bi], out[bi] = v, o
				changed = true
			}
		}
	}
	if in[b.Index] {
		return true
	}
	for k := 0; k < i && k < len(b.Nodes); k++ {
		if pred(b.Nodes[k]) {
			return true
		}
	}
	return false
}

func (g *Graph) preds() [][]int {
	preds := make([][]int, len(g.Blocks))
	for _, b := range g.Blocks {
		for _, s := range b.Succs {
			preds[s.Index] = append(preds[s.Index], int(b.Index))
		}
	}
	return preds
}

// ReachesWithout reports whether some path starting just after (block b, node
// i) reaches a node satisfying target without first passing a node satisfying
// stop.  Nodes are examined in order; a node satisfying both counts as stop.
func (g *Graph) ReachesWithout(b *cfg.Block, i int, target, stop NodePred) (ast.Node, bool) {
	type item struct {
		b *cfg.Block
		i int
	}
	seen := map[int32]bool{}
	work := []item{{b, i + 1}}
	for len(work) > 0 {
		it := work[len(work)-1]
		work = work[:len(work)-1]
		stopped := false
		for k := it.i; k < len(it.b.Nodes); k++ {
			nd := it.b.Nodes[k]
			if stop != nil && stop(nd) {
				stopped = true
				break
			}
			if target(nd) {
				return nd, true
			}
		}
		if stopped {
			continue
		}
		for _, s := range it.b.Succs {
			if !seen[s.Index] {
				seen[s.Index] = true
				work = append(work, item{s, 0})
			}
		}
	}
	return nil, false
}

// ContainsCallTo builds a NodePred: node contains a call statically resolving to fn.
func ContainsCallTo(info *types.Info, fns ...*types.Func) NodePred {
	return func(n ast.Node) bool {
		found := false
		ast.Inspect(n, func(x ast.Node) bool {
			if found {
				return false
			}
			if _, ok := x.(*ast.FuncLit); ok {
				return false
			}
			if c, ok := x.(*ast.CallExpr); ok {
				cal := Callee(info, c)
				for _, fn := range fns {
					if fn != nil && cal == fn {
						found = true
					}
				}
			}
			return true
		})
		return found
	}
}

// IsReturn is a NodePred for return statements.
func IsReturn(n ast.Node) bool { _, ok := n.(*ast.ReturnStmt); return ok }

// MinMaxCall recognises a call that returns the least ("min") or the greatest
// ("max") of its arguments: the builtins, or a two-parameter function of the
// analysed module whose whole body is `if a OP b { return a }; return b`
// (either orientation) — the package-level helpers that shadow the builtins
// in package syntax are of that form, and the shape is checked, not the name.
func MinMaxCall(p *Program, info *types.Info, call *ast.CallExpr) (string, []ast.Expr) {
	if id, ok := ast.Unparen(call.Fun).(*ast.Ident); ok {
		if b, ok := info.Uses[id].(*types.Builtin); ok && (b.Name() == "min" || b.Name() == "max") {
			return b.Name(), call.Args
		}
	}
	fn := Callee(info, call)
	if fn == nil || len(call.Args) != 2 || p == nil {
		return "", nil
	}
	if k := minMaxKind(p, fn); k != "" {
		return k, call.Args
	}
	return "", nil
}

var minMaxMemo = map[*types.Func]string{}

func minMaxKind(p *Program, fn *types.Func) string {
	if k, ok := minMaxMemo[fn]; ok {
		return k
	}
	k := minMaxKindUncached(p, fn)
	minMaxMemo[fn] = k
	return k
}

func minMaxKindUncached(p *Program, fn *types.Func) string {
	fd, pk := p.DeclOf(fn)
	if fd == nil || fd.Body == nil || pk == nil || len(fd.Body.List) < 1 || len(fd.Body.List) > 2 {
		return ""
	}
	sig := fn.Type().(*types.Signature)
	if sig.Params().Len() != 2 || sig.Results().Len() != 1 {
		return ""
	}
	a, b := sig.Params().At(0), sig.Params().At(1)
	ifs, ok := fd.Body.List[0].(*ast.IfStmt)
	if !ok || ifs.Init != nil || len(ifs.Body.List) != 1 {
		return ""
	}
	// `if c { return a }; return b`  or  `if c { return a } else { return b }`
	var second ast.Stmt
	switch {
	case ifs.Else == nil && len(fd.Body.List) == 2:
		second = fd.Body.List[1]
	case ifs.Else != nil && len(fd.Body.List) == 1:
		if eb, ok := ifs.Else.(*ast.BlockStmt); ok && len(eb.List) == 1 {
			second = eb.List[0]
		}
	}
	if second == nil {
		return ""
	}
	retOf := func(s ast.Stmt) *types.Var {
		rs, ok := s.(*ast.ReturnStmt)
		if !ok || len(rs.Results) != 1 {
			return nil
		}
		id, ok := ast.Unparen(rs.Results[0]).(*ast.Ident)
		if !ok {
			return nil
		}
		v, _ := pk.TypesInfo.Uses[id].(*types.Var)
		return v
	}
	r1, r2 := retOf(ifs.Body.List[0]), retOf(second)
	if r1 == nil || r2 == nil || r1 == r2 || (r1 != a && r1 != b) || (r2 != a && r2 != b) {
		return ""
	}
	be, ok := ast.Unparen(ifs.Cond).(*ast.BinaryExpr)
	if !ok {
		return ""
	}
	xv, _ := ObjOf(pk.TypesInfo, be.X).(*types.Var)
	yv, _ := ObjOf(pk.TypesInfo, be.Y).(*types.Var)
	if xv == nil || yv == nil || xv == yv || (xv != a && xv != b) || (yv != a && yv != b) {
		return ""
	}
	// normalise to "r1 OP r2"
	op := be.Op
	if xv != r1 {
		switch op {
		case token.LSS:
			op = token.GTR
		case token.LEQ:
			op = token.GEQ
		case token.GTR:
			op = token.LSS
		case token.GEQ:
			op = token.LEQ
		}
	}
	switch op {
	case token.LSS, token.LEQ: // if r1 < r2 { return r1 }; return r2
		return "min"
	case token.GTR, token.GEQ:
		return "max"
	}
	return ""
}
