// Package core holds what every rule needs: the loaded, type-checked program
// (syntax, types, SSA, call graph), lookup helpers that fail loudly when an
// anchor cannot be resolved, and the obligation / evidence model.
package core

import (
	"fmt"
	"go/ast"
	"go/token"
	"go/types"
	"os"
	"path/filepath"
	"sort"
	"strings"
	"sync"

	"golang.org/x/tools/go/callgraph"
	"golang.org/x/tools/go/callgraph/cha"
	"golang.org/x/tools/go/callgraph/vta"
	"golang.org/x/tools/go/packages"
	"golang.org/x/tools/go/ssa"
	"golang.org/x/tools/go/ssa/ssautil"
)

// Module path of the code under analysis.
const Mod = "github.com/dlclark/regexp2/v2"

const (
	PkgRoot    = Mod
	PkgSyntax  = Mod + "/syntax"
	PkgHelpers = Mod + "/helpers"
	PkgCompat  = Mod + "/compat"
)

// Config describes one build configuration to analyse.
type Config struct {
	Name    string
	Dir     string
	Tags    string
	GOARCH  string
	GOOS    string
	Tests   bool
	Overlay map[string][]byte
}

// Program is a loaded build configuration.
type Program struct {
	Cfg   Config
	Fset  *token.FileSet
	Pkgs  map[string]*packages.Package // by import path (non-test variants)
	All   []*packages.Package          // as returned by the loader (roots)
	nFunc int

	ssaOnce sync.Once
	SSAProg *ssa.Program
	ssaPkgs map[string]*ssa.Package

	cgOnce sync.Once
	cg     *callgraph.Graph

	declOnce sync.Once
	decls    map[*types.Func]*ast.FuncDecl
	declPkg  map[*types.Func]*packages.Package

	renOnce sync.Once
	ren     *renameTable
}

// Load loads ./... of cfg.Dir.  Any loader or type error is fatal for the
// caller (returned), never ignored.
func Load(cfg Config) (*Program, error) {
	if cfg.Dir == "" {
		cfg.Dir = "/repo"
	}
	env := os.Environ()
	// go/packages shells out to the first `go` on PATH; /repo needs go >= 1.25 and
	// GOTOOLCHAIN=local forbids switching, so put the pre-installed 1.26.8 first.
	if _, err := os.Stat("/opt/veriftools/go1.26.8/bin/go"); err == nil {
		if !strings.HasPrefix(os.Getenv("PATH"), "/opt/veriftools/go1.26.8/bin:") {
			// exec.LookPath uses this process's PATH, not cmd.Env
			os.Setenv("PATH", "/opt/veriftools/go1.26.8/bin:"+os.Getenv("PATH"))
		}
		env = os.Environ()
	}
	env = append(env, "GOFLAGS=-mod=mod", "GOPROXY=off", "GOSUMDB=off", "GOTOOLCHAIN=local", "GOWORK=off")
	if cfg.GOARCH != "" {
		env = append(env, "GOARCH="+cfg.GOARCH)
	}
	if cfg.GOOS != "" {
		env = append(env, "GOOS="+cfg.GOOS, "CGO_ENABLED=0")
	}
	pc := &packages.Config{
		Mode:    packages.LoadAllSyntax,
		Dir:     cfg.Dir,
		Tests:   cfg.Tests,
		Env:     env,
		Overlay: cfg.Overlay,
	}
	if cfg.Tags != "" {
		pc.BuildFlags = []string{"-tags=" + cfg.Tags}
	}
	pkgs, err := packages.Load(pc, "./...")
	if err != nil {
		return nil, fmt.Errorf("packages.Load: %w", err)
	}
	if len(pkgs) == 0 {
		return nil, fmt.Errorf("no packages loaded from %s", cfg.Dir)
	}
	var errs []string
	packages.Visit(pkgs, nil, func(p *packages.Package) {
		if !strings.HasPrefix(p.PkgPath, Mod) {
			return
		}
		for _, e := range p.Errors {
			errs = append(errs, e.Error())
		}
	})
	if len(errs) > 0 {
		sort.Strings(errs)
		return nil, fmt.Errorf("%d load/type errors, first: %s", len(errs), errs[0])
	}
	p := &Program{Cfg: cfg, Pkgs: map[string]*packages.Package{}, All: pkgs}
	for _, pk := range pkgs {
		p.Fset = pk.Fset
		// prefer the non-test variant under its plain path; with Tests the
		// loader also returns "p [p.test]" variants whose ID differs.
		if pk.ID == pk.PkgPath {
			p.Pkgs[pk.PkgPath] = pk
		}
	}
	if cfg.Tests {
		// With tests, the augmented variant ("p [p.test]") is the one that
		// contains both the package and its in-package tests; use it where
		// there is one so test-only callers are visible.
		for _, pk := range pkgs {
			if strings.HasSuffix(pk.ID, ".test]") && !strings.HasSuffix(pk.PkgPath, "_test") && !strings.HasSuffix(pk.PkgPath, ".test") {
				p.Pkgs[pk.PkgPath] = pk
			}
		}
	}
	for _, want := range []string{PkgRoot, PkgSyntax, PkgHelpers, PkgCompat} {
		if p.Pkgs[want] == nil {
			return nil, fmt.Errorf("package %s not loaded", want)
		}
	}
	p.renames() // resolve renamed anchors against the embedded baseline before any rule prints a name
	return p, nil
}

// Pkg returns a module package by its short name: "", "syntax", "helpers", "compat".
func (p *Program) Pkg(short string) *packages.Package {
	path := Mod
	if short != "" && short != "regexp2" {
		path = Mod + "/" + short
	}
	return p.Pkgs[path]
}

// ModulePkgs returns the four packages in a fixed order.
func (p *Program) ModulePkgs() []*packages.Package {
	return []*packages.Package{p.Pkgs[PkgRoot], p.Pkgs[PkgSyntax], p.Pkgs[PkgHelpers], p.Pkgs[PkgCompat]}
}

// IsTestFile reports whether the position is in a _test.go file.
func (p *Program) IsTestFile(pos token.Pos) bool {
	return strings.HasSuffix(p.Fset.Position(pos).Filename, "_test.go")
}

// Pos renders a position relative to the repo directory.
func (p *Program) Pos(pos token.Pos) string {
	if !pos.IsValid() {
		return "-"
	}
	ps := p.Fset.Position(pos)
	rel, err := filepath.Rel(p.Cfg.Dir, ps.Filename)
	if err != nil {
		rel = ps.Filename
	}
	return fmt.Sprintf("%s:%d", rel, ps.Line)
}

func (p *Program) buildDecls() {
	p.declOnce.Do(func() {
		p.decls = map[*types.Func]*ast.FuncDecl{}
		p.declPkg = map[*types.Func]*packages.Package{}
		for _, pk := range p.ModulePkgs() {
			for _, f := range pk.Syntax {
				if p.IsTestFile(f.Pos()) {
					continue
				}
				for _, d := range f.Decls {
					fd, ok := d.(*ast.FuncDecl)
					if !ok {
						continue
					}
					if fn, ok := pk.TypesInfo.Defs[fd.Name].(*types.Func); ok {
						p.decls[fn] = fd
						p.declPkg[fn] = pk
					}
				}
			}
		}
	})
}

// FuncDecls returns all non-test function declarations with bodies in pk, sorted by position.
func (p *Program) FuncDecls(pk *packages.Package) []*ast.FuncDecl {
	var out []*ast.FuncDecl
	for _, f := range pk.Syntax {
		if p.IsTestFile(f.Pos()) {
			continue
		}
		for _, d := range f.Decls {
			if fd, ok := d.(*ast.FuncDecl); ok && fd.Body != nil {
				out = append(out, fd)
			}
		}
	}
	sort.Slice(out, func(i, j int) bool { return out[i].Pos() < out[j].Pos() })
	return out
}

// DeclOf returns the declaration of a function object of the module (nil if none).
func (p *Program) DeclOf(fn *types.Func) (*ast.FuncDecl, *packages.Package) {
	p.buildDecls()
	if fn == nil {
		return nil, nil
	}
	fn = fn.Origin()
	return p.decls[fn], p.declPkg[fn]
}

// FuncName renders pkg.(*T).m / pkg.f with the short package name.
func FuncName(fn *types.Func) string {
	if fn == nil {
		return "<nil>"
	}
	pkg := ""
	if fn.Pkg() != nil {
		pkg = fn.Pkg().Name()
	}
	sig, _ := fn.Type().(*types.Signature)
	if sig != nil && sig.Recv() != nil {
		t := sig.Recv().Type()
		ptr := ""
		if pt, ok := t.(*types.Pointer); ok {
			t = pt.Elem()
			ptr = "*"
		}
		name := t.String()
		if n, ok := t.(*types.Named); ok {
			name = n.Obj().Name()
		}
		return fmt.Sprintf("%s.(%s%s).%s", pkg, ptr, name, BaseName(fn))
	}
	return pkg + "." + BaseName(fn)
}

// LookupFunc resolves "name" (package function) or "T.name" (method on T or *T)
// in the package with the given short name.  Returns nil when it does not exist.
func (p *Program) LookupFunc(short, name string) *types.Func {
	pk := p.Pkg(short)
	if pk == nil {
		return nil
	}
	if i := strings.IndexByte(name, '.'); i >= 0 {
		tn, _ := pk.Types.Scope().Lookup(name[:i]).(*types.TypeName)
		if tn == nil {
			return nil
		}
		obj, _, _ := types.LookupFieldOrMethod(types.NewPointer(tn.Type()), true, pk.Types, name[i+1:])
		fn, _ := obj.(*types.Func)
		if fn == nil {
			fn = p.renames().funcs[pk.Types.Name()+"|"+name[:i]+"|"+name[i+1:]]
		}
		return fn
	}
	fn, _ := pk.Types.Scope().Lookup(name).(*types.Func)
	if fn == nil {
		fn = p.renames().funcs[pk.Types.Name()+"||"+name]
	}
	return fn
}

// LookupField resolves field "T.f" in package short.
func (p *Program) LookupField(short, tname, field string) *types.Var {
	pk := p.Pkg(short)
	if pk == nil {
		return nil
	}
	tn, _ := pk.Types.Scope().Lookup(tname).(*types.TypeName)
	if tn == nil {
		return nil
	}
	st, _ := tn.Type().Underlying().(*types.Struct)
	if st == nil {
		return nil
	}
	for i := 0; i < st.NumFields(); i++ {
		if st.Field(i).Name() == field {
			return st.Field(i)
		}
	}
	return p.renames().fields[pk.Types.Name()+"|"+tname+"|"+field]
}

// LookupObj resolves a package-level object.
func (p *Program) LookupObj(short, name string) types.Object {
	pk := p.Pkg(short)
	if pk == nil {
		return nil
	}
	if obj := pk.Types.Scope().Lookup(name); obj != nil {
		return obj
	}
	if obj, ok := p.renames().objs[pk.Types.Name()+"|"+name]; ok {
		return obj
	}
	return nil
}

// ---------------------------------------------------------------- SSA / call graph

// SSA builds (once) the SSA form of the whole program.
func (p *Program) SSA() *ssa.Program {
	p.ssaOnce.Do(func() {
		roots := p.All
		prog, _ := ssautil.AllPackages(roots, ssa.InstantiateGenerics)
		prog.Build()
		p.SSAProg = prog
		p.ssaPkgs = map[string]*ssa.Package{}
		for path, pk := range p.Pkgs {
			p.ssaPkgs[path] = prog.Package(pk.Types)
		}
	})
	return p.SSAProg
}

// SSAPkg returns the ssa.Package for a short name.
func (p *Program) SSAPkg(short string) *ssa.Package {
	p.SSA()
	path := Mod
	if short != "" && short != "regexp2" {
		path = Mod + "/" + short
	}
	return p.ssaPkgs[path]
}

// SSAFunc returns the SSA function for a types.Func of the module.
func (p *Program) SSAFunc(fn *types.Func) *ssa.Function {
	if fn == nil {
		return nil
	}
	return p.SSA().FuncValue(fn)
}

// CallGraph builds (once) the VTA call graph seeded with CHA.
func (p *Program) CallGraph() *callgraph.Graph {
	p.cgOnce.Do(func() {
		prog := p.SSA()
		p.cg = vta.CallGraph(ssautil.AllFunctions(prog), cha.CallGraph(prog))
	})
	return p.cg
}

// InModule reports whether an SSA function belongs to the analysed module
// (including anonymous functions nested in module functions).
func InModule(fn *ssa.Function) bool {
	for fn != nil && fn.Parent() != nil {
		fn = fn.Parent()
	}
	if fn == nil {
		return false
	}
	if fn.Pkg != nil {
		return strings.HasPrefix(fn.Pkg.Pkg.Path(), Mod)
	}
	if o := fn.Object(); o != nil && o.Pkg() != nil {
		return strings.HasPrefix(o.Pkg().Path(), Mod)
	}
	if fn.Origin() != nil {
		return InModule(fn.Origin())
	}
	return false
}

// Reachable returns the module functions reachable from roots in the call graph
// (edges into non-module functions are followed only to find callbacks back
// into the module via the call graph's own edges).
func (p *Program) Reachable(roots []*ssa.Function) map[*ssa.Function]bool {
	cg := p.CallGraph()
	seen := map[*ssa.Function]bool{}
	var stack []*ssa.Function
	for _, r := range roots {
		if r != nil && !seen[r] {
			seen[r] = true
			stack = append(stack, r)
		}
	}
	for len(stack) > 0 {
		f := stack[len(stack)-1]
		stack = stack[:len(stack)-1]
		n := cg.Nodes[f]
		if n == nil {
			continue
		}
		for _, e := range n.Out {
			c := e.Callee.Func
			if c == nil || seen[c] {
				continue
			}
			if !InModule(c) {
				continue
			}
			seen[c] = true
			stack = append(stack, c)
		}
		// anonymous functions defined inside f are treated as reachable
		for _, af := range f.AnonFuncs {
			if !seen[af] {
				seen[af] = true
				stack = append(stack, af)
			}
		}
	}
	return seen
}

// NumFuncs counts non-test function declarations in the module.
func (p *Program) NumFuncs() int {
	if p.nFunc == 0 {
		for _, pk := range p.ModulePkgs() {
			p.nFunc += len(p.FuncDecls(pk))
		}
	}
	return p.nFunc
}
