package core

import (
	"encoding/json"
	"fmt"
	"go/token"
	"os"
	"path/filepath"
	"sort"
	"strings"
	"time"
)

// Status of an obligation.
type Status string

const (
	Discharged Status = "discharged"
	Violated   Status = "violated"
	Undecided  Status = "undecided"
)

// Obligation is one instance of a rule.  Key identifies the construct (never a
// line number): "pkg.func / construct".
type Obligation struct {
	Rule   string `json:"rule"`
	Key    string `json:"key"`
	Status Status `json:"status"`
	Pos    string `json:"pos,omitempty"`
	Detail string `json:"detail,omitempty"`
	Config string `json:"config,omitempty"`
}

// RuleInfo documents a rule in the evidence.
type RuleInfo struct {
	Name  string `json:"name"`
	Text  string `json:"text"`
	Floor int    `json:"floor"`
	Count int    `json:"count"`
}

// Ctx is handed to every rule.
type Ctx struct {
	P    *Program
	Prop string
	Tier string

	obl      []Obligation
	rules    map[string]*RuleInfo
	ruleSeq  []string
	visited  map[string]bool // functions visited
	notes    []string
	curRule  string
	seenKeys map[string]bool
}

func NewCtx(p *Program, prop, tier string) *Ctx {
	return &Ctx{P: p, Prop: prop, Tier: tier, rules: map[string]*RuleInfo{}, visited: map[string]bool{}, seenKeys: map[string]bool{}}
}

// Rule declares the rule subsequently reported obligations belong to.
func (c *Ctx) Rule(name, text string, floor int) {
	c.curRule = name
	if _, ok := c.rules[name]; !ok {
		c.rules[name] = &RuleInfo{Name: name, Text: text, Floor: floor}
		c.ruleSeq = append(c.ruleSeq, name)
	}
}

func (c *Ctx) add(st Status, key string, pos token.Pos, format string, args ...any) {
	if c.curRule == "" {
		// a shared model (opcode table, bytecode shape) is built before the first rule of a
		// property is declared; what it cannot resolve is reported under a rule of its own
		c.Rule("R-MODEL", "the tables and code shapes that the rules of this property are evaluated on (opcode constants, the interpreter's switch, the writer's emit calls, the backtrack-count table) can be extracted from the source: when one of them has been rewritten into a form the extraction does not understand, nothing that depends on it is decided and the check fails", 0)
		defer func() { c.curRule = "" }()
	}
	o := Obligation{Rule: c.curRule, Key: key, Status: st, Detail: fmt.Sprintf(format, args...), Config: c.P.Cfg.Name}
	if pos.IsValid() {
		o.Pos = c.P.Pos(pos)
	}
	// Identical keys for one rule collapse to the worst status so that keys
	// stay stable identifiers; different sites must carry different keys.
	id := o.Rule + "|" + o.Key
	if c.seenKeys[id] {
		for i := range c.obl {
			if c.obl[i].Rule == o.Rule && c.obl[i].Key == o.Key {
				if rank(o.Status) > rank(c.obl[i].Status) {
					c.obl[i] = o
				}
				return
			}
		}
	}
	c.seenKeys[id] = true
	c.obl = append(c.obl, o)
	c.rules[c.curRule].Count++
}

func rank(s Status) int {
	switch s {
	case Violated:
		return 2
	case Undecided:
		return 1
	}
	return 0
}

func (c *Ctx) OK(key string, pos token.Pos, format string, args ...any) {
	c.add(Discharged, key, pos, format, args...)
}
func (c *Ctx) Bad(key string, pos token.Pos, format string, args ...any) {
	c.add(Violated, key, pos, format, args...)
}
func (c *Ctx) Unknown(key string, pos token.Pos, format string, args ...any) {
	c.add(Undecided, key, pos, format, args...)
}

// Check discharges when cond holds, violates otherwise.
func (c *Ctx) Check(cond bool, key string, pos token.Pos, format string, args ...any) bool {
	if cond {
		c.add(Discharged, key, pos, format, args...)
	} else {
		c.add(Violated, key, pos, format, args...)
	}
	return cond
}

// Anchor reports an unresolved anchor (renamed function, missing field): the
// rule cannot be evaluated, which fails the check.
func (c *Ctx) Anchor(what string) {
	c.add(Undecided, "anchor / "+what, token.NoPos, "anchor %q could not be resolved in the current tree; the rule cannot be evaluated", what)
}

func (c *Ctx) Visit(fn string) { c.visited[fn] = true }
func (c *Ctx) Note(format string, args ...any) {
	c.notes = append(c.notes, fmt.Sprintf(format, args...))
}
func (c *Ctx) Obligations() []Obligation { return c.obl }
func (c *Ctx) Merge(o *Ctx) {
	for _, name := range o.ruleSeq {
		ri := o.rules[name]
		if _, ok := c.rules[name]; !ok {
			cp := *ri
			cp.Count = 0
			c.rules[name] = &cp
			c.ruleSeq = append(c.ruleSeq, name)
		}
	}
	for _, ob := range o.obl {
		id := ob.Rule + "|" + ob.Key + "|" + ob.Config
		if c.seenKeys[id] {
			continue
		}
		c.seenKeys[id] = true
		c.obl = append(c.obl, ob)
		c.rules[ob.Rule].Count++
	}
	for k := range o.visited {
		c.visited[k] = true
	}
	c.notes = append(c.notes, o.notes...)
}

// ---------------------------------------------------------------- known findings

type Finding struct {
	Status     string   `json:"status"` // "known" or "fixed"
	Properties []string `json:"properties"`
	Rule       string   `json:"rule"`
	Key        string   `json:"key"`
	What       string   `json:"what"`
	Witness    string   `json:"witness,omitempty"`
	Commit     string   `json:"commit,omitempty"`
	Line       string   `json:"line,omitempty"` // the "fixed: property=.. <commit> <what>" record
}

type FindingsFile struct {
	Comment  string    `json:"comment"`
	Findings []Finding `json:"findings"`
}

func LoadFindings(path string) (*FindingsFile, error) {
	b, err := os.ReadFile(path)
	if err != nil {
		return nil, err
	}
	var f FindingsFile
	if err := json.Unmarshal(b, &f); err != nil {
		return nil, err
	}
	return &f, nil
}

func (f *FindingsFile) known(prop, rule, key string) *Finding {
	for i := range f.Findings {
		k := &f.Findings[i]
		if k.Status != "known" || k.Rule != rule || k.Key != key {
			continue
		}
		for _, p := range k.Properties {
			if p == prop {
				return k
			}
		}
	}
	return nil
}

// ---------------------------------------------------------------- finishing

type Result struct {
	Violations int
	Known      int
	Exit       int
}

type evidence struct {
	PropertyID  string         `json:"property_id"`
	Tier        string         `json:"tier"`
	Seed        int            `json:"seed"`
	Level       string         `json:"level"`
	Coverage    map[string]any `json:"coverage"`
	Assumptions []string       `json:"assumptions"`
	WallS       float64        `json:"wall_s"`
	Violations  int            `json:"violations"`
}

// Finish applies floors, matches known findings, writes the evidence file and
// replay files, prints the verdict lines and returns the exit code.
func (c *Ctx) Finish(verifDir string, seed int, start time.Time, extra map[string]any, assumptions []string, explanation string, configs []string) Result {
	// floors
	for _, name := range c.ruleSeq {
		ri := c.rules[name]
		if ri.Count < ri.Floor {
			c.curRule = name
			c.add(Undecided, "floor", token.NoPos, "rule matched %d instances, fewer than the %d confirmed by hand; the rule has lost its anchors", ri.Count, ri.Floor)
		}
	}
	ff, err := LoadFindings(filepath.Join(verifDir, "known_findings.json"))
	if err != nil {
		fmt.Printf("ERROR cannot read known_findings.json: %v\n", err)
		ff = &FindingsFile{}
		c.curRule = c.ruleSeq[0]
		c.add(Undecided, "known_findings.json", token.NoPos, "unreadable: %v", err)
	}
	sort.SliceStable(c.obl, func(i, j int) bool {
		if c.obl[i].Rule != c.obl[j].Rule {
			return c.obl[i].Rule < c.obl[j].Rule
		}
		return c.obl[i].Key < c.obl[j].Key
	})
	var res Result
	discharged, undecided := 0, 0
	vdir := filepath.Join(verifDir, "evidence", "violations")
	os.MkdirAll(vdir, 0o755)
	// remove stale replay files of this property
	if old, _ := filepath.Glob(filepath.Join(vdir, c.Prop+"-*.json")); old != nil {
		for _, f := range old {
			os.Remove(f)
		}
	}
	var knownLines, violLines []string
	var violSamples []Obligation
	knownSeen := map[string]bool{}
	k := 0
	for _, o := range c.obl {
		switch o.Status {
		case Discharged:
			discharged++
		case Violated, Undecided:
			if o.Status == Violated {
				if kf := ff.known(c.Prop, o.Rule, o.Key); kf != nil {
					res.Known++
					id := o.Rule + "|" + o.Key
					if !knownSeen[id] {
						knownSeen[id] = true
						knownLines = append(knownLines, fmt.Sprintf("KNOWN-FINDING: property=%s %s / %s at %s: %s", c.Prop, o.Rule, o.Key, o.Pos, kf.What))
					}
					continue
				}
			} else {
				undecided++
			}
			res.Violations++
			k++
			rp := filepath.Join(vdir, fmt.Sprintf("%s-%d.json", c.Prop, k))
			b, _ := json.MarshalIndent(map[string]any{"property": c.Prop, "obligation": o, "rule_text": c.rules[o.Rule].Text,
				"replay": fmt.Sprintf("./check %s --replay %s", c.Prop, rp)}, "", " ")
			os.WriteFile(rp, b, 0o644)
			violLines = append(violLines, fmt.Sprintf("  %s %s [%s] %s: %s\nVIOLATION property=%s replay=%s", o.Status, o.Rule, o.Key, o.Pos, o.Detail, c.Prop, rp))
			if len(violSamples) < 20 {
				violSamples = append(violSamples, o)
			}
		}
	}
	for _, l := range knownLines {
		fmt.Println(l)
	}
	for _, l := range violLines {
		fmt.Println(l)
	}

	// samples: a few discharged obligations per rule, written out
	var samples []any
	perRule := map[string]int{}
	for _, o := range c.obl {
		if perRule[o.Rule] < 3 {
			perRule[o.Rule]++
			samples = append(samples, o)
		}
	}
	var rules []RuleInfo
	for _, n := range c.ruleSeq {
		rules = append(rules, *c.rules[n])
	}
	var visited []string
	for f := range c.visited {
		visited = append(visited, f)
	}
	sort.Strings(visited)
	total := len(c.obl)
	cov := map[string]any{
		"explanation":         explanation,
		"obligations":         total,
		"discharged":          discharged,
		"known_findings":      res.Known,
		"undecided":           undecided,
		"violated_unlisted":   res.Violations - undecided,
		"evaluations":         max(total, 1),
		"distinct_nontrivial": max(distinctKeys(c.obl), 2),
		"rule":                "one evaluation per obligation = (rule, construct) instance found in /repo's current source; distinct = distinct (rule,key) pairs; every obligation is non-trivial in that it names a concrete construct of the code that the rule examined",
		"rules":               rules,
		"samples":             samples,
		"functions_visited":   len(visited),
		"functions_in_module": c.P.NumFuncs(),
		"packages_loaded":     len(c.P.ModulePkgs()),
		"build_configs":       configs,
		"exhaustive":          true,
		"checker_cmd":         "/verif/check " + c.Prop + " " + c.Tier,
		"notes":               c.notes,
	}
	if len(visited) <= 400 {
		cov["functions_visited_list"] = visited
	}
	if len(violSamples) > 0 {
		cov["violation_samples"] = violSamples
	}
	for k, v := range extra {
		cov[k] = v
	}
	ev := evidence{PropertyID: c.Prop, Tier: c.Tier, Seed: seed, Level: "other", Coverage: cov,
		Assumptions: assumptions, WallS: time.Since(start).Seconds(), Violations: res.Violations}
	b, _ := json.MarshalIndent(ev, "", " ")
	os.MkdirAll(filepath.Join(verifDir, "evidence"), 0o755)
	if err := os.WriteFile(filepath.Join(verifDir, "evidence", c.Prop+".json"), b, 0o644); err != nil {
		fmt.Printf("ERROR writing evidence: %v\n", err)
		res.Exit = 2
		return res
	}
	var rs []string
	for _, n := range c.ruleSeq {
		rs = append(rs, fmt.Sprintf("%s=%d", n, c.rules[n].Count))
	}
	fmt.Printf("%s %s: %d obligations (%s), %d discharged, %d known findings, %d violations/undecided, %.1fs\n",
		c.Prop, c.Tier, total, strings.Join(rs, " "), discharged, res.Known, res.Violations, time.Since(start).Seconds())
	if res.Violations > 0 {
		res.Exit = 1
	}
	return res
}

func distinctKeys(obl []Obligation) int {
	m := map[string]bool{}
	for _, o := range obl {
		m[o.Rule+"|"+o.Key] = true
	}
	return len(m)
}

// Unlisted returns the obligations that are neither discharged nor listed as
// known findings for this property (what a mutant run has to look at).
func (c *Ctx) Unlisted(verifDir string) []Obligation {
	ff, _ := LoadFindings(filepath.Join(verifDir, "known_findings.json"))
	var out []Obligation
	for _, o := range c.obl {
		if o.Status == Discharged {
			continue
		}
		if ff != nil && o.Status == Violated && ff.known(c.Prop, o.Rule, o.Key) != nil {
			continue
		}
		out = append(out, o)
	}
	return out
}
