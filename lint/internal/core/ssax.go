package core

import (
	"go/token"
	"go/types"
	"sort"
	"strings"

	"golang.org/x/tools/go/ssa"
	"golang.org/x/tools/go/ssa/ssautil"
)

// ModuleFuncs returns all SSA functions (including anonymous ones) defined in
// non-test files of the module, sorted by position.
func (p *Program) ModuleFuncs() []*ssa.Function {
	prog := p.SSA()
	var out []*ssa.Function
	for fn := range ssautil.AllFunctions(prog) {
		if !InModule(fn) || fn.Blocks == nil {
			continue
		}
		if fn.Synthetic != "" && fn.Parent() == nil && fn.Origin() == nil {
			continue
		}
		pos := fn.Pos()
		if !pos.IsValid() && fn.Syntax() != nil {
			pos = fn.Syntax().Pos()
		}
		if pos.IsValid() && p.IsTestFile(pos) {
			continue
		}
		out = append(out, fn)
	}
	sort.Slice(out, func(i, j int) bool {
		if out[i].Pos() != out[j].Pos() {
			return out[i].Pos() < out[j].Pos()
		}
		return out[i].String() < out[j].String()
	})
	return out
}

// FnPkgPath returns the package path of the outermost enclosing function.
func FnPkgPath(fn *ssa.Function) string {
	for fn.Parent() != nil {
		fn = fn.Parent()
	}
	if fn.Pkg != nil {
		return fn.Pkg.Pkg.Path()
	}
	if o := fn.Object(); o != nil && o.Pkg() != nil {
		return o.Pkg().Path()
	}
	if fn.Origin() != nil {
		return FnPkgPath(fn.Origin())
	}
	return ""
}

// SSAName renders an SSA function like FuncName does for types.Func.
func SSAName(fn *ssa.Function) string {
	if fn == nil {
		return "<nil>"
	}
	if fn.Parent() != nil {
		return SSAName(fn.Parent()) + "$" + strings.TrimPrefix(fn.Name(), fn.Parent().Name()+"$")
	}
	if o, ok := fn.Object().(*types.Func); ok && o != nil {
		return FuncName(o)
	}
	if fn.Origin() != nil {
		return SSAName(fn.Origin())
	}
	return fn.String()
}

// IsNilConst reports whether v is the nil constant.
func IsNilConst(v ssa.Value) bool {
	c, ok := v.(*ssa.Const)
	return ok && c.IsNil()
}

// NonNilAt reports whether SSA value v is known non-nil at instruction instr
// because a dominating branch compared exactly this value with nil.
func NonNilAt(v ssa.Value, instr ssa.Instruction) bool {
	b := instr.Block()
	return nonNilInBlock(v, b, map[*ssa.BasicBlock]bool{})
}

func nonNilInBlock(v ssa.Value, b *ssa.BasicBlock, seen map[*ssa.BasicBlock]bool) bool {
	for d := b; d != nil; {
		id := d.Idom()
		if id == nil {
			break
		}
		if ifi, ok := id.Instrs[len(id.Instrs)-1].(*ssa.If); ok {
			if bin, ok := ifi.Cond.(*ssa.BinOp); ok && (bin.Op == token.EQL || bin.Op == token.NEQ) {
				var other ssa.Value
				if bin.X == v {
					other = bin.Y
				} else if bin.Y == v {
					other = bin.X
				}
				if other != nil && IsNilConst(other) {
					tSucc, fSucc := id.Succs[0], id.Succs[1]
					want := tSucc
					if bin.Op == token.EQL {
						want = fSucc
					}
					notWant := fSucc
					if bin.Op == token.EQL {
						notWant = tSucc
					}
					// the edge id->want must be the only way into want (single pred) and want dominates b
					if want != notWant && len(want.Preds) == 1 && want.Dominates(b) {
						return true
					}
				}
			}
		}
		d = id
	}
	return false
}

// BlockDominatedByEdge reports whether every path to b passes through the
// edge from->succ (succ has from as only predecessor and dominates b).
func BlockDominatedByEdge(from, succ, b *ssa.BasicBlock) bool {
	return len(succ.Preds) == 1 && succ.Preds[0] == from && succ.Dominates(b)
}

// Referrers returns the instructions using v (nil-safe).
func Referrers(v ssa.Value) []ssa.Instruction {
	r := v.Referrers()
	if r == nil {
		return nil
	}
	return *r
}

// StaticCalleeOf returns the static callee of a call instruction, if any.
func StaticCalleeOf(ci ssa.CallInstruction) *ssa.Function {
	return ci.Common().StaticCallee()
}
