package core

import (
	"go/token"
	"go/types"
	"sort"
	"strings"

	"golang.org/x/tools/go/ssa"
	"golang.org/x/tools/go/ssa/ssautil"
)

// ModuleFuncs returns all SSA functions (including anonymous ones) defined in
// non-test files of the module, sorted by position.
func (p *Program) ModuleFuncs() []*ssa.Function {
	prog := p.SSA()
	var out []*ssa.Function
	for fn := range ssautil.AllFunctions(prog) {
		if !InModule(fn) || fn.Blocks == nil {
			continue
		}
		if fn.Synthetic != "" && fn.Parent() == nil && fn.Origin() == nil {
			continue
		}
		pos := fn.Pos()
		if !pos.IsValid() && fn.Syntax() != nil {
			pos = fn.Syntax().Pos()
		}
		if pos.IsValid() && p.IsTestFile(pos) {
			continue
		}
		out = append(out, fn)
	}
	sort.Slice(out, func(i, j int) bool {
		if out[i].Pos() != out[j].Pos() {
			return out[i].Pos() < out[j].Pos()
		}
		return out[i].String() < out[j].String()
	})
	return out
}

// FnPkgPath returns the package path of the outermost enclosing function.
func FnPkgPath(fn *ssa.Function) string {
	for fn.Parent() != nil {
		fn = fn.Parent()
	}
	if fn.Pkg != nil {
		return fn.Pkg.Pkg.Path()
	}
	if o := fn.Object(); o != nil && o.Pkg() != nil {
		return o.Pkg().Path()
	}
	if fn.Origin() != nil {
		return FnPkgPath(fn.Origin())
	}
	return ""
}

// SSAName renders an SSA function like FuncName does for types.Func.
func SSAName(fn *ssa.Function) string {
	if fn == nil {
		return "<nil>"
	}
	if fn.Parent() != nil {
		return SSAName(fn.Parent()) + "$" + strings.TrimPrefix(fn.Name(), fn.Parent().Name()+"$")
	}
	if o, ok := fn.Object().(*types.Func); ok && o != nil {
		return FuncName(o)
	}
	if fn.Origin() != nil {
		return SSAName(fn.Origin())
	}
	return fn.String()
}

// IsNilConst reports whether v is the nil constant.
func IsNilConst(v ssa.Value) bool {
	c, ok := v.(*ssa.Const)
	return ok && c.IsNil()
}

// NonNilAt reports whether SSA value v is known non-nil at instruction instr
// because a dominating branch compared exactly this value with nil.
func NonNilAt(v ssa.Value, instr ssa.Instruction) bool {
	b := instr.Block()
	return nonNilInBlock(v, b, map[*ssa.BasicBlock]bool{})
}

func nonNilInBlock(v ssa.Value, b *ssa.BasicBlock, seen map[*ssa.BasicBlock]bool) bool {
	for d := b; d != nil; {
		id := d.Idom()
		if id == nil {
			break
		}
		if ifi, ok := id.Instrs[len(id.Instrs)-1].(*ssa.If); ok {
			if bin, ok := ifi.Cond.(*ssa.BinOp); ok && (bin.Op == token.EQL || bin.Op == token.NEQ) {
				var other ssa.Value
				if bin.X == v {
					other = bin.Y
				} else if bin.Y == v {
					other = bin.X
				}
				if other != nil && IsNilConst(other) {
					tSucc, fSucc := id.Succs[0], id.Succs[1]
					want := tSucc
					if bin.Op == token.EQL {
						want = fSucc
					}
					notWant := fSucc
					if bin.Op == token.EQL {
						notWant = tSucc
					}
					// the edge id->want must be the only way into want (single pred) and want dominates b
					if want != notWant && len(want.Preds) == 1 && want.Dominates(b) {
						return true
					}
				}
			}
		}
		d = id
	}
	return false
}

// BlockDominatedByEdge reports whether every path to b passes through the
// edge from->succ (succ has from as only predecessor and dominates b).
func BlockDominatedByEdge(from, succ, b *ssa.BasicBlock) bool {
	return len(succ.Preds) == 1 && succ.Preds[0] == from && succ.Dominates(b)
}

// Referrers returns the instructions using v (nil-safe).
func Referrers(v ssa.Value) []ssa.Instruction {
	r := v.Referrers()
	if r == nil {
		return nil
	}
	return *r
}

// StaticCalleeOf returns the static callee of a call instruction, if any.
func StaticCalleeOf(ci ssa.CallInstruction) *ssa.Function {
	return ci.Common().StaticCallee()
}

// FieldVarOfAddr returns the struct field a FieldAddr / Field instruction selects.
func FieldVarOfAddr(v ssa.Value) *types.Var {
	switch fa := v.(type) {
	case *ssa.FieldAddr:
		t := fa.X.Type()
		if p, ok := t.Underlying().(*types.Pointer); ok {
			t = p.Elem()
		}
		if st, ok := t.Underlying().(*types.Struct); ok && fa.Field < st.NumFields() {
			return st.Field(fa.Field)
		}
	case *ssa.Field:
		if st, ok := fa.X.Type().Underlying().(*types.Struct); ok && fa.Field < st.NumFields() {
			return st.Field(fa.Field)
		}
	}
	return nil
}

// LoadOfField reports whether v is a load (*addr) of the given field and
// returns the FieldAddr.
func LoadOfField(v ssa.Value, f *types.Var) (*ssa.FieldAddr, bool) {
	u, ok := v.(*ssa.UnOp)
	if !ok || u.Op != token.MUL {
		return nil, false
	}
	fa, ok := u.X.(*ssa.FieldAddr)
	if !ok || FieldVarOfAddr(fa) != f {
		return nil, false
	}
	return fa, true
}

// SSAFact is a branch condition value known on an edge or at a block.
type SSAFact struct {
	Cond ssa.Value
	Val  bool
}

// FactsAtBlock returns branch facts that hold whenever b executes: for every
// strict dominator d ending in an If, if one successor s of d has d as its
// only predecessor and dominates b, the corresponding polarity holds.
func FactsAtBlock(b *ssa.BasicBlock) []SSAFact {
	var out []SSAFact
	for d := b.Idom(); d != nil; d = d.Idom() {
		ifi, ok := d.Instrs[len(d.Instrs)-1].(*ssa.If)
		if !ok {
			continue
		}
		t, f := d.Succs[0], d.Succs[1]
		if t == f {
			continue
		}
		td := onlyEntryFrom(t, d) && t.Dominates(b)
		fd := onlyEntryFrom(f, d) && f.Dominates(b)
		if td && !fd {
			out = append(out, SSAFact{ifi.Cond, true})
		} else if fd && !td {
			out = append(out, SSAFact{ifi.Cond, false})
		}
	}
	return out
}

// onlyEntryFrom: every predecessor of s other than d is dominated by s (a back
// edge of a loop headed by s), so control first enters s through d -> s.
func onlyEntryFrom(s, d *ssa.BasicBlock) bool {
	for _, p := range s.Preds {
		if p != d && !s.Dominates(p) {
			return false
		}
	}
	return true
}

// FactsOnEdge returns the facts holding when control flows pred -> succ.
func FactsOnEdge(pred, succ *ssa.BasicBlock) []SSAFact {
	out := FactsAtBlock(pred)
	if ifi, ok := pred.Instrs[len(pred.Instrs)-1].(*ssa.If); ok && pred.Succs[0] != pred.Succs[1] {
		if pred.Succs[0] == succ {
			out = append(out, SSAFact{ifi.Cond, true})
		} else if pred.Succs[1] == succ {
			out = append(out, SSAFact{ifi.Cond, false})
		}
	}
	return out
}

// CmpNorm normalises a comparison fact to "x OP y holds" with OP in
// {<, <=, ==, !=}.  Returns ok=false when the fact is not a comparison.
func CmpNorm(f SSAFact) (x, y ssa.Value, op token.Token, ok bool) {
	b, isBin := f.Cond.(*ssa.BinOp)
	if !isBin {
		return nil, nil, 0, false
	}
	op = b.Op
	x, y = b.X, b.Y
	if !f.Val {
		switch op {
		case token.LSS:
			op = token.GEQ
		case token.LEQ:
			op = token.GTR
		case token.GTR:
			op = token.LEQ
		case token.GEQ:
			op = token.LSS
		case token.EQL:
			op = token.NEQ
		case token.NEQ:
			op = token.EQL
		default:
			return nil, nil, 0, false
		}
	}
	switch op {
	case token.GTR:
		return y, x, token.LSS, true
	case token.GEQ:
		return y, x, token.LEQ, true
	case token.LSS, token.LEQ, token.EQL, token.NEQ:
		return x, y, op, true
	}
	return nil, nil, 0, false
}

// IntConst returns the integer value of an SSA constant.
func IntConst(v ssa.Value) (int64, bool) {
	c, ok := v.(*ssa.Const)
	if !ok || c.Value == nil {
		return 0, false
	}
	if b, ok := c.Type().Underlying().(*types.Basic); !ok || b.Info()&types.IsInteger == 0 {
		return 0, false
	}
	return c.Int64(), true
}

// SameValue reports structural equality of two pure SSA value trees
// (constants, parameters, loads of the same field address chain, binary and
// unary operators, len/cap).  go/ssa does no CSE, so two occurrences of
// `newLen - oldLen` are different instructions with equal structure.
func SameValue(a, b ssa.Value) bool {
	return sameValue(a, b, 0)
}

func sameValue(a, b ssa.Value, depth int) bool {
	if a == b {
		return true
	}
	if depth > 6 || a == nil || b == nil {
		return false
	}
	switch x := a.(type) {
	case *ssa.Const:
		y, ok := b.(*ssa.Const)
		return ok && x.Value != nil && y.Value != nil && x.Value.ExactString() == y.Value.ExactString()
	case *ssa.BinOp:
		y, ok := b.(*ssa.BinOp)
		return ok && x.Op == y.Op && sameValue(x.X, y.X, depth+1) && sameValue(x.Y, y.Y, depth+1)
	case *ssa.UnOp:
		y, ok := b.(*ssa.UnOp)
		if !ok || x.Op != y.Op {
			return false
		}
		if x.Op == token.MUL {
			// two loads are the same only if no store could intervene; we only
			// accept loads of parameters' pointees / field chains in straight
			// code where the caller has checked that.  Be conservative: same
			// address value required.
			return sameValue(x.X, y.X, depth+1) && x.Block() == y.Block()
		}
		return sameValue(x.X, y.X, depth+1)
	case *ssa.FieldAddr:
		y, ok := b.(*ssa.FieldAddr)
		return ok && x.Field == y.Field && sameValue(x.X, y.X, depth+1)
	case *ssa.Call:
		y, ok := b.(*ssa.Call)
		if !ok {
			return false
		}
		bx, ok1 := x.Call.Value.(*ssa.Builtin)
		by, ok2 := y.Call.Value.(*ssa.Builtin)
		if ok1 && ok2 && bx.Name() == by.Name() && (bx.Name() == "len" || bx.Name() == "cap") && len(x.Call.Args) == 1 && len(y.Call.Args) == 1 {
			return sameValue(x.Call.Args[0], y.Call.Args[0], depth+1)
		}
	}
	return false
}

// ForwardSlice returns all instructions data-dependent on v (through
// operands; phis included), within v's function.
func ForwardSlice(v ssa.Value) map[ssa.Instruction]bool {
	out := map[ssa.Instruction]bool{}
	var work []ssa.Value
	work = append(work, v)
	seen := map[ssa.Value]bool{v: true}
	for len(work) > 0 {
		x := work[len(work)-1]
		work = work[:len(work)-1]
		for _, r := range Referrers(x) {
			if !out[r] {
				out[r] = true
			}
			if rv, ok := r.(ssa.Value); ok && !seen[rv] {
				seen[rv] = true
				work = append(work, rv)
			}
		}
	}
	return out
}
