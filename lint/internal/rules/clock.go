package rules

import (
	"fmt"
	"go/token"
	"go/types"

	"golang.org/x/tools/go/ssa"

	"regexlint/internal/core"
)

// ---------------------------------------------------------------------------
// C14: timeouts — structural skeleton only
// ---------------------------------------------------------------------------

func RClockState(c *core.Ctx) {
	c.Rule("R-CLOCKSTATE", "the clock goroutine is spawned in exactly one place (extendClock), with fast.mu held, only when fast.running is false, after setting it to true; fast.running is cleared only by runClock itself, after its loop, with the mutex held; fast.start is set only when it is zero", 4)
	p := c.P
	runClock := p.SSAFunc(p.LookupFunc("", "runClock"))
	extend := p.SSAFunc(p.LookupFunc("", "extendClock"))
	running := p.LookupField("", "fastclock", "running")
	start := p.LookupField("", "fastclock", "start")
	if runClock == nil || extend == nil || running == nil || start == nil {
		c.Anchor("runClock / extendClock / fastclock.running / fastclock.start")
		return
	}
	nGo := 0
	for _, fn := range p.ModuleFuncs() {
		name := core.SSAName(fn)
		for _, b := range fn.Blocks {
			for idx, ins := range b.Instrs {
				switch x := ins.(type) {
				case *ssa.Go:
					if x.Call.StaticCallee() != runClock {
						continue
					}
					nGo++
					c.Visit(name)
					guard := false
					for _, f := range core.FactsAtBlock(b) {
						cond, val := f.Cond, f.Val
						if u, ok := cond.(*ssa.UnOp); ok && u.Op == token.NOT {
							cond, val = u.X, !val
						}
						if _, ok := core.LoadOfField(cond, running); ok && !val {
							guard = true
						}
					}
					setBefore := false
					for k := 0; k < idx; k++ {
						if st, ok := b.Instrs[k].(*ssa.Store); ok && core.FieldVarOfAddr(st.Addr) == running {
							if cst, ok := st.Val.(*ssa.Const); ok && cst.Value != nil && cst.Value.String() == "true" {
								setBefore = true
							}
						}
					}
					c.Check(fn == extend && guard && setBefore, name+" / spawns the clock goroutine", x.Pos(), "in extendClock: %v; under !fast.running: %v; running=true set first: %v (lock held: checked by R-LOCK on the running field)", fn == extend, guard, setBefore)
				case *ssa.Store:
					f := core.FieldVarOfAddr(x.Addr)
					if f == running {
						if cst, ok := x.Val.(*ssa.Const); ok && cst.Value != nil && cst.Value.String() == "false" {
							// after the loop: the block is not in a loop
							c.Check(fn == runClock && !inLoop(b), name+" / clears fast.running", x.Pos(), "only runClock may declare itself stopped, once its loop has ended")
						}
					}
					if f == start {
						zero := false
						for _, fct := range core.FactsAtBlock(b) {
							if call, ok := fct.Cond.(*ssa.Call); ok && call.Call.StaticCallee() != nil && core.BaseName(call.Call.StaticCallee()) == "IsZero" && fct.Val {
								zero = true
							}
						}
						c.Check(zero, name+" / sets fast.start only when it is zero", x.Pos(), "the tick origin must not move while deadlines expressed in ticks exist")
					}
				}
			}
		}
	}
	c.Check(nGo == 1, "exactly one place starts the clock goroutine", token.NoPos, "found %d `go runClock()` statements", nGo)
}

func RRestart(c *core.Ctx) {
	c.Rule("R-RESTART", "in makeDeadline every path on which the new deadline lies beyond the clock's end (`end > fast.clockEnd.read()`) calls extendClock before returning: the clock is restarted / extended on demand", 1)
	p := c.P
	md := p.SSAFunc(p.LookupFunc("", "makeDeadline"))
	extend := p.SSAFunc(p.LookupFunc("", "extendClock"))
	read := p.SSAFunc(p.LookupFunc("", "atomicTime.read"))
	clockEnd := p.LookupField("", "fastclock", "clockEnd")
	if md == nil || extend == nil || read == nil || clockEnd == nil {
		c.Anchor("makeDeadline / extendClock / atomicTime.read / fastclock.clockEnd")
		return
	}
	c.Visit(core.SSAName(md))
	var branch *ssa.If
	beyondOnTrue := true
	for _, b := range md.Blocks {
		if ifi, ok := b.Instrs[len(b.Instrs)-1].(*ssa.If); ok {
			if bin, ok := ifi.Cond.(*ssa.BinOp); ok && (bin.Op == token.GTR || bin.Op == token.LSS || bin.Op == token.GEQ || bin.Op == token.LEQ) {
				for k, side := range []ssa.Value{bin.X, bin.Y} {
					if call, ok := side.(*ssa.Call); ok && call.Call.StaticCallee() == read {
						if fa, ok := call.Call.Args[0].(*ssa.FieldAddr); ok && core.FieldVarOfAddr(fa) == clockEnd {
							branch = ifi
							// which successor is "the deadline lies beyond the clock's end"?
							// clockEnd OP end (k == 0): < / <= true side;  end OP clockEnd (k == 1): > / >= true side
							beyondOnTrue = (k == 0) == (bin.Op == token.LSS || bin.Op == token.LEQ)
						}
					}
				}
			}
		}
	}
	if branch == nil {
		c.Bad("makeDeadline / compares the deadline with the clock's end", md.Pos(), "no `end > fast.clockEnd.read()` branch found")
		return
	}
	// from the true successor, every path to a return passes a call to extendClock
	startB := branch.Block().Succs[0]
	if !beyondOnTrue {
		startB = branch.Block().Succs[1]
	}
	seen := map[*ssa.BasicBlock]bool{}
	stack := []*ssa.BasicBlock{startB}
	leak := false
	for len(stack) > 0 {
		b := stack[len(stack)-1]
		stack = stack[:len(stack)-1]
		if seen[b] {
			continue
		}
		seen[b] = true
		calls := false
		for _, ins := range b.Instrs {
			if call, ok := ins.(*ssa.Call); ok && call.Call.StaticCallee() == extend {
				calls = true
			}
		}
		if calls {
			continue
		}
		if _, ok := b.Instrs[len(b.Instrs)-1].(*ssa.Return); ok {
			leak = true
			break
		}
		stack = append(stack, b.Succs...)
	}
	c.Check(!leak, "makeDeadline / a deadline beyond the clock's end always extends the clock", branch.Pos(), "a path from `end > clockEnd` returns without calling extendClock: the deadline would never be reached")
}

func RPoll(c *core.Ctx) {
	c.Rule("R-POLL", "scan starts the timeout watch once before its attempt loop and polls CheckTimeout between finding a candidate and executing it; executeDefault polls CheckTimeout on every iteration of its dispatch loop (under !ignoreTimeout)", 3)
	p := c.P
	scan := p.SSAFunc(p.LookupFunc("", "Runner.scan"))
	exec := p.SSAFunc(p.LookupFunc("", "executeDefault"))
	check := p.SSAFunc(p.LookupFunc("", "Runner.CheckTimeout"))
	startW := p.SSAFunc(p.LookupFunc("", "Runner.startTimeoutWatch"))
	ignore := p.LookupField("", "Runner", "ignoreTimeout")
	opField := p.LookupField("", "Runner", "operator")
	if scan == nil || exec == nil || check == nil || startW == nil || ignore == nil || opField == nil {
		c.Anchor("scan / executeDefault / CheckTimeout / startTimeoutWatch / ignoreTimeout / operator")
		return
	}
	c.Visit(core.SSAName(scan))
	c.Visit(core.SSAName(exec))
	// startTimeoutWatch: exactly one call in scan, not in a loop, dominating the loop
	nStart := 0
	okStart := false
	for _, b := range scan.Blocks {
		for _, ins := range b.Instrs {
			if call, ok := ins.(*ssa.Call); ok && call.Call.StaticCallee() == startW {
				nStart++
				okStart = !inLoop(b)
			}
		}
	}
	c.Check(nStart == 1 && okStart, "scan / starts the timeout watch once, before the attempt loop", scan.Pos(), "%d call(s); outside the loop: %v", nStart, okStart)
	// scan: the dynamic execute call is preceded (dominated) by a block that polls under !ignoreTimeout
	var pollDominates func(fn *ssa.Function, target *ssa.BasicBlock) bool
	pollDominates = func(fn *ssa.Function, target *ssa.BasicBlock) bool {
		// exists If on load(ignoreTimeout) whose "false" side contains a CheckTimeout call, and whose block dominates target
		for _, b := range fn.Blocks {
			ifi, ok := b.Instrs[len(b.Instrs)-1].(*ssa.If)
			if !ok || !b.Dominates(target) {
				continue
			}
			cond := ifi.Cond
			neg := false
			if u, ok := cond.(*ssa.UnOp); ok && u.Op == token.NOT {
				cond, neg = u.X, true
			}
			if _, ok := core.LoadOfField(cond, ignore); !ok {
				continue
			}
			pollSucc := b.Succs[1] // ignoreTimeout false
			if neg {
				pollSucc = b.Succs[0]
			}
			for _, ins := range pollSucc.Instrs {
				if call, ok := ins.(*ssa.Call); ok && call.Call.StaticCallee() == check {
					// same loop iteration: the polling block must be inside the loop that contains target
					if inLoop(pollSucc) {
						return true
					}
				}
			}
		}
		return false
	}
	// the same poll factored out into a helper: `if err := r.pollTimeout(); err != nil { return … }`
	isPollHelper := func(f *ssa.Function) bool {
		if f == nil || !core.InModule(f) || f == check {
			return false
		}
		for _, b := range f.Blocks {
			ifi, ok := b.Instrs[len(b.Instrs)-1].(*ssa.If)
			if !ok {
				continue
			}
			cond := ifi.Cond
			neg := false
			if u, ok := cond.(*ssa.UnOp); ok && u.Op == token.NOT {
				cond, neg = u.X, true
			}
			if _, ok := core.LoadOfField(cond, ignore); !ok {
				continue
			}
			pollSucc := b.Succs[1]
			if neg {
				pollSucc = b.Succs[0]
			}
			for _, ins := range pollSucc.Instrs {
				if call, ok := ins.(*ssa.Call); ok && call.Call.StaticCallee() == check {
					return true
				}
			}
		}
		return false
	}
	basePoll := pollDominates
	pollDominates = func(fn *ssa.Function, target *ssa.BasicBlock) bool {
		if basePoll(fn, target) {
			return true
		}
		for _, b := range fn.Blocks {
			if !b.Dominates(target) || !inLoop(b) {
				continue
			}
			for _, ins := range b.Instrs {
				if call, ok := ins.(*ssa.Call); ok && isPollHelper(call.Call.StaticCallee()) {
					return true
				}
			}
		}
		return false
	}
	var execCall *ssa.BasicBlock
	for _, b := range scan.Blocks {
		for _, ins := range b.Instrs {
			if ci, ok := ins.(*ssa.Call); ok && ci.Call.StaticCallee() == nil && !ci.Call.IsInvoke() {
				if _, isB := ci.Call.Value.(*ssa.Builtin); !isB && ci.Type().String() == "error" {
					execCall = b
				}
			}
		}
	}
	c.Check(execCall != nil && pollDominates(scan, execCall), "scan / polls the deadline before each execution", scan.Pos(), "`if !r.ignoreTimeout { CheckTimeout }` dominating the execute call inside the attempt loop")
	// executeDefault: the dispatch (first compare of r.operator in a loop block) is dominated by a poll
	var dispatch *ssa.BasicBlock
	for _, b := range exec.Blocks {
		if dispatch != nil {
			break
		}
		for _, ins := range b.Instrs {
			if bin, ok := ins.(*ssa.BinOp); ok && bin.Op == token.EQL {
				if _, ok := core.LoadOfField(bin.X, opField); ok && inLoop(b) {
					dispatch = b
					break
				}
			}
		}
	}
	c.Check(dispatch != nil && pollDominates(exec, dispatch), "executeDefault / polls the deadline on every dispatch", exec.Pos(), "`if !r.ignoreTimeout { CheckTimeout }` dominating the opcode dispatch inside the loop")
	_ = fmt.Sprint
}

// R-ENDCOVER: the clock is extended to cover exactly the deadline that is handed out.
func REndCover(c *core.Ctx) {
	c.Rule("R-ENDCOVER", "the deadline makeDeadline returns is the very value it passed to extendClock (after any stale-clock refresh), and extendClock derives the clock's end from that parameter: the clock can never be asked to run to an end computed from a stale clock while a later deadline is handed out", 2)
	p := c.P
	md := p.SSAFunc(p.LookupFunc("", "makeDeadline"))
	extend := p.SSAFunc(p.LookupFunc("", "extendClock"))
	write := p.SSAFunc(p.LookupFunc("", "atomicTime.write"))
	clockEnd := p.LookupField("", "fastclock", "clockEnd")
	if md == nil || extend == nil || write == nil || clockEnd == nil {
		c.Anchor("makeDeadline / extendClock / atomicTime.write / fastclock.clockEnd")
		return
	}
	c.Visit(core.SSAName(md))
	c.Visit(core.SSAName(extend))
	var arg ssa.Value
	var argBlock *ssa.BasicBlock
	for _, b := range md.Blocks {
		for _, ins := range b.Instrs {
			if call, ok := ins.(*ssa.Call); ok && call.Call.StaticCallee() == extend && len(call.Call.Args) > 0 {
				arg = call.Call.Args[0]
				argBlock = b
			}
		}
	}
	// blocks the extendClock call can reach: only returns after the call hand out
	// "the deadline the clock was extended for" (an early return on the path where
	// the clock already runs long enough extends nothing)
	after := map[*ssa.BasicBlock]bool{}
	if argBlock != nil {
		stack := []*ssa.BasicBlock{argBlock}
		for len(stack) > 0 {
			b := stack[len(stack)-1]
			stack = stack[:len(stack)-1]
			if after[b] {
				continue
			}
			after[b] = true
			stack = append(stack, b.Succs...)
		}
	}
	okRet := arg != nil
	for _, b := range md.Blocks {
		if ret, ok := b.Instrs[len(b.Instrs)-1].(*ssa.Return); ok && arg != nil && after[b] {
			found := false
			for _, l := range append(leaves(ret.Results[0]), ret.Results[0]) {
				if l == arg {
					found = true
				}
			}
			// the argument may itself be a phi whose leaves are returned
			for _, l := range leaves(arg) {
				for _, r := range leaves(ret.Results[0]) {
					if l == r {
						found = true
					}
				}
			}
			if !found {
				okRet = false
			}
		}
	}
	c.Check(okRet, "makeDeadline / returns the deadline it extended the clock for", md.Pos(), "the value passed to extendClock and the value returned must be the same deadline")
	// extendClock: clockEnd value = param + const ; no results
	// if extendClock hands a deadline back it must be the one it was given
	okExt := true
	for _, b := range extend.Blocks {
		if ret, ok := b.Instrs[len(b.Instrs)-1].(*ssa.Return); ok {
			for _, r := range ret.Results {
				if r != ssa.Value(extend.Params[0]) {
					okExt = false
				}
			}
		}
	}
	derived := false
	for _, b := range extend.Blocks {
		for _, ins := range b.Instrs {
			call, ok := ins.(*ssa.Call)
			if !ok || call.Call.StaticCallee() != write {
				continue
			}
			if fa, ok := call.Call.Args[0].(*ssa.FieldAddr); ok && core.FieldVarOfAddr(fa) == clockEnd {
				if bin, ok := call.Call.Args[1].(*ssa.BinOp); ok && bin.Op == token.ADD && (bin.X == ssa.Value(extend.Params[0]) || bin.Y == ssa.Value(extend.Params[0])) {
					derived = true
				}
			}
		}
	}
	c.Check(okExt && derived, "extendClock / clock end = the given deadline + slop, and no other deadline is handed back", extend.Pos(), "returns nothing or its own parameter: %v; clockEnd written as <param> + slop: %v", okExt, derived)
}

// R-PERIOD: the clock sleeps for the CURRENT period.
func RPeriod(c *core.Ctx) {
	c.Rule("R-PERIOD", "runClock passes time.Sleep a value of the package variable clockPeriod that is read inside the polling loop, i.e. re-read on every tick: makeDeadline rounds deadlines with the current value, so a clock that kept sleeping for a period cached before SetTimeoutCheckPeriod shortened it would fire timeouts late", 1)
	p := c.P
	fn := p.SSAFunc(p.LookupFunc("", "runClock"))
	if fn == nil {
		c.Anchor("regexp2.runClock")
		return
	}
	c.Visit(core.SSAName(fn))
	n := 0
	for _, b := range fn.Blocks {
		for _, ins := range b.Instrs {
			call, ok := ins.(*ssa.Call)
			if !ok {
				continue
			}
			cal := call.Call.StaticCallee()
			if cal == nil || cal.Pkg == nil || cal.Pkg.Pkg.Path() != "time" || core.BaseName(cal) != "Sleep" {
				continue
			}
			n++
			arg := call.Call.Args[0]
			ld, ok := arg.(*ssa.UnOp)
			g, isG := (*ssa.Global)(nil), false
			if ok {
				g, isG = ld.X.(*ssa.Global)
			}
			if !ok || !isG {
				c.Check(false, "runClock / the sleep duration is a fresh read of the period variable", call.Pos(), "the duration is %s, not a direct read of a package variable", arg.String())
				continue
			}
			// the read must be inside the loop: its block lies on a cycle
			inLoop := false
			seen := map[*ssa.BasicBlock]bool{}
			work := append([]*ssa.BasicBlock(nil), ld.Block().Succs...)
			for len(work) > 0 {
				x := work[0]
				work = work[1:]
				if seen[x] {
					continue
				}
				seen[x] = true
				if x == ld.Block() {
					inLoop = true
					break
				}
				work = append(work, x.Succs...)
			}
			c.Check(inLoop, "runClock / the sleep duration is a fresh read of the period variable", call.Pos(), "%s is read once before the loop (at %s): a change of the period while the clock runs is ignored until the clock goroutine exits", g.Name(), p.Pos(ld.Pos()))
		}
	}
	if n == 0 {
		c.Anchor("time.Sleep in runClock")
	}
}

// ---------------------------------------------------------------------------
// R-FRESHREAD: a deadline is computed from a clock value that is known live.
//
// fast.current is only kept up to date while the clock goroutine runs; after
// it has stopped the value is stale until makeDeadline refreshes it under the
// mutex.  Two orderings make a deadline computed from a stale value escape:
//   (1) lock-free path: `current` is read BEFORE `clockEnd`.  Another caller
//       may refresh current and publish a larger clockEnd in between; the
//       stale current + d then compares below the new clockEnd and is
//       returned although it already lies in the past.  Reading clockEnd
//       first closes the window (a clockEnd that covers the deadline was
//       published after current was refreshed).
//   (2) locked path: the deadline is recomputed from current only when the
//       clock is found stopped.  If another caller restarted it between the
//       first read and the lock, the stale pre-lock value is kept.  The
//       value handed to extendClock must come from a read made under the lock
//       on every path.
// ---------------------------------------------------------------------------

func RFreshRead(c *core.Ctx) {
	c.Rule("R-FRESHREAD", "in makeDeadline (1) the read of clockEnd that decides the lock-free path precedes the read of current the deadline is computed from, and (2) the deadline passed to extendClock is computed, on every path, from a read of current made while fast.mu is held (not from the read made before the lock)", 2)
	p := c.P
	md := p.SSAFunc(p.LookupFunc("", "makeDeadline"))
	extend := p.SSAFunc(p.LookupFunc("", "extendClock"))
	read := p.SSAFunc(p.LookupFunc("", "atomicTime.read"))
	cur := p.LookupField("", "fastclock", "current")
	cend := p.LookupField("", "fastclock", "clockEnd")
	if md == nil || extend == nil || read == nil || cur == nil || cend == nil {
		c.Anchor("makeDeadline / extendClock / atomicTime.read / fastclock.current / clockEnd")
		return
	}
	c.Visit(core.SSAName(md))
	isRead := func(ins ssa.Instruction, f *types.Var) bool {
		call, ok := ins.(*ssa.Call)
		if !ok || call.Call.StaticCallee() != read || len(call.Call.Args) == 0 {
			return false
		}
		return core.FieldVarOfAddr(call.Call.Args[0]) == f
	}
	isLock := func(ins ssa.Instruction, name string) bool {
		call, ok := ins.(*ssa.Call)
		if !ok {
			return false
		}
		cal := call.Call.StaticCallee()
		return cal != nil && cal.Name() == name && cal.Pkg != nil && cal.Pkg.Pkg.Path() == "sync"
	}
	// (1) in the entry block: first read of clockEnd vs first read of current
	posEnd, posCur := -1, -1
	for i, ins := range md.Blocks[0].Instrs {
		if isRead(ins, cend) && posEnd < 0 {
			posEnd = i
		}
		if isRead(ins, cur) && posCur < 0 {
			posCur = i
		}
	}
	if posEnd < 0 || posCur < 0 {
		c.Unknown("makeDeadline / lock-free path reads clockEnd before current", md.Pos(), "the entry block does not read both clockEnd and current (clockEnd at %d, current at %d)", posEnd, posCur)
	} else {
		c.Check(posEnd < posCur, "makeDeadline / lock-free path reads clockEnd before current", md.Pos(),
			"current is read first: a concurrent caller can refresh current and publish a larger clockEnd in between, so a deadline computed from the stale current passes the `end <= clockEnd` test and is returned although it is already reached (immediate false timeout)")
	}
	// (2) the argument of extendClock: every leaf read of current must happen under the lock
	var arg ssa.Value
	for _, b := range md.Blocks {
		for _, ins := range b.Instrs {
			if call, ok := ins.(*ssa.Call); ok && call.Call.StaticCallee() == extend && len(call.Call.Args) > 0 {
				arg = call.Call.Args[0]
			}
		}
	}
	if arg == nil {
		c.Anchor("the call of extendClock in makeDeadline")
		return
	}
	// locked region: instructions between a Lock and the following Unlock (per block, in order; regions spanning blocks via dominance)
	locked := map[ssa.Instruction]bool{}
	var walk func(b *ssa.BasicBlock, held bool, seen map[*ssa.BasicBlock]bool)
	walk = func(b *ssa.BasicBlock, held bool, seen map[*ssa.BasicBlock]bool) {
		if seen[b] {
			return
		}
		seen[b] = true
		for _, ins := range b.Instrs {
			if isLock(ins, "Lock") {
				held = true
			}
			if isLock(ins, "Unlock") {
				held = false
			}
			if held {
				locked[ins] = true
			}
		}
		for _, s := range b.Succs {
			walk(s, held, seen)
		}
	}
	walk(md.Blocks[0], false, map[*ssa.BasicBlock]bool{})
	bad := token.NoPos
	seenV := map[ssa.Value]bool{}
	var visit func(v ssa.Value, d int)
	visit = func(v ssa.Value, d int) {
		if v == nil || seenV[v] || d > 12 {
			return
		}
		seenV[v] = true
		if ins, ok := v.(ssa.Instruction); ok {
			if isRead(ins, cur) {
				if !locked[ins] {
					bad = ins.Pos()
				}
				return
			}
			for _, op := range ins.Operands(nil) {
				if *op != nil {
					visit(*op, d+1)
				}
			}
		}
	}
	visit(arg, 0)
	c.Check(bad == token.NoPos, "makeDeadline / the deadline given to extendClock is computed from current read under the lock", md.Pos(),
		"on some path the deadline still comes from the read of current at %s, made before fast.mu was taken: if another caller restarted the clock in between (running is true again) the stale value is not recomputed and the deadline lies in the past", p.Pos(bad))
}

// R-TICKSUM: durations are downscaled before they are added.
func RTickSum(c *core.Ctx) {
	c.Rule("R-TICKSUM", "durationToTicks (which exists so that a timeout near math.MaxInt64 cannot overflow) is never applied to a sum that includes the caller's duration: each term is converted separately and the ticks are added", 1)
	p := c.P
	md := p.SSAFunc(p.LookupFunc("", "makeDeadline"))
	d2t := p.SSAFunc(p.LookupFunc("", "durationToTicks"))
	if md == nil || d2t == nil {
		c.Anchor("makeDeadline / durationToTicks")
		return
	}
	c.Visit(core.SSAName(md))
	n := 0
	for _, b := range md.Blocks {
		for _, ins := range b.Instrs {
			call, ok := ins.(*ssa.Call)
			if !ok || call.Call.StaticCallee() != d2t {
				continue
			}
			n++
			bin, isSum := call.Call.Args[0].(*ssa.BinOp)
			fromParam := false
			if isSum && bin.Op == token.ADD {
				for _, l := range []ssa.Value{bin.X, bin.Y} {
					if l == ssa.Value(md.Params[0]) {
						fromParam = true
					}
				}
			}
			c.Check(!fromParam, fmt.Sprintf("makeDeadline / durationToTicks call #%d is not applied to d plus something", n), call.Pos(),
				"d + clockPeriod is computed in nanoseconds first: for a timeout within clockPeriod of math.MaxInt64 it wraps negative and the deadline is already reached (immediate false timeout)")
		}
	}
	if n == 0 {
		c.Anchor("durationToTicks calls in makeDeadline")
	}
}
