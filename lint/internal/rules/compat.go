package rules

// Rules for C06 (the regexp-shaped adapter).  The property is an equality with
// another engine; what is decided here are the parts of it whose truth is in
// the shape of the adapter: the method surface, the unit of every number it
// hands out, the treatment of groups that did not take part, of n == 0, of the
// first empty match, and the agreement of the dialect switches that pick the
// ASCII forms of \w \d \s \b.

import (
	"fmt"
	"go/ast"
	"go/token"
	"go/types"
	"sort"
	"strings"

	"golang.org/x/tools/go/ssa"

	"regexlint/internal/core"
)

func isMatchingMethodName(n string) bool {
	return strings.HasPrefix(n, "Match") || strings.HasPrefix(n, "Find")
}

// RSurface: method-set agreement with *regexp.Regexp, decided on go/types.
func RSurface(c *core.Ctx) {
	c.Rule("R-SURFACE", "every exported Match*/Find* method of the standard library's *regexp.Regexp exists on *compat.Regexp with an identical signature and is listed in the Matcher interface, and both compile-time witnesses `var _ Matcher = (*regexp.Regexp)(nil)` / `(*Regexp)(nil)` are present", 20)
	p := c.P
	cp := p.Pkg("compat")
	if cp == nil {
		c.Anchor("package compat")
		return
	}
	std := cp.Imports["regexp"]
	if std == nil || std.Types == nil {
		c.Anchor("compat imports the standard library regexp package (the witness for method-set agreement)")
		return
	}
	rx, _ := std.Types.Scope().Lookup("Regexp").(*types.TypeName)
	ad, _ := cp.Types.Scope().Lookup("Regexp").(*types.TypeName)
	mi, _ := cp.Types.Scope().Lookup("Matcher").(*types.TypeName)
	if rx == nil || ad == nil {
		c.Anchor("regexp.Regexp / compat.Regexp")
		return
	}
	if mi == nil {
		c.Anchor("compat.Matcher (the common interface)")
		return
	}
	iface, _ := mi.Type().Underlying().(*types.Interface)
	if iface == nil {
		c.Anchor("compat.Matcher is an interface")
		return
	}
	stdSet := types.NewMethodSet(types.NewPointer(rx.Type()))
	for i := 0; i < stdSet.Len(); i++ {
		m := stdSet.At(i).Obj().(*types.Func)
		if !m.Exported() || !isMatchingMethodName(m.Name()) {
			continue
		}
		key := "regexp.(*Regexp)." + m.Name()
		obj, _, _ := types.LookupFieldOrMethod(types.NewPointer(ad.Type()), true, cp.Types, m.Name())
		am, _ := obj.(*types.Func)
		if am == nil {
			c.Bad(key+" / adapter method", ad.Pos(), "*compat.Regexp has no method %s", m.Name())
			continue
		}
		c.Check(types.Identical(m.Type(), am.Type()), key+" / adapter method", am.Pos(), "signature of the adapter method: %s; standard library: %s", am.Type(), m.Type())
		var im *types.Func
		for j := 0; j < iface.NumMethods(); j++ {
			if iface.Method(j).Name() == m.Name() {
				im = iface.Method(j)
			}
		}
		if im == nil {
			c.Bad(key+" / listed in Matcher", mi.Pos(), "the Matcher interface does not list %s, so the compile-time witnesses say nothing about it", m.Name())
		} else {
			c.Check(types.Identical(m.Type(), im.Type()), key+" / listed in Matcher", im.Pos(), "Matcher.%s has type %s", m.Name(), im.Type())
		}
	}
	// the two witnesses
	seen := map[string]bool{}
	for _, f := range cp.Syntax {
		if p.IsTestFile(f.Pos()) {
			continue
		}
		ast.Inspect(f, func(n ast.Node) bool {
			vs, ok := n.(*ast.ValueSpec)
			if !ok || vs.Type == nil {
				return true
			}
			if tv, ok := cp.TypesInfo.Types[vs.Type]; !ok || !types.Identical(tv.Type, mi.Type()) {
				return true
			}
			for _, v := range vs.Values {
				if tv, ok := cp.TypesInfo.Types[v]; ok {
					seen[tv.Type.String()] = true
				}
			}
			return true
		})
	}
	c.Check(seen[types.NewPointer(rx.Type()).String()], "witness / *regexp.Regexp implements Matcher", mi.Pos(), "no package-level `var _ Matcher = (*regexp.Regexp)(nil)`; witnesses found for: %v", keysOf(seen))
	c.Check(seen[types.NewPointer(ad.Type()).String()], "witness / *compat.Regexp implements Matcher", mi.Pos(), "no package-level `var _ Matcher = (*Regexp)(nil)`; witnesses found for: %v", keysOf(seen))
}

func keysOf(m map[string]bool) []string {
	var out []string
	for k := range m {
		out = append(out, k)
	}
	sort.Strings(out)
	return out
}

// compatFuncs: SSA functions (incl. closures) of package compat.
func compatFuncs(p *core.Program) []*ssa.Function {
	var out []*ssa.Function
	for _, fn := range p.ModuleFuncs() {
		if core.FnPkgPath(fn) == core.PkgCompat {
			out = append(out, fn)
		}
	}
	return out
}

// RByteUnit: rune-unit values never reach what the adapter hands out.
func RByteUnit(c *core.Ctx) {
	c.Rule("R-BYTEUNIT", "in package compat a value computed from Capture.RuneIndex / Capture.RuneLength (a rune position) is used only to index an offset table or in comparisons: it is never stored into an element of an []int (all of which are byte-offset results or byte-offset tables) and never used as a bound when slicing a []byte or a string", 12)
	p := c.P
	ri := p.LookupField("regexp2", "Capture", "RuneIndex")
	rl := p.LookupField("regexp2", "Capture", "RuneLength")
	if ri == nil || rl == nil {
		c.Anchor("regexp2.Capture.RuneIndex / RuneLength")
		return
	}
	funcs := compatFuncs(p)
	if len(funcs) == 0 {
		c.Anchor("functions of package compat")
		return
	}
	tainted := map[ssa.Value]bool{}
	resTaint := map[*ssa.Function]map[int]bool{}
	isSrcField := func(v *types.Var) bool { return v == ri || v == rl }
	for changed := true; changed; {
		changed = false
		mark := func(v ssa.Value) {
			if v != nil && !tainted[v] {
				tainted[v] = true
				changed = true
			}
		}
		for _, fn := range funcs {
			for _, b := range fn.Blocks {
				for _, ins := range b.Instrs {
					switch x := ins.(type) {
					case *ssa.UnOp:
						if x.Op == token.MUL {
							if f := core.FieldVarOfAddr(x.X); f != nil && isSrcField(f) {
								mark(x)
							}
						}
					case *ssa.Field:
						if st, ok := x.X.Type().Underlying().(*types.Struct); ok && isSrcField(st.Field(x.Field)) {
							mark(x)
						}
					case *ssa.BinOp:
						switch x.Op {
						case token.ADD, token.SUB, token.MUL, token.QUO:
							if tainted[x.X] || tainted[x.Y] {
								mark(x)
							}
						}
					case *ssa.Phi:
						for _, e := range x.Edges {
							if tainted[e] {
								mark(x)
							}
						}
					case *ssa.Convert:
						if tainted[x.X] {
							mark(x)
						}
					case *ssa.ChangeType:
						if tainted[x.X] {
							mark(x)
						}
					case *ssa.Return:
						for i, r := range x.Results {
							if tainted[r] {
								if resTaint[fn] == nil {
									resTaint[fn] = map[int]bool{}
								}
								if !resTaint[fn][i] {
									resTaint[fn][i] = true
									changed = true
								}
							}
						}
					case *ssa.MakeClosure:
						if cf, ok := x.Fn.(*ssa.Function); ok {
							for i, bnd := range x.Bindings {
								if tainted[bnd] && i < len(cf.FreeVars) {
									mark(cf.FreeVars[i])
								}
							}
						}
					case *ssa.Extract:
						if call, ok := x.Tuple.(*ssa.Call); ok {
							if cal := call.Call.StaticCallee(); cal != nil && resTaint[cal][x.Index] {
								mark(x)
							}
						}
					}
					if ci, ok := ins.(ssa.CallInstruction); ok {
						cal := ci.Common().StaticCallee()
						if cal != nil && core.FnPkgPath(cal) == core.PkgCompat && cal.Blocks != nil {
							for i, a := range ci.Common().Args {
								if tainted[a] && i < len(cal.Params) {
									mark(cal.Params[i])
								}
							}
							if v, ok := ins.(*ssa.Call); ok && resTaint[cal][0] && cal.Signature.Results().Len() == 1 {
								mark(v)
							}
						}
					}
				}
			}
		}
	}
	isIntElem := func(t types.Type) bool {
		if pt, ok := t.Underlying().(*types.Pointer); ok {
			t = pt.Elem()
		}
		var el types.Type
		switch u := t.Underlying().(type) {
		case *types.Slice:
			el = u.Elem()
		case *types.Array:
			el = u.Elem()
		default:
			return false
		}
		b, ok := el.Underlying().(*types.Basic)
		return ok && b.Kind() == types.Int
	}
	isBytesOrString := func(t types.Type) bool {
		switch u := t.Underlying().(type) {
		case *types.Slice:
			b, ok := u.Elem().Underlying().(*types.Basic)
			return ok && b.Kind() == types.Uint8
		case *types.Basic:
			return u.Info()&types.IsString != 0
		}
		return false
	}
	ord := map[string]int{}
	for _, fn := range funcs {
		name := core.SSAName(fn)
		for _, b := range fn.Blocks {
			for _, ins := range b.Instrs {
				switch x := ins.(type) {
				case *ssa.Store:
					ia, ok := x.Addr.(*ssa.IndexAddr)
					if !ok || !isIntElem(ia.X.Type()) {
						continue
					}
					ord[name+"/store"]++
					c.Visit(name)
					c.Check(!tainted[x.Val], fmt.Sprintf("%s / store into an []int element #%d", name, ord[name+"/store"]), x.Pos(), "the stored value is computed from Capture.RuneIndex / RuneLength without going through an offset table: a rune position where byte offsets are expected (they differ as soon as the input has a multi-byte or invalid sequence)")
				case *ssa.Slice:
					if !isBytesOrString(x.X.Type()) {
						continue
					}
					ord[name+"/slice"]++
					c.Visit(name)
					bad := (x.Low != nil && tainted[x.Low]) || (x.High != nil && tainted[x.High])
					c.Check(!bad, fmt.Sprintf("%s / slice of bytes or string #%d", name, ord[name+"/slice"]), x.Pos(), "a bound of this byte-indexed slice is computed from Capture.RuneIndex / RuneLength (a rune position)")
				}
			}
		}
	}
}

// RUnsetPair: groups without captures.
func RUnsetPair(c *core.Ctx) {
	c.Rule("R-UNSETPAIR", "in package compat, inside a loop over Match.Groups() every use of a group's own capture (its embedded Capture, String, Runes, ByteRange) is dominated by a test that the group has captures; where the loop fills an []int the no-capture arm stores the constant -1 in both cells; and a []byte parameter is sliced with positions taken from a *SubmatchIndex result only under `start >= 0` (a group that did not take part gives -1 pairs / nil / \"\", like the standard library)", 5)
	p := c.P
	cp := p.Pkg("compat")
	if cp == nil {
		c.Anchor("package compat")
		return
	}
	info := cp.TypesInfo
	grp, _ := p.LookupObj("regexp2", "Group").(*types.TypeName)
	if grp == nil {
		c.Anchor("regexp2.Group")
		return
	}
	captures := p.LookupField("regexp2", "Group", "Captures")
	if captures == nil {
		c.Anchor("regexp2.Group.Captures")
		return
	}
	isGroupSlice := func(t types.Type) bool {
		sl, ok := t.Underlying().(*types.Slice)
		return ok && types.Identical(sl.Elem(), grp.Type())
	}
	// text of "len(<g>.Captures)" tests
	lenTestOf := func(cond ast.Expr) (subject string, op token.Token, ok bool) {
		be, isBin := ast.Unparen(cond).(*ast.BinaryExpr)
		if !isBin {
			return "", 0, false
		}
		x, y, o := be.X, be.Y, be.Op
		if v, isC := core.ConstInt(info, x); isC && v == 0 {
			x, y = y, x
			switch o {
			case token.LSS:
				o = token.GTR
			case token.GTR:
				o = token.LSS
			case token.LEQ:
				o = token.GEQ
			case token.GEQ:
				o = token.LEQ
			}
		}
		if v, isC := core.ConstInt(info, y); !isC || v != 0 {
			// `>= 1`
			if v, isC := core.ConstInt(info, y); isC && v == 1 && (o == token.GEQ || o == token.LSS) {
				if o == token.GEQ {
					o = token.GTR
				} else {
					o = token.EQL
				}
			} else {
				return "", 0, false
			}
		}
		call, isCall := ast.Unparen(x).(*ast.CallExpr)
		if !isCall || len(call.Args) != 1 {
			return "", 0, false
		}
		if id, isId := call.Fun.(*ast.Ident); !isId || id.Name != "len" {
			return "", 0, false
		}
		sel, isSel := ast.Unparen(call.Args[0]).(*ast.SelectorExpr)
		if !isSel || core.FieldOf(info, sel) != captures {
			return "", 0, false
		}
		return types.ExprString(sel.X), o, true
	}
	hasCaptures := func(g *core.Graph, n ast.Node, subject string) bool {
		b, _ := g.BlockOf(n)
		if b == nil {
			return false
		}
		for _, f := range g.FactsAt(b) {
			for _, cj := range conjunctsOrNegDisjuncts(f) {
				s, op, ok := lenTestOf(cj.e)
				if !ok || s != subject {
					continue
				}
				if cj.val && (op == token.GTR || op == token.NEQ) {
					return true
				}
				if !cj.val && (op == token.EQL || op == token.LEQ) {
					return true
				}
			}
		}
		return false
	}
	nLoops, nSlices := 0, 0
	for _, fd := range p.FuncDecls(cp) {
		if fd.Body == nil {
			continue
		}
		fname := core.DeclName(cp, fd)
		var g *core.Graph
		graph := func() *core.Graph {
			if g == nil {
				g = core.NewGraph(info, fd.Body)
			}
			return g
		}
		// loops over a []Group
		ast.Inspect(fd.Body, func(n ast.Node) bool {
			rs, ok := n.(*ast.RangeStmt)
			if !ok {
				return true
			}
			tv, ok := info.Types[rs.X]
			if !ok || !isGroupSlice(tv.Type) {
				return true
			}
			nLoops++
			c.Visit(fname)
			// subject: "<X>[<key>]" when ranging by index, the value identifier otherwise
			var subjects []string
			if id, ok := rs.Key.(*ast.Ident); ok && id.Name != "_" {
				subjects = append(subjects, types.ExprString(rs.X)+"["+id.Name+"]")
			}
			if id, ok := rs.Value.(*ast.Ident); ok && id != nil && id.Name != "_" {
				subjects = append(subjects, id.Name)
			}
			ord := 0
			ast.Inspect(rs.Body, func(m ast.Node) bool {
				sel, ok := m.(*ast.SelectorExpr)
				if !ok {
					return true
				}
				subj := types.ExprString(sel.X)
				match := false
				for _, s := range subjects {
					if s == subj {
						match = true
					}
				}
				if !match {
					return true
				}
				if core.FieldOf(info, sel) == captures {
					return true // the test itself, or a walk over the list
				}
				// uses of the group's own capture: embedded Capture, promoted fields and methods of Capture
				use := false
				if f := core.FieldOf(info, sel); f != nil {
					if core.BaseName(f) == "Capture" || core.BaseName(f) == "RuneIndex" || core.BaseName(f) == "RuneLength" {
						use = true
					}
				} else if s := info.Selections[sel]; s != nil && s.Kind() == types.MethodVal {
					if recv := s.Obj().(*types.Func).Type().(*types.Signature).Recv(); recv != nil {
						if _, tn := core.NamedOf(recv.Type()); tn == "Capture" {
							use = true
						}
					}
				}
				if !use {
					return true
				}
				ord++
				c.Check(hasCaptures(graph(), sel, subj), fmt.Sprintf("%s / use of a group's capture in the loop over Groups() #%d", fname, ord), sel.Pos(), "%s is read without a dominating `len(%s.Captures) > 0` (or a `== 0` arm that leaves): a group that did not participate would be reported with the zero capture instead of -1 / nil / \"\"", types.ExprString(sel), subj)
				return true
			})
			// the no-capture arm of an []int filler stores -1
			ast.Inspect(rs.Body, func(m ast.Node) bool {
				ifs, ok := m.(*ast.IfStmt)
				if !ok {
					return true
				}
				s, op, ok := lenTestOf(ifs.Cond)
				if !ok || op != token.EQL {
					return true
				}
				_ = s
				for _, st := range ifs.Body.List {
					as, ok := st.(*ast.AssignStmt)
					if !ok {
						continue
					}
					for i, lhs := range as.Lhs {
						ix, ok := lhs.(*ast.IndexExpr)
						if !ok {
							continue
						}
						tv, ok := info.Types[ix.X]
						if !ok {
							continue
						}
						sl, ok := tv.Type.Underlying().(*types.Slice)
						if !ok {
							continue
						}
						if b, ok := sl.Elem().Underlying().(*types.Basic); !ok || b.Kind() != types.Int {
							continue
						}
						if i < len(as.Rhs) {
							v, isC := core.ConstInt(info, as.Rhs[i])
							ord++
							c.Check(isC && v == -1, fmt.Sprintf("%s / no-capture arm stores -1 #%d", fname, ord), as.Pos(), "the arm for a group without captures stores %s into %s; the standard library reports -1", types.ExprString(as.Rhs[i]), types.ExprString(lhs))
						}
					}
				}
				return true
			})
			return true
		})
		// slices of a []byte parameter in functions that obtain positions from a *SubmatchIndex method
		usesSubmatchIndex := false
		ast.Inspect(fd.Body, func(n ast.Node) bool {
			if call, ok := n.(*ast.CallExpr); ok {
				if fn := core.Callee(info, call); fn != nil && strings.Contains(core.BaseName(fn), "SubmatchIndex") && fn.Pkg() != nil && fn.Pkg().Path() == core.PkgCompat {
					usesSubmatchIndex = true
				}
			}
			return true
		})
		// ... or in a helper that is handed the position table ([]int parameter) and cuts by it
		takesIntSlice := false
		if fd.Type.Params != nil {
			for _, f := range fd.Type.Params.List {
				if sl, ok := info.TypeOf(f.Type).Underlying().(*types.Slice); ok && types.Identical(sl.Elem(), types.Typ[types.Int]) {
					takesIntSlice = true
				}
			}
		}
		if (!usesSubmatchIndex && !takesIntSlice) || fd.Type.Params == nil {
			continue
		}
		// position-valued: an element of an []int, or a local assigned from one
		fromIntSlice := func(e ast.Expr) bool {
			isElem := func(x ast.Expr) bool {
				ie, ok := ast.Unparen(x).(*ast.IndexExpr)
				if !ok {
					return false
				}
				sl, ok := info.TypeOf(ie.X).Underlying().(*types.Slice)
				return ok && types.Identical(sl.Elem(), types.Typ[types.Int])
			}
			if isElem(e) {
				return true
			}
			id, ok := ast.Unparen(e).(*ast.Ident)
			if !ok {
				return false
			}
			obj := info.ObjectOf(id)
			found := false
			ast.Inspect(fd.Body, func(n ast.Node) bool {
				if as, ok := n.(*ast.AssignStmt); ok && len(as.Lhs) == len(as.Rhs) {
					for i, l := range as.Lhs {
						if lid, ok := l.(*ast.Ident); ok && info.ObjectOf(lid) == obj && isElem(as.Rhs[i]) {
							found = true
						}
					}
				}
				return true
			})
			return found
		}
		params := map[types.Object]bool{}
		for _, f := range fd.Type.Params.List {
			for _, id := range f.Names {
				params[info.ObjectOf(id)] = true
			}
		}
		ord := 0
		ast.Inspect(fd.Body, func(n ast.Node) bool {
			se, ok := n.(*ast.SliceExpr)
			if !ok || se.Low == nil {
				return true
			}
			id, ok := ast.Unparen(se.X).(*ast.Ident)
			if !ok || !params[info.ObjectOf(id)] {
				return true
			}
			if sl, ok := info.TypeOf(id).Underlying().(*types.Slice); !ok || !types.Identical(sl.Elem(), types.Typ[types.Byte]) {
				return true
			}
			if !usesSubmatchIndex && !fromIntSlice(se.Low) {
				return true
			}
			ord++
			nSlices++
			c.Visit(fname)
			low := types.ExprString(se.Low)
			guarded := false
			if b, _ := graph().BlockOf(se); b != nil {
				for _, f := range graph().FactsAt(b) {
					for _, cj := range conjunctsOrNegDisjuncts(f) {
						be, ok := ast.Unparen(cj.e).(*ast.BinaryExpr)
						if !ok || types.ExprString(be.X) != low {
							continue
						}
						v, isC := core.ConstInt(info, be.Y)
						if !isC {
							continue
						}
						if cj.val && ((be.Op == token.GEQ && v == 0) || (be.Op == token.GTR && v == -1) || (be.Op == token.NEQ && v == -1)) {
							guarded = true
						}
						if !cj.val && ((be.Op == token.LSS && v == 0) || (be.Op == token.LEQ && v == -1) || (be.Op == token.EQL && v == -1)) {
							guarded = true
						}
					}
				}
			}
			c.Check(guarded, fmt.Sprintf("%s / []byte sliced with submatch positions #%d", fname, ord), se.Pos(), "%s is evaluated without a dominating `%s >= 0`: the pair of a group that did not participate is (-1,-1)", types.ExprString(se), low)
			return true
		})
	}
	if nLoops == 0 {
		c.Anchor("loops over Match.Groups() in package compat")
	}
	if nSlices == 0 {
		c.Anchor("slices of the []byte argument by submatch positions in package compat")
	}
}

// RNZero: n == 0 gives nil.
func RNZero(c *core.Ctx) {
	c.Rule("R-NZERO", "every FindAll* method with a limit n (the adapter's and regexp2's find-all calls) either returns nil under a test `n == 0` placed before anything else uses n, or hands n on unchanged to exactly such a method and does nothing else with it", 9)
	p := c.P
	type meth struct {
		fd   *ast.FuncDecl
		info *types.Info
		name string
		fn   *types.Func
	}
	var ms []meth
	byFn := map[*types.Func]*meth{}
	for _, short := range []string{"compat", "regexp2"} {
		pk := p.Pkg(short)
		if pk == nil {
			c.Anchor("package " + short)
			return
		}
		for _, fd := range p.FuncDecls(pk) {
			if fd.Recv == nil || fd.Body == nil || !strings.HasPrefix(fd.Name.Name, "FindAll") || !fd.Name.IsExported() {
				continue
			}
			fn, _ := pk.TypesInfo.Defs[fd.Name].(*types.Func)
			if fn == nil {
				continue
			}
			ms = append(ms, meth{fd, pk.TypesInfo, core.DeclName(pk, fd), fn})
		}
	}
	for i := range ms {
		byFn[ms[i].fn] = &ms[i]
	}
	// the limit parameter: the last int parameter
	limitOf := func(m *meth) types.Object {
		var last types.Object
		if m.fd.Type.Params == nil {
			return nil
		}
		for _, f := range m.fd.Type.Params.List {
			if b, ok := m.info.TypeOf(f.Type).Underlying().(*types.Basic); ok && b.Kind() == types.Int {
				for _, id := range f.Names {
					last = m.info.ObjectOf(id)
				}
			}
		}
		return last
	}
	status := map[*types.Func]int{} // 1 ok-by-test, 2 ok-by-delegation, -1 bad
	why := map[*types.Func]string{}
	var decide func(m *meth, depth int) int
	decide = func(m *meth, depth int) int {
		if s, ok := status[m.fn]; ok {
			return s
		}
		if depth > 6 {
			return -1
		}
		n := limitOf(m)
		if n == nil {
			status[m.fn] = -1
			why[m.fn] = "no int parameter"
			return -1
		}
		// (1) first statement that mentions n is `if n == 0 { return nil... }`
		for _, st := range m.fd.Body.List {
			mentions := false
			ast.Inspect(st, func(x ast.Node) bool {
				if id, ok := x.(*ast.Ident); ok && m.info.ObjectOf(id) == n {
					mentions = true
				}
				return true
			})
			if !mentions {
				continue
			}
			if ifs, ok := st.(*ast.IfStmt); ok && ifs.Init == nil {
				if be, ok := ast.Unparen(ifs.Cond).(*ast.BinaryExpr); ok && be.Op == token.EQL {
					xid, _ := ast.Unparen(be.X).(*ast.Ident)
					v, isC := core.ConstInt(m.info, be.Y)
					if xid != nil && m.info.ObjectOf(xid) == n && isC && v == 0 && len(ifs.Body.List) == 1 {
						if rs, ok := ifs.Body.List[0].(*ast.ReturnStmt); ok && len(rs.Results) >= 1 {
							if tv, ok := m.info.Types[rs.Results[0]]; ok && tv.IsNil() {
								status[m.fn] = 1
								return 1
							}
						}
					}
				}
			}
			break
		}
		// (2) every mention of n is the unchanged argument of a call to a FindAll* method that is itself fine
		okAll, nUses := true, 0
		reason := ""
		var stack []ast.Node
		ast.Inspect(m.fd.Body, func(x ast.Node) bool {
			if x == nil {
				stack = stack[:len(stack)-1]
				return true
			}
			stack = append(stack, x)
			id, ok := x.(*ast.Ident)
			if !ok || m.info.ObjectOf(id) != n {
				return true
			}
			nUses++
			if len(stack) < 2 {
				okAll = false
				return true
			}
			call, ok := stack[len(stack)-2].(*ast.CallExpr)
			if !ok {
				okAll = false
				reason = "n is used outside a call argument: " + types.ExprString(stack[len(stack)-2].(ast.Expr))
				return true
			}
			cal := core.Callee(m.info, call)
			tm := byFn[cal]
			if tm == nil {
				okAll = false
				reason = "n is handed to " + types.ExprString(call.Fun) + ", which is not a FindAll* method of the adapter or of regexp2"
				return true
			}
			if decide(tm, depth+1) <= 0 {
				okAll = false
				reason = "n is handed to " + tm.name + ", which does not return nil for n == 0"
			}
			return true
		})
		if okAll && nUses > 0 {
			status[m.fn] = 2
			return 2
		}
		if reason == "" {
			reason = "no `if n == 0 { return nil }` before the first use of n, and n is not simply handed on"
		}
		status[m.fn] = -1
		why[m.fn] = reason
		return -1
	}
	for i := range ms {
		m := &ms[i]
		s := decide(m, 0)
		c.Visit(m.name)
		c.Check(s > 0, m.name+" / n == 0 gives nil", m.fd.Pos(), "%s", why[m.fn])
	}
}

// RPrevInit: the "edge of the previous match" starts at a value no position can take.
func RPrevInit(c *core.Ctx) {
	c.Rule("R-PREVINIT", "where a loop over successive matches compares Capture.RuneIndex with a loop-carried variable (the edge of the previous match, used to drop an empty match that touches it), every constant that variable can hold is negative: before the first match there is no edge, so an empty match at position 0 is kept", 2)
	p := c.P
	ri := p.LookupField("regexp2", "Capture", "RuneIndex")
	rl := p.LookupField("regexp2", "Capture", "RuneLength")
	if ri == nil || rl == nil {
		c.Anchor("regexp2.Capture.RuneIndex / RuneLength")
		return
	}
	n := 0
	for _, fn := range p.ModuleFuncs() {
		pk := core.FnPkgPath(fn)
		if pk != core.PkgRoot && pk != core.PkgCompat {
			continue
		}
		name := core.SSAName(fn)
		ord := 0
		for _, b := range fn.Blocks {
			for _, ins := range b.Instrs {
				bo, ok := ins.(*ssa.BinOp)
				if !ok || (bo.Op != token.NEQ && bo.Op != token.EQL) {
					continue
				}
				var other ssa.Value
				if isLoadOfField(bo.X, ri) {
					other = bo.Y
				} else if isLoadOfField(bo.Y, ri) {
					other = bo.X
				}
				phi, ok := other.(*ssa.Phi)
				if !ok {
					continue
				}
				// the idiom: the comparison is the other half of an emptiness test of the same match
				// (`m.RuneLength != 0 || m.RuneIndex != prev`), in either order
				if !emptyTestNextTo(bo, rl) {
					continue
				}
				// leaves of the phi web
				seen := map[*ssa.Phi]bool{}
				var consts []int64
				var walk func(v ssa.Value)
				walk = func(v ssa.Value) {
					switch x := v.(type) {
					case *ssa.Phi:
						if seen[x] {
							return
						}
						seen[x] = true
						for _, e := range x.Edges {
							walk(e)
						}
					case *ssa.Const:
						if k, ok := core.IntConst(x); ok {
							consts = append(consts, k)
						}
					}
				}
				walk(phi)
				ord++
				n++
				c.Visit(name)
				allNeg := len(consts) > 0
				for _, k := range consts {
					if k >= 0 {
						allNeg = false
					}
				}
				c.Check(allNeg, fmt.Sprintf("%s / previous-edge variable compared with RuneIndex #%d", name, ord), bo.Pos(), "constants the loop-carried variable can hold: %v (need: at least one, all negative)", consts)
			}
		}
	}
	if n == 0 {
		c.Anchor("a comparison of Capture.RuneIndex with a loop-carried variable (find-all loops)")
	}
}

// emptyTestNextTo: a comparison of a load of field rl with the constant 0 sits in the block that
// immediately dominates bo's block and branches on it, or in a block bo's block immediately dominates.
func emptyTestNextTo(bo *ssa.BinOp, rl *types.Var) bool {
	isEmptyTest := func(v ssa.Value) bool {
		b, ok := v.(*ssa.BinOp)
		if !ok {
			return false
		}
		switch b.Op {
		case token.EQL, token.NEQ, token.GTR, token.LEQ, token.LSS, token.GEQ:
		default:
			return false
		}
		if k, ok := core.IntConst(b.Y); ok && k == 0 && isLoadOfField(b.X, rl) {
			return true
		}
		if k, ok := core.IntConst(b.X); ok && k == 0 && isLoadOfField(b.Y, rl) {
			return true
		}
		return false
	}
	blk := bo.Block()
	if d := blk.Idom(); d != nil {
		if ifi, ok := d.Instrs[len(d.Instrs)-1].(*ssa.If); ok && isEmptyTest(ifi.Cond) {
			return true
		}
	}
	if ifi, ok := blk.Instrs[len(blk.Instrs)-1].(*ssa.If); ok && ifi.Cond == ssa.Value(bo) {
		for _, s := range blk.Succs {
			if s.Idom() == blk {
				if i2, ok := s.Instrs[len(s.Instrs)-1].(*ssa.If); ok && isEmptyTest(i2.Cond) {
					return true
				}
			}
		}
	}
	return false
}

func isLoadOfField(v ssa.Value, f *types.Var) bool {
	if u, ok := v.(*ssa.UnOp); ok && u.Op == token.MUL {
		return core.FieldVarOfAddr(u.X) == f
	}
	if fl, ok := v.(*ssa.Field); ok {
		if st, ok := fl.X.Type().Underlying().(*types.Struct); ok {
			return st.Field(fl.Field) == f
		}
	}
	return false
}

// RDialectSib: the dialect predicates that pick the ASCII forms agree between siblings.
func RDialectSib(c *core.Ctx) {
	c.Rule("R-DIALECTSIB", "the option predicates (useOptionE / useRE2 / ...) that select the dialect form of a shorthand agree between its siblings: \\w and \\W, \\d and \\D, \\s and \\S outside a class; each of them and the arguments of addWord / addDigit / addSpace inside a class; and \\b / \\B (typeFromCode) with \\w — a boundary is defined by the word characters of the same dialect", 8)
	p := c.P
	syn := p.Pkg("syntax")
	if syn == nil {
		c.Anchor("package syntax")
		return
	}
	info := syn.TypesInfo
	// predicate methods: niladic methods of *parser named use* returning bool
	predDepth := 0
	var predsIn func(n ast.Node) []string
	predsIn = func(n ast.Node) []string {
		set := map[string]bool{}
		ast.Inspect(n, func(x ast.Node) bool {
			call, ok := x.(*ast.CallExpr)
			if !ok || len(call.Args) != 0 {
				return true
			}
			fn := core.Callee(info, call)
			if fn == nil || !strings.HasPrefix(core.BaseName(fn), "use") {
				return true
			}
			if sig, ok := fn.Type().(*types.Signature); ok && sig.Recv() != nil && sig.Results().Len() == 1 {
				if b, ok := sig.Results().At(0).Type().Underlying().(*types.Basic); ok && b.Kind() == types.Bool {
					// a predicate defined as a combination of others (useASCIIShorthand = useOptionE() || useRE2())
					// stands for those
					if d, _ := p.DeclOf(fn); d != nil && d.Body != nil && len(d.Body.List) == 1 && predDepth < 3 {
						if rs, ok := d.Body.List[0].(*ast.ReturnStmt); ok && len(rs.Results) == 1 {
							predDepth++
							inner := predsIn(rs.Results[0])
							predDepth--
							if len(inner) > 0 {
								for _, s := range inner {
									set[s] = true
								}
								return true
							}
						}
					}
					set[fn.Name()] = true
				}
			}
			return true
		})
		return keysOf(set)
	}
	// conditions of the if statements directly in a case body
	armPreds := func(body []ast.Stmt) []string {
		set := map[string]bool{}
		for _, st := range body {
			for ifs, ok := st.(*ast.IfStmt); ok; {
				for _, s := range predsIn(ifs.Cond) {
					set[s] = true
				}
				next, isIf := ifs.Else.(*ast.IfStmt)
				if !isIf {
					break
				}
				ifs = next
			}
		}
		return keysOf(set)
	}
	arms := func(fname string) (map[rune][]ast.Stmt, *ast.FuncDecl) {
		fd, _ := p.DeclOf(p.LookupFunc("syntax", fname))
		if fd == nil {
			return nil, nil
		}
		out := map[rune][]ast.Stmt{}
		// the function's own arms, then those of the parser methods it calls (an arm may hand the letter on to
		// a helper with a switch of its own); for each letter the first arm that consults a predicate wins
		units := []*ast.FuncDecl{fd}
		ast.Inspect(fd.Body, func(n ast.Node) bool {
			if call, ok := n.(*ast.CallExpr); ok {
				if fn := core.Callee(info, call); fn != nil && fn.Pkg() == syn.Types {
					if d, _ := p.DeclOf(fn); d != nil && d.Body != nil && d != fd && d.Recv != nil {
						dup := false
						for _, u := range units {
							if u == d {
								dup = true
							}
						}
						if !dup && len(units) < 12 {
							units = append(units, d)
						}
					}
				}
			}
			return true
		})
		for _, u := range units {
			ast.Inspect(u.Body, func(n ast.Node) bool {
				cc, ok := n.(*ast.CaseClause)
				if !ok {
					return true
				}
				for _, e := range cc.List {
					if tv, ok := info.Types[e]; ok && tv.Value != nil {
						if b, ok := tv.Type.Underlying().(*types.Basic); ok && (b.Kind() == types.Int32 || b.Kind() == types.UntypedRune) {
							if v, ok := core.ConstInt(info, e); ok {
								old, dup := out[rune(v)]
								if !dup || (len(armPreds(old)) == 0 && len(armPreds(cc.Body)) > 0) {
									out[rune(v)] = cc.Body
								}
							}
						}
					}
				}
				return true
			})
		}
		return out, fd
	}
	outside, fdOut := arms("parser.scanBackslash")
	if fdOut == nil {
		c.Anchor("syntax.parser.scanBackslash")
		return
	}
	inside, fdIn := arms("parser.scanCharSet")
	if fdIn == nil {
		c.Anchor("syntax.parser.scanCharSet")
		return
	}
	bnd, fdB := arms("parser.typeFromCode")
	if fdB == nil {
		c.Anchor("syntax.parser.typeFromCode")
		return
	}
	c.Visit("syntax.(*parser).scanBackslash")
	c.Visit("syntax.(*parser).scanCharSet")
	c.Visit("syntax.(*parser).typeFromCode")
	eq := func(a, b []string) bool { return strings.Join(a, ",") == strings.Join(b, ",") }
	pos := func(st []ast.Stmt, fd *ast.FuncDecl) token.Pos {
		if len(st) > 0 {
			return st[0].Pos()
		}
		return fd.Pos()
	}
	for _, pair := range [][2]rune{{'w', 'W'}, {'d', 'D'}, {'s', 'S'}} {
		lo, okLo := outside[pair[0]]
		up, okUp := outside[pair[1]]
		if !okLo || !okUp {
			c.Anchor(fmt.Sprintf("case '%c' / '%c' in scanBackslash", pair[0], pair[1]))
			continue
		}
		a, b := armPreds(lo), armPreds(up)
		c.Check(eq(a, b), fmt.Sprintf("scanBackslash / \\%c and \\%c choose their dialect alike", pair[0], pair[1]), pos(lo, fdOut), "\\%c consults %v, \\%c consults %v", pair[0], a, pair[1], b)
		// inside a class: the arguments of the add* call in the arm of the same letters
		in, okIn := inside[pair[0]]
		if !okIn {
			in, okIn = inside[pair[1]]
		}
		if !okIn {
			c.Anchor(fmt.Sprintf("case '%c' in scanCharSet", pair[0]))
			continue
		}
		var addCall *ast.CallExpr
		for _, st := range in {
			ast.Inspect(st, func(x ast.Node) bool {
				if call, ok := x.(*ast.CallExpr); ok {
					if fn := core.Callee(info, call); fn != nil && (core.BaseName(fn) == "addWord" || core.BaseName(fn) == "addDigit" || core.BaseName(fn) == "addSpace") {
						addCall = call
					}
				}
				return true
			})
		}
		if addCall == nil {
			c.Anchor(fmt.Sprintf("the add* call in the '%c' arm of scanCharSet", pair[0]))
			continue
		}
		set := map[string]bool{}
		for _, a := range addCall.Args {
			for _, s := range predsIn(a) {
				set[s] = true
			}
		}
		ins := keysOf(set)
		c.Check(eq(a, ins), fmt.Sprintf("\\%c outside and inside a class choose their dialect alike", pair[0]), addCall.Pos(), "outside a class \\%c consults %v, inside a class %s consults %v", pair[0], a, types.ExprString(addCall.Fun), ins)
	}
	wp := armPreds(outside['w'])
	for _, ch := range []rune{'b', 'B'} {
		body, ok := bnd[ch]
		if !ok {
			c.Anchor(fmt.Sprintf("case '%c' in typeFromCode", ch))
			continue
		}
		bp := armPreds(body)
		c.Check(eq(bp, wp), fmt.Sprintf("typeFromCode / \\%c uses the word characters of the dialect \\w uses", ch), pos(body, fdB), "\\%c consults %v, \\w consults %v: in a mode named by one list and not the other a boundary is decided with other characters than \\w matches", ch, bp, wp)
	}
}
