package rules

import (
	"fmt"
	"go/token"
	"go/types"
	"os"
	"sort"
	"strings"

	"golang.org/x/tools/go/ssa"

	"regexlint/internal/core"
)

// ---------------------------------------------------------------------------
// R-FX: nothing reachable at match time writes shared (compiled) state.
//
// Whole-program, context-insensitive "shared-derived" taint on SSA over the
// functions reachable from the match-time API.  Sources: *Regexp /
// *compat.Regexp receivers and parameters of the roots, every value of type
// *Regexp or *syntax.Code wherever it is loaded from (r.re, m.regex, r.code
// always denote the shared compiled object), and package-level variables.
// Propagation: field/index address, load, slice, phi, conversions, extraction,
// map/slice element reads, parameter binding over the call graph, results of
// callees that return shared-derived values.  Fresh objects (Alloc, make,
// composite literals, results of sync.Pool.Get) are not shared.
// Sinks: Store / MapUpdate / append / copy-destination / delete whose target is
// shared-derived, and calls of external functions that may mutate a
// shared-derived pointer argument.
// ---------------------------------------------------------------------------

type fxAnalyzer struct {
	c       *core.Ctx
	reach   map[*ssa.Function]bool
	shared  map[ssa.Value]bool
	retSh   map[*ssa.Function]map[int]bool
	callees map[ssa.CallInstruction][]*ssa.Function
	anchorT map[string]bool
}

func (a *fxAnalyzer) isAnchorType(t types.Type) bool {
	pt, ok := t.Underlying().(*types.Pointer)
	if !ok {
		return false
	}
	pkg, name := core.NamedOf(pt)
	return a.anchorT[pkg+"."+name]
}

func pointerLike(t types.Type) bool {
	switch t.Underlying().(type) {
	case *types.Pointer, *types.Slice, *types.Map, *types.Chan, *types.Signature, *types.Interface:
		return true
	}
	return false
}

func (a *fxAnalyzer) isShared(v ssa.Value) bool {
	if _, ok := v.(*ssa.Global); ok {
		return true
	}
	return a.shared[v]
}

func (a *fxAnalyzer) mark(v ssa.Value) bool {
	if v == nil || a.shared[v] {
		return false
	}
	a.shared[v] = true
	if os.Getenv("FX_DEBUG") != "" {
		fn := "?"
		if p, ok := v.(*ssa.Parameter); ok {
			fn = p.Parent().String()
		} else if i, ok := v.(ssa.Instruction); ok {
			fn = i.Parent().String()
		}
		if strings.Contains(fn, os.Getenv("FX_DEBUG")) {
			fmt.Fprintf(os.Stderr, "FX shared: %s in %s : %s (%T)\n", v.Name(), fn, v.String(), v)
		}
	}
	return true
}

func (a *fxAnalyzer) propagate(fns []*ssa.Function) {
	for changed := true; changed; {
		changed = false
		for _, fn := range fns {
			for _, b := range fn.Blocks {
				for _, ins := range b.Instrs {
					v, isVal := ins.(ssa.Value)
					if isVal && !a.shared[v] {
						sh := false
						switch x := ins.(type) {
						case *ssa.FieldAddr:
							sh = a.isShared(x.X)
						case *ssa.Field:
							sh = a.isShared(x.X) && pointerLike(x.Type())
						case *ssa.IndexAddr:
							sh = a.isShared(x.X)
						case *ssa.Index:
							sh = a.isShared(x.X) && pointerLike(x.Type())
						case *ssa.Lookup:
							sh = a.isShared(x.X) && (pointerLike(x.Type()) || isTuple(x.Type()))
						case *ssa.UnOp:
							if x.Op == token.MUL {
								sh = a.isShared(x.X) && pointerLike(x.Type())
								if !sh && a.isAnchorType(x.Type()) {
									sh = true
								}
								// a local cell (results spilled because of a defer, variables captured
								// by reference): what was stored into it comes back out of it
								if al, ok := x.X.(*ssa.Alloc); ok && !sh && pointerLike(x.Type()) {
									for _, r := range core.Referrers(al) {
										if st, ok := r.(*ssa.Store); ok && st.Addr == ssa.Value(al) && a.isShared(st.Val) {
											sh = true
										}
									}
								}
							}
						case *ssa.Slice:
							sh = a.isShared(x.X)
						case *ssa.Phi:
							for _, e := range x.Edges {
								if a.isShared(e) {
									sh = true
								}
							}
						case *ssa.ChangeType:
							sh = a.isShared(x.X)
						case *ssa.Convert:
							sh = a.isShared(x.X) && pointerLike(x.Type())
						case *ssa.MakeInterface:
							sh = a.isShared(x.X)
						case *ssa.TypeAssert:
							sh = a.isShared(x.X) && !isPoolGet(x.X)
						case *ssa.Extract:
							if call, ok := x.Tuple.(*ssa.Call); ok && !isPoolGet(call) && len(a.callees[call]) > 0 {
								for _, cal := range a.callees[call] {
									if a.retSh[cal][x.Index] {
										sh = pointerLike(x.Type())
									}
								}
							} else {
								sh = a.isShared(x.Tuple) && (pointerLike(x.Type()))
							}
						case *ssa.Next:
							sh = a.isShared(x.Iter)
						case *ssa.Range:
							sh = a.isShared(x.X)
						case *ssa.Call:
							if isPoolGet(x) {
								sh = false
							} else {
								for _, cal := range a.callees[x] {
									if a.retSh[cal][0] && !isTuple(x.Type()) {
										sh = pointerLike(x.Type())
									}
								}
							}
						}
						if sh && a.mark(v) {
							changed = true
						}
					}
					// parameter binding
					if ci, ok := ins.(ssa.CallInstruction); ok {
						for _, cal := range a.callees[ci] {
							args := ci.Common().Args
							for i, arg := range args {
								if i < len(cal.Params) && a.isShared(arg) && pointerLike(cal.Params[i].Type()) {
									if a.mark(cal.Params[i]) {
										changed = true
									}
								}
							}
							// closures: bindings -> free vars
							if mc, ok := ci.Common().Value.(*ssa.MakeClosure); ok {
								for i, bnd := range mc.Bindings {
									if i < len(cal.FreeVars) && a.isShared(bnd) {
										if a.mark(cal.FreeVars[i]) {
											changed = true
										}
									}
								}
							}
						}
					}
					if mc, ok := ins.(*ssa.MakeClosure); ok {
						if cl, ok := mc.Fn.(*ssa.Function); ok {
							for i, bnd := range mc.Bindings {
								if i < len(cl.FreeVars) && a.isShared(bnd) {
									if a.mark(cl.FreeVars[i]) {
										changed = true
									}
								}
							}
						}
					}
					if ret, ok := ins.(*ssa.Return); ok {
						for ri, r := range ret.Results {
							if a.isShared(r) && !a.retSh[fn][ri] {
								if a.retSh[fn] == nil {
									a.retSh[fn] = map[int]bool{}
								}
								a.retSh[fn][ri] = true
								changed = true
							}
						}
					}
				}
			}
		}
	}
}

func isTuple(t types.Type) bool { _, ok := t.(*types.Tuple); return ok }

func isPoolGet(v ssa.Value) bool {
	call, ok := v.(*ssa.Call)
	if !ok {
		return false
	}
	cal := call.Call.StaticCallee()
	return cal != nil && cal.String() == "(*sync.Pool).Get"
}

// external callees that may be handed shared pointers without writing through them
var fxReadOnlyExternalPkgs = map[string]bool{
	"unicode": true, "unicode/utf8": true, "strings": true, "strconv": true, "fmt": true, "math": true,
	"errors": true, "time": true, "log": true, "bytes": false,
}

var fxReadOnlyExternalFuncs = map[string]bool{
	"slices.Contains": true, "slices.Index": true, "slices.BinarySearch": true, "slices.Equal": true, "slices.Clone": true,
	"sort.Search": true, "sort.SearchInts": true,
	"(*sync.Pool).Get": true, "(*sync.Pool).Put": true,
	"(*sync.Mutex).Lock": true, "(*sync.Mutex).Unlock": true, "(*sync.RWMutex).Lock": true, "(*sync.RWMutex).Unlock": true,
	"(*sync.RWMutex).RLock": true, "(*sync.RWMutex).RUnlock": true,
	"sync/atomic.LoadInt64": true, "sync/atomic.StoreInt64": true,
	"(time.Time).IsZero": true,
}

// shared state that is written at match time by design, each with the rule that protects it
var fxProtected = []struct{ what, how string }{
	{"regexp2.replacerDataCache", "guarded by its mutex (R-LOCK)"},
	{"container/list", "the cache's LRU list, guarded by the cache mutex (R-LOCK)"},
	{"regexp2.fast", "timeout clock: atomics + mutex (R-LOCK)"},
	{"regexp2.fastclock", "timeout clock: atomics + mutex (R-LOCK)"},
	{"regexp2.atomicTime", "accessed with sync/atomic only (R-LOCK)"},
	{"regexp2.pooledSliceBuffers", "size-classed sync.Pools"},
	{"regexp2.pooledRuneBuffers", "size-classed sync.Pools"},
	{"regexp2.pooledByteBuffers", "size-classed sync.Pools"},
	{"regexp2.engines", "guarded by enginesMu (R-LOCK)"},
}

func RFx(c *core.Ctx) {
	c.Rule("R-FX", "no Store / MapUpdate / append / copy / delete reachable from the match-time API targets memory derived from a *Regexp, a *syntax.Code or a package-level variable, except the lock- or atomic-protected caches, pools and clock (checked by R-LOCK) and the guarded lazy initCaches; external callees handed shared pointers are known read-only or synchronised", 10)
	p := c.P
	prog := p.SSA()
	cg := p.CallGraph()
	a := &fxAnalyzer{c: c, shared: map[ssa.Value]bool{}, retSh: map[*ssa.Function]map[int]bool{}, callees: map[ssa.CallInstruction][]*ssa.Function{},
		anchorT: map[string]bool{core.PkgRoot + ".Regexp": true, core.PkgSyntax + ".Code": true, core.PkgCompat + ".Regexp": true}}
	// roots
	excluded := map[string]string{
		"regexp2.(*Regexp).UnmarshalText": "documented mutator: replaces the receiver",
	}
	var roots []*ssa.Function
	addMethods := func(short, tname string, sharedRecv bool) {
		tn, _ := p.Pkg(short).Types.Scope().Lookup(tname).(*types.TypeName)
		if tn == nil {
			c.Anchor(short + "." + tname)
			return
		}
		for _, t := range []types.Type{tn.Type(), types.NewPointer(tn.Type())} {
			ms := prog.MethodSets.MethodSet(t)
			for i := 0; i < ms.Len(); i++ {
				if !ms.At(i).Obj().Exported() {
					continue
				}
				f := prog.MethodValue(ms.At(i))
				if f == nil || f.Blocks == nil || f.Synthetic != "" {
					continue
				}
				if _, ex := excluded[core.SSAName(f)]; ex {
					continue
				}
				roots = append(roots, f)
				if sharedRecv && len(f.Params) > 0 {
					a.mark(f.Params[0])
				}
			}
		}
	}
	addMethods("", "Regexp", true)
	addMethods("compat", "Regexp", true)
	addMethods("", "Match", false)
	addMethods("", "Group", false)
	addMethods("", "Capture", false)
	seenRoot := map[*ssa.Function]bool{}
	var uroots []*ssa.Function
	for _, r := range roots {
		if !seenRoot[r] {
			seenRoot[r] = true
			uroots = append(uroots, r)
		}
	}
	roots = uroots
	a.reach = p.Reachable(roots)
	var fns []*ssa.Function
	for f := range a.reach {
		if f.Blocks != nil && core.InModule(f) {
			fns = append(fns, f)
		}
	}
	sort.Slice(fns, func(i, j int) bool { return fns[i].String() < fns[j].String() })
	// callee resolution
	for _, fn := range fns {
		node := cg.Nodes[fn]
		if node == nil {
			continue
		}
		for _, e := range node.Out {
			if e.Site != nil && e.Callee.Func != nil && e.Callee.Func.Blocks != nil && core.InModule(e.Callee.Func) {
				a.callees[e.Site] = append(a.callees[e.Site], e.Callee.Func)
			}
		}
	}
	a.propagate(fns)
	c.Note("R-FX: %d roots, %d reachable module functions, %d shared-derived SSA values", len(roots), len(fns), len(a.shared))

	protected := func(v ssa.Value) (string, bool) {
		// walk the address chain to its base and look at the types on the way
		cur := v
		for i := 0; i < 12 && cur != nil; i++ {
			t := cur.Type()
			if pt, ok := t.Underlying().(*types.Pointer); ok {
				t = pt.Elem()
			}
			pkg, name := core.NamedOf(t)
			full := pkg + "." + name
			if g, ok := cur.(*ssa.Global); ok {
				full = g.Pkg.Pkg.Path() + "." + g.Name()
			}
			full = strings.Replace(full, core.Mod, "regexp2", 1)
			for _, pr := range fxProtected {
				if strings.HasPrefix(full, pr.what) {
					return pr.how, true
				}
			}
			switch x := cur.(type) {
			case *ssa.FieldAddr:
				cur = x.X
			case *ssa.IndexAddr:
				cur = x.X
			case *ssa.UnOp:
				cur = x.X
			case *ssa.Slice:
				cur = x.X
			case *ssa.Phi:
				cur = x.Edges[0]
			case *ssa.TypeAssert:
				cur = x.X
			case *ssa.Field:
				cur = x.X
			case *ssa.Extract:
				cur = x.Tuple
			case *ssa.Call:
				if len(x.Call.Args) > 0 {
					cur = x.Call.Args[0]
				} else {
					cur = nil
				}
			default:
				cur = nil
			}
		}
		return "", false
	}

	ord := map[string]int{}
	report := func(fn *ssa.Function, pos token.Pos, what string, target ssa.Value) {
		name := core.SSAName(fn)
		c.Visit(name)
		if how, ok := protected(target); ok {
			k := name + " / " + what + " (protected)"
			ord[k]++
			c.OK(fmt.Sprintf("%s #%d", k, ord[k]), pos, "write to shared state that is %s", how)
			return
		}
		// initCaches: lazily reachable from getRunner under runnerPool == nil
		if name == "regexp2.(*Regexp).initCaches" {
			k := name + " / " + what
			ord[k]++
			c.Check(initCachesAlwaysCalled(c), fmt.Sprintf("%s #%d", k, ord[k]), pos, "initCaches writes the Regexp; it is reachable at match time only under runnerPool == nil, which cannot hold if every constructor of a Regexp calls initCaches before returning it")
			return
		}
		k := name + " / " + what
		ord[k]++
		c.Bad(fmt.Sprintf("%s #%d", k, ord[k]), pos, "writes memory derived from a shared Regexp/Code/global (%s) while reachable from the match-time API: a data race under concurrent use", target.String())
	}
	for _, fn := range fns {
		for _, b := range fn.Blocks {
			for _, ins := range b.Instrs {
				switch x := ins.(type) {
				case *ssa.Store:
					if a.isShared(x.Addr) {
						report(fn, x.Pos(), "store", x.Addr)
					}
				case *ssa.MapUpdate:
					if a.isShared(x.Map) {
						report(fn, x.Pos(), "map update", x.Map)
					}
				case ssa.CallInstruction:
					cc := x.Common()
					if bi, ok := cc.Value.(*ssa.Builtin); ok {
						switch bi.Name() {
						case "append", "copy", "delete", "clear":
							if len(cc.Args) > 0 && a.isShared(cc.Args[0]) {
								report(fn, x.Pos(), bi.Name(), cc.Args[0])
							}
						}
						continue
					}
					cal := cc.StaticCallee()
					if cal == nil || core.InModule(cal) {
						continue
					}
					// external callee with shared pointer-like args
					var sharedArg ssa.Value
					for _, arg := range cc.Args {
						if a.isShared(arg) && pointerLike(arg.Type()) {
							if _, isStr := arg.Type().Underlying().(*types.Basic); !isStr {
								sharedArg = arg
							}
						}
					}
					if sharedArg == nil {
						continue
					}
					full := cal.String()
					pkgPath := ""
					if cal.Pkg != nil {
						pkgPath = cal.Pkg.Pkg.Path()
					} else if o := cal.Object(); o != nil && o.Pkg() != nil {
						pkgPath = o.Pkg().Path()
					}
					short := strings.TrimPrefix(full, "(")
					_ = short
					if i := strings.IndexByte(full, '['); i > 0 && !strings.HasPrefix(full, "(") {
						full = full[:i] // generic instantiation: slices.Contains[[]rune rune]
					}
					if fxReadOnlyExternalPkgs[pkgPath] || fxReadOnlyExternalFuncs[full] || fxReadOnlyExternalFuncs[pkgPath+"."+cal.Name()] {
						continue
					}
					report(fn, x.Pos(), "external call "+full, sharedArg)
				}
			}
		}
	}
}

// initCachesAlwaysCalled: every function that builds a Regexp composite
// literal calls initCaches on it.
func initCachesAlwaysCalled(c *core.Ctx) bool {
	p := c.P
	initCaches := p.SSAFunc(p.LookupFunc("", "Regexp.initCaches"))
	reT, _ := p.LookupObj("", "Regexp").(*types.TypeName)
	if initCaches == nil || reT == nil {
		return false
	}
	ok := true
	n := 0
	for _, fn := range p.ModuleFuncs() {
		for _, b := range fn.Blocks {
			for _, ins := range b.Instrs {
				al, isAlloc := ins.(*ssa.Alloc)
				if !isAlloc {
					continue
				}
				if nt, isN := al.Type().(*types.Pointer).Elem().(*types.Named); !isN || nt.Obj() != reT {
					continue
				}
				n++
				called := false
				for _, r := range core.Referrers(al) {
					if ci, isCall := r.(ssa.CallInstruction); isCall && ci.Common().StaticCallee() == initCaches {
						called = true
					}
				}
				if !called {
					ok = false
				}
			}
		}
	}
	return ok && n > 0
}
