package rules

import (
	"fmt"
	"go/token"
	"go/types"
	"sort"

	"golang.org/x/tools/go/ssa"

	"regexlint/internal/core"
)

// ---------------------------------------------------------------------------
// R-FWDONLY: a left-to-right finder never moves the scan position backwards.
//
// scan() hands findFirstChar the position after the previous match (or after
// the previous failed attempt) in Runtextpos and resumes the interpreter where
// the finder leaves it.  Every finder reached from findFirstCharOptimized (all
// of them left-to-right modes) may only move it forwards: a candidate that
// lies before the incoming position makes the next match overlap the previous
// one or lets the same attempt repeat for ever (C07), and it is a position the
// accelerator has no business proposing (C03).
//
// For every store to Runner.Runtextpos in those functions the stored value v
// is shown to satisfy v >= P (P = the incoming Runtextpos) by a small
// derivation over SSA, evaluated at the program point of the store:
//   load r.Runtextpos                       >= P   (by induction on the stores)
//   load r.Runtextend                       >= P   (scan's invariant, an assumption)
//   a + b          with  a >= P  and  b >= 0
//   v              where a dominating branch condition compares v with a
//                  load of r.Runtextpos (v >= pos, !(v < pos))
//   v - 1          where a dominating branch condition says v > pos
//   phi            every incoming value, judged on its edge (coinductively:
//                  a loop variable that starts >= P and is only advanced)
//   f(…, a, …)     a >= P, the callee returns -1 or a value >= that parameter
//                  (summary computed by the same derivation), and a dominating
//                  condition excludes the negative result
//   min(a, b)      both
// b >= 0: non-negative constants, len(…), values under a dominating b >= 0 /
// !(b < 0) test.  Anything else is "not shown", which fails the check.
// ---------------------------------------------------------------------------

type fwdCtx struct {
	p          *core.Program
	pos        *types.Var            // Runner.Runtextpos
	end        *types.Var            // Runner.Runtextend
	summary    map[*ssa.Function]int // callee -> index of the parameter its non-negative results are >= of (-1: none)
	busy       map[*ssa.Function]bool
	noSentinel map[*ssa.Function]bool // callee never returns the -1 "not found" answer
	jointBase  bool                   // while summarising: any integer parameter is a base
}

func isFieldLoad(v ssa.Value, f *types.Var) bool {
	ld, ok := v.(*ssa.UnOp)
	return ok && ld.Op == token.MUL && core.FieldVarOfAddr(ld.X) == f
}

// factsAt: facts that hold at block b, plus (when pred != nil) the fact of the edge pred -> b.
func fwdFacts(b, pred *ssa.BasicBlock) []core.SSAFact {
	if pred != nil {
		return core.FactsOnEdge(pred, b)
	}
	return core.FactsAtBlock(b)
}

// nonNeg: v >= 0 at the given point
func (fc *fwdCtx) nonNeg(v ssa.Value, facts []core.SSAFact) bool {
	if k, ok := core.IntConst(v); ok {
		return k >= 0
	}
	if call, ok := v.(*ssa.Call); ok {
		if bi, ok := call.Call.Value.(*ssa.Builtin); ok && (bi.Name() == "len" || bi.Name() == "cap") {
			return true
		}
	}
	for _, f := range facts {
		x, y, op, ok := core.CmpNorm(f)
		if !ok {
			continue
		}
		// 0 <= v, 0 < v, -1 < v
		if y == v {
			if k, isC := core.IntConst(x); isC && ((op == token.LEQ && k >= 0) || (op == token.LSS && k >= -1)) {
				return true
			}
		}
	}
	return false
}

// ge: v >= base at the given point.  base is "the incoming position" when baseParam == nil (loads of
// Runtextpos / Runtextend count), or >= the given parameter (used for callee summaries).
func (fc *fwdCtx) ge(v ssa.Value, facts []core.SSAFact, baseParam *ssa.Parameter, inProgress map[ssa.Value]bool, depth int) (bool, string) {
	if depth > 24 {
		return false, "derivation too deep"
	}
	isBase := func(x ssa.Value) bool {
		if baseParam != nil {
			if x == ssa.Value(baseParam) {
				return true
			}
			// joint summary: any integer parameter of the callee counts (the result is then >= the least of them)
			if fc.jointBase {
				if prm, ok := x.(*ssa.Parameter); ok && prm.Parent() == baseParam.Parent() {
					if bt, ok := prm.Type().Underlying().(*types.Basic); ok && bt.Kind() == types.Int {
						return true
					}
				}
			}
			return false
		}
		return isFieldLoad(x, fc.pos)
	}
	if isBase(v) {
		return true, ""
	}
	if baseParam == nil && isFieldLoad(v, fc.end) {
		return true, ""
	}
	// a dominating comparison of v with the base
	for _, f := range facts {
		x, y, op, ok := core.CmpNorm(f)
		if !ok {
			continue
		}
		if y == v && isBase(x) && (op == token.LEQ || op == token.LSS || op == token.EQL) {
			return true, ""
		}
		if x == v && isBase(y) && op == token.EQL {
			return true, ""
		}
	}
	switch x := v.(type) {
	case *ssa.Phi:
		if inProgress[x] {
			return true, "" // coinductive hypothesis
		}
		inProgress[x] = true
		defer delete(inProgress, x)
		for i, e := range x.Edges {
			ok, why := fc.ge(e, fwdFacts(x.Block(), x.Block().Preds[i]), baseParam, inProgress, depth+1)
			if !ok {
				return false, why
			}
		}
		return true, ""
	case *ssa.BinOp:
		switch x.Op {
		case token.ADD:
			if ok, _ := fc.ge(x.X, facts, baseParam, inProgress, depth+1); ok && fc.nonNeg(x.Y, facts) {
				return true, ""
			}
			if ok, _ := fc.ge(x.Y, facts, baseParam, inProgress, depth+1); ok && fc.nonNeg(x.X, facts) {
				return true, ""
			}
			return false, fmt.Sprintf("%s: neither operand is known >= the position with the other >= 0", x.String())
		case token.SUB:
			// v - 1 under v > base
			if k, isC := core.IntConst(x.Y); isC && k == 1 {
				for _, f := range facts {
					a, b, op, ok := core.CmpNorm(f)
					if ok && b == x.X && isBase(a) && op == token.LSS {
						return true, ""
					}
				}
			}
			return false, fmt.Sprintf("%s: a subtraction with no dominating comparison against the position", x.String())
		}
	case *ssa.Convert:
		return fc.ge(x.X, facts, baseParam, inProgress, depth+1)
	case *ssa.Call:
		if bi, ok := x.Call.Value.(*ssa.Builtin); ok && bi.Name() == "min" {
			for _, a := range x.Call.Args {
				if ok, why := fc.ge(a, facts, baseParam, inProgress, depth+1); !ok {
					return false, why
				}
			}
			return true, ""
		}
		if bi, ok := x.Call.Value.(*ssa.Builtin); ok && bi.Name() == "max" {
			// the greatest argument is at least any one of them
			why := ""
			for _, a := range x.Call.Args {
				ok, w := fc.ge(a, facts, baseParam, inProgress, depth+1)
				if ok {
					return true, ""
				}
				why = w
			}
			return false, "max(...): no argument is known >= the position (" + why + ")"
		}
		if cal := x.Call.StaticCallee(); cal != nil && core.InModule(cal) {
			k := fc.summarise(cal)
			if k == -2 {
				// the result is >= the least of the callee's integer parameters: every such argument must be >= the position
				allOK := true
				why := ""
				for i, prm := range cal.Params {
					if bt, ok := prm.Type().Underlying().(*types.Basic); !ok || bt.Kind() != types.Int || i >= len(x.Call.Args) {
						continue
					}
					if ok, w := fc.ge(x.Call.Args[i], facts, baseParam, inProgress, depth+1); !ok {
						allOK, why = false, w
					}
				}
				if allOK && (fc.noSentinel[cal] || fc.nonNeg(x, facts)) {
					return true, ""
				}
				return false, fmt.Sprintf("result of %s: it is >= the least of its integer arguments, one of which is not shown >= the position (%s)", cal.Name(), why)
			}
			if k >= 0 && k < len(x.Call.Args) {
				if ok, _ := fc.ge(x.Call.Args[k], facts, baseParam, inProgress, depth+1); ok && (fc.noSentinel[cal] || fc.nonNeg(x, facts)) {
					return true, ""
				}
				return false, fmt.Sprintf("result of %s: needs argument %d >= the position and a dominating test excluding the negative result", cal.Name(), k)
			}
			return false, fmt.Sprintf("result of %s: no summary relates it to an argument", cal.Name())
		}
	}
	return false, fmt.Sprintf("%s (%T) is not related to the incoming position", v.String(), v)
}

// summarise: index k such that every return of fn is the constant -1 or a value >= parameter k.
func (fc *fwdCtx) summarise(fn *ssa.Function) int {
	if k, ok := fc.summary[fn]; ok {
		return k
	}
	if fc.busy[fn] {
		return -1
	}
	fc.busy[fn] = true
	defer delete(fc.busy, fn)
	res := -1
	if fn.Signature.Results().Len() == 1 && len(fn.Blocks) > 0 {
		for k, prm := range fn.Params {
			if bt, ok := prm.Type().Underlying().(*types.Basic); !ok || bt.Kind() != types.Int {
				continue
			}
			all, some := true, false
			sentinel := false
			for _, b := range fn.Blocks {
				ret, ok := b.Instrs[len(b.Instrs)-1].(*ssa.Return)
				if !ok {
					continue
				}
				if c, isC := core.IntConst(ret.Results[0]); isC && c == -1 {
					sentinel = true
					continue
				}
				some = true
				if ok, _ := fc.ge(ret.Results[0], core.FactsAtBlock(b), prm, map[ssa.Value]bool{}, 0); !ok {
					all = false
				}
			}
			if all && some {
				res = k
				if !sentinel {
					// every return is >= the parameter: no "not found" answer to exclude at the call site
					fc.noSentinel[fn] = true
				}
				break
			}
		}
	}
	if res == -1 && fn.Signature.Results().Len() == 1 && len(fn.Blocks) > 0 {
		// no single parameter bounds every return: try them jointly (rewind(pos, limit) returns pos or something >= limit)
		var first *ssa.Parameter
		for _, prm := range fn.Params {
			if bt, ok := prm.Type().Underlying().(*types.Basic); ok && bt.Kind() == types.Int {
				first = prm
				break
			}
		}
		if first != nil {
			fc.jointBase = true
			all, some, sentinel := true, false, false
			for _, b := range fn.Blocks {
				ret, ok := b.Instrs[len(b.Instrs)-1].(*ssa.Return)
				if !ok {
					continue
				}
				if c, isC := core.IntConst(ret.Results[0]); isC && c == -1 {
					sentinel = true
					continue
				}
				some = true
				if ok, _ := fc.ge(ret.Results[0], core.FactsAtBlock(b), first, map[ssa.Value]bool{}, 0); !ok {
					all = false
				}
			}
			fc.jointBase = false
			if all && some {
				res = -2
				if !sentinel {
					fc.noSentinel[fn] = true
				}
			}
		}
	}
	fc.summary[fn] = res
	return res
}

func RFwdOnly(c *core.Ctx) {
	c.Rule("R-FWDONLY", "in findFirstCharOptimized and every function it reaches (the left-to-right finders) each value stored into Runner.Runtextpos is shown, at the store, to be >= the incoming Runtextpos: derived from loads of Runtextpos/Runtextend, additions of non-negative values, dominating comparisons with Runtextpos, advancing loop variables, and index helpers that return -1 or a value >= their start argument", 12)
	p := c.P
	root := p.SSAFunc(p.LookupFunc("", "findFirstCharOptimized"))
	pos := p.LookupField("", "Runner", "Runtextpos")
	end := p.LookupField("", "Runner", "Runtextend")
	if root == nil || pos == nil || end == nil {
		c.Anchor("findFirstCharOptimized / Runner.Runtextpos / Runtextend")
		return
	}
	fc := &fwdCtx{p: p, pos: pos, end: end, summary: map[*ssa.Function]int{}, busy: map[*ssa.Function]bool{}, noSentinel: map[*ssa.Function]bool{}}
	// functions reached through static calls
	reach := map[*ssa.Function]bool{}
	work := []*ssa.Function{root}
	for len(work) > 0 {
		fn := work[0]
		work = work[1:]
		if reach[fn] || !core.InModule(fn) {
			continue
		}
		reach[fn] = true
		for _, b := range fn.Blocks {
			for _, ins := range b.Instrs {
				if call, ok := ins.(ssa.CallInstruction); ok {
					if cal := call.Common().StaticCallee(); cal != nil {
						work = append(work, cal)
					}
				}
			}
		}
	}
	var fns []*ssa.Function
	for fn := range reach {
		fns = append(fns, fn)
	}
	sort.Slice(fns, func(i, j int) bool { return core.SSAName(fns[i]) < core.SSAName(fns[j]) })
	n := 0
	for _, fn := range fns {
		name := core.SSAName(fn)
		cnt := 0
		for _, b := range fn.Blocks {
			for _, ins := range b.Instrs {
				st, ok := ins.(*ssa.Store)
				if !ok || core.FieldVarOfAddr(st.Addr) != pos {
					continue
				}
				cnt++
				n++
				c.Visit(name)
				ok2, why := fc.ge(st.Val, core.FactsAtBlock(b), nil, map[ssa.Value]bool{}, 0)
				c.Check(ok2, fmt.Sprintf("%s / store #%d to Runtextpos does not move backwards", name, cnt), st.Pos(),
					"the stored value is not shown to be >= the incoming scan position: %s — a candidate before the position handed in makes successive matches overlap or an attempt repeat", why)
			}
		}
	}
	if n == 0 {
		c.Anchor("stores to Runtextpos in the left-to-right finders")
	}
}
