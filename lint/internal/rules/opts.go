package rules

import (
	"fmt"
	"go/ast"
	"go/token"
	"go/types"

	"golang.org/x/tools/go/ast/astutil"

	"regexlint/internal/core"
)

// ---------------------------------------------------------------------------
// C18: inline options equal compile-time options
// ---------------------------------------------------------------------------

// R-TOPONLY: the compile-time option words are consulted only for options that
// cannot be set inline.
func RTopOnly(c *core.Ctx) {
	c.Rule("R-TOPONLY", "every read of a compile-time option word (Regexp.options, RegexTree.Options, ParseOptions.RegexOptions, compileConfig.regexOptions) either initialises a parser's current options / a tree's or Regexp's option word, is passed on whole to such an initialiser, or is masked with a constant made only of options that cannot be set inline (RightToLeft, ECMAScript, RE2, Unicode, Debug-like top options): everything that depends on IgnoreCase, Multiline, Singleline, ExplicitCapture or IgnorePatternWhitespace must read the parser's current options or a node's Options", 8)
	p := c.P
	type fieldRef struct{ short, typ, field string }
	var watched []*types.Var
	for _, fr := range []fieldRef{{"", "Regexp", "options"}, {"syntax", "RegexTree", "Options"}, {"syntax", "ParseOptions", "RegexOptions"}, {"", "compileConfig", "regexOptions"}} {
		v := p.LookupField(fr.short, fr.typ, fr.field)
		if v == nil {
			c.Anchor(fr.short + "." + fr.typ + "." + fr.field)
			return
		}
		watched = append(watched, v)
	}
	isWatched := func(v *types.Var) bool {
		for _, w := range watched {
			if w == v {
				return true
			}
		}
		return false
	}
	inlineBits := int64(0)
	for _, pk := range []string{"syntax"} {
		for _, n := range []string{"IgnoreCase", "Multiline", "Singleline", "ExplicitCapture", "IgnorePatternWhitespace"} {
			v, ok := constInScope(p.Pkg(pk).Types, n)
			if !ok {
				c.Anchor(pk + "." + n)
				return
			}
			inlineBits |= v
		}
	}
	ord := map[string]int{}
	for _, pk := range p.ModulePkgs() {
		info := pk.TypesInfo
		for _, f := range pk.Syntax {
			if p.IsTestFile(f.Pos()) {
				continue
			}
			for _, d := range f.Decls {
				fd, ok := d.(*ast.FuncDecl)
				if !ok || fd.Body == nil {
					continue
				}
				name := core.DeclName(pk, fd)
				ast.Inspect(fd.Body, func(n ast.Node) bool {
					sel, ok := n.(*ast.SelectorExpr)
					if !ok {
						return true
					}
					fv := core.FieldOf(info, sel)
					if fv == nil || !isWatched(fv) {
						return true
					}
					path, _ := astutil.PathEnclosingInterval(f, sel.Pos(), sel.End())
					// path[0] is sel (or its Sel ident); climb through parens and conversions
					var cur ast.Node = sel
					i := 0
					for i < len(path) && path[i] != ast.Node(sel) {
						i++
					}
					kind, detail := "", ""
					for j := i + 1; j < len(path); j++ {
						parent := path[j]
						switch x := parent.(type) {
						case *ast.ParenExpr:
							cur = x
							continue
						case *ast.CallExpr:
							// conversion T(x) ?
							if tv, ok := info.Types[x.Fun]; ok && tv.IsType() {
								cur = x
								continue
							}
							// argument passed whole to a function
							kind, detail = "passed", types.ExprString(x.Fun)
						case *ast.BinaryExpr:
							if x.Op == token.AND {
								other := x.Y
								if x.Y == cur {
									other = x.X
								}
								if k, ok := core.ConstInt(info, other); ok {
									if k&inlineBits == 0 {
										kind, detail = "masked-top", types.ExprString(other)
									} else {
										kind, detail = "masked-inline", types.ExprString(other)
									}
								} else {
									kind, detail = "masked-nonconst", types.ExprString(other)
								}
							} else if x.Op == token.OR || x.Op == token.AND_NOT {
								kind, detail = "combined", x.Op.String()
							} else {
								kind, detail = "compared", x.Op.String()
							}
						case *ast.AssignStmt:
							isLhs := false
							for _, l := range x.Lhs {
								if l == cur {
									isLhs = true
								}
							}
							if isLhs {
								kind, detail = "write", ""
							} else {
								kind, detail = "assigned", types.ExprString(x.Lhs[0])
							}
						case *ast.KeyValueExpr:
							if x.Key == cur {
								kind, detail = "write", "" // composite literal key
							} else {
								kind, detail = "assigned", types.ExprString(x.Key)
							}
						case *ast.ReturnStmt:
							kind, detail = "returned", ""
						default:
							kind, detail = "other", fmt.Sprintf("%T", parent)
						}
						break
					}
					if kind == "write" {
						return true
					}
					c.Visit(name)
					ord[name]++
					key := fmt.Sprintf("%s / read #%d of %s", name, ord[name], types.ExprString(sel))
					switch kind {
					case "masked-top":
						c.OK(key, sel.Pos(), "masked with %s (top-level-only options)", detail)
					case "assigned", "passed", "returned", "combined":
						c.OK(key, sel.Pos(), "handed on whole (%s %s): becomes the initial option word of a parser / tree / Regexp", kind, detail)
					default:
						c.Bad(key, sel.Pos(), "the compile-time option word is %s (%s): an option that can also be given inline must be read from the parser's current options or the node's Options, otherwise (?O) and the compile-time flag behave differently", kind, detail)
					}
					return true
				})
			}
		}
	}
}

// R-OPTSTACK: push/pop discipline of the option stack in both passes.
func ROptStack(c *core.Ctx) {
	c.Rule("R-OPTSTACK", "in the main parse (scanRegex) and the pre-scan (countCaptures): popOptions appears only in the `)` arm and popKeepOptions only in the `(` arm; on every path through the `(` arm the net number of saved option words (pushOptions minus pops) is 1 exactly when a group is opened (scanRegex: pushGroup) and 0 otherwise, so inline options end with their group and option-only groups (?i) keep theirs", 6)
	p := c.P
	syn := p.Pkg("syntax")
	info := syn.TypesInfo
	push := p.LookupFunc("syntax", "parser.pushOptions")
	pop := p.LookupFunc("syntax", "parser.popOptions")
	popKeep := p.LookupFunc("syntax", "parser.popKeepOptions")
	pushGroup := p.LookupFunc("syntax", "parser.pushGroup")
	scanBlank := p.LookupFunc("syntax", "parser.scanBlank")
	scanOptions := p.LookupFunc("syntax", "parser.scanOptions")
	moveRight := p.LookupFunc("syntax", "parser.moveRight")
	if push == nil || pop == nil || popKeep == nil || pushGroup == nil {
		c.Anchor("parser.pushOptions / popOptions / popKeepOptions / pushGroup")
		return
	}
	for _, fname := range []string{"parser.scanRegex", "parser.countCaptures"} {
		fn := p.LookupFunc("syntax", fname)
		fd, _ := p.DeclOf(fn)
		if fd == nil {
			c.Anchor("syntax." + fname)
			continue
		}
		name := core.FuncName(fn)
		c.Visit(name)
		// find the switch on the current character with '(' and ')' arms
		var open, closeArm *ast.CaseClause
		ast.Inspect(fd.Body, func(n ast.Node) bool {
			sw, ok := n.(*ast.SwitchStmt)
			if !ok {
				return true
			}
			for _, st := range sw.Body.List {
				cc := st.(*ast.CaseClause)
				for _, e := range cc.List {
					if v, ok := core.ConstInt(info, e); ok {
						if v == '(' && open == nil {
							open = cc
						}
						if v == ')' && closeArm == nil {
							closeArm = cc
						}
					}
				}
			}
			return open == nil || closeArm == nil
		})
		if open == nil || closeArm == nil {
			c.Anchor("case '(' / case ')' in " + fname)
			continue
		}
		count := func(n ast.Node, fn *types.Func) int {
			return len(core.CallsIn(info, n, fn))
		}
		openBlk := &ast.BlockStmt{List: open.Body}
		closeBlk := &ast.BlockStmt{List: closeArm.Body}
		c.Check(count(openBlk, pop) == 0, name+" / no popOptions in the `(` arm", open.Pos(), "an option-only group (?i) must keep the options it set (popKeepOptions); popOptions would restore the old ones")
		c.Check(count(closeBlk, popKeep) == 0 && count(closeBlk, pop) >= 1, name+" / the `)` arm restores options with popOptions", closeArm.Pos(), "options set inside a group end with the group")
		// an option-only group (?i) keeps what it set: both passes need a popKeepOptions path (after scanOptions / when
		// scanGroupOpen opened no group); without it the `)` arm restores the old options and the passes disagree
		c.Check(count(openBlk, popKeep) >= 1, name+" / the `(` arm has a popKeepOptions path for option-only groups", open.Pos(), "no popKeepOptions in the `(` arm: an option-only group (?n) / (?x) is undone by the popOptions of its `)` in this pass only")
		// whole function: pops only in those arms
		c.Check(count(fd.Body, pop) == count(closeBlk, pop) && count(fd.Body, popKeep) == count(openBlk, popKeep) && count(fd.Body, push) == count(openBlk, push),
			name+" / option stack touched only in the paren arms", fd.Pos(), "push/pop calls outside `case '('` / `case ')'`")
		// path balance through the '(' arm
		pe := &pathEnum{info: info, limit: 20000, ok: true}
		paths := pe.paths(open.Body, -1)
		if !pe.ok {
			c.Unknown(name+" / `(` arm path enumeration", open.Pos(), "%s", pe.why)
			continue
		}
		bad := ""
		np := 0
		for _, sp := range paths {
			if sp.exit == exitReturn {
				continue
			}
			np++
			net, groups := 0, 0
			for _, e := range sp.events {
				switch e.fn {
				case push:
					net++
				case pop, popKeep:
					net--
				case pushGroup:
					groups++
				}
			}
			want := groups
			if fname == "parser.countCaptures" {
				// the pre-scan opens no group objects: a path keeps one saved word unless it was a
				// comment (no push at all) or an option-only group (push + popKeepOptions)
				if net != 0 && net != 1 {
					bad = fmt.Sprintf("a path leaves %d saved option words", net)
				}
				// an option-only group (?i) consumes its own `)` before dropping the saved word; otherwise the
				// main loop sees that `)` again and pops the ENCLOSING group's saved options as well
				seenOpts, consumed := false, false
				for _, e := range sp.events {
					switch {
					case e.fn != nil && e.fn == scanOptions:
						seenOpts, consumed = true, false
					case e.fn != nil && e.fn == moveRight && seenOpts:
						consumed = true
					case e.fn == popKeep:
						if !seenOpts || !consumed {
							bad = "popKeepOptions is reached without consuming the `)` that closes the option-only group (no moveRight between scanOptions and popKeepOptions): the `)` arm then pops the enclosing group's options too"
						}
					}
				}
				// a comment (?#…) is consumed together with its closing `)` by scanBlank: a path that saved
				// the options before doing so leaves a word on the stack that no `)` arm will ever pop for it —
				// the enclosing group's `)` then restores the options as they were at the comment
				{
					blank, pushed := false, false
					for _, e := range sp.events {
						switch {
						case e.fn == push:
							pushed = true
						case e.fn != nil && e.fn == scanBlank:
							blank = true
						}
					}
					if blank && pushed && net != 0 {
						bad = "a path saves the options and then consumes a (?#…) comment including its `)` (scanBlank): the saved word is never popped by that `)`, so a bare (?-n) / (?x) earlier in the enclosing group is undone at the wrong place in the pre-scan only"
					}
				}
				if net == 0 {
					// allowed only for an option-only group (push + popKeepOptions) or a comment (scanBlank, nothing pushed):
					// a plain `(` that saves nothing makes the matching `)` pop the enclosing group's options
					keep, blank, pushed := false, false, false
					for _, e := range sp.events {
						switch {
						case e.fn == popKeep:
							keep = true
						case e.fn == push:
							pushed = true
						case e.fn != nil && e.fn == scanBlank:
							blank = true
						}
					}
					if !(keep && pushed) && !(blank && !pushed) {
						bad = "a path through the `(` arm opens a group without saving the options (its `)` then pops the enclosing group's saved options)"
					}
				}
				continue
			}
			if net != want {
				bad = fmt.Sprintf("a path saves %d option word(s) but opens %d group(s)", net, groups)
			}
		}
		c.Check(bad == "", name+" / saved option words match opened groups on every path", open.Pos(), "%d non-returning paths; %s", np, bad)
	}
}

// R-OPTSIGN: in an inline option group the sign characters select the mode
// absolutely: after '-' letters are switched off, after '+' they are switched
// on again ((?i-s+m) turns m ON).
func ROptSign(c *core.Ctx) {
	c.Rule("R-OPTSIGN", "in scanOptions the flag that selects between `options &= ^option` and `options |= option` is assigned the constant true in the case arm of '-' and the constant false in the case arm of '+' (each sign sets the mode absolutely; a '+' after a '-' switches back to turning options on)", 2)
	p := c.P
	syn := p.Pkg("syntax")
	info := syn.TypesInfo
	fd, _ := p.DeclOf(p.LookupFunc("syntax", "parser.scanOptions"))
	if fd == nil {
		c.Anchor("syntax.parser.scanOptions")
		return
	}
	c.Visit("syntax.(*parser).scanOptions")
	// the flag: condition of the if whose then-branch clears bits (&= with ^ / &^=)
	var flag types.Object
	ast.Inspect(fd.Body, func(n ast.Node) bool {
		ifs, ok := n.(*ast.IfStmt)
		if !ok || ifs.Else == nil {
			return true
		}
		cond := ast.Unparen(ifs.Cond)
		negated := false
		if u, isU := cond.(*ast.UnaryExpr); isU && u.Op == token.NOT {
			cond, negated = ast.Unparen(u.X), true
		}
		id, ok := cond.(*ast.Ident)
		if !ok {
			return true
		}
		var clearSide, setSide ast.Node = ifs.Body, ifs.Else
		if negated { // if !off { set } else { clear }
			clearSide, setSide = ifs.Else, ifs.Body
		}
		clears := false
		ast.Inspect(clearSide, func(m ast.Node) bool {
			if as, ok := m.(*ast.AssignStmt); ok && (as.Tok == token.AND_ASSIGN || as.Tok == token.AND_NOT_ASSIGN) {
				clears = true
			}
			return true
		})
		sets := false
		ast.Inspect(setSide, func(m ast.Node) bool {
			if as, ok := m.(*ast.AssignStmt); ok && as.Tok == token.OR_ASSIGN {
				sets = true
			}
			return true
		})
		if clears && sets {
			flag = info.ObjectOf(id)
		}
		return true
	})
	if flag == nil {
		c.Anchor("the on/off flag of scanOptions (if flag { options &= ^o } else { options |= o })")
		return
	}
	want := map[rune]string{'-': "true", '+': "false"}
	seen := map[rune]bool{}
	tagText := ""
	ast.Inspect(fd.Body, func(n ast.Node) bool {
		if sw, ok := n.(*ast.SwitchStmt); ok && sw.Tag != nil && tagText == "" {
			tagText = types.ExprString(sw.Tag)
		}
		cc, ok := n.(*ast.CaseClause)
		if !ok {
			return true
		}
		for _, e := range cc.List {
			v, ok := core.ConstInt(info, e)
			if !ok {
				continue
			}
			w, ok := want[rune(v)]
			if !ok {
				continue
			}
			seen[rune(v)] = true
			got := "no assignment to the flag"
			for _, st := range cc.Body {
				if as, ok := st.(*ast.AssignStmt); ok && len(as.Lhs) == 1 && len(as.Rhs) == 1 {
					if id, ok := as.Lhs[0].(*ast.Ident); ok && info.ObjectOf(id) == flag {
						got = types.ExprString(as.Rhs[0])
						// evaluate under "the switch tag equals this label" (an arm shared by both signs may compute the flag from the character)
						be := &boolEval{info: info, defs: map[types.Object]ast.Expr{}, assume: map[string]bool{}}
						if tagText != "" {
							for r := range want {
								be.assume[tagText+" == '"+string(r)+"'"] = r == rune(v)
							}
						}
						switch be.eval(as.Rhs[0]) {
						case tTrue:
							got = "true"
						case tFalse:
							got = "false"
						}
					}
				}
			}
			c.Check(got == w, fmt.Sprintf("scanOptions / the arm of '%c' sets the off-flag to %s", rune(v), w), cc.Pos(), "the arm assigns %s (shared with: %d label(s))", got, len(cc.List))
		}
		return true
	})
	// the same arms written as `if ch == '-' { off = true; … }` (or as clauses of a tagless switch)
	signOf := func(cond ast.Expr) (rune, bool) {
		be, ok := ast.Unparen(cond).(*ast.BinaryExpr)
		if !ok || be.Op != token.EQL {
			return 0, false
		}
		for _, e := range []ast.Expr{be.X, be.Y} {
			if v, ok := core.ConstInt(info, e); ok {
				if _, isSign := want[rune(v)]; isSign {
					return rune(v), true
				}
			}
		}
		return 0, false
	}
	checkBody := func(r rune, body []ast.Stmt, pos token.Pos) {
		if seen[r] {
			return
		}
		got := "no assignment to the flag"
		for _, st := range body {
			if as, ok := st.(*ast.AssignStmt); ok && len(as.Lhs) == 1 && len(as.Rhs) == 1 {
				if id, ok := as.Lhs[0].(*ast.Ident); ok && info.ObjectOf(id) == flag {
					got = types.ExprString(as.Rhs[0])
				}
			}
		}
		seen[r] = true
		c.Check(got == want[r], fmt.Sprintf("scanOptions / the arm of '%c' sets the off-flag to %s", r, want[r]), pos, "the arm assigns %s", got)
	}
	ast.Inspect(fd.Body, func(n ast.Node) bool {
		switch x := n.(type) {
		case *ast.IfStmt:
			if r, ok := signOf(x.Cond); ok {
				checkBody(r, x.Body.List, x.Pos())
			}
		case *ast.CaseClause:
			if len(x.List) == 1 {
				if r, ok := signOf(x.List[0]); ok {
					checkBody(r, x.Body, x.Pos())
				}
			}
		}
		return true
	})
	for r := range want {
		if !seen[r] {
			c.Bad(fmt.Sprintf("scanOptions / the arm of '%c' sets the off-flag to %s", r, want[r]), fd.Pos(), "no case arm for this sign")
		}
	}
}
