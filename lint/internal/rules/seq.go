package rules

import (
	"fmt"
	"go/token"
	"go/types"
	"sort"
	"strings"

	"golang.org/x/tools/go/ssa"

	"regexlint/internal/core"
)

// ---------------------------------------------------------------------------
// C07: successive matches
// ---------------------------------------------------------------------------

type scanModel struct {
	fn       *ssa.Function
	bumpPhi  *ssa.Phi
	stopPhi  *ssa.Phi
	textpos  *types.Var
	textend  *types.Var
	prevLen  *ssa.Parameter
	firstDyn ssa.CallInstruction // the findFirstChar(r) call
}

func buildScanModel(c *core.Ctx) *scanModel {
	p := c.P
	m := &scanModel{}
	m.fn = p.SSAFunc(p.LookupFunc("", "Runner.scan"))
	m.textpos = p.LookupField("", "Runner", "Runtextpos")
	m.textend = p.LookupField("", "Runner", "Runtextend")
	rtl := p.SSAFunc(p.LookupFunc("", "Regexp.RightToLeft"))
	if m.fn == nil || m.textpos == nil || m.textend == nil || rtl == nil {
		c.Anchor("Runner.scan / Runner.Runtextpos / Runner.Runtextend / Regexp.RightToLeft")
		return nil
	}
	for _, prm := range m.fn.Params {
		if prm.Name() == "previousMatchLength" {
			m.prevLen = prm
		}
	}
	// bump / stoppos: two phis in one block, merging the arms of one RightToLeft() test
	for _, b := range m.fn.Blocks {
		var bump, stop *ssa.Phi
		for _, ins := range b.Instrs {
			phi, ok := ins.(*ssa.Phi)
			if !ok {
				continue
			}
			vals := map[int64]bool{}
			allConst := true
			for _, e := range phi.Edges {
				if k, ok := core.IntConst(e); ok {
					vals[k] = true
				} else {
					allConst = false
				}
			}
			if allConst && len(vals) == 2 && vals[1] && vals[-1] {
				bump = phi
			} else if !allConst && vals[0] && len(phi.Edges) == 2 {
				stop = phi
			}
		}
		if bump != nil && stop != nil {
			// pairing: edge i of bump is -1  <=>  edge i of stop is 0 ; other stop edge is Runtextend / len(rt)
			ok := true
			for i := range bump.Edges {
				bk, _ := core.IntConst(bump.Edges[i])
				sk, sIsC := core.IntConst(stop.Edges[i])
				if (bk == -1) != (sIsC && sk == 0) {
					ok = false
				}
				if !sIsC {
					if _, isEnd := core.LoadOfField(stop.Edges[i], m.textend); !isEnd {
						ok = false
					}
				}
			}
			// the branch that selects them tests RightToLeft()
			idom := b.Idom()
			rtlTest := false
			if idom != nil {
				if ifi, isIf := idom.Instrs[len(idom.Instrs)-1].(*ssa.If); isIf {
					if call, isCall := ifi.Cond.(*ssa.Call); isCall && call.Call.StaticCallee() == rtl {
						rtlTest = true
					}
				}
			}
			if ok && rtlTest {
				m.bumpPhi, m.stopPhi = bump, stop
			}
		}
	}
	// first dynamic call with a bool result: findFirstChar(r)
	for _, b := range m.fn.Blocks {
		for _, ins := range b.Instrs {
			if ci, ok := ins.(ssa.CallInstruction); ok && ci.Common().StaticCallee() == nil && !ci.Common().IsInvoke() {
				if _, isB := ci.Common().Value.(*ssa.Builtin); isB {
					continue
				}
				if sig, ok := ci.Common().Value.Type().Underlying().(*types.Signature); ok && sig.Results().Len() == 1 {
					if bt, ok := sig.Results().At(0).Type().Underlying().(*types.Basic); ok && bt.Kind() == types.Bool && m.firstDyn == nil {
						m.firstDyn = ci
					}
				}
			}
		}
	}
	if m.bumpPhi == nil || m.stopPhi == nil || m.prevLen == nil || m.firstDyn == nil {
		c.Anchor("scan: bump/stoppos pair selected by one RightToLeft() test, parameter previousMatchLength, findFirstChar call")
		return nil
	}
	return m
}

func (m *scanModel) isBumpStore(ins ssa.Instruction) bool {
	st, ok := ins.(*ssa.Store)
	if !ok || core.FieldVarOfAddr(st.Addr) != m.textpos {
		return false
	}
	add, ok := st.Val.(*ssa.BinOp)
	if !ok || add.Op != token.ADD {
		return false
	}
	_, l1 := core.LoadOfField(add.X, m.textpos)
	_, l2 := core.LoadOfField(add.Y, m.textpos)
	return (l1 && add.Y == m.bumpPhi) || (l2 && add.X == m.bumpPhi)
}

func blockHas(b *ssa.BasicBlock, pred func(ssa.Instruction) bool) bool {
	for _, ins := range b.Instrs {
		if pred(ins) {
			return true
		}
	}
	return false
}

func RSeq(c *core.Ctx) {
	p := c.P
	m := buildScanModel(c)
	c.Rule("R-EMPTYBUMP", "in scan, after an empty previous match (previousMatchLength == 0) every path to the first candidate search either returns or passes `Runtextpos += bump`; every equality test of Runtextpos that ends the scan compares with stoppos, and bump/stoppos are selected together by one RightToLeft() test", 3)
	if m == nil {
		return
	}
	c.Visit(core.SSAName(m.fn))
	// (1) stop tests compare with stopPhi
	nStop := 0
	for _, b := range m.fn.Blocks {
		for _, ins := range b.Instrs {
			bin, ok := ins.(*ssa.BinOp)
			if !ok || bin.Op != token.EQL {
				continue
			}
			_, lx := core.LoadOfField(bin.X, m.textpos)
			_, ly := core.LoadOfField(bin.Y, m.textpos)
			if !lx && !ly {
				continue
			}
			other := bin.Y
			if ly {
				other = bin.X
			}
			nStop++
			c.Check(other == m.stopPhi, fmt.Sprintf("scan / stop test #%d compares Runtextpos with stoppos", nStop), bin.Pos(), "the end of the scan range depends on direction: it must be the value selected with bump (found %s)", other.String())
		}
	}
	c.Check(nStop >= 2, "scan / both stop tests present", m.fn.Pos(), "one after an empty previous match, one at the end of each failed attempt; found %d", nStop)
	// (2) empty-previous-match bump
	var emptyIf *ssa.If
	for _, b := range m.fn.Blocks {
		if ifi, ok := b.Instrs[len(b.Instrs)-1].(*ssa.If); ok {
			if bin, ok := ifi.Cond.(*ssa.BinOp); ok && bin.Op == token.EQL && bin.X == m.prevLen {
				if k, ok := core.IntConst(bin.Y); ok && k == 0 {
					emptyIf = ifi
				}
			}
		}
	}
	if emptyIf == nil {
		c.Bad("scan / test previousMatchLength == 0", m.fn.Pos(), "the scan no longer distinguishes an empty previous match: FindNextMatch would return the same empty match forever")
	} else {
		start := emptyIf.Block().Succs[0]
		target := m.firstDyn.Block()
		// search for a path start -> target avoiding bump stores and returns
		seen := map[*ssa.BasicBlock]bool{}
		stack := []*ssa.BasicBlock{start}
		leak := false
		for len(stack) > 0 {
			b := stack[len(stack)-1]
			stack = stack[:len(stack)-1]
			if seen[b] {
				continue
			}
			seen[b] = true
			if blockHas(b, m.isBumpStore) {
				continue
			}
			if _, isRet := b.Instrs[len(b.Instrs)-1].(*ssa.Return); isRet {
				continue
			}
			if b == target {
				leak = true
				break
			}
			stack = append(stack, b.Succs...)
		}
		c.Check(!leak, "scan / empty previous match bumps before searching", emptyIf.Pos(), "a path from `previousMatchLength == 0` reaches the candidate search without `Runtextpos += bump` or a return")
		// Runtextstart not written after the bump
		ts := p.LookupField("", "Runner", "Runtextstart")
		wrote := false
		for b := range seen {
			for _, ins := range b.Instrs {
				if st, ok := ins.(*ssa.Store); ok && core.FieldVarOfAddr(st.Addr) == ts {
					wrote = true
				}
			}
		}
		c.Check(!wrote, "scan / \\G origin untouched by the empty-match bump", emptyIf.Pos(), "Runtextstart must keep the previous match end")
	}

	c.Rule("R-ADVANCE", "every back edge of scan's attempt loop comes from a block that performs `Runtextpos += bump` and is dominated by the false arm of `Runtextpos == stoppos` (the loop variant: the attempt position moves one step towards stoppos or the scan ends)", 1)
	nBack := 0
	for _, b := range m.fn.Blocks {
		for _, s := range b.Succs {
			if !s.Dominates(b) {
				continue
			}
			// only the loop that contains the candidate search
			if !s.Dominates(m.firstDyn.Block()) {
				continue
			}
			nBack++
			hasBump := blockHas(b, m.isBumpStore)
			stopFalse := false
			for _, f := range core.FactsAtBlock(b) {
				if bin, ok := f.Cond.(*ssa.BinOp); ok && bin.Op == token.EQL && !f.Val {
					_, lx := core.LoadOfField(bin.X, m.textpos)
					if lx && bin.Y == m.stopPhi {
						stopFalse = true
					}
				}
			}
			c.Check(hasBump && stopFalse, fmt.Sprintf("scan / back edge #%d advances", nBack), b.Instrs[len(b.Instrs)-1].Pos(), "bump store in the back-edge block: %v; dominated by `Runtextpos != stoppos`: %v", hasBump, stopFalse)
		}
	}
	if nBack == 0 {
		c.Anchor("back edge of scan's attempt loop")
	}

	c.Rule("R-TEXTPOS", "both arms of tidyMatch record the runner's final text position in the Match (Match.textpos), which is where FindNextMatch resumes", 2)
	tidyMatch := p.SSAFunc(p.LookupFunc("", "Runner.tidyMatch"))
	tidy := p.SSAFunc(p.LookupFunc("", "Match.tidy"))
	mtextpos := p.LookupField("", "Match", "textpos")
	if tidyMatch == nil || tidy == nil || mtextpos == nil {
		c.Anchor("Runner.tidyMatch / Match.tidy / Match.textpos")
	} else {
		c.Visit(core.SSAName(tidyMatch))
		// quick arm: store of load(Runtextpos) to m.textpos ; non-quick: call tidy(load Runtextpos)
		qOK, nqOK := false, false
		for _, b := range tidyMatch.Blocks {
			for _, ins := range b.Instrs {
				switch x := ins.(type) {
				case *ssa.Store:
					if core.FieldVarOfAddr(x.Addr) == mtextpos {
						if _, ok := core.LoadOfField(x.Val, m.textpos); ok {
							qOK = true
						}
					}
				case *ssa.Call:
					if x.Call.StaticCallee() == tidy && len(x.Call.Args) == 2 {
						if _, ok := core.LoadOfField(x.Call.Args[1], m.textpos); ok {
							nqOK = true
						}
					}
				}
			}
		}
		c.Check(qOK, "tidyMatch / quick arm stores Runtextpos into Match.textpos", tidyMatch.Pos(), "replace and find-all drivers resume from m.textpos")
		// tidy stores its parameter into textpos on every path
		tOK := false
		for _, b := range tidy.Blocks {
			for _, ins := range b.Instrs {
				if st, ok := ins.(*ssa.Store); ok && core.FieldVarOfAddr(st.Addr) == mtextpos && len(tidy.Params) > 1 && st.Val == tidy.Params[1] && b.Dominates(exitBlockOf(tidy)) {
					tOK = true
				}
			}
		}
		c.Check(nqOK && tOK, "tidyMatch / non-quick arm records Runtextpos through Match.tidy", tidyMatch.Pos(), "tidy(r.Runtextpos) called: %v; tidy stores its argument into textpos on every path: %v", nqOK, tOK)
	}

	rNext(c, m)
	rDirFold(c)
	rCountN(c)
}

// leaves resolves a value through phis to its non-phi sources.
func leaves(v ssa.Value) []ssa.Value {
	seen := map[ssa.Value]bool{}
	var out []ssa.Value
	var walk func(x ssa.Value)
	walk = func(x ssa.Value) {
		if seen[x] {
			return
		}
		seen[x] = true
		if phi, ok := x.(*ssa.Phi); ok {
			for _, e := range phi.Edges {
				walk(e)
			}
			return
		}
		out = append(out, x)
	}
	walk(v)
	return out
}

// matchFieldLoad: is v a load of <X>.textpos / <X>.Group.Capture.RuneLength for a *Match X?
func matchFieldLoad(v ssa.Value, field *types.Var) (ssa.Value, bool) {
	fa, ok := core.LoadOfField(v, field)
	if !ok {
		return nil, false
	}
	base := fa.X
	for {
		inner, ok := base.(*ssa.FieldAddr)
		if !ok {
			break
		}
		base = inner.X
	}
	return base, true
}

func rNext(c *core.Ctx, m *scanModel) {
	c.Rule("R-NEXT", "wherever a search is continued (FindNextMatch, the find-all loop, the two replace loops) the resume position and the previous-match length passed to scan/run are X.textpos and X.RuneLength of one and the same match value X", 4)
	p := c.P
	run := p.SSAFunc(p.LookupFunc("", "Regexp.run"))
	mtextpos := p.LookupField("", "Match", "textpos")
	runeLen := p.LookupField("", "Capture", "RuneLength")
	if run == nil || mtextpos == nil || runeLen == nil {
		c.Anchor("Regexp.run / Match.textpos / Capture.RuneLength")
		return
	}
	idx := func(fn *ssa.Function, name string) int {
		for i, prm := range fn.Params {
			if prm.Name() == name {
				return i
			}
		}
		return -1
	}
	for _, fn := range p.ModuleFuncs() {
		if core.FnPkgPath(fn) != core.PkgRoot {
			continue
		}
		name := core.SSAName(fn)
		n := 0
		for _, b := range fn.Blocks {
			for _, ins := range b.Instrs {
				call, ok := ins.(*ssa.Call)
				if !ok {
					continue
				}
				cal := call.Call.StaticCallee()
				if cal != m.fn && cal != run {
					continue
				}
				ts, pl := idx(cal, "textstart"), idx(cal, "previousMatchLength")
				if ts < 0 || pl < 0 {
					c.Anchor("parameters textstart/previousMatchLength of " + cal.Name())
					continue
				}
				a, bb := call.Call.Args[ts], call.Call.Args[pl]
				var posBases, lenBases []ssa.Value
				continuation := false
				okShape := true
				why := ""
				for _, l := range leaves(a) {
					if base, ok := matchFieldLoad(l, mtextpos); ok {
						posBases = append(posBases, base)
						continuation = true
					} else if _, isP := l.(*ssa.Parameter); isP {
					} else if _, isC := l.(*ssa.Const); isC {
					} else if _, isLenBase := matchFieldLoad(l, runeLen); isLenBase {
						okShape, why = false, "resume position is a RuneLength"
						continuation = true
					} else {
						// some other computed start (first scan): only allowed when the length is the initial -1
					}
				}
				for _, l := range leaves(bb) {
					if base, ok := matchFieldLoad(l, runeLen); ok {
						lenBases = append(lenBases, base)
						continuation = true
					} else if k, isC := core.IntConst(l); isC {
						if k != -1 {
							okShape, why = false, fmt.Sprintf("constant previous-match length %d (only -1 = initial scan is meaningful)", k)
							continuation = true
						}
					} else if _, isP := l.(*ssa.Parameter); isP {
					} else {
						okShape, why = false, "previous-match length is neither -1, a parameter nor X.RuneLength"
						continuation = true
					}
				}
				if !continuation {
					continue
				}
				n++
				c.Visit(name)
				if okShape {
					if len(posBases) == 0 || len(lenBases) == 0 {
						okShape, why = false, "a continued search must pass both X.textpos and X.RuneLength"
					} else {
						for _, pb := range posBases {
							for _, lb := range lenBases {
								if pb != lb {
									okShape, why = false, "textpos and RuneLength come from different match values"
								}
							}
						}
					}
				}
				c.Check(okShape, fmt.Sprintf("%s / continued search #%d resumes from X.textpos with X.RuneLength", name, n), call.Pos(), "%s", why)
			}
		}
	}
}

// rDirFold: every fold over the match sequence that carries a position from
// one match to the next is direction-aware.
func rDirFold(c *core.Ctx) {
	c.Rule("R-DIRFOLD", "a function that obtains successive matches in a loop and carries a position computed from RuneIndex/RuneLength from one iteration to the next (for an adjacency test or as a slice bound) tests RightToLeft() itself, or is only called from a branch on RightToLeft()", 5)
	p := c.P
	runeIdx := p.LookupField("", "Capture", "RuneIndex")
	runeLen := p.LookupField("", "Capture", "RuneLength")
	rtl := p.SSAFunc(p.LookupFunc("", "Regexp.RightToLeft"))
	scan := p.SSAFunc(p.LookupFunc("", "Runner.scan"))
	next := p.SSAFunc(p.LookupFunc("", "Regexp.FindNextMatch"))
	if runeIdx == nil || runeLen == nil || rtl == nil || scan == nil || next == nil {
		c.Anchor("Capture.RuneIndex / RuneLength / Regexp.RightToLeft / scan / FindNextMatch")
		return
	}
	derivedFromMatchPos := func(v ssa.Value) bool {
		seen := map[ssa.Value]bool{}
		var walk func(x ssa.Value, d int) bool
		walk = func(x ssa.Value, d int) bool {
			if d > 6 || seen[x] {
				return false
			}
			seen[x] = true
			if _, ok := core.LoadOfField(x, runeIdx); ok {
				return true
			}
			if _, ok := core.LoadOfField(x, runeLen); ok {
				return true
			}
			if bin, ok := x.(*ssa.BinOp); ok && (bin.Op == token.ADD || bin.Op == token.SUB) {
				return walk(bin.X, d+1) || walk(bin.Y, d+1)
			}
			if phi, ok := x.(*ssa.Phi); ok {
				for _, e := range phi.Edges {
					if walk(e, d+1) {
						return true
					}
				}
			}
			return false
		}
		return walk(v, 0)
	}
	callersGuarded := func(fn *ssa.Function) (bool, int) {
		n, ok := 0, true
		for _, caller := range p.ModuleFuncs() {
			for _, b := range caller.Blocks {
				for _, ins := range b.Instrs {
					ci, isCall := ins.(ssa.CallInstruction)
					if !isCall || ci.Common().StaticCallee() != fn {
						continue
					}
					n++
					g := false
					for _, f := range core.FactsAtBlock(b) {
						cond := f.Cond
						if u, isNot := cond.(*ssa.UnOp); isNot && u.Op == token.NOT {
							cond = u.X
						}
						if call, isC := cond.(*ssa.Call); isC && call.Call.StaticCallee() == rtl {
							g = true
						}
					}
					if !g {
						ok = false
					}
				}
			}
		}
		return ok && n > 0, n
	}
	for _, fn := range p.ModuleFuncs() {
		pkg := core.FnPkgPath(fn)
		if pkg != core.PkgRoot && pkg != core.PkgCompat {
			continue
		}
		// (i) successive matches inside a loop
		loops := false
		for _, b := range fn.Blocks {
			for _, ins := range b.Instrs {
				if ci, ok := ins.(ssa.CallInstruction); ok {
					cal := ci.Common().StaticCallee()
					if (cal == scan || cal == next) && inLoop(b) {
						loops = true
					}
				}
			}
		}
		if !loops {
			continue
		}
		// (ii) a loop-carried phi fed from RuneIndex/RuneLength, used in a comparison or as a slice bound
		var carried []*ssa.Phi
		for _, b := range fn.Blocks {
			for _, ins := range b.Instrs {
				phi, ok := ins.(*ssa.Phi)
				if !ok || !isIntType(phi.Type()) {
					continue
				}
				fed := false
				for _, e := range phi.Edges {
					if derivedFromMatchPos(e) {
						fed = true
					}
				}
				if !fed {
					continue
				}
				used := false
				for _, r := range core.Referrers(phi) {
					switch x := r.(type) {
					case *ssa.BinOp:
						switch x.Op {
						case token.EQL, token.NEQ, token.LSS, token.GTR, token.LEQ, token.GEQ:
							used = true
						}
					case *ssa.Slice:
						used = true
					case *ssa.Call:
						used = true // passed on as a bound (writeRunes(buf, text, prevat, …))
					}
				}
				if used {
					carried = append(carried, phi)
				}
			}
		}
		if len(carried) == 0 {
			continue
		}
		name := core.SSAName(fn)
		c.Visit(name)
		self := false
		for _, b := range fn.Blocks {
			for _, ins := range b.Instrs {
				if call, ok := ins.(*ssa.Call); ok && call.Call.StaticCallee() == rtl {
					self = true
				}
			}
		}
		guarded, ncall := callersGuarded(fn)
		var names []string
		for _, ph := range carried {
			names = append(names, ph.Comment)
		}
		sort.Strings(names)
		c.Check(self || guarded, name+" / fold over matches is direction-aware", fn.Pos(),
			"carries %s across matches; tests RightToLeft() itself: %v; all %d call sites inside a RightToLeft() branch: %v — for right-to-left patterns matches arrive in descending order, so 'previous end' and slice bounds are mirrored", strings.Join(names, ","), self, ncall, guarded)
	}
}

// rCountN: in the find-all driver the remaining-count is decremented exactly
// where a match is appended.
func rCountN(c *core.Ctx) {
	c.Rule("R-COUNTN", "in findAllRunesIndex the limit n is decremented in the same branch that appends a match to the result (dropped empty matches are not charged to the limit)", 1)
	p := c.P
	fn := p.SSAFunc(p.LookupFunc("", "Regexp.findAllRunesIndex"))
	if fn == nil {
		c.Anchor("Regexp.findAllRunesIndex")
		return
	}
	c.Visit(core.SSAName(fn))
	var nParam *ssa.Parameter
	for _, prm := range fn.Params {
		if prm.Name() == "n" {
			nParam = prm
		}
	}
	if nParam == nil {
		c.Anchor("parameter n of findAllRunesIndex")
		return
	}
	// decrement instructions: BinOp SUB(x, 1) where x's leaves include n
	var decs []*ssa.BinOp
	var appends []*ssa.BasicBlock
	for _, b := range fn.Blocks {
		for _, ins := range b.Instrs {
			switch x := ins.(type) {
			case *ssa.BinOp:
				if x.Op == token.SUB {
					if k, ok := core.IntConst(x.Y); ok && k == 1 {
						for _, l := range leaves(x.X) {
							if l == nParam {
								decs = append(decs, x)
							}
						}
					}
				}
			case *ssa.Call:
				if bi, ok := x.Call.Value.(*ssa.Builtin); ok && bi.Name() == "append" {
					if _, isSliceOfSlice := x.Type().Underlying().(*types.Slice).Elem().Underlying().(*types.Slice); isSliceOfSlice {
						appends = append(appends, b)
					}
				}
			}
		}
	}
	if len(decs) == 0 || len(appends) == 0 {
		c.Anchor("n-- and append(out, …) in findAllRunesIndex")
		return
	}
	ok := true
	for _, d := range decs {
		dominated := false
		for _, ab := range appends {
			if ab.Dominates(d.Block()) {
				dominated = true
			}
		}
		if !dominated {
			ok = false
		}
	}
	c.Check(ok, "findAllRunesIndex / n decremented only where a match is appended", decs[0].Pos(), "%d decrement(s), %d append block(s)", len(decs), len(appends))
}
