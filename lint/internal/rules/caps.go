package rules

import (
	"fmt"
	"go/ast"
	"go/token"
	"go/types"

	"golang.org/x/tools/go/ssa"

	"regexlint/internal/core"
)

// ---------------------------------------------------------------------------
// C17: group numbers and names
// ---------------------------------------------------------------------------

func RSlot(c *core.Ctx) {
	c.Rule("R-SLOT", "a user-visible group number becomes a capture-slot index only through the number->slot map: the writer wraps every Capturemark / Ref / Testref operand in mapCapnum; NewReplacerData maps $n through caps; GroupByNumber maps through sparseCaps before indexing; initMatch builds a sparse Match exactly when the Regexp has a caps map; inside the module GroupByNumber is called only with a group NUMBER (from GroupNumberFromName or the caller's own parameter), never with a dense loop index", 8)
	p := c.P
	m := buildOpModel(c)
	if !m.ok {
		c.Anchor("bytecode model")
		return
	}
	syn := p.Pkg("syntax")
	mapCap := p.LookupFunc("syntax", "writer.mapCapnum")
	if mapCap == nil {
		c.Anchor("writer.mapCapnum")
		return
	}
	groupOps := map[int64]bool{}
	for _, n := range []string{"Capturemark", "Ref", "Testref"} {
		v, ok := m.opByNm[n]
		if !ok {
			c.Anchor("syntax." + n)
			return
		}
		groupOps[v] = true
	}
	n := 0
	for _, s := range m.emits {
		isGroup := false
		for _, op := range s.ops {
			if groupOps[op] {
				isGroup = true
			}
		}
		if !isGroup {
			continue
		}
		for i, a := range s.call.Args[1:] {
			n++
			call, ok := ast.Unparen(a).(*ast.CallExpr)
			c.Check(ok && core.IsCallTo(syn.TypesInfo, call, mapCap), fmt.Sprintf("%s / %s operand %d goes through mapCapnum", s.fn, m.opsString(s.ops), i+1), a.Pos(), "operand %s", types.ExprString(a))
		}
	}
	if n == 0 {
		c.Anchor("emit sites of Capturemark / Ref / Testref")
	}
	// emitCapture also consults the map for the quick-slot test
	// NewReplacerData: slot := child.M ; if len(caps) > 0 && slot >= 0 { slot = caps[slot] }
	nrd := p.SSAFunc(p.LookupFunc("syntax", "NewReplacerData"))
	mField := p.LookupField("syntax", "RegexNode", "M")
	if nrd == nil || mField == nil {
		c.Anchor("NewReplacerData / RegexNode.M")
	} else {
		c.Visit(core.SSAName(nrd))
		// every value derived from a load of .M that reaches an append must pass a phi that has a map-lookup edge
		okMap := false
		var capsParam *ssa.Parameter
		for _, prm := range nrd.Params {
			if prm.Name() == "caps" {
				capsParam = prm
			}
		}
		for _, b := range nrd.Blocks {
			for _, ins := range b.Instrs {
				phi, ok := ins.(*ssa.Phi)
				if !ok {
					continue
				}
				hasM, hasLookup := false, false
				for _, e := range phi.Edges {
					if _, ok := core.LoadOfField(e, mField); ok {
						hasM = true
					}
					if lk, ok := e.(*ssa.Lookup); ok && lk.X == capsParam {
						if _, ok := core.LoadOfField(lk.Index, mField); ok {
							hasLookup = true
						}
					}
				}
				if hasM && hasLookup {
					// the unmapped edge must come from a path where len(caps) == 0 or slot < 0
					okMap = true
				}
			}
		}
		// and no direct use of child.M in arithmetic (the encoding) without that phi
		direct := false
		for _, b := range nrd.Blocks {
			for _, ins := range b.Instrs {
				if bin, ok := ins.(*ssa.BinOp); ok && (bin.Op == token.SUB || bin.Op == token.ADD) {
					for _, side := range []ssa.Value{bin.X, bin.Y} {
						if _, ok := core.LoadOfField(side, mField); ok {
							direct = true
						}
					}
				}
			}
		}
		c.Check(okMap && !direct, "syntax.NewReplacerData / $n is mapped through caps before it is encoded", nrd.Pos(), "phi(child.M, caps[child.M]) present: %v; child.M used directly in the rule encoding: %v", okMap, direct)
	}
	// GroupByNumber: sparseCaps lookup keyed by the parameter
	gbn := p.SSAFunc(p.LookupFunc("", "Match.GroupByNumber"))
	sparse := p.LookupField("", "Match", "sparseCaps")
	if gbn == nil || sparse == nil {
		c.Anchor("Match.GroupByNumber / Match.sparseCaps")
	} else {
		c.Visit(core.SSAName(gbn))
		okLk := false
		for _, b := range gbn.Blocks {
			for _, ins := range b.Instrs {
				if lk, ok := ins.(*ssa.Lookup); ok && lk.Index == gbn.Params[1] {
					if _, ok := core.LoadOfField(lk.X, sparse); ok {
						okLk = true
					}
				}
			}
		}
		// every index with a value derived from num must be derived through the phi after the lookup: num itself (the raw parameter) must not be used as an index operand
		raw := false
		for _, b := range gbn.Blocks {
			for _, ins := range b.Instrs {
				if ia, ok := ins.(*ssa.IndexAddr); ok {
					if ia.Index == gbn.Params[1] {
						raw = true
					}
					if bin, ok := ia.Index.(*ssa.BinOp); ok && (bin.X == gbn.Params[1] || bin.Y == gbn.Params[1]) {
						raw = true
					}
				}
			}
		}
		c.Check(okLk && !raw, "regexp2.(*Match).GroupByNumber / number mapped through sparseCaps before indexing", gbn.Pos(), "lookup sparseCaps[num]: %v; raw num used as an index: %v", okLk, raw)
		// a number that is NOT in the sparse map is not a group: it must not fall through as if it were a slot
		miss := token.NoPos
		for _, b := range gbn.Blocks {
			for _, ins := range b.Instrs {
				phi, ok := ins.(*ssa.Phi)
				if !ok {
					continue
				}
				for i, e := range phi.Edges {
					if e != gbn.Params[1] {
						continue
					}
					// the raw parameter arrives over edge i: was that edge taken because the lookup failed?
					pred := b.Preds[i]
					for _, f := range core.FactsOnEdge(pred, b) {
						if ex, ok := f.Cond.(*ssa.Extract); ok && !f.Val {
							if lk, ok := ex.Tuple.(*ssa.Lookup); ok && lk.CommaOk && ex.Index == 1 {
								if _, ok := core.LoadOfField(lk.X, sparse); ok {
									miss = phi.Pos()
									if miss == token.NoPos {
										miss = gbn.Pos()
									}
								}
							}
						}
					}
				}
			}
		}
		c.Check(miss == token.NoPos, "regexp2.(*Match).GroupByNumber / a number missing from sparseCaps is not used as a slot", gbn.Pos(), "when sparseCaps has no entry for num the raw number continues to the bounds test and the slot index: with groups 5 and 10, GroupByNumber(1) returns group 5 instead of nil")
		// internal callers
		gnfn := p.SSAFunc(p.LookupFunc("", "Regexp.GroupNumberFromName"))
		gname := p.SSAFunc(p.LookupFunc("", "Regexp.GroupNameFromNumber"))
		k := 0
		for _, fn := range p.ModuleFuncs() {
			for _, b := range fn.Blocks {
				for _, ins := range b.Instrs {
					call, ok := ins.(*ssa.Call)
					if !ok || (call.Call.StaticCallee() != gbn && (gname == nil || call.Call.StaticCallee() != gname)) {
						continue
					}
					callee := "GroupByNumber"
					if call.Call.StaticCallee() != gbn {
						callee = "GroupNameFromNumber"
					}
					k++
					arg := call.Call.Args[1]
					okArg := false
					for _, l := range leaves(arg) {
						if _, isP := l.(*ssa.Parameter); isP {
							okArg = true
						}
						if cc, isC := l.(*ssa.Call); isC && cc.Call.StaticCallee() == gnfn {
							okArg = true
						}
					}
					for _, l := range leaves(arg) {
						if _, isBin := l.(*ssa.BinOp); isBin {
							okArg = false // computed index (loop counter)
						}
						if _, isConst := l.(*ssa.Const); isConst && len(leaves(arg)) > 1 {
							okArg = false // loop counter: phi(const, i+1)
						}
					}
					c.Check(okArg, fmt.Sprintf("%s / %s call #%d is given a group number", core.SSAName(fn), callee, k), call.Pos(), "argument %s must come from GroupNumberFromName or the caller's parameter; a dense index is not a group number when numbering is sparse", arg.String())
				}
			}
		}
	}
	// initMatch: sparse match iff re.caps != nil
	im := p.SSAFunc(p.LookupFunc("", "Runner.initMatch"))
	reCaps := p.LookupField("", "Regexp", "caps")
	if im == nil || reCaps == nil {
		c.Anchor("Runner.initMatch / Regexp.caps")
	} else {
		okSparse, okDense := false, false
		for _, b := range im.Blocks {
			for _, ins := range b.Instrs {
				call, ok := ins.(*ssa.Call)
				if !ok || call.Call.StaticCallee() == nil {
					continue
				}
				name := call.Call.StaticCallee().Name()
				if name != "newMatchSparse" && name != "newMatch" {
					continue
				}
				for _, f := range core.FactsAtBlock(b) {
					if bin, ok := f.Cond.(*ssa.BinOp); ok && (bin.Op == token.NEQ || bin.Op == token.EQL) && core.IsNilConst(bin.Y) {
						if _, ok := core.LoadOfField(bin.X, reCaps); ok {
							nonNil := (bin.Op == token.NEQ) == f.Val
							if name == "newMatchSparse" && nonNil {
								okSparse = true
							}
							if name == "newMatch" && !nonNil {
								okDense = true
							}
						}
					}
				}
			}
		}
		c.Check(okSparse && okDense, "regexp2.(*Runner).initMatch / sparse Match exactly when the Regexp has a caps map", im.Pos(), "newMatchSparse under re.caps != nil: %v; newMatch under re.caps == nil: %v", okSparse, okDense)
	}
}

// R-CAPNODE: every capture node the parser creates accounts for its slot.
func RCapNode(c *core.Ctx) {
	c.Rule("R-CAPNODE", "in scanGroupOpen every creation of a capture node takes its number from consumeAutocap() or is preceded, in the same block, by consumeCaptureSlot(<that number>): the main parse and the pre-scan must advance the automatic counter at the same groups (sibling agreement between the (…), (?<n>…) and (?P<n>…) arms)", 3)
	p := c.P
	syn := p.Pkg("syntax")
	info := syn.TypesInfo
	fd, _ := p.DeclOf(p.LookupFunc("syntax", "parser.scanGroupOpen"))
	consumeAuto := p.LookupFunc("syntax", "parser.consumeAutocap")
	consumeSlot := p.LookupFunc("syntax", "parser.consumeCaptureSlot")
	ntCapture, okc := constInScope(syn.Types, "NtCapture")
	if fd == nil || consumeAuto == nil || consumeSlot == nil || !okc {
		c.Anchor("scanGroupOpen / consumeAutocap / consumeCaptureSlot / NtCapture")
		return
	}
	c.Visit("syntax.(*parser).scanGroupOpen")
	n := 0
	var stack []ast.Node
	ast.Inspect(fd.Body, func(x ast.Node) bool {
		if x == nil {
			stack = stack[:len(stack)-1]
			return true
		}
		stack = append(stack, x)
		call, ok := x.(*ast.CallExpr)
		if !ok || len(call.Args) < 3 {
			return true
		}
		fn := core.Callee(info, call)
		if fn == nil || fn.Pkg() != syn.Types {
			return true
		}
		if v, ok := core.ConstInt(info, call.Args[0]); !ok || v != ntCapture {
			return true
		}
		n++
		num := call.Args[2]
		okSite := false
		if inner, ok := ast.Unparen(num).(*ast.CallExpr); ok && core.IsCallTo(info, inner, consumeAuto) {
			okSite = true
		} else {
			// find enclosing block and look for consumeCaptureSlot(num) before the call
			for i := len(stack) - 1; i >= 0 && !okSite; i-- {
				blk, isBlk := stack[i].(*ast.BlockStmt)
				if !isBlk {
					continue
				}
				for _, st := range blk.List {
					if st.Pos() >= call.Pos() {
						break
					}
					if es, ok := st.(*ast.ExprStmt); ok {
						if cc, ok := es.X.(*ast.CallExpr); ok && core.IsCallTo(info, cc, consumeSlot) && len(cc.Args) == 1 &&
							types.ExprString(cc.Args[0]) == types.ExprString(num) {
							okSite = true
						}
					}
				}
				break
			}
		}
		c.Check(okSite, fmt.Sprintf("scanGroupOpen / capture node #%d accounts for its slot", n), call.Pos(), "number expression %s", types.ExprString(num))
		return true
	})
	if n == 0 {
		c.Anchor("capture node creations in scanGroupOpen")
	}
}

// R-SKIPTAKEN: a named group gets the next number that is NOT taken.
func RSkipTaken(c *core.Ctx) {
	c.Rule("R-SKIPTAKEN", "in assignNameSlots the automatic number given to a named group is used only where `isCaptureSlot(p.autocap)` is known to be false (a skip loop, not a single test): explicitly numbered groups keep their numbers and names come after them", 1)
	p := c.P
	syn := p.Pkg("syntax")
	info := syn.TypesInfo
	fd, _ := p.DeclOf(p.LookupFunc("syntax", "parser.assignNameSlots"))
	isSlot := p.LookupFunc("syntax", "parser.isCaptureSlot")
	autocap := p.LookupField("syntax", "parser", "autocap")
	capnames := p.LookupField("syntax", "parser", "capnames")
	if fd == nil || isSlot == nil || autocap == nil || capnames == nil {
		c.Anchor("assignNameSlots / isCaptureSlot / parser.autocap / parser.capnames")
		return
	}
	c.Visit("syntax.(*parser).assignNameSlots")
	g := core.NewGraph(info, fd.Body)
	n := 0
	ast.Inspect(fd.Body, func(x ast.Node) bool {
		as, ok := x.(*ast.AssignStmt)
		if !ok || len(as.Lhs) != 1 || len(as.Rhs) != 1 {
			return true
		}
		// p.capnames[name] = p.autocap
		ie, ok := as.Lhs[0].(*ast.IndexExpr)
		if !ok || core.FieldOf(info, ie.X) != capnames || core.FieldOf(info, as.Rhs[0]) != autocap {
			return true
		}
		n++
		okFact := false
		if b, _ := g.BlockOf(as); b != nil {
			for _, f := range g.FactsAt(b) {
				for _, pe := range conjunctsOrNegDisjuncts(f) {
					if call, ok := pe.e.(*ast.CallExpr); ok && core.IsCallTo(info, call, isSlot) && !pe.val && len(call.Args) == 1 && core.FieldOf(info, call.Args[0]) == autocap {
						okFact = true
					}
				}
			}
		}
		c.Check(okFact, fmt.Sprintf("assignNameSlots / automatic number #%d is free when it is assigned", n), as.Pos(), "the assignment must be dominated by a false outcome of isCaptureSlot(p.autocap) — a loop that skips every taken number")
		return true
	})
	if n == 0 {
		c.Anchor("p.capnames[name] = p.autocap in assignNameSlots")
	}
}

// ---------------------------------------------------------------------------
// R-CAPSKEY: the number->slot map is consulted only for real group numbers.
// Negative "numbers" are not groups: -1 is "no group", values below it encode
// the replacement specials ($` $' $+ $_).  A plain read m[k] of a map[int]int
// answers 0 for a missing key — and 0 is the slot of the whole match — so a
// special pushed through the map silently turns into $0.
// ---------------------------------------------------------------------------

func RCapsKey(c *core.Ctx) {
	c.Rule("R-CAPSKEY", "every single-result read m[k] of a map[int]int (the capture number -> slot maps) is dominated by a test that excludes the non-group keys (k >= 0, or k != -1 where -1 is the only non-group value possible) — a missing key would be answered with 0, the slot of the whole match; reads in the `v, ok := m[k]` form are exempt", 2)
	p := c.P
	n := 0
	for _, fn := range p.ModuleFuncs() {
		name := core.SSAName(fn)
		cnt := 0
		for _, b := range fn.Blocks {
			for _, ins := range b.Instrs {
				lk, ok := ins.(*ssa.Lookup)
				if !ok || lk.CommaOk {
					continue
				}
				mt, ok := lk.X.Type().Underlying().(*types.Map)
				if !ok {
					continue
				}
				kb, ok1 := mt.Key().Underlying().(*types.Basic)
				eb, ok2 := mt.Elem().Underlying().(*types.Basic)
				if !ok1 || !ok2 || kb.Kind() != types.Int || eb.Kind() != types.Int {
					continue
				}
				cnt++
				n++
				c.Visit(name)
				guarded := false
				for _, f := range core.FactsAtBlock(b) {
					x, y, op, ok := core.CmpNorm(f)
					if !ok {
						continue
					}
					kx, xc := core.IntConst(x)
					ky, yc := core.IntConst(y)
					switch {
					case yc && x == lk.Index && op == token.NEQ && ky == -1: // k != -1
						guarded = true
					case xc && y == lk.Index && op == token.NEQ && kx == -1:
						guarded = true
					case xc && y == lk.Index && op == token.LEQ && kx >= 0: // 0 <= k
						guarded = true
					case xc && y == lk.Index && op == token.LSS && kx >= -1: // -1 < k
						guarded = true
					}
				}
				c.Check(guarded, fmt.Sprintf("%s / map read #%d is made only for group numbers", name, cnt), lk.Pos(),
					"the key can be negative here (no dominating `key >= 0` / `key != -1` test): -1 and the replacement specials are not in the map and read as 0, the slot of the whole match")
			}
		}
	}
	if n == 0 {
		c.Anchor("single-result reads of a map[int]int")
	}
}

// ---------------------------------------------------------------------------
// R-IGNPAREN: "ignore the next paren" is consumed by the next paren.
//
// For an expression conditional (?(cond)yes|no) both passes of the parser set
// ignoreNextParen so that the parenthesis of the condition does not become a
// capture group.  The pre-scan (countCaptures) clears the flag at the end of
// its `(` arm for every kind of group.  The main pass has to agree: whatever
// construct the next `(` opens — plain, (?=…), (?<name>…) — scanGroupOpen must
// leave the flag decided (cleared, or set again for a nested conditional) on
// every successful return.  Otherwise (?(?=a)(a)|(b)) numbers (a) as group 1
// in the pre-scan and parses it as a non-capturing group.
// ---------------------------------------------------------------------------

func RIgnParen(c *core.Ctx) {
	c.Rule("R-IGNPAREN", "every successful return of scanGroupOpen (error result nil) is reached only after a store to parser.ignoreNextParen: the flag set for the condition of (?(…)…) is consumed by the very next parenthesis of any kind, as the pre-scan does at the end of its `(` arm", 3)
	p := c.P
	fn := p.SSAFunc(p.LookupFunc("syntax", "parser.scanGroupOpen"))
	flag := p.LookupField("syntax", "parser", "ignoreNextParen")
	pre := p.SSAFunc(p.LookupFunc("syntax", "parser.countCaptures"))
	if fn == nil || flag == nil || pre == nil {
		c.Anchor("syntax.parser.scanGroupOpen / countCaptures / parser.ignoreNextParen")
		return
	}
	c.Visit(core.SSAName(fn))
	// the pre-scan does clear it (sanity of the sibling this rule aligns with)
	preClears := false
	for _, b := range pre.Blocks {
		for _, ins := range b.Instrs {
			if st, ok := ins.(*ssa.Store); ok && core.FieldVarOfAddr(st.Addr) == flag {
				if k, ok := st.Val.(*ssa.Const); ok && k.Value != nil && k.Value.String() == "false" {
					preClears = true
				}
			}
		}
	}
	if !preClears {
		c.Anchor("countCaptures clearing ignoreNextParen")
		return
	}
	has := map[*ssa.BasicBlock]bool{}
	for _, b := range fn.Blocks {
		for _, ins := range b.Instrs {
			if st, ok := ins.(*ssa.Store); ok && core.FieldVarOfAddr(st.Addr) == flag {
				has[b] = true
			}
		}
	}
	// a block entered only when the flag was just read as false is as good as a store of false
	for _, b := range fn.Blocks {
		for _, f := range core.FactsAtBlock(b) {
			if ld, ok := f.Cond.(*ssa.UnOp); ok && !f.Val && core.FieldVarOfAddr(ld.X) == flag {
				has[b] = true
			}
		}
	}
	in := map[*ssa.BasicBlock]bool{}
	out := map[*ssa.BasicBlock]bool{}
	for _, b := range fn.Blocks {
		in[b], out[b] = true, true
	}
	for changed := true; changed; {
		changed = false
		for _, b := range fn.Blocks {
			v := len(b.Preds) > 0
			for _, pr := range b.Preds {
				if !out[pr] {
					v = false
				}
			}
			if b == fn.Blocks[0] {
				v = false
			}
			o := v || has[b]
			if v != in[b] || o != out[b] {
				in[b], out[b] = v, o
				changed = true
			}
		}
	}
	n := 0
	for _, b := range fn.Blocks {
		ret, ok := b.Instrs[len(b.Instrs)-1].(*ssa.Return)
		if !ok || len(ret.Results) != 2 || !core.IsNilConst(ret.Results[1]) {
			continue
		}
		n++
		c.Check(out[b], fmt.Sprintf("scanGroupOpen / successful return #%d leaves ignoreNextParen decided", n), ret.Pos(),
			"this return can be reached without any store to ignoreNextParen: a group opened by `(?…` right after the flag was set (the condition of an expression conditional) leaves it set, and the NEXT plain parenthesis silently becomes non-capturing although the pre-scan gave it a number")
	}
	if n == 0 {
		c.Anchor("successful returns of scanGroupOpen")
	}
}

// ---------------------------------------------------------------------------
// R-DIGITACC: decimal accumulation is guarded against overflow and emptiness.
// A loop of the form `n = n*10 + digit` over caller-supplied text wraps around
// for long digit strings and yields 0 for the empty string.  When the result
// is then looked up as a group number, "18446744073709551617" and "" name
// groups 1 and 0.  The parser's own scanners compare the accumulator with
// max/10 before multiplying; every such loop has to.
// ---------------------------------------------------------------------------

func RDigitAcc(c *core.Ctx) {
	c.Rule("R-DIGITACC", "every loop of the module that accumulates a decimal number (`n = n*10 + d` / `n *= 10`) compares the accumulator with a bound (an ordering comparison) inside the loop, before the multiplication can overflow (the max/10 idiom of scanDecimal)", 3)
	p := c.P
	n := 0
	for _, fn := range p.ModuleFuncs() {
		name := core.SSAName(fn)
		cnt := 0
		for _, b := range fn.Blocks {
			for _, ins := range b.Instrs {
				mul, ok := ins.(*ssa.BinOp)
				if !ok || mul.Op != token.MUL {
					continue
				}
				k, isC := core.IntConst(mul.Y)
				if !isC || k != 10 {
					continue
				}
				phi, ok := mul.X.(*ssa.Phi)
				if !ok || !onCycle(b) {
					continue
				}
				cnt++
				n++
				c.Visit(name)
				guarded := false
				for _, r := range core.Referrers(phi) {
					if bin, ok := r.(*ssa.BinOp); ok && onCycle(bin.Block()) {
						switch bin.Op {
						case token.GTR, token.GEQ, token.LSS, token.LEQ:
							// an ordering comparison of the accumulator inside the loop: a bound (constant, max/10 variable, table size)
							guarded = true
						}
					}
				}
				c.Check(guarded, fmt.Sprintf("%s / decimal accumulation #%d is guarded against overflow", name, cnt), mul.Pos(),
					"the accumulator is multiplied by 10 on every digit without ever being compared with a bound: a long digit string wraps around (\"18446744073709551617\" parses as 1) and the result is then used as a group number")
			}
		}
	}
	if n == 0 {
		c.Anchor("decimal accumulation loops")
	}
}
