package rules

import (
	"fmt"
	"go/ast"
	"go/token"
	"go/types"
	"strings"

	"golang.org/x/tools/go/ssa"

	"regexlint/internal/core"
)

// Rules added for the sixth wave of seeded changes.

// ---------------------------------------------------------------------------
// R-OPTWRITE: the parser's current option word changes only in the ways inline
// options are defined to change it.
// ---------------------------------------------------------------------------

func ROptWrite(c *core.Ctx) {
	c.Rule("R-OPTWRITE", "every assignment to parser.options is one of: a restore from the option stack (p.options = p.optionsStack[…]), the initial value handed in as a parameter, or setting / clearing a single option with |= X / &= ^X where X is the RightToLeft constant (look-around direction) or the option variable of the inline-option scanner. Nothing else — in particular no assignment from a node's or group's Options — may move the option scope", 4)
	p := c.P
	syn := p.Pkg("syntax")
	info := syn.TypesInfo
	optF := p.LookupField("syntax", "parser", "options")
	stackF := p.LookupField("syntax", "parser", "optionsStack")
	rtl := p.LookupObj("syntax", "RightToLeft")
	if optF == nil || stackF == nil || rtl == nil {
		c.Anchor("parser.options / parser.optionsStack / RightToLeft")
		return
	}
	n := 0
	for _, fd := range p.FuncDecls(syn) {
		if fd.Body == nil || p.IsTestFile(fd.Pos()) {
			continue
		}
		name := core.DeclName(syn, fd)
		params := map[types.Object]bool{}
		if fd.Type.Params != nil {
			for _, f := range fd.Type.Params.List {
				for _, id := range f.Names {
					params[info.ObjectOf(id)] = true
				}
			}
		}
		ord := 0
		ast.Inspect(fd.Body, func(x ast.Node) bool {
			as, ok := x.(*ast.AssignStmt)
			if !ok || len(as.Lhs) != 1 || len(as.Rhs) != 1 || core.FieldOf(info, as.Lhs[0]) != optF {
				return true
			}
			n++
			ord++
			c.Visit(name)
			rhs := ast.Unparen(as.Rhs[0])
			okW, why := false, ""
			single := func(e ast.Expr) bool {
				// RightToLeft, or a local variable (the option being switched by the inline scanner)
				id, ok := ast.Unparen(e).(*ast.Ident)
				if !ok {
					return false
				}
				obj := info.ObjectOf(id)
				if obj == rtl {
					return true
				}
				v, isVar := obj.(*types.Var)
				return isVar && !v.IsField() && v.Parent() != syn.Types.Scope()
			}
			switch as.Tok {
			case token.ASSIGN:
				if ie, ok := rhs.(*ast.IndexExpr); ok && core.FieldOf(info, ie.X) == stackF {
					okW, why = true, "restore from the option stack"
				} else if id, ok := rhs.(*ast.Ident); ok && params[info.ObjectOf(id)] {
					okW, why = true, "initial value handed in"
				}
			case token.OR_ASSIGN:
				if single(rhs) {
					okW, why = true, "sets one option"
				}
			case token.AND_ASSIGN:
				if u, ok := rhs.(*ast.UnaryExpr); ok && u.Op == token.XOR && single(u.X) {
					okW, why = true, "clears one option"
				}
			case token.AND_NOT_ASSIGN:
				if single(rhs) {
					okW, why = true, "clears one option"
				}
			}
			if okW {
				c.OK(fmt.Sprintf("%s / write #%d of parser.options", name, ord), as.Pos(), "%s", why)
			} else {
				c.Bad(fmt.Sprintf("%s / write #%d of parser.options", name, ord), as.Pos(), "`%s` moves the option word in a way inline options are not defined to: an option switched on or off inside a group lasts to the end of that group, and only the option stack restores it", types.ExprString(as.Lhs[0])+" "+as.Tok.String()+" "+types.ExprString(as.Rhs[0]))
			}
			return true
		})
	}
	if n == 0 {
		c.Anchor("assignments to parser.options")
	}
}

// ---------------------------------------------------------------------------
// R-INLINEMASK: a compile-time option equals its inline spelling, so nothing
// outside the parser may strip an inline-settable option from the option word.
// ---------------------------------------------------------------------------

func RInlineMask(c *core.Ctx) {
	c.Rule("R-INLINEMASK", "outside the pattern parser no option word (a value of type RegexOptions) has an inline-settable option (IgnoreCase, Multiline, Singleline, ExplicitCapture, IgnorePatternWhitespace) cleared from it (&^=, &= ^mask, x &^ mask): Compile(P, O) has to see the same O that (?O)P switches on", 0)
	p := c.P
	syn := p.Pkg("syntax")
	var inline int64
	for _, nm := range []string{"IgnoreCase", "Multiline", "Singleline", "ExplicitCapture", "IgnorePatternWhitespace"} {
		k, ok := p.LookupObj("syntax", nm).(*types.Const)
		if !ok {
			c.Anchor("syntax." + nm)
			return
		}
		v, _ := core.ConstInt(syn.TypesInfo, &ast.Ident{Name: nm})
		_ = v
		if iv, exact := constInt64(k); exact {
			inline |= iv
		}
	}
	nodeOpts := p.LookupField("syntax", "RegexNode", "Options")
	isOptWord := func(info *types.Info, e ast.Expr) bool {
		t := info.TypeOf(e)
		if t == nil {
			return false
		}
		// a NODE's own option word is not a compile-time word: IgnoreCase is taken off a node once
		// its characters have been case-folded (R-NODEOPTS / R-FOLDSIB look after that)
		if f := core.FieldOf(info, e); f != nil && f == nodeOpts {
			return false
		}
		_, nm := core.NamedOf(t)
		return nm == "RegexOptions"
	}
	n, examined := 0, 0
	for _, pk := range p.ModulePkgs() {
		info := pk.TypesInfo
		for _, fd := range p.FuncDecls(pk) {
			if fd.Body == nil || p.IsTestFile(fd.Pos()) {
				continue
			}
			// the parser itself implements inline options
			if fd.Recv != nil && pk == syn {
				if fn, _ := info.Defs[fd.Name].(*types.Func); fn != nil {
					if _, rn := core.NamedOf(fn.Type().(*types.Signature).Recv().Type()); rn == "parser" {
						continue
					}
				}
			}
			name := core.DeclName(pk, fd)
			report := func(pos token.Pos, mask ast.Expr, text string) {
				examined++
				k, ok := core.ConstInt(info, mask)
				if !ok || k&inline == 0 {
					return
				}
				n++
				c.Visit(name)
				c.Bad(fmt.Sprintf("%s / clears inline-settable options from an option word #%d", name, n), pos, "`%s` removes option bits %#x that can also be set inline: the compile-time spelling of the option then differs from (?O)", text, k&inline)
			}
			ast.Inspect(fd.Body, func(x ast.Node) bool {
				switch y := x.(type) {
				case *ast.AssignStmt:
					if len(y.Lhs) != 1 || len(y.Rhs) != 1 || !isOptWord(info, y.Lhs[0]) {
						return true
					}
					switch y.Tok {
					case token.AND_NOT_ASSIGN:
						report(y.Pos(), y.Rhs[0], types.ExprString(y.Lhs[0])+" &^= "+types.ExprString(y.Rhs[0]))
					case token.AND_ASSIGN:
						if u, ok := ast.Unparen(y.Rhs[0]).(*ast.UnaryExpr); ok && u.Op == token.XOR {
							report(y.Pos(), u.X, types.ExprString(y.Lhs[0])+" &= "+types.ExprString(y.Rhs[0]))
						}
					}
				case *ast.BinaryExpr:
					if y.Op == token.AND_NOT && isOptWord(info, y.X) {
						// p.options &^ IgnoreCase on a NODE's options inside the parser is R-NODEOPTS' business; here: other packages / functions
						report(y.Pos(), y.Y, types.ExprString(y))
					}
				}
				return true
			})
		}
	}
	c.Note("R-INLINEMASK: %d option-clearing expressions examined", examined)
	if n == 0 {
		c.OK("module / no inline-settable option is cleared from an option word outside the parser", token.NoPos, "%d clearing expressions examined", examined)
	}
}

func constInt64(k *types.Const) (int64, bool) {
	s := k.Val().ExactString()
	var v int64
	_, err := fmt.Sscan(s, &v)
	return v, err == nil
}

// ---------------------------------------------------------------------------
// R-ANCHORSRC: anchors come from the pattern.
// ---------------------------------------------------------------------------

var anchorKinds = map[string]bool{"NtStart": true, "NtBeginning": true, "NtEnd": true, "NtEndZ": true, "NtBol": true, "NtEol": true,
	"NtBoundary": true, "NtNonboundary": true, "NtECMABoundary": true, "NtNonECMABoundary": true}

func RAnchorSrc(c *core.Ctx) {
	c.Rule("R-ANCHORSRC", "a node of an anchor kind (\\G, \\A, \\z, \\Z, ^, $, \\b, \\B) is created only by the parser, from an anchor written in the pattern: no tree rewrite, optimisation or analysis creates one (composite literal, newRegexNode* argument or assignment to .T) — an inserted \\G makes every continuation of a match sequence fail", 0)
	p := c.P
	syn := p.Pkg("syntax")
	info := syn.TypesInfo
	tField := p.LookupField("syntax", "RegexNode", "T")
	if tField == nil {
		c.Anchor("RegexNode.T")
		return
	}
	isAnchorConst := func(e ast.Expr) string {
		id, ok := ast.Unparen(e).(*ast.Ident)
		if !ok {
			return ""
		}
		k, ok := info.ObjectOf(id).(*types.Const)
		if !ok || !anchorKinds[core.BaseName(k)] {
			return ""
		}
		return core.BaseName(k)
	}
	n, inParser := 0, 0
	for _, fd := range p.FuncDecls(syn) {
		if fd.Body == nil || p.IsTestFile(fd.Pos()) {
			continue
		}
		name := core.DeclName(syn, fd)
		isParser := false
		if fd.Recv != nil {
			if fn, _ := info.Defs[fd.Name].(*types.Func); fn != nil {
				if _, rn := core.NamedOf(fn.Type().(*types.Signature).Recv().Type()); rn == "parser" {
					isParser = true
				}
			}
		}
		found := func(pos token.Pos, kind, how string) {
			if isParser {
				inParser++
				return
			}
			n++
			c.Visit(name)
			c.Bad(fmt.Sprintf("%s / creates an anchor node #%d", name, n), pos, "%s %s outside the parser: the pattern did not ask for this anchor", how, kind)
		}
		ast.Inspect(fd.Body, func(x ast.Node) bool {
			switch y := x.(type) {
			case *ast.CompositeLit:
				if !core.IsNamed(info.TypeOf(y), core.PkgSyntax, "RegexNode") {
					return true
				}
				for _, e := range y.Elts {
					if kv, ok := e.(*ast.KeyValueExpr); ok {
						if k, ok := kv.Key.(*ast.Ident); ok && k.Name == "T" {
							if kind := isAnchorConst(kv.Value); kind != "" {
								found(y.Pos(), kind, "composite literal with T:")
							}
						}
					}
				}
			case *ast.CallExpr:
				fn := core.Callee(info, y)
				if fn != nil && fn.Pkg() == syn.Types && strings.HasPrefix(core.BaseName(fn), "newRegexNode") && len(y.Args) > 0 {
					if kind := isAnchorConst(y.Args[0]); kind != "" {
						found(y.Pos(), kind, core.BaseName(fn)+" with")
					}
				}
			case *ast.AssignStmt:
				for i, l := range y.Lhs {
					if core.FieldOf(info, l) == tField && i < len(y.Rhs) {
						if kind := isAnchorConst(y.Rhs[i]); kind != "" {
							found(y.Pos(), kind, "assignment of .T =")
						}
					}
				}
			}
			return true
		})
	}
	c.Note("R-ANCHORSRC: %d anchor creations inside the parser", inParser)
	if n == 0 {
		c.OK("package syntax / anchor nodes are created by the parser only", token.NoPos, "%d creations with a constant anchor kind in parser methods (the parser mostly goes through typeFromCode); none elsewhere", inParser)
	}
}

// ---------------------------------------------------------------------------
// R-TEXTEND: the interpreter's end of text is the end of the text.
// ---------------------------------------------------------------------------

func RTextEnd(c *core.Ctx) {
	c.Rule("R-TEXTEND", "Runner.Runtextend is only ever assigned the length of the text the same function installs in Runner.Runtext: look-ahead, \\b, $ and \\z of a right-to-left scan or of a continued search still see everything to the right of the start position", 1)
	p := c.P
	endF := p.LookupField("", "Runner", "Runtextend")
	textF := p.LookupField("", "Runner", "Runtext")
	if endF == nil || textF == nil {
		c.Anchor("Runner.Runtextend / Runner.Runtext")
		return
	}
	n := 0
	for _, fn := range p.ModuleFuncs() {
		name := core.SSAName(fn)
		var texts []ssa.Value
		for _, b := range fn.Blocks {
			for _, ins := range b.Instrs {
				if st, ok := ins.(*ssa.Store); ok && core.FieldVarOfAddr(st.Addr) == textF {
					texts = append(texts, st.Val)
				}
			}
		}
		for _, b := range fn.Blocks {
			for _, ins := range b.Instrs {
				st, ok := ins.(*ssa.Store)
				if !ok || core.FieldVarOfAddr(st.Addr) != endF {
					continue
				}
				n++
				c.Visit(name)
				okLen := false
				if call, ok := st.Val.(*ssa.Call); ok {
					if bi, ok := call.Call.Value.(*ssa.Builtin); ok && bi.Name() == "len" && len(call.Call.Args) == 1 {
						arg := call.Call.Args[0]
						for _, t := range texts {
							if t == arg {
								okLen = true
							}
						}
						if _, isLoad := core.LoadOfField(arg, textF); isLoad {
							okLen = true
						}
					}
				}
				c.Check(okLen, fmt.Sprintf("%s / store #%d to Runtextend is the length of the text", name, n), st.Pos(), "Runtextend receives %s, not len(<the text installed in Runtext>): the interpreter then takes a position inside the input for its end", st.Val.String())
			}
		}
	}
	if n == 0 {
		c.Anchor("stores to Runner.Runtextend")
	}
}

// ---------------------------------------------------------------------------
// R-ESCLITERAL: an escaped character in a class is never class syntax.
// ---------------------------------------------------------------------------

func REscLiteral(c *core.Ctx) {
	c.Rule("R-ESCLITERAL", "in scanCharSet every arm of the switch on the character after a backslash either finishes the member itself (ends in continue / return) or marks the character as translated (the flag whose negation guards the `[`-starts-a-subtraction tests): an escaped character that falls through to the shared range logic unmarked is read as syntax (`\\-[` would open a subtraction)", 4)
	p := c.P
	syn := p.Pkg("syntax")
	info := syn.TypesInfo
	fd, _ := p.DeclOf(p.LookupFunc("syntax", "parser.scanCharSet"))
	if fd == nil {
		c.Anchor("syntax.parser.scanCharSet")
		return
	}
	c.Visit("syntax.(*parser).scanCharSet")
	// the flag: a bool local negated in a condition that also compares with '['
	var flag types.Object
	ast.Inspect(fd.Body, func(x ast.Node) bool {
		ifs, ok := x.(*ast.IfStmt)
		if !ok {
			return true
		}
		hasBracket := false
		var negs []types.Object
		ast.Inspect(ifs.Cond, func(y ast.Node) bool {
			switch z := y.(type) {
			case *ast.BasicLit:
				if z.Kind == token.CHAR && z.Value == "'['" {
					hasBracket = true
				}
			case *ast.UnaryExpr:
				if z.Op == token.NOT {
					if id, ok := ast.Unparen(z.X).(*ast.Ident); ok {
						if v, ok := info.ObjectOf(id).(*types.Var); ok && !v.IsField() {
							negs = append(negs, v)
						}
					}
				}
			}
			return true
		})
		if hasBracket {
			for _, v := range negs {
				// the one that is assigned true somewhere (firstChar is only ever assigned false in the loop post)
				ast.Inspect(fd.Body, func(y ast.Node) bool {
					if as, ok := y.(*ast.AssignStmt); ok && len(as.Lhs) == 1 && len(as.Rhs) == 1 {
						if id, ok := as.Lhs[0].(*ast.Ident); ok && info.ObjectOf(id) == v {
							if tv, ok := info.Types[as.Rhs[0]]; ok && tv.Value != nil && tv.Value.String() == "true" && as.Tok == token.ASSIGN {
								flag = v
							}
						}
					}
					return true
				})
			}
		}
		return true
	})
	if flag == nil {
		c.Anchor("the translated-character flag of scanCharSet")
		return
	}
	// the switch on the escaped character: nested in an if whose condition compares with '\\'
	var sw *ast.SwitchStmt
	ast.Inspect(fd.Body, func(x ast.Node) bool {
		ifs, ok := x.(*ast.IfStmt)
		if !ok || sw != nil {
			return true
		}
		bs := false
		ast.Inspect(ifs.Cond, func(y ast.Node) bool {
			if bl, ok := y.(*ast.BasicLit); ok && bl.Kind == token.CHAR && bl.Value == `'\\'` {
				bs = true
			}
			return true
		})
		if !bs {
			return true
		}
		for _, st := range ifs.Body.List {
			if s, ok := st.(*ast.SwitchStmt); ok {
				sw = s
			}
		}
		return true
	})
	if sw == nil {
		c.Anchor("the switch on the escaped character in scanCharSet")
		return
	}
	n := 0
	for _, st := range sw.Body.List {
		cc := st.(*ast.CaseClause)
		label := "default"
		if cc.List != nil {
			var ls []string
			for _, e := range cc.List {
				ls = append(ls, types.ExprString(e))
			}
			label = strings.Join(ls, ",")
		}
		n++
		ends := false
		if len(cc.Body) > 0 {
			switch l := cc.Body[len(cc.Body)-1].(type) {
			case *ast.ReturnStmt:
				ends = true
			case *ast.BranchStmt:
				ends = l.Tok == token.CONTINUE
			}
		}
		marks := false
		for _, s2 := range cc.Body {
			ast.Inspect(s2, func(y ast.Node) bool {
				if as, ok := y.(*ast.AssignStmt); ok && len(as.Lhs) == 1 && len(as.Rhs) == 1 {
					if id, ok := as.Lhs[0].(*ast.Ident); ok && info.ObjectOf(id) == flag {
						if tv, ok := info.Types[as.Rhs[0]]; ok && tv.Value != nil && tv.Value.String() == "true" {
							marks = true
						}
					}
				}
				return true
			})
		}
		c.Check(ends || marks, fmt.Sprintf("scanCharSet / escape arm %s finishes the member or marks it translated", label), cc.Pos(), "the arm leaves the switch without `continue` and without setting %s: the escaped character reaches the shared range / subtraction logic as if it had been written bare", flag.Name())
	}
	if n == 0 {
		c.Anchor("arms of the escape switch in scanCharSet")
	}
}

// ---------------------------------------------------------------------------
// R-BUFALIAS: a new buffer does not share storage with a live one.
// ---------------------------------------------------------------------------

func RBufAlias(c *core.Ctx) {
	c.Rule("R-BUFALIAS", "bytes.NewBuffer / bytes.NewBufferString is never given the Bytes() of another buffer: the new buffer would write into the spare capacity of the old one, and a later write to either overwrites what the other appended (branch copies of the prefix analysis all ending in the first branch)", 0)
	p := c.P
	n, examined := 0, 0
	for _, pk := range p.ModulePkgs() {
		info := pk.TypesInfo
		for _, fd := range p.FuncDecls(pk) {
			if fd.Body == nil || p.IsTestFile(fd.Pos()) {
				continue
			}
			name := core.DeclName(pk, fd)
			ast.Inspect(fd.Body, func(x ast.Node) bool {
				call, ok := x.(*ast.CallExpr)
				if !ok || len(call.Args) != 1 {
					return true
				}
				fn := core.Callee(info, call)
				if fn == nil || fn.FullName() != "bytes.NewBuffer" {
					return true
				}
				examined++
				inner, ok := ast.Unparen(call.Args[0]).(*ast.CallExpr)
				if !ok {
					return true
				}
				if f2 := core.Callee(info, inner); f2 != nil && f2.FullName() == "(*bytes.Buffer).Bytes" {
					n++
					c.Visit(name)
					c.Bad(fmt.Sprintf("%s / a new buffer over another buffer's bytes #%d", name, n), call.Pos(), "%s shares the backing array (and its spare capacity) with the buffer it was taken from", types.ExprString(call))
				}
				return true
			})
		}
	}
	c.Note("R-BUFALIAS: %d bytes.NewBuffer calls examined", examined)
	if n == 0 {
		c.OK("module / no buffer is created over another buffer's bytes", token.NoPos, "%d bytes.NewBuffer calls examined", examined)
	}
}

// ---------------------------------------------------------------------------
// R-DISTADD: a running offset is a sum.
// ---------------------------------------------------------------------------

func RDistAdd(c *core.Ctx) {
	c.Rule("R-DISTADD", "in the fixed-distance analyses the running offset handed down by pointer (`distance *int`) is only ever advanced by addition (*distance += e, *distance = *distance + e) or restored from a saved copy: the offset of what follows k copies of a body of width w that starts at offset d is d + k·w, never (d + w)·k", 3)
	p := c.P
	syn := p.Pkg("syntax")
	info := syn.TypesInfo
	n := 0
	for _, fd := range p.FuncDecls(syn) {
		if fd.Body == nil || fd.Type.Params == nil || p.IsTestFile(fd.Pos()) {
			continue
		}
		var dist types.Object
		for _, f := range fd.Type.Params.List {
			for _, id := range f.Names {
				if pt, ok := info.ObjectOf(id).Type().(*types.Pointer); ok {
					if bt, ok := pt.Elem().Underlying().(*types.Basic); ok && bt.Kind() == types.Int && strings.Contains(strings.ToLower(id.Name), "dist") {
						dist = info.ObjectOf(id)
					}
				}
			}
		}
		if dist == nil {
			continue
		}
		name := core.DeclName(syn, fd)
		isDeref := func(e ast.Expr) bool {
			s, ok := ast.Unparen(e).(*ast.StarExpr)
			if !ok {
				return false
			}
			id, ok := ast.Unparen(s.X).(*ast.Ident)
			return ok && info.ObjectOf(id) == dist
		}
		ord := 0
		ast.Inspect(fd.Body, func(x ast.Node) bool {
			switch y := x.(type) {
			case *ast.AssignStmt:
				for i, l := range y.Lhs {
					if !isDeref(l) {
						continue
					}
					n++
					ord++
					c.Visit(name)
					okA := false
					switch y.Tok {
					case token.ADD_ASSIGN:
						okA = true
					case token.ASSIGN:
						if i < len(y.Rhs) {
							r := ast.Unparen(y.Rhs[i])
							if _, isId := r.(*ast.Ident); isId {
								okA = true // restore from a saved copy
							}
							if be, isB := r.(*ast.BinaryExpr); isB && be.Op == token.ADD && (isDeref(be.X) || isDeref(be.Y)) {
								okA = true
							}
						}
					}
					c.Check(okA, fmt.Sprintf("%s / update #%d of the running distance is an addition", name, ord), y.Pos(), "`%s %s …` scales or recomputes the running offset: whatever was in front of this node is scaled with it", types.ExprString(l), y.Tok)
				}
			case *ast.IncDecStmt:
				if isDeref(y.X) {
					n++
					ord++
					c.Visit(name)
					c.Check(y.Tok == token.INC, fmt.Sprintf("%s / update #%d of the running distance is an addition", name, ord), y.Pos(), "the running offset is decremented")
				}
			}
			return true
		})
	}
	if n == 0 {
		c.Anchor("updates of a running *distance in package syntax")
	}
}

// ---------------------------------------------------------------------------
// R-GAPKIND: what may stand between the leading loop and the first landmark
// consumes nothing.
// ---------------------------------------------------------------------------

var zeroWidthKinds = map[string]string{
	"NtEmpty": "matches the empty string", "NtUpdateBumpalong": "bookkeeping only", "NtNothing": "never matches",
	"NtBeginning": "anchor", "NtBol": "anchor", "NtStart": "anchor", "NtEndZ": "anchor", "NtEnd": "anchor", "NtEol": "anchor",
	"NtBoundary": "assertion", "NtNonboundary": "assertion", "NtECMABoundary": "assertion", "NtNonECMABoundary": "assertion",
	"NtPosLook": "look-around", "NtNegLook": "look-around",
}

func RGapKind(c *core.Ctx) {
	c.Rule("R-GAPKIND", "isZeroWidthLandmarkGap answers true only for node kinds that consume no text (anchors, assertions, Empty, UpdateBumpalong): the landmark-chain finder computes the candidate start by walking left from the first landmark over the leading loop's characters only, so anything that CAN consume text in between — an optional character loop included — puts the real start further left than the candidate", 1)
	p := c.P
	syn := p.Pkg("syntax")
	info := syn.TypesInfo
	fd, _ := p.DeclOf(p.LookupFunc("syntax", "isZeroWidthLandmarkGap"))
	if fd == nil {
		c.Anchor("syntax.isZeroWidthLandmarkGap")
		return
	}
	c.Visit("syntax.isZeroWidthLandmarkGap")
	n := 0
	ast.Inspect(fd.Body, func(x ast.Node) bool {
		cc, ok := x.(*ast.CaseClause)
		if !ok || cc.List == nil {
			return true
		}
		// can this clause answer something other than the constant false?
		mayTrue := false
		for _, st := range cc.Body {
			ast.Inspect(st, func(y ast.Node) bool {
				if rs, ok := y.(*ast.ReturnStmt); ok && len(rs.Results) == 1 {
					if tv, ok := info.Types[rs.Results[0]]; !ok || tv.Value == nil || tv.Value.String() != "false" {
						mayTrue = true
					}
				}
				return true
			})
		}
		if !mayTrue {
			return true
		}
		for _, e := range cc.List {
			id, ok := ast.Unparen(e).(*ast.Ident)
			if !ok {
				continue
			}
			k, ok := info.ObjectOf(id).(*types.Const)
			if !ok {
				continue
			}
			n++
			reason, listed := zeroWidthKinds[core.BaseName(k)]
			c.Check(listed, fmt.Sprintf("isZeroWidthLandmarkGap / %s consumes no text", core.BaseName(k)), e.Pos(), "%s can consume characters (even when its minimum is 0): text between the leading loop and the first landmark is not walked over when the candidate start is computed%s", core.BaseName(k), reason)
		}
		return true
	})
	if n == 0 {
		c.Anchor("node kinds accepted by isZeroWidthLandmarkGap")
	}
}

// ---------------------------------------------------------------------------
// R-ERRPROP: an error from the matcher is never dropped by a fold.
// ---------------------------------------------------------------------------

func RErrProp(c *core.Ctx) {
	c.Rule("R-ERRPROP", "in packages regexp2 and compat, the error result of every call that can reach the matcher (FindStringMatch, FindNextMatch, run, scan, Replace …: any module function returning an error) flows into a return of the calling function, into a panic / must helper, or into another call — it is never only compared with nil and then abandoned: a timeout or stack-limit error in a later step of Split / Replace must not turn into a truncated result with a nil error", 20)
	p := c.P
	n := 0
	errT := types.Universe.Lookup("error").Type()
	for _, fn := range p.ModuleFuncs() {
		pkp := core.FnPkgPath(fn)
		if pkp != core.PkgRoot && pkp != core.PkgCompat {
			continue
		}
		name := core.SSAName(fn)
		ord := 0
		for _, b := range fn.Blocks {
			for _, ins := range b.Instrs {
				call, ok := ins.(*ssa.Call)
				if !ok {
					continue
				}
				cal := call.Call.StaticCallee()
				if cal == nil || !core.InModule(cal) {
					continue
				}
				res := cal.Signature.Results()
				if res.Len() == 0 || !types.Identical(res.At(res.Len()-1).Type(), errT) {
					continue
				}
				// the error value(s)
				var errVals []ssa.Value
				if res.Len() == 1 {
					errVals = append(errVals, call)
				} else {
					for _, r := range core.Referrers(call) {
						if ex, ok := r.(*ssa.Extract); ok && ex.Index == res.Len()-1 {
							errVals = append(errVals, ex)
						}
					}
				}
				ord++
				n++
				c.Visit(name)
				used := false
				seen := map[ssa.Value]bool{}
				var follow func(v ssa.Value, depth int)
				follow = func(v ssa.Value, depth int) {
					if seen[v] || depth > 6 || used {
						return
					}
					seen[v] = true
					for _, r := range core.Referrers(v) {
						switch u := r.(type) {
						case *ssa.Return:
							used = true
						case *ssa.Panic:
							used = true
						case ssa.CallInstruction:
							used = true // handed on (must(err), fmt.Errorf("…%w", err), a callback)
						case *ssa.Phi:
							follow(u, depth+1)
						case *ssa.MakeInterface:
							follow(u, depth+1)
						case *ssa.ChangeInterface:
							follow(u, depth+1)
						case *ssa.Store:
							// stored into a local cell (results spilled by a defer, captured variables): its loads count
							if al, ok := u.Addr.(*ssa.Alloc); ok {
								for _, r2 := range core.Referrers(al) {
									if ld, ok := r2.(*ssa.UnOp); ok && ld.Op == token.MUL {
										follow(ld, depth+1)
									}
								}
							} else {
								used = true // kept in a field: someone else reports it
							}
						}
					}
				}
				for _, ev := range errVals {
					follow(ev, 0)
				}
				if len(errVals) == 0 {
					// the error result is discarded outright (`x, _ := f()` or a bare call)
					used = false
				}
				c.Check(used, fmt.Sprintf("%s / error of call #%d (%s) is propagated", name, ord, core.BaseName(cal)), call.Pos(), "the error returned by %s is tested at most against nil and then dropped: the caller gets a result built from the matches found so far and a nil error", core.SSAName(cal))
			}
		}
	}
	if n == 0 {
		c.Anchor("calls of error-returning module functions in regexp2 / compat")
	}
}

// ---------------------------------------------------------------------------
// R-EXITFRESH: the clock goroutine decides to stop on a FRESH reading of the
// clock's end.  extendClock raises clockEnd under the mutex and starts a new
// goroutine only when fast.running is false; so between the read of clockEnd
// that justifies stopping and the store `fast.running = false` the mutex must
// be held throughout.  A value read before the sleep (lock released) and
// compared afterwards lets a deadline registered meanwhile find running ==
// true, start no clock — and then the old one exits anyway.
// ---------------------------------------------------------------------------

func RExitFresh(c *core.Ctx) {
	c.Rule("R-EXITFRESH", "in runClock every path from a read of fast.clockEnd to the store fast.running = false is free of a Mutex.Unlock: the decision to stop and the announcement are one critical section, so no extendClock can slip in between", 1)
	p := c.P
	rc := p.SSAFunc(p.LookupFunc("", "runClock"))
	running := p.LookupField("", "fastclock", "running")
	clockEnd := p.LookupField("", "fastclock", "clockEnd")
	read := p.SSAFunc(p.LookupFunc("", "atomicTime.read"))
	if rc == nil || running == nil || clockEnd == nil || read == nil {
		c.Anchor("runClock / fastclock.running / fastclock.clockEnd / atomicTime.read")
		return
	}
	name := core.SSAName(rc)
	c.Visit(name)
	isUnlock := func(ins ssa.Instruction) bool {
		call, ok := ins.(*ssa.Call)
		if !ok {
			return false
		}
		cal := call.Call.StaticCallee()
		return cal != nil && (cal.String() == "(*sync.Mutex).Unlock" || cal.String() == "(*sync.RWMutex).Unlock")
	}
	isEndRead := func(ins ssa.Instruction) bool {
		call, ok := ins.(*ssa.Call)
		if !ok || call.Call.StaticCallee() != read || len(call.Call.Args) == 0 {
			return false
		}
		fa, ok := call.Call.Args[0].(*ssa.FieldAddr)
		return ok && core.FieldVarOfAddr(fa) == clockEnd
	}
	isStop := func(ins ssa.Instruction) bool {
		st, ok := ins.(*ssa.Store)
		if !ok || core.FieldVarOfAddr(st.Addr) != running {
			return false
		}
		k, ok := st.Val.(*ssa.Const)
		return ok && k.Value != nil && k.Value.String() == "false"
	}
	n := 0
	for _, b := range rc.Blocks {
		for idx, ins := range b.Instrs {
			if !isEndRead(ins) {
				continue
			}
			n++
			// forward search; state: unlocked since the read?
			type st struct {
				b        *ssa.BasicBlock
				i        int
				unlocked bool
			}
			seen := map[[2]int]bool{}
			stack := []st{{b, idx + 1, false}}
			bad := false
			for len(stack) > 0 && !bad {
				cur := stack[len(stack)-1]
				stack = stack[:len(stack)-1]
				key := [2]int{cur.b.Index*2 + map[bool]int{false: 0, true: 1}[cur.unlocked], cur.i}
				if seen[key] {
					continue
				}
				seen[key] = true
				unl := cur.unlocked
				stop := false
				for _, i2 := range cur.b.Instrs[cur.i:] {
					if isEndRead(i2) {
						stop = true // a fresh read starts its own search
						break
					}
					if isUnlock(i2) {
						unl = true
					}
					if isStop(i2) {
						if unl {
							bad = true
						}
						stop = true
						break
					}
				}
				if stop {
					continue
				}
				for _, s := range cur.b.Succs {
					stack = append(stack, st{s, 0, unl})
				}
			}
			c.Check(!bad, fmt.Sprintf("%s / read #%d of clockEnd that can lead to stopping is in the same critical section as running = false", name, n), ins.Pos(), "a path from this read to `fast.running = false` releases the mutex in between: a deadline that extends the clock during that window sees running == true, starts no goroutine, and this one stops although the new end has not been reached")
		}
	}
	if n == 0 {
		c.Anchor("reads of fast.clockEnd in runClock")
	}
}

// ---------------------------------------------------------------------------
// R-SPLITSTRIDE: Split reports, after every piece of text, one entry per
// capture group — always the same number, so a caller can re-join the pieces
// and tell text from groups by position.  In the functions that build the
// result of Split, the loop over a match's groups appends unconditionally.
// ---------------------------------------------------------------------------

func RSplitStride(c *core.Ctx) {
	c.Rule("R-SPLITSTRIDE", "in Split and the helpers it calls, inside a loop over the groups of a match (an index or range loop over the result of Groups()) the append to the result is unconditional: one entry per group per match, whatever the group captured — an entry that is skipped for an empty or unset group changes the stride and the pieces no longer line up", 2)
	p := c.P
	root := p.Pkg("")
	info := root.TypesInfo
	groups := p.LookupFunc("", "Match.Groups")
	split := p.SSAFunc(p.LookupFunc("", "Regexp.Split"))
	if groups == nil || split == nil {
		c.Anchor("Match.Groups / Regexp.Split")
		return
	}
	reach := p.Reachable([]*ssa.Function{split})
	n := 0
	for _, fd := range p.FuncDecls(root) {
		if fd.Body == nil || p.IsTestFile(fd.Pos()) {
			continue
		}
		fnObj, _ := info.Defs[fd.Name].(*types.Func)
		if fnObj == nil || !reach[p.SSAFunc(fnObj)] {
			continue
		}
		name := core.DeclName(root, fd)
		// variables holding Groups() results
		gvars := map[types.Object]bool{}
		ast.Inspect(fd.Body, func(x ast.Node) bool {
			as, ok := x.(*ast.AssignStmt)
			if !ok || len(as.Lhs) != len(as.Rhs) {
				return true
			}
			for i, r := range as.Rhs {
				if call, ok := ast.Unparen(r).(*ast.CallExpr); ok && core.IsCallTo(info, call, groups) {
					if id, ok := as.Lhs[i].(*ast.Ident); ok {
						gvars[info.ObjectOf(id)] = true
					}
				}
			}
			return true
		})
		if len(gvars) == 0 {
			continue
		}
		mentionsG := func(e ast.Node) bool {
			found := false
			ast.Inspect(e, func(y ast.Node) bool {
				if id, ok := y.(*ast.Ident); ok && gvars[info.ObjectOf(id)] {
					found = true
				}
				if call, ok := y.(*ast.CallExpr); ok && core.IsCallTo(info, call, groups) {
					found = true
				}
				return true
			})
			return found
		}
		ast.Inspect(fd.Body, func(x ast.Node) bool {
			var body *ast.BlockStmt
			switch l := x.(type) {
			case *ast.ForStmt:
				if (l.Cond != nil && mentionsG(l.Cond)) || (l.Init != nil && mentionsG(l.Init)) {
					body = l.Body
				}
			case *ast.RangeStmt:
				if mentionsG(l.X) {
					body = l.Body
				}
			}
			if body == nil {
				return true
			}
			// appends anywhere in the body: each must be a direct statement of the body
			direct := map[ast.Stmt]bool{}
			for _, st := range body.List {
				direct[st] = true
			}
			ast.Inspect(body, func(y ast.Node) bool {
				as, ok := y.(*ast.AssignStmt)
				if !ok || len(as.Rhs) != 1 {
					return true
				}
				call, ok := ast.Unparen(as.Rhs[0]).(*ast.CallExpr)
				if !ok {
					return true
				}
				if id, ok := call.Fun.(*ast.Ident); !ok || id.Name != "append" {
					return true
				}
				n++
				c.Visit(name)
				c.Check(direct[as], fmt.Sprintf("%s / group entry #%d is appended for every group", name, n), as.Pos(), "the append sits under a condition inside the loop over the groups: groups for which it is false get no entry, so the number of entries per match varies")
				return true
			})
			return true
		})
	}
	if n == 0 {
		c.Anchor("loops over Match.Groups() that append to the result of Split")
	}
}

// ---------------------------------------------------------------------------
// R-EOLNL: $ and \Z hold at the very end AND in front of a final newline (in
// Multiline mode $ holds in front of every newline).  A loop may be made
// atomic in front of them only if it cannot take that newline: wherever
// canBeMadeAtomic accepts NtEol or NtEndZ as the successor, the same
// conjunction keeps '\n' out of the loop (n.Ch != '\n', !n.Set.CharIn('\n')).
// ---------------------------------------------------------------------------

func REolNl(c *core.Ctx) {
	c.Rule("R-EOLNL", "in canBeMadeAtomic (and the predicates it hands its tests to) every alternative that accepts NtEol or NtEndZ as successor of a loop also tests the loop against '\\n' in the same conjunction: $ / \\Z hold before a newline the loop could give back, so a loop that can match '\\n' must keep its backtracking (only \\z, NtEnd, needs no such test)", 4)
	p := c.P
	syn := p.Pkg("syntax")
	info := syn.TypesInfo
	fd, _ := p.DeclOf(p.LookupFunc("syntax", "RegexNode.canBeMadeAtomic"))
	tField := p.LookupField("syntax", "RegexNode", "T")
	if fd == nil || tField == nil {
		c.Anchor("syntax.RegexNode.canBeMadeAtomic / RegexNode.T")
		return
	}
	c.Visit("syntax.(*RegexNode).canBeMadeAtomic")
	units := []*ast.FuncDecl{fd}
	ast.Inspect(fd.Body, func(x ast.Node) bool {
		if call, ok := x.(*ast.CallExpr); ok {
			if fn := core.Callee(info, call); fn != nil && fn.Pkg() == syn.Types && strings.Contains(strings.ToLower(core.BaseName(fn)), "overlap") {
				if d, _ := p.DeclOf(fn); d != nil && d.Body != nil {
					dup := false
					for _, u := range units {
						if u == d {
							dup = true
						}
					}
					if !dup {
						units = append(units, d)
					}
				}
			}
		}
		return true
	})
	n := 0
	mentionsKind := func(e ast.Expr) string {
		found := ""
		ast.Inspect(e, func(y ast.Node) bool {
			be, ok := y.(*ast.BinaryExpr)
			if !ok || be.Op != token.EQL || core.FieldOf(info, be.X) != tField {
				return true
			}
			if id, ok := ast.Unparen(be.Y).(*ast.Ident); ok {
				if k, ok := info.ObjectOf(id).(*types.Const); ok && (core.BaseName(k) == "NtEol" || core.BaseName(k) == "NtEndZ") {
					found = core.BaseName(k)
				}
			}
			return true
		})
		return found
	}
	mentionsNewline := func(e ast.Expr) bool {
		found := false
		ast.Inspect(e, func(y ast.Node) bool {
			if bl, ok := y.(*ast.BasicLit); ok && bl.Kind == token.CHAR {
				if k, ok := core.ConstInt(info, bl); ok && k == '\n' {
					found = true
				}
			}
			return true
		})
		return found
	}
	// The form the newline test has to take is given by the sibling alternative for a
	// single-character successor: a successor that holds in front of '\n' is treated like
	// the successor One('\n').  `subsequent.T == NtOne && n.Ch != subsequent.Ch` gives
	// `n.Ch != '\n'`; the negated-character loop, whose test is `n.Ch == subsequent.Ch`,
	// needs `n.Ch == '\n'`.
	ntOne := p.LookupObj("syntax", "NtOne")
	chField := p.LookupField("syntax", "RegexNode", "Ch")
	var flatOr func(e ast.Expr, out *[]ast.Expr)
	flatOr = func(e ast.Expr, out *[]ast.Expr) {
		e = ast.Unparen(e)
		if be, ok := e.(*ast.BinaryExpr); ok && be.Op == token.LOR {
			flatOr(be.X, out)
			flatOr(be.Y, out)
			return
		}
		*out = append(*out, e)
	}
	var flatAnd func(e ast.Expr, out *[]ast.Expr)
	flatAnd = func(e ast.Expr, out *[]ast.Expr) {
		e = ast.Unparen(e)
		if be, ok := e.(*ast.BinaryExpr); ok && be.Op == token.LAND {
			flatAnd(be.X, out)
			flatAnd(be.Y, out)
			return
		}
		*out = append(*out, e)
	}
	// render e with every `<succ>.Ch` written as '\n'
	var render func(e ast.Expr, succ types.Object) string
	render = func(e ast.Expr, succ types.Object) string {
		switch x := ast.Unparen(e).(type) {
		case *ast.SelectorExpr:
			if id, ok := ast.Unparen(x.X).(*ast.Ident); ok && succ != nil && info.ObjectOf(id) == succ && core.FieldOf(info, x) == chField {
				return "'\\n'"
			}
			return types.ExprString(x)
		case *ast.BinaryExpr:
			return render(x.X, succ) + " " + x.Op.String() + " " + render(x.Y, succ)
		case *ast.UnaryExpr:
			return x.Op.String() + render(x.X, succ)
		case *ast.CallExpr:
			var args []string
			for _, a := range x.Args {
				args = append(args, render(a, succ))
			}
			return types.ExprString(x.Fun) + "(" + strings.Join(args, ", ") + ")"
		}
		return types.ExprString(e)
	}
	oneTestOf := func(alts []ast.Expr) (string, bool) {
		for _, alt := range alts {
			var cj []ast.Expr
			flatAnd(alt, &cj)
			if len(cj) != 2 {
				continue
			}
			for i, cnd := range cj {
				be, ok := cnd.(*ast.BinaryExpr)
				if !ok || be.Op != token.EQL || core.FieldOf(info, be.X) != tField {
					continue
				}
				id, ok := ast.Unparen(be.Y).(*ast.Ident)
				if !ok || ntOne == nil || info.ObjectOf(id) != ntOne {
					continue
				}
				sel, ok := ast.Unparen(be.X).(*ast.SelectorExpr)
				if !ok {
					continue
				}
				sid, ok := ast.Unparen(sel.X).(*ast.Ident)
				if !ok {
					continue
				}
				return render(cj[1-i], info.ObjectOf(sid)), true
			}
		}
		return "", false
	}
	// an if statement that has no alternative for a one-character successor of its own (rows added
	// in a separate `if` further down the same branch) is judged by the nearest one before it
	lastOne, haveLast := "", false
	visit := func(root ast.Expr) {
		var alts []ast.Expr
		flatOr(root, &alts)
		oneTest, haveOne := oneTestOf(alts)
		if haveOne {
			lastOne, haveLast = oneTest, true
		} else if haveLast {
			oneTest, haveOne = lastOne, true
		}
		for _, e := range alts {
			kind := mentionsKind(e)
			if kind == "" {
				continue
			}
			n++
			key := fmt.Sprintf("canBeMadeAtomic / alternative #%d accepting %s keeps '\\n' out of the loop", n, kind)
			if !mentionsNewline(e) {
				c.Bad(key, e.Pos(), "`%s` accepts %s as successor without testing the loop against '\\n': in front of $ / \\Z a loop over newlines has to be able to give one back (`(?m)a\\n+$` on \"a\\n\\nb\")", types.ExprString(e), kind)
				continue
			}
			if haveOne && chField != nil {
				var cj []ast.Expr
				flatAnd(e, &cj)
				same := false
				for _, cnd := range cj {
					if mentionsNewline(cnd) && render(cnd, nil) == oneTest {
						same = true
					}
				}
				if !same {
					c.Bad(key, e.Pos(), "`%s` tests the loop against '\\n' differently from the way the sibling alternative for a one-character successor tests it against that character (`%s` expected): the loop of this branch can still match the newline in front of %s", types.ExprString(e), oneTest, kind)
					continue
				}
			}
			c.OK(key, e.Pos(), "`%s`", types.ExprString(e))
		}
	}
	for _, u := range units {
		ast.Inspect(u.Body, func(x ast.Node) bool {
			switch y := x.(type) {
			case *ast.IfStmt:
				visit(y.Cond)
			case *ast.ReturnStmt:
				for _, r := range y.Results {
					if isBoolExpr(info, r) {
						visit(r)
					}
				}
			case *ast.CaseClause:
				for _, e := range y.List {
					if isBoolExpr(info, e) {
						visit(e)
					}
				}
			}
			return true
		})
	}
	if n == 0 {
		c.Anchor("alternatives accepting NtEol / NtEndZ in canBeMadeAtomic")
	}
}

// ---------------------------------------------------------------------------
// R-LOOPONCE: the body of a loop ends an atomic context only if the loop
// cannot come round again.  In eliminateEndingBacktracking the walk steps from
// a Loop / Lazyloop straight into its body (skipping the check that the end of
// one iteration is compatible with the start of the next) only under N <= 1.
// A fixed count {3} still iterates: (?:[ab]a*){2} must be able to give back
// what the first iteration's a* took.
// ---------------------------------------------------------------------------

func RLoopOnce(c *core.Ctx) {
	c.Rule("R-LOOPONCE", "in eliminateEndingBacktracking the loop arm descends into the loop's body without the last-expression compatibility check only under a condition every alternative of which bounds the maximum iteration count by one (X.N == 1, X.N <= 1, X.N < 2): M == N (a repeater) is not enough, its iterations still follow one another", 1)
	p := c.P
	syn := p.Pkg("syntax")
	info := syn.TypesInfo
	fd, _ := p.DeclOf(p.LookupFunc("syntax", "RegexNode.eliminateEndingBacktracking"))
	nField := p.LookupField("syntax", "RegexNode", "N")
	if fd == nil || nField == nil {
		c.Anchor("syntax.RegexNode.eliminateEndingBacktracking / RegexNode.N")
		return
	}
	c.Visit("syntax.(*RegexNode).eliminateEndingBacktracking")
	n := 0
	boundsByOne := func(e ast.Expr) bool {
		for _, cj := range conjuncts(e) {
			be, ok := ast.Unparen(cj).(*ast.BinaryExpr)
			if !ok || core.FieldOf(info, be.X) != nField {
				continue
			}
			k, ok := core.ConstInt(info, be.Y)
			if !ok {
				continue
			}
			if (be.Op == token.EQL && k <= 1) || (be.Op == token.LEQ && k <= 1) || (be.Op == token.LSS && k <= 2) {
				return true
			}
		}
		return false
	}
	ast.Inspect(fd.Body, func(x ast.Node) bool {
		cc, ok := x.(*ast.CaseClause)
		if !ok {
			return true
		}
		isLoopArm := false
		for _, e := range cc.List {
			if id, ok := ast.Unparen(e).(*ast.Ident); ok {
				if k, ok := info.ObjectOf(id).(*types.Const); ok && (core.BaseName(k) == "NtLoop" || core.BaseName(k) == "NtLazyloop") {
					isLoopArm = true
				}
			}
		}
		if !isLoopArm {
			return true
		}
		for _, st := range cc.Body {
			ifs, ok := st.(*ast.IfStmt)
			if !ok {
				continue
			}
			// does the then-branch step into Children[0] of the walker?
			steps := false
			ast.Inspect(ifs.Body, func(y ast.Node) bool {
				if as, ok := y.(*ast.AssignStmt); ok && len(as.Lhs) == 1 && len(as.Rhs) == 1 {
					if ie, ok := ast.Unparen(as.Rhs[0]).(*ast.IndexExpr); ok {
						if sel, ok := ast.Unparen(ie.X).(*ast.SelectorExpr); ok && sel.Sel.Name == "Children" && types.ExprString(sel.X) == types.ExprString(as.Lhs[0]) {
							steps = true
						}
					}
				}
				return true
			})
			if !steps {
				continue
			}
			n++
			all := true
			var dis func(e ast.Expr)
			dis = func(e ast.Expr) {
				e = ast.Unparen(e)
				if be, ok := e.(*ast.BinaryExpr); ok && be.Op == token.LOR {
					dis(be.X)
					dis(be.Y)
					return
				}
				if !boundsByOne(e) {
					all = false
				}
			}
			dis(ifs.Cond)
			c.Check(all, fmt.Sprintf("eliminateEndingBacktracking / direct descent #%d into a loop body is for loops that run at most once", n), ifs.Pos(), "`%s` lets the walk treat the body of a loop that iterates more than once as the end of the atomic context: what the first iteration's trailing loop consumed can no longer be given back to the second", types.ExprString(ifs.Cond))
		}
		return true
	})
	if n == 0 {
		c.Anchor("the direct descent into a loop body in eliminateEndingBacktracking")
	}
}

// ---------------------------------------------------------------------------
// R-TEXTIDX: an index into the input text that a loop moves forward is tested
// against an upper bound before it is used.  For every `text[v]` (text a
// []rune parameter or Runner.Runtext, v a plain variable that the function
// increments) some condition that dominates the access — or stands in front of
// it in the same && chain — compares v with an upper bound (v < X, v <= X,
// X > v, v != X).  It does not prove the bound right; it proves there is one:
// dropping `end < endAt` from a scan loop leaves the access unguarded.
// ---------------------------------------------------------------------------

func RTextIdx(c *core.Ctx) {
	c.Rule("R-TEXTIDX", "in package regexp2 every read text[v] of the input (a []rune parameter or Runner.Runtext) whose index v is a variable the function advances (v++, v += k, a for-loop variable) is preceded, on every path, by a comparison that keeps v STRICTLY below a bound — v < X, v != X, or v <= X - k — (in a dominating branch condition, the loop condition, or to the left in the same && chain): a chain of non-strict comparisons up to the length of the text still admits the index one past the end", 3)
	p := c.P
	root := p.Pkg("")
	info := root.TypesInfo
	runtext := p.LookupField("", "Runner", "Runtext")
	n := 0
	for _, fd := range p.FuncDecls(root) {
		if fd.Body == nil || p.IsTestFile(fd.Pos()) {
			continue
		}
		name := core.DeclName(root, fd)
		// variables the function advances
		adv := map[types.Object]bool{}
		ast.Inspect(fd.Body, func(x ast.Node) bool {
			switch y := x.(type) {
			case *ast.IncDecStmt:
				if id, ok := y.X.(*ast.Ident); ok && y.Tok == token.INC {
					adv[info.ObjectOf(id)] = true
				}
			case *ast.AssignStmt:
				if y.Tok == token.ADD_ASSIGN && len(y.Lhs) == 1 {
					if id, ok := y.Lhs[0].(*ast.Ident); ok {
						adv[info.ObjectOf(id)] = true
					}
				}
			}
			return true
		})
		// ... and never moves back: a variable that is also decremented walks a stretch whose bounds
		// were established before the walk (runematch / refmatch compare lengths first)
		ast.Inspect(fd.Body, func(x ast.Node) bool {
			switch y := x.(type) {
			case *ast.IncDecStmt:
				if id, ok := y.X.(*ast.Ident); ok && y.Tok == token.DEC {
					delete(adv, info.ObjectOf(id))
				}
			case *ast.AssignStmt:
				if y.Tok == token.SUB_ASSIGN && len(y.Lhs) == 1 {
					if id, ok := y.Lhs[0].(*ast.Ident); ok {
						delete(adv, info.ObjectOf(id))
					}
				}
			}
			return true
		})
		if len(adv) == 0 {
			continue
		}
		isText := func(e ast.Expr) bool {
			t := info.TypeOf(e)
			if t == nil {
				return false
			}
			sl, ok := t.Underlying().(*types.Slice)
			if !ok || !types.Identical(sl.Elem(), types.Typ[types.Rune]) {
				return false
			}
			if f := core.FieldOf(info, e); f != nil {
				return f == runtext
			}
			if id, ok := ast.Unparen(e).(*ast.Ident); ok {
				if v, ok := info.ObjectOf(id).(*types.Var); ok {
					// a parameter
					if fd.Type.Params != nil {
						for _, f := range fd.Type.Params.List {
							for _, nm := range f.Names {
								if info.ObjectOf(nm) == v {
									return true
								}
							}
						}
					}
				}
			}
			return false
		}
		weak := false // a non-strict bound was seen (for the report)
		boundsAbove := func(cond ast.Expr, val bool, v types.Object) bool {
			found := false
			for _, cj := range conjunctsOrNegDisjuncts(core.EdgeFact{Cond: cond, Value: val}) {
				be, ok := ast.Unparen(cj.e).(*ast.BinaryExpr)
				if !ok {
					continue
				}
				isV := func(e ast.Expr) bool {
					id, ok := ast.Unparen(e).(*ast.Ident)
					return ok && info.ObjectOf(id) == v
				}
				// v (+k) OP X
				lhsV := isV(be.X)
				if b2, ok := ast.Unparen(be.X).(*ast.BinaryExpr); ok && b2.Op == token.ADD && (isV(b2.X) || isV(b2.Y)) {
					lhsV = true
				}
				rhsV := isV(be.Y)
				// `v <= X` leaves v == X possible: it bounds a read only when X itself is one below
				// something (X of the form Y - k)
				minusK := func(e ast.Expr) bool {
					b2, ok := ast.Unparen(e).(*ast.BinaryExpr)
					if !ok || b2.Op != token.SUB {
						return false
					}
					k, ok := core.ConstInt(info, b2.Y)
					return ok && k >= 1
				}
				switch {
				case lhsV && cj.val && (be.Op == token.LSS || be.Op == token.NEQ):
					found = true
				case lhsV && cj.val && be.Op == token.LEQ:
					found = found || minusK(be.Y)
					weak = true
				case lhsV && !cj.val && (be.Op == token.GEQ || be.Op == token.EQL):
					found = true
				case lhsV && !cj.val && be.Op == token.GTR:
					found = found || minusK(be.Y)
					weak = true
				case rhsV && cj.val && (be.Op == token.GTR || be.Op == token.NEQ):
					found = true
				case rhsV && cj.val && be.Op == token.GEQ:
					found = found || minusK(be.X)
					weak = true
				case rhsV && !cj.val && (be.Op == token.LEQ || be.Op == token.EQL):
					found = true
				case rhsV && !cj.val && be.Op == token.LSS:
					found = found || minusK(be.X)
					weak = true
				}
			}
			return found
		}
		var g *core.Graph
		ord := 0
		ast.Inspect(fd.Body, func(x ast.Node) bool {
			ie, ok := x.(*ast.IndexExpr)
			if !ok || !isText(ie.X) {
				return true
			}
			id, ok := ast.Unparen(ie.Index).(*ast.Ident)
			if !ok || !adv[info.ObjectOf(id)] {
				return true
			}
			v := info.ObjectOf(id)
			if g == nil {
				g = core.NewGraph(info, fd.Body)
			}
			ord++
			n++
			c.Visit(name)
			guarded := false
			check := func(at ast.Node) {
				b, _ := g.BlockOf(at)
				if b == nil {
					return
				}
				for _, f := range g.FactsAt(b) {
					if boundsAbove(f.Cond, f.Value, v) {
						guarded = true
					}
				}
			}
			check(ie)
			st := enclosingStmt(fd.Body, ie)
			if !guarded && st != nil {
				check(st)
			}
			if !guarded && st != nil {
				// to the left in the same && chain, or the condition of the for statement the access is the condition of
				ast.Inspect(st, func(y ast.Node) bool {
					be, ok := y.(*ast.BinaryExpr)
					if !ok || be.Op != token.LAND || !(be.Y.Pos() <= ie.Pos() && ie.End() <= be.Y.End()) {
						return true
					}
					if boundsAbove(be.X, true, v) {
						guarded = true
					}
					return true
				})
			}
			c.Check(guarded, fmt.Sprintf("%s / text[%s] #%d is read under an upper bound on %s", name, id.Name, ord, id.Name), ie.Pos(), "no condition on the way to `%s` keeps %s strictly below a bound (only non-strict `<=` comparisons seen: %v): when %s reaches the end of the text the read is out of range", types.ExprString(ie), id.Name, weak, id.Name)
			return true
		})
	}
	if n == 0 {
		c.Anchor("indexed reads of the input text by an advancing variable")
	}
}

// ---------------------------------------------------------------------------
// R-NUMCHECK: a lookup by group NUMBER answers only for numbers that exist.
// GroupNameFromNumber may manufacture a name (strconv.Itoa) or read the name
// list only for an index it has bounded from above (against capsize / the
// length of the list); when it delegates to a helper that assumes a valid
// slot, the helper's unchecked branch must be unreachable from that call (the
// caller has already dealt with the case the branch tests for).
// ---------------------------------------------------------------------------

func RNumCheck(c *core.Ctx) {
	c.Rule("R-NUMCHECK", "in the exported by-number name lookup of Regexp (GroupNameFromNumber) every non-empty answer — strconv.Itoa of the number, an element of the name list, directly or in a helper it returns through — stands under an upper-bound test of the index, or in a helper branch that the caller's own tests exclude: a number that is not a group gets \"\"", 2)
	p := c.P
	root := p.Pkg("")
	info := root.TypesInfo
	start := p.LookupFunc("", "Regexp.GroupNameFromNumber")
	sd, _ := p.DeclOf(start)
	if sd == nil {
		c.Anchor("regexp2.Regexp.GroupNameFromNumber")
		return
	}
	n := 0
	type nilFact struct {
		f   *types.Var
		nil bool
	}
	// facts of the form recv.F == nil / != nil that hold at a node
	nilFactsAt := func(g *core.Graph, at ast.Node) []nilFact {
		var out []nilFact
		b, _ := g.BlockOf(at)
		if b == nil {
			return nil
		}
		for _, f := range g.FactsAt(b) {
			for _, cj := range conjunctsOrNegDisjuncts(f) {
				be, ok := ast.Unparen(cj.e).(*ast.BinaryExpr)
				if !ok || (be.Op != token.EQL && be.Op != token.NEQ) || !isNilIdent(info, be.Y) {
					continue
				}
				if fv := core.FieldOf(info, be.X); fv != nil {
					out = append(out, nilFact{fv, (be.Op == token.EQL) == cj.val})
				}
			}
		}
		return out
	}
	boundedAbove := func(g *core.Graph, at ast.Node, idx ast.Expr) bool {
		id, ok := ast.Unparen(idx).(*ast.Ident)
		if !ok {
			return false
		}
		v := info.ObjectOf(id)
		b, _ := g.BlockOf(at)
		if b == nil {
			return false
		}
		for _, f := range g.FactsAt(b) {
			for _, cj := range conjunctsOrNegDisjuncts(f) {
				be, ok := ast.Unparen(cj.e).(*ast.BinaryExpr)
				if !ok {
					continue
				}
				isV := func(e ast.Expr) bool {
					i2, ok := ast.Unparen(e).(*ast.Ident)
					return ok && info.ObjectOf(i2) == v
				}
				switch {
				case isV(be.X) && cj.val && (be.Op == token.LSS || be.Op == token.LEQ):
					return true
				case isV(be.X) && !cj.val && (be.Op == token.GEQ || be.Op == token.GTR):
					return true
				case isV(be.Y) && cj.val && (be.Op == token.GTR || be.Op == token.GEQ):
					return true
				case isV(be.Y) && !cj.val && (be.Op == token.LEQ || be.Op == token.LSS):
					return true
				}
			}
		}
		return false
	}
	var visit func(fd *ast.FuncDecl, known []nilFact, depth int)
	visit = func(fd *ast.FuncDecl, known []nilFact, depth int) {
		if fd == nil || fd.Body == nil || depth > 2 {
			return
		}
		name := core.DeclName(root, fd)
		g := core.NewGraph(info, fd.Body)
		ast.Inspect(fd.Body, func(x ast.Node) bool {
			rs, ok := x.(*ast.ReturnStmt)
			if !ok || len(rs.Results) != 1 {
				return true
			}
			// feasible under what the caller already established?
			for _, here := range nilFactsAt(g, rs) {
				for _, k := range known {
					if here.f == k.f && here.nil != k.nil {
						return true // this branch cannot be reached from that call
					}
				}
			}
			e := ast.Unparen(rs.Results[0])
			switch y := e.(type) {
			case *ast.CallExpr:
				fn := core.Callee(info, y)
				if fn != nil && fn.FullName() == "strconv.Itoa" && len(y.Args) == 1 {
					n++
					c.Visit(name)
					c.Check(boundedAbove(g, rs, y.Args[0]), fmt.Sprintf("%s / manufactured name #%d is for a bounded number", name, n), rs.Pos(), "`%s` is returned for any value of %s: a number that is not a group gets a name, while GroupNumberFromName / GetGroupNumbers / GroupByNumber say there is no such group", types.ExprString(e), types.ExprString(y.Args[0]))
					return true
				}
				if fn != nil && fn.Pkg() == root.Types {
					cd, _ := p.DeclOf(fn)
					visit(cd, append(append([]nilFact(nil), known...), nilFactsAt(g, rs)...), depth+1)
				}
			case *ast.IndexExpr:
				n++
				c.Visit(name)
				c.Check(boundedAbove(g, rs, y.Index), fmt.Sprintf("%s / name list element #%d is read under an upper bound", name, n), rs.Pos(), "`%s` is returned without a dominating upper bound on the index", types.ExprString(e))
			}
			return true
		})
	}
	visit(sd, nil, 0)
	if n == 0 {
		c.Anchor("non-empty answers of GroupNameFromNumber")
	}
}

// ---------------------------------------------------------------------------
// R-SEARCHSTEP: the plain searches of package helpers try EVERY start
// position.  In a counting loop `for i := …; …; i++` whose body returns i as
// the position found, the body does not move i itself: skipping ahead after a
// failed partial comparison is only sound with a failure table (an occurrence
// may begin inside the text just compared: "abaa" in "ababaa").
// ---------------------------------------------------------------------------

func RSearchStep(c *core.Ctx) {
	c.Rule("R-SEARCHSTEP", "in package helpers a counting loop (for i := …; cond; i++ / i--) that returns its loop variable as the position of an occurrence changes that variable only in its post statement: no `i += k` / `i = …` in the body", 3)
	p := c.P
	pk := p.Pkg("helpers")
	if pk == nil {
		c.Anchor("package helpers")
		return
	}
	info := pk.TypesInfo
	n := 0
	for _, fd := range p.FuncDecls(pk) {
		if fd.Body == nil || p.IsTestFile(fd.Pos()) {
			continue
		}
		name := core.DeclName(pk, fd)
		ast.Inspect(fd.Body, func(x ast.Node) bool {
			fs, ok := x.(*ast.ForStmt)
			if !ok || fs.Post == nil {
				return true
			}
			inc, ok := fs.Post.(*ast.IncDecStmt)
			if !ok {
				return true
			}
			id, ok := inc.X.(*ast.Ident)
			if !ok {
				return true
			}
			v := info.ObjectOf(id)
			returnsV := false
			ast.Inspect(fs.Body, func(y ast.Node) bool {
				if rs, ok := y.(*ast.ReturnStmt); ok {
					for _, r := range rs.Results {
						if rid, ok := ast.Unparen(r).(*ast.Ident); ok && info.ObjectOf(rid) == v {
							returnsV = true
						}
					}
				}
				return true
			})
			if !returnsV {
				return true
			}
			n++
			c.Visit(name)
			var moved ast.Node
			ast.Inspect(fs.Body, func(y ast.Node) bool {
				switch z := y.(type) {
				case *ast.AssignStmt:
					for _, l := range z.Lhs {
						if lid, ok := l.(*ast.Ident); ok && info.ObjectOf(lid) == v {
							moved = z
						}
					}
				case *ast.IncDecStmt:
					if lid, ok := z.X.(*ast.Ident); ok && info.ObjectOf(lid) == v {
						moved = z
					}
				}
				return true
			})
			if moved != nil {
				c.Bad(fmt.Sprintf("%s / search loop #%d advances its position only in the post statement", name, n), moved.Pos(), "the body changes %s itself: start positions are skipped, and an occurrence that begins inside the text of a failed partial comparison is lost", id.Name)
			} else {
				c.OK(fmt.Sprintf("%s / search loop #%d advances its position only in the post statement", name, n), fs.Pos(), "every start position is tried")
			}
			return true
		})
	}
	if n == 0 {
		c.Anchor("counting search loops in package helpers")
	}
}

// ---------------------------------------------------------------------------
// R-REWINDFIRST: a scanner that can give up and hand its text back remembers
// where it STARTED.  Where a parser method saves the position in its own
// top-level statement list (v := p.textpos()) and later rewinds to it
// (p.textto(v)), nothing before the save has consumed pattern text: otherwise
// the rewind re-reads from the middle of the construct (`${key}` that does not
// resolve comes back as `$key}`).
// ---------------------------------------------------------------------------

var rewindFirstExempt = map[string]string{
	"syntax.(*parser).scanCharEscape": "the save deliberately comes after the escape letter: the ECMAScript fallback returns exactly that letter as a literal and resumes behind it",
}

func RRewindFirst(c *core.Ctx) {
	c.Rule("R-REWINDFIRST", "in a parser method that saves the text position at the top level of its body (v := p.textpos()) and rewinds to it (p.textto(v)), no statement before the save calls anything that moves the position (moveRight*, textto, the scan* helpers): the saved position is where the construct begins", 2)
	p := c.P
	syn := p.Pkg("syntax")
	info := syn.TypesInfo
	textpos := p.LookupFunc("syntax", "parser.textpos")
	textto := p.LookupFunc("syntax", "parser.textto")
	prims := map[*types.Func]bool{}
	for _, nm := range []string{"parser.moveRight", "parser.moveRightGetChar", "parser.moveLeft", "parser.textto"} {
		if f := p.LookupFunc("syntax", nm); f != nil {
			prims[f] = true
		}
	}
	if textpos == nil || textto == nil || len(prims) < 3 {
		c.Anchor("parser.textpos / parser.textto / position primitives")
		return
	}
	memo := map[*types.Func]bool{}
	var moves func(fn *types.Func, depth int) bool
	moves = func(fn *types.Func, depth int) bool {
		if fn == nil {
			return false
		}
		if prims[fn] {
			return true
		}
		if v, ok := memo[fn]; ok {
			return v
		}
		memo[fn] = false
		if depth > 5 || fn.Pkg() != syn.Types {
			return false
		}
		fd, _ := p.DeclOf(fn)
		if fd == nil || fd.Body == nil {
			return false
		}
		res := false
		ast.Inspect(fd.Body, func(x ast.Node) bool {
			if call, ok := x.(*ast.CallExpr); ok && !res {
				if cal := core.Callee(info, call); cal != nil && cal != fn && moves(cal, depth+1) {
					res = true
				}
			}
			return !res
		})
		memo[fn] = res
		return res
	}
	n := 0
	for _, fd := range p.FuncDecls(syn) {
		if fd.Body == nil || fd.Recv == nil || p.IsTestFile(fd.Pos()) {
			continue
		}
		name := core.DeclName(syn, fd)
		for i, st := range fd.Body.List {
			as, ok := st.(*ast.AssignStmt)
			if !ok || len(as.Lhs) != 1 || len(as.Rhs) != 1 {
				continue
			}
			call, ok := ast.Unparen(as.Rhs[0]).(*ast.CallExpr)
			if !ok || !core.IsCallTo(info, call, textpos) {
				continue
			}
			id, ok := as.Lhs[0].(*ast.Ident)
			if !ok {
				continue
			}
			v := info.ObjectOf(id)
			// rewound to somewhere in the function?
			rewinds := false
			ast.Inspect(fd.Body, func(x ast.Node) bool {
				if c2, ok := x.(*ast.CallExpr); ok && core.IsCallTo(info, c2, textto) && len(c2.Args) == 1 {
					if aid, ok := ast.Unparen(c2.Args[0]).(*ast.Ident); ok && info.ObjectOf(aid) == v {
						rewinds = true
					}
				}
				return true
			})
			if !rewinds {
				continue
			}
			n++
			c.Visit(name)
			if reason, ok := rewindFirstExempt[name]; ok {
				c.OK(fmt.Sprintf("%s / the position %s rewinds to is saved before anything is consumed (exempt)", name, id.Name), as.Pos(), "%s", reason)
				continue
			}
			var mover ast.Node
			for _, before := range fd.Body.List[:i] {
				ast.Inspect(before, func(x ast.Node) bool {
					if c2, ok := x.(*ast.CallExpr); ok && mover == nil {
						if cal := core.Callee(info, c2); cal != nil && moves(cal, 0) {
							mover = c2
						}
					}
					return mover == nil
				})
			}
			key := fmt.Sprintf("%s / the position %s rewinds to is saved before anything is consumed", name, id.Name)
			if mover != nil {
				c.Bad(key, mover.Pos(), "`%s` can move the position before `%s := p.textpos()` is reached: the rewind then lands inside the construct, and the characters in front of it are lost", types.ExprString(mover.(*ast.CallExpr)), id.Name)
			} else {
				c.OK(key, as.Pos(), "nothing in front of the save moves the position")
			}
		}
	}
	if n == 0 {
		c.Anchor("top-level position saves that are rewound to, in parser methods")
	}
}

// ---------------------------------------------------------------------------
// R-RUNESTR: a rune does not survive a trip through a Go string.
// string(r) encodes r as UTF-8; a surrogate or an out-of-range value becomes
// U+FFFD.  Pattern characters are runes (\x{D800} is legal, rune-slice input
// may contain it), so building a node's text as []rune(… string(ch) …) turns
// `\x{D800}{2}` into the literal U+FFFD U+FFFD.
// ---------------------------------------------------------------------------

func RRuneStr(c *core.Ctx) {
	c.Rule("R-RUNESTR", "in package syntax no []rune(…) conversion has an operand built from string(<rune>): a rune sequence is built from runes, never by way of a string (which replaces surrogates and invalid values by U+FFFD)", 0)
	p := c.P
	syn := p.Pkg("syntax")
	info := syn.TypesInfo
	n, examined := 0, 0
	isRuneSlice := func(t types.Type) bool {
		sl, ok := t.Underlying().(*types.Slice)
		return ok && types.Identical(sl.Elem(), types.Typ[types.Rune])
	}
	for _, fd := range p.FuncDecls(syn) {
		if fd.Body == nil || p.IsTestFile(fd.Pos()) {
			continue
		}
		name := core.DeclName(syn, fd)
		ast.Inspect(fd.Body, func(x ast.Node) bool {
			call, ok := x.(*ast.CallExpr)
			if !ok || len(call.Args) != 1 {
				return true
			}
			tv, ok := info.Types[call.Fun]
			if !ok || !tv.IsType() || !isRuneSlice(tv.Type) {
				return true
			}
			examined++
			var inner *ast.CallExpr
			ast.Inspect(call.Args[0], func(y ast.Node) bool {
				c2, ok := y.(*ast.CallExpr)
				if !ok || len(c2.Args) != 1 {
					return true
				}
				tv2, ok := info.Types[c2.Fun]
				if !ok || !tv2.IsType() {
					return true
				}
				if bt, ok := tv2.Type.Underlying().(*types.Basic); ok && bt.Info()&types.IsString != 0 {
					if at, ok := info.TypeOf(c2.Args[0]).Underlying().(*types.Basic); ok && (at.Kind() == types.Int32 || at.Kind() == types.UntypedRune) {
						inner = c2
					}
				}
				return true
			})
			if inner != nil {
				n++
				c.Visit(name)
				c.Bad(fmt.Sprintf("%s / rune sequence built by way of a string #%d", name, n), call.Pos(), "`%s`: `%s` is U+FFFD for a surrogate or an invalid rune, so the resulting runes are not the ones the pattern named", types.ExprString(call), types.ExprString(inner))
			}
			return true
		})
	}
	c.Note("R-RUNESTR: %d []rune(...) conversions examined", examined)
	if n == 0 {
		c.OK("package syntax / no rune sequence is built by way of a string", token.NoPos, "%d []rune(…) conversions examined", examined)
	}
}

// ---------------------------------------------------------------------------
// R-BALTRANSP: a balancing group is not a transparent wrapper.
// (?<-b>…) FAILS after its content has matched when group b has no capture
// left; the engine then has to backtrack INTO the content (so that it pops
// fewer b's).  eliminateEndingBacktracking may walk through a Capture as if it
// were not there only for plain captures: the arm that lists NtCapture tests
// the uncapture slot (N) against -1.
// ---------------------------------------------------------------------------

func RBalTransp(c *core.Ctx) {
	c.Rule("R-BALTRANSP", "in eliminateEndingBacktracking every switch arm that lists NtCapture and goes on into the node's children compares the node's uncapture slot N with -1: ending backtracking is removed from the content of a plain capture only, never from a balancing group (whose Capturemark can fail after the content matched)", 1)
	p := c.P
	syn := p.Pkg("syntax")
	info := syn.TypesInfo
	fd, _ := p.DeclOf(p.LookupFunc("syntax", "RegexNode.eliminateEndingBacktracking"))
	nField := p.LookupField("syntax", "RegexNode", "N")
	if fd == nil || nField == nil {
		c.Anchor("syntax.RegexNode.eliminateEndingBacktracking / RegexNode.N")
		return
	}
	c.Visit("syntax.(*RegexNode).eliminateEndingBacktracking")
	n := 0
	ast.Inspect(fd.Body, func(x ast.Node) bool {
		cc, ok := x.(*ast.CaseClause)
		if !ok {
			return true
		}
		lists := false
		for _, e := range cc.List {
			if id, ok := ast.Unparen(e).(*ast.Ident); ok {
				if k, ok := info.ObjectOf(id).(*types.Const); ok && core.BaseName(k) == "NtCapture" {
					lists = true
				}
			}
		}
		if !lists {
			return true
		}
		n++
		tests := false
		for _, st := range cc.Body {
			ast.Inspect(st, func(y ast.Node) bool {
				be, ok := y.(*ast.BinaryExpr)
				if !ok || (be.Op != token.EQL && be.Op != token.NEQ) {
					return true
				}
				for _, pr := range [][2]ast.Expr{{be.X, be.Y}, {be.Y, be.X}} {
					if core.FieldOf(info, pr[0]) == nField {
						if k, ok := core.ConstInt(info, pr[1]); ok && k == -1 {
							tests = true
						}
					}
				}
				return true
			})
		}
		c.Check(tests, fmt.Sprintf("eliminateEndingBacktracking / the arm #%d that walks through NtCapture excludes balancing groups", n), cc.Pos(), "the arm treats every Capture as a transparent wrapper: for a balancing group (?<-b>…) the last alternation / loop of its content is wrapped in an Atomic node, although the group itself can still fail and needs that backtracking")
		return true
	})
	if n == 0 {
		c.Anchor("an arm of eliminateEndingBacktracking that lists NtCapture")
	}
}

// ---------------------------------------------------------------------------
// R-ENDDIR: "nothing can follow the end of the text" is a left-to-right
// notion.  A loop is made atomic in front of \z / \Z / $ because it moves
// TOWARDS the end and the anchor holds only once it has taken everything.  A
// right-to-left loop (a lookbehind body, RightToLeft) moves AWAY from the end:
// there the anchor holds only if the loop gives everything back.  Every
// alternative of canBeMadeAtomic that accepts an end anchor therefore tests
// the direction (or stands under such a test).
// ---------------------------------------------------------------------------

func REndDir(c *core.Ctx) {
	c.Rule("R-ENDDIR", "in canBeMadeAtomic (and the predicates it hands its tests to) every alternative that accepts NtEnd, NtEndZ or NtEol as successor of a loop tests the direction in the same conjunction, or stands under a dominating direction test: for a right-to-left loop the end of the text is where it starts from, not where it is going", 3)
	p := c.P
	syn := p.Pkg("syntax")
	info := syn.TypesInfo
	fd, _ := p.DeclOf(p.LookupFunc("syntax", "RegexNode.canBeMadeAtomic"))
	tField := p.LookupField("syntax", "RegexNode", "T")
	rtlConst := p.LookupObj("syntax", "RightToLeft")
	if fd == nil || tField == nil || rtlConst == nil {
		c.Anchor("syntax.RegexNode.canBeMadeAtomic / RegexNode.T / RightToLeft")
		return
	}
	c.Visit("syntax.(*RegexNode).canBeMadeAtomic")
	units := []*ast.FuncDecl{fd}
	ast.Inspect(fd.Body, func(x ast.Node) bool {
		if call, ok := x.(*ast.CallExpr); ok {
			if fn := core.Callee(info, call); fn != nil && fn.Pkg() == syn.Types && strings.Contains(strings.ToLower(core.BaseName(fn)), "overlap") {
				if d, _ := p.DeclOf(fn); d != nil && d.Body != nil {
					dup := false
					for _, u := range units {
						if u == d {
							dup = true
						}
					}
					if !dup {
						units = append(units, d)
					}
				}
			}
		}
		return true
	})
	n := 0
	endKind := func(e ast.Expr) string {
		found := ""
		ast.Inspect(e, func(y ast.Node) bool {
			be, ok := y.(*ast.BinaryExpr)
			if !ok || be.Op != token.EQL || core.FieldOf(info, be.X) != tField {
				return true
			}
			if id, ok := ast.Unparen(be.Y).(*ast.Ident); ok {
				if k, ok := info.ObjectOf(id).(*types.Const); ok {
					switch core.BaseName(k) {
					case "NtEnd", "NtEndZ", "NtEol":
						found = core.BaseName(k)
					}
				}
			}
			return true
		})
		return found
	}
	for _, u := range units {
		dv := directionVars(info, u, rtlConst)
		g := core.NewGraph(info, u.Body)
		var visit func(e ast.Expr, at ast.Node)
		visit = func(e ast.Expr, at ast.Node) {
			e = ast.Unparen(e)
			if be, ok := e.(*ast.BinaryExpr); ok && be.Op == token.LOR {
				visit(be.X, at)
				visit(be.Y, at)
				return
			}
			kind := endKind(e)
			if kind == "" {
				return
			}
			n++
			okDir := mentionsRTL(info, e, rtlConst, dv) || guardedByDirection(info, g, at, rtlConst, dv)
			c.Check(okDir, fmt.Sprintf("canBeMadeAtomic / alternative #%d accepting %s is for left-to-right loops", n, kind), e.Pos(), "`%s` lets a right-to-left loop (lookbehind body) become atomic in front of %s: such a loop moves away from the end of the text, and the anchor can hold only if the loop gives its characters back (`(?<=(?:a*\\z){2})` on \"aa\")", types.ExprString(e), kind)
		}
		ast.Inspect(u.Body, func(x ast.Node) bool {
			switch y := x.(type) {
			case *ast.IfStmt:
				visit(y.Cond, y)
			case *ast.ReturnStmt:
				for _, r := range y.Results {
					if isBoolExpr(info, r) {
						visit(r, y)
					}
				}
			}
			return true
		})
	}
	if n == 0 {
		c.Anchor("alternatives accepting an end anchor in canBeMadeAtomic")
	}
}
