package rules

import (
	"fmt"
	"go/ast"
	"go/constant"
	"go/token"
	"go/types"
	"math/bits"
	"strings"

	"golang.org/x/tools/go/ssa"

	"regexlint/internal/core"
)

// ---------------------------------------------------------------------------
// C19: Escape / Unescape
// ---------------------------------------------------------------------------

func stringLit(info *types.Info, e ast.Expr) (string, bool) {
	tv, ok := info.Types[e]
	if !ok || tv.Value == nil || tv.Value.Kind() != constant.String {
		return "", false
	}
	return constant.StringVal(tv.Value), true
}

// RCodec: the writer's table (escape) and the reader's table (scanCharEscape)
// agree.
func RCodec(c *core.Ctx) {
	c.Rule("R-CODEC", "escape() and scanCharEscape() agree: each named escape the writer emits (\\a \\f \\n \\r \\t \\v) is read back as the rune it was written for; the number of hex digits the writer can produce after \\x and \\u (from the value range on that path and the padding it applies) equals the fixed width the reader consumes; every character the writer escapes with a bare backslash is one the reader's default arm returns unchanged under every option set; every ASCII character the parser treats specially is in `meta` or is not printable", 20)
	p := c.P
	syn := p.Pkg("syntax")
	info := syn.TypesInfo
	escFn := p.LookupFunc("syntax", "escape")
	esc, _ := p.DeclOf(escFn)
	rdFn := p.LookupFunc("syntax", "parser.scanCharEscape")
	rd, _ := p.DeclOf(rdFn)
	scanHex := p.LookupFunc("syntax", "parser.scanHex")
	metaConst, _ := p.LookupObj("syntax", "meta").(*types.Const)
	if esc == nil || rd == nil || scanHex == nil || metaConst == nil {
		c.Anchor("syntax.escape / parser.scanCharEscape / parser.scanHex / meta")
		return
	}
	c.Visit(core.FuncName(escFn))
	c.Visit(core.FuncName(rdFn))
	meta := constant.StringVal(metaConst.Val())

	// ---- reader: switch on the escape letter
	readerRet := map[rune]int64{}    // letter -> returned rune (constant returns)
	readerOther := map[rune]string{} // letter -> some other successful result of the same arm
	readerHex := map[rune]int64{}    // letter -> scanHex width
	readerLabels := map[rune]bool{}  // all case labels
	var rdSwitch *ast.SwitchStmt
	ast.Inspect(rd.Body, func(n ast.Node) bool {
		if sw, ok := n.(*ast.SwitchStmt); ok && rdSwitch == nil && sw.Tag != nil {
			rdSwitch = sw
			return false
		}
		return true
	})
	if rdSwitch == nil {
		c.Anchor("switch on the escape letter in scanCharEscape")
		return
	}
	for _, st := range rdSwitch.Body.List {
		cc := st.(*ast.CaseClause)
		for _, e := range cc.List {
			v, ok := core.ConstInt(info, e)
			if !ok {
				continue
			}
			readerLabels[rune(v)] = true
			for _, bs := range cc.Body {
				ast.Inspect(bs, func(x ast.Node) bool {
					switch y := x.(type) {
					case *ast.ReturnStmt:
						if len(y.Results) == 2 {
							if k, ok := core.ConstInt(info, y.Results[0]); ok && isNilIdent(info, y.Results[1]) {
								if _, dup := readerRet[rune(v)]; !dup {
									readerRet[rune(v)] = k
								}
							} else if isNilIdent(info, y.Results[1]) {
								// a successful return of something that is not a constant (the letter itself
								// under some option, a computed value): the arm does not always give the rune back
								readerOther[rune(v)] = types.ExprString(y.Results[0])
							}
							if k, ok := core.ConstInt(info, y.Results[0]); ok && isNilIdent(info, y.Results[1]) {
								if first, dup := readerRet[rune(v)]; dup && first != k {
									readerOther[rune(v)] = fmt.Sprintf("%q", rune(k))
								}
							}
						}
					case *ast.CallExpr:
						if core.IsCallTo(info, y, scanHex) {
							if k, ok := core.ConstInt(info, y.Args[0]); ok {
								readerHex[rune(v)] = k
							}
						}
					}
					return true
				})
			}
		}
	}

	// ---- writer: switch r { case '\a': b.WriteString(`\a`) ... default: hex }
	var wrSwitch *ast.SwitchStmt
	ast.Inspect(esc.Body, func(n ast.Node) bool {
		if sw, ok := n.(*ast.SwitchStmt); ok && wrSwitch == nil && sw.Tag != nil {
			wrSwitch = sw
			return false
		}
		return true
	})
	if wrSwitch == nil {
		c.Anchor("switch on the rune in escape()")
		return
	}
	named := 0
	var deflt *ast.CaseClause
	for _, st := range wrSwitch.Body.List {
		cc := st.(*ast.CaseClause)
		if cc.List == nil {
			deflt = cc
			continue
		}
		for _, e := range cc.List {
			r, ok := core.ConstInt(info, e)
			if !ok {
				continue
			}
			// the string written in this arm
			written := ""
			for _, bs := range cc.Body {
				ast.Inspect(bs, func(x ast.Node) bool {
					if call, ok := x.(*ast.CallExpr); ok && len(call.Args) == 1 {
						if s, ok := stringLit(info, call.Args[0]); ok {
							written += s
						}
					}
					return true
				})
			}
			named++
			okArm := len(written) == 2 && written[0] == '\\'
			var back int64 = -1
			if okArm {
				v, has := readerRet[rune(written[1])]
				back = v
				okArm = has && v == r
			}
			also := ""
			if okArm {
				if o, has := readerOther[rune(written[1])]; has {
					okArm = false
					also = "; on another path of the same arm (an option test) it returns " + o
				}
			}
			c.Check(okArm, fmt.Sprintf("escape / named escape for %q is read back as the same rune", rune(r)), cc.Pos(), "writer emits %q; reader returns %q for that letter%s", written, rune(back), also)
		}
	}
	if named == 0 {
		c.Anchor("named escape arms in escape()")
	}

	// ---- bare-backslash escapes: every rune in meta must come back unchanged from the reader's default arm
	for _, r := range meta {
		ok := !readerLabels[r] && !(r >= '0' && r <= '7') && !isWordCharASCII(r)
		c.Check(ok, fmt.Sprintf("escape / `\\%c` is read back literally", r), esc.Pos(), "the reader's default arm returns the character unchanged only if it is not an escape letter, not an octal digit and not a word character (label=%v)", readerLabels[r])
	}
	// ... and the reader's default arm refuses a character only for being a word character: everything
	// escape() writes behind a bare backslash is punctuation or a blank, so an error return of that arm
	// must stand under a word-character test of the escaped character
	var rdDefault *ast.CaseClause
	for _, st := range rdSwitch.Body.List {
		if cc := st.(*ast.CaseClause); cc.List == nil {
			rdDefault = cc
		}
	}
	if rdDefault == nil {
		c.Bad("scanCharEscape / default arm exists", rdSwitch.Pos(), "the reader has no arm for a backslash followed by an ordinary character")
	} else {
		nerr := 0
		var visit func(n ast.Node, guards []ast.Expr)
		visit = func(n ast.Node, guards []ast.Expr) {
			switch x := n.(type) {
			case nil:
			case *ast.BlockStmt:
				for _, st := range x.List {
					visit(st, guards)
				}
			case *ast.IfStmt:
				visit(x.Body, append(append([]ast.Expr(nil), guards...), x.Cond))
				if x.Else != nil {
					visit(x.Else, guards)
				}
			case *ast.ReturnStmt:
				if len(x.Results) == 2 {
					if tv, ok := info.Types[x.Results[1]]; ok && tv.IsNil() {
						return
					}
					nerr++
					wordTest := false
					for _, g := range guards {
						for _, cj := range conjuncts(g) {
							ast.Inspect(cj, func(y ast.Node) bool {
								if call, ok := y.(*ast.CallExpr); ok {
									if fn := core.Callee(info, call); fn != nil && strings.Contains(core.BaseName(fn), "WordChar") {
										wordTest = true
									}
								}
								return true
							})
						}
					}
					c.Check(wordTest, fmt.Sprintf("scanCharEscape / error return #%d of the default arm is for word characters only", nerr), x.Pos(), "this error is returned for escaped characters that are not letters or digits: Escape writes `\\ `, `\\#`, `\\.` … for the metacharacters, and a pattern it produced must compile under every option set")
				}
			}
		}
		for _, st := range rdDefault.Body {
			visit(st, nil)
		}
	}
	// printable, not in meta -> written raw: must not be the backslash itself (it is in meta) — covered above

	// ---- meta covers the parser's special characters
	cat, _ := p.LookupObj("syntax", "_category").(*types.Var)
	var catVals []int64
	for _, f := range syn.Syntax {
		ast.Inspect(f, func(x ast.Node) bool {
			if vs, ok := x.(*ast.ValueSpec); ok {
				for i, id := range vs.Names {
					if info.Defs[id] == cat && i < len(vs.Values) {
						if cl, ok := vs.Values[i].(*ast.CompositeLit); ok {
							for _, el := range cl.Elts {
								v, _ := core.ConstInt(info, el)
								catVals = append(catVals, v)
							}
						}
					}
				}
			}
			return true
		})
	}
	xVal, okX := constInScope(syn.Types, "X")
	if cat == nil || len(catVals) == 0 || !okX {
		c.Anchor("syntax._category table / X")
	} else {
		var missing []string
		n := 0
		for ch, v := range catVals {
			if v >= xVal { // whitespace in x-mode, stoppers, quantifiers
				n++
				printable := ch >= 0x20 && ch <= 0x7e
				if printable && !strings.ContainsRune(meta, rune(ch)) {
					missing = append(missing, fmt.Sprintf("%q", rune(ch)))
				}
			}
		}
		c.Check(len(missing) == 0, "escape / meta covers every printable ASCII character the parser treats specially", esc.Pos(), "%d special characters in _category; printable ones missing from meta: %s", n, strings.Join(missing, " "))
	}

	// ---- hex arms
	if deflt == nil {
		c.Anchor("default arm of escape()'s switch")
		return
	}
	hexArms(c, info, esc, deflt, readerHex)
}

func isWordCharASCII(r rune) bool {
	return r == '_' || (r >= '0' && r <= '9') || (r >= 'a' && r <= 'z') || (r >= 'A' && r <= 'Z')
}

func hexLen(v int64) int {
	if v <= 0 {
		return 1
	}
	return (bits.Len64(uint64(v)) + 3) / 4
}

// hexArms walks the default arm of escape(): a sequence of
//
//	if r < K { WriteString(`\x`); s := FormatInt(r,16); <padding>; WriteString(s); break }
//	if r > K { <raw>; break }
//	WriteString(`\u`); s := FormatInt(r,16); <padding>; WriteString(s)
//
// keeping an interval for r, and checks each emitted prefix against the reader.
func hexArms(c *core.Ctx, info *types.Info, esc *ast.FuncDecl, deflt *ast.CaseClause, readerHex map[rune]int64) {
	lo, hi := int64(0), int64(0x10FFFF)
	var rParam types.Object
	if len(esc.Type.Params.List) >= 2 {
		rParam = info.Defs[esc.Type.Params.List[1].Names[0]]
	}
	isR := func(e ast.Expr) bool {
		id, ok := ast.Unparen(e).(*ast.Ident)
		return ok && info.ObjectOf(id) == rParam
	}
	n := 0
	var walk func(stmts []ast.Stmt, lo, hi int64)
	analyzeRun := func(stmts []ast.Stmt, lo, hi int64) {
		// find prefix literal + padding idiom in this straight-line run
		prefix := ""
		padTo := 0      // strings.Repeat("0", W-len(s))
		padOne := false // if len(s) == 1 { write '0' }
		raw := false
		var pos token.Pos
		for _, st := range stmts {
			ast.Inspect(st, func(x ast.Node) bool {
				switch y := x.(type) {
				case *ast.IfStmt:
					// if len(s) == 1 { b.WriteRune('0') }
					if be, ok := ast.Unparen(y.Cond).(*ast.BinaryExpr); ok && be.Op == token.EQL {
						if k, ok := core.ConstInt(info, be.Y); ok && k == 1 && strings.HasPrefix(types.ExprString(be.X), "len(") {
							padOne = true
						}
					}
				case *ast.CallExpr:
					if len(y.Args) == 1 {
						if s, ok := stringLit(info, y.Args[0]); ok && (s == `\x` || s == `\u`) {
							prefix = s
							pos = y.Pos()
						}
						if isR(y.Args[0]) {
							raw = true
							pos = y.Pos()
						}
					}
					if fn := core.Callee(info, y); fn != nil && fn.FullName() == "strings.Repeat" && len(y.Args) == 2 {
						if be, ok := ast.Unparen(y.Args[1]).(*ast.BinaryExpr); ok && be.Op == token.SUB {
							if k, ok := core.ConstInt(info, be.X); ok && strings.HasPrefix(types.ExprString(be.Y), "len(") {
								padTo = int(k)
							}
						}
					}
				}
				return true
			})
		}
		if prefix == "" {
			if raw {
				n++
				c.OK(fmt.Sprintf("escape / runes %#x..%#x are written raw", lo, hi), pos, "a raw rune needs no reader support (it must have no special meaning: it is above the ASCII range the parser classifies)")
				c.Check(lo > 0x7f, fmt.Sprintf("escape / raw runes %#x..%#x are outside the parser's special range", lo, hi), pos, "lower bound %#x", lo)
			}
			return
		}
		n++
		minD, maxD := hexLen(lo), hexLen(hi)
		if padOne && minD == 1 {
			minD = 2
		}
		if padTo > 0 {
			if minD < padTo {
				minD = padTo
			}
			if maxD < padTo {
				maxD = padTo
			}
		}
		want, has := readerHex[rune(prefix[1])]
		c.Check(has && int64(minD) == want && int64(maxD) == want, fmt.Sprintf("escape / %s is followed by exactly the digits the reader consumes", prefix), pos,
			"on this path r is in [%#x, %#x]: the writer produces between %d and %d hex digits (after padding); scanCharEscape reads exactly %d", lo, hi, minD, maxD, want)
	}
	// refine: cond compares the rune with a constant (either operand order)
	refine := func(cond ast.Expr, lo, hi int64) (tlo, thi, flo, fhi int64, ok bool) {
		be, isB := ast.Unparen(cond).(*ast.BinaryExpr)
		if !isB {
			return
		}
		x, y, op := be.X, be.Y, be.Op
		if !isR(x) && isR(y) {
			x, y = y, x
			switch op {
			case token.LSS:
				op = token.GTR
			case token.LEQ:
				op = token.GEQ
			case token.GTR:
				op = token.LSS
			case token.GEQ:
				op = token.LEQ
			}
		}
		if !isR(x) {
			return
		}
		k, isC := core.ConstInt(info, y)
		if !isC {
			return
		}
		tlo, thi, flo, fhi = lo, hi, lo, hi
		switch op {
		case token.LSS:
			thi, flo = min(hi, k-1), max(lo, k)
		case token.LEQ:
			thi, flo = min(hi, k), max(lo, k+1)
		case token.GTR:
			tlo, fhi = max(lo, k+1), min(hi, k)
		case token.GEQ:
			tlo, fhi = max(lo, k), min(hi, k-1)
		default:
			return
		}
		return tlo, thi, flo, fhi, true
	}
	terminates := func(stmts []ast.Stmt) bool {
		if len(stmts) == 0 {
			return false
		}
		switch l := stmts[len(stmts)-1].(type) {
		case *ast.ReturnStmt:
			return true
		case *ast.BranchStmt:
			return l.Tok == token.BREAK || l.Tok == token.CONTINUE || l.Tok == token.GOTO
		}
		return false
	}
	// walk keeps the interval through `if r < K { ...; break }` sequences, if / else-if
	// chains and tagless switches — the three ways the same decision tree is written
	walk = func(stmts []ast.Stmt, lo, hi int64) {
		var run []ast.Stmt
		for _, st := range stmts {
			switch x := st.(type) {
			case *ast.IfStmt:
				if tlo, thi, flo, fhi, ok := refine(x.Cond, lo, hi); ok && x.Init == nil {
					analyzeRun(run, lo, hi)
					run = nil
					walk(x.Body.List, tlo, thi)
					elseEnds := false
					switch e := x.Else.(type) {
					case *ast.BlockStmt:
						walk(e.List, flo, fhi)
						elseEnds = terminates(e.List)
					case *ast.IfStmt:
						walk([]ast.Stmt{e}, flo, fhi)
					}
					switch {
					case terminates(x.Body.List):
						lo, hi = flo, fhi
					case elseEnds:
						lo, hi = tlo, thi
					}
					continue
				}
			case *ast.SwitchStmt:
				if x.Tag == nil && x.Init == nil {
					analyzeRun(run, lo, hi)
					run = nil
					clo, chi := lo, hi
					var deflt *ast.CaseClause
					for _, cs := range x.Body.List {
						cc := cs.(*ast.CaseClause)
						if cc.List == nil {
							deflt = cc
							continue
						}
						if len(cc.List) == 1 {
							if tlo, thi, flo, fhi, ok := refine(cc.List[0], clo, chi); ok {
								walk(cc.Body, tlo, thi)
								clo, chi = flo, fhi
								continue
							}
						}
						walk(cc.Body, clo, chi)
					}
					if deflt != nil {
						walk(deflt.Body, clo, chi)
					}
					continue
				}
			}
			run = append(run, st)
		}
		analyzeRun(run, lo, hi)
	}
	// non-printable runes only reach the default arm; the named arms removed a few control characters
	walk(deflt.Body, lo, hi)
	if n == 0 {
		c.Anchor("hex escape arms in escape()")
	}
}

// R-ESCALL: Escape escapes every rune.
func REscAll(c *core.Ctx) {
	c.Rule("R-ESCALL", "Escape has no way out that bypasses escape(): its only return follows a loop over every rune of the input that calls escape() (control characters and x-mode whitespace must be rewritten even when the input contains no metacharacter)", 1)
	p := c.P
	fn := p.SSAFunc(p.LookupFunc("syntax", "Escape"))
	esc := p.SSAFunc(p.LookupFunc("syntax", "escape"))
	if fn == nil || esc == nil {
		c.Anchor("syntax.Escape / escape")
		return
	}
	c.Visit(core.SSAName(fn))
	// the block that calls escape is in a range loop over the parameter; the loop header dominates every return
	var callBlk *ssa.BasicBlock
	for _, b := range fn.Blocks {
		for _, ins := range b.Instrs {
			if call, ok := ins.(*ssa.Call); ok && call.Call.StaticCallee() == esc {
				callBlk = b
			}
		}
	}
	if callBlk == nil {
		c.Bad("syntax.Escape / calls escape() for the runes of its input", fn.Pos(), "no call of escape()")
		return
	}
	overInput := false
	for _, b := range fn.Blocks {
		for _, ins := range b.Instrs {
			if rg, ok := ins.(*ssa.Range); ok && rg.X == fn.Params[0] {
				overInput = true
			}
		}
	}
	c.Check(overInput && inLoop(callBlk) && loopOnEveryPath(fn, callBlk), "syntax.Escape / every return follows the loop over all runes", fn.Pos(), "ranges over the input: %v; loop header dominates every return: %v", overInput, loopOnEveryPath(fn, callBlk))
	// escape(b, r, force): with force the writer puts a backslash before EVERY printable rune; for letters that
	// produces escapes with a meaning of their own (\a \b \d \w …), so Escape must pass force = false
	for _, b := range fn.Blocks {
		for _, ins := range b.Instrs {
			if call, ok := ins.(*ssa.Call); ok && call.Call.StaticCallee() == esc && len(call.Call.Args) == 3 {
				k, isC := call.Call.Args[2].(*ssa.Const)
				c.Check(isC && k.Value != nil && k.Value.String() == "false", "syntax.Escape / escape() is called without forcing a backslash", call.Pos(), "the force argument is %s: a backslash before an ordinary letter is an escape sequence of its own (\\a is BEL, \\d a class), not the letter", call.Call.Args[2].String())
			}
		}
	}
}

// R-UNITS: byte offsets are not rune positions.
func RUnits(c *core.Ctx) {
	c.Rule("R-UNITS", "a byte offset obtained from a string search (strings.Index*, the key of a range over a string) is never used as a rune position: it does not flow — through arithmetic, locals, parameters or the fields it is stored in — into the index or low bound of a []rune, nor into the parser's position", 3)
	p := c.P
	var funcs []*ssa.Function
	for _, fn := range p.ModuleFuncs() {
		funcs = append(funcs, fn)
	}
	tainted := map[ssa.Value]bool{}
	taintedFields := map[*types.Var]bool{}
	nSrc := 0
	isRuneSlice := func(t types.Type) bool {
		if pt, ok := t.Underlying().(*types.Pointer); ok {
			t = pt.Elem()
		}
		sl, ok := t.Underlying().(*types.Slice)
		if !ok {
			return false
		}
		b, ok := sl.Elem().Underlying().(*types.Basic)
		return ok && b.Kind() == types.Int32
	}
	for _, fn := range funcs {
		for _, b := range fn.Blocks {
			for _, ins := range b.Instrs {
				switch x := ins.(type) {
				case *ssa.Call:
					if cal := x.Call.StaticCallee(); cal != nil && cal.Pkg != nil && cal.Pkg.Pkg.Path() == "strings" && strings.Contains(core.BaseName(cal), "Index") {
						tainted[x] = true
						nSrc++
					}
				case *ssa.Extract:
					// key of `range string`
					if nx, ok := x.Tuple.(*ssa.Next); ok && nx.IsString && x.Index == 1 {
						tainted[x] = true
						nSrc++
					}
				}
				// len(<string>) is a byte count too
				if call, ok := ins.(*ssa.Call); ok {
					if bi, ok := call.Call.Value.(*ssa.Builtin); ok && bi.Name() == "len" && len(call.Call.Args) == 1 {
						if bt, ok := call.Call.Args[0].Type().Underlying().(*types.Basic); ok && bt.Info()&types.IsString != 0 {
							if pk := core.FnPkgPath(fn); pk == core.PkgRoot || pk == core.PkgCompat {
								tainted[call] = true
								nSrc++
							}
						}
					}
				}
			}
		}
	}
	if nSrc == 0 {
		c.Anchor("byte-offset sources (strings.Index*, range over string)")
		return
	}
	for changed := true; changed; {
		changed = false
		mark := func(v ssa.Value) {
			if v != nil && !tainted[v] {
				tainted[v] = true
				changed = true
			}
		}
		for _, fn := range funcs {
			for _, b := range fn.Blocks {
				for _, ins := range b.Instrs {
					switch x := ins.(type) {
					case *ssa.BinOp:
						if (x.Op == token.ADD || x.Op == token.SUB) && (tainted[x.X] || tainted[x.Y]) {
							// byte - byte = byte length; byte + const = byte; only propagate when the other side is a constant or tainted
							_, cx := x.X.(*ssa.Const)
							_, cy := x.Y.(*ssa.Const)
							if (tainted[x.X] && (cy || tainted[x.Y])) || (tainted[x.Y] && (cx || tainted[x.X])) {
								mark(x)
							}
						}
					case *ssa.Phi:
						for _, e := range x.Edges {
							if tainted[e] {
								mark(x)
							}
						}
					case *ssa.Store:
						if tainted[x.Val] {
							if f := core.FieldVarOfAddr(x.Addr); f != nil && !taintedFields[f] {
								taintedFields[f] = true
								changed = true
							}
						}
					case *ssa.UnOp:
						if x.Op == token.MUL {
							if f := core.FieldVarOfAddr(x.X); f != nil && taintedFields[f] {
								mark(x)
							}
						}
					case ssa.CallInstruction:
						cal := x.Common().StaticCallee()
						if cal == nil || !core.InModule(cal) || cal.Blocks == nil {
							continue
						}
						for i, a := range x.Common().Args {
							if tainted[a] && i < len(cal.Params) {
								mark(cal.Params[i])
							}
						}
					}
				}
			}
		}
	}
	// sinks
	ord := map[string]int{}
	nSink := 0
	for _, fn := range funcs {
		name := core.SSAName(fn)
		for _, b := range fn.Blocks {
			for _, ins := range b.Instrs {
				var idx ssa.Value
				var base ssa.Value
				what := ""
				switch x := ins.(type) {
				case *ssa.IndexAddr:
					idx, base, what = x.Index, x.X, "index"
				case *ssa.Index:
					idx, base, what = x.Index, x.X, "index"
				case *ssa.Slice:
					idx, base, what = x.Low, x.X, "low bound"
					// the high bound is a rune position too
					if x.High != nil && x.Low != nil && isRuneSlice(x.X.Type()) && tainted[x.High] { // text[a:b]; buf[:n] sizes a buffer
						ord[name]++
						c.Visit(name)
						c.Bad(fmt.Sprintf("%s / byte offset used as rune high bound #%d", name, ord[name]), ins.Pos(), "the high bound of a slice of a []rune is a value derived from a byte count (len of a string, strings.Index*): for non-ASCII input it lies beyond the decoded runes, inside whatever the pooled buffer held before")
					}
				}
				if idx == nil || !isRuneSlice(base.Type()) {
					continue
				}
				nSink++
				if tainted[idx] {
					ord[name]++
					c.Visit(name)
					c.Bad(fmt.Sprintf("%s / byte offset used as rune %s #%d", name, what, ord[name]), ins.Pos(), "%s of a []rune is a value derived from a byte offset (strings.Index* / range-over-string key): the two only coincide for ASCII input", what)
				}
			}
		}
	}
	// the scan start handed to the interpreter is a rune position as well
	if scanFn := p.SSAFunc(p.LookupFunc("", "Runner.scan")); scanFn != nil {
		tsIdx := -1
		for i, prm := range scanFn.Params {
			if prm.Name() == "textstart" || prm.Name() == "rt" && false {
				tsIdx = i
			}
		}
		if tsIdx < 0 && len(scanFn.Params) > 2 {
			tsIdx = 2
		}
		for _, fn := range funcs {
			name := core.SSAName(fn)
			for _, b := range fn.Blocks {
				for _, ins := range b.Instrs {
					call, ok := ins.(ssa.CallInstruction)
					if !ok || call.Common().StaticCallee() != scanFn || tsIdx >= len(call.Common().Args) {
						continue
					}
					nSink++
					if tainted[call.Common().Args[tsIdx]] {
						ord[name]++
						c.Visit(name)
						c.Bad(fmt.Sprintf("%s / byte count used as the scan start #%d", name, ord[name]), ins.Pos(), "the start position given to Runner.scan is derived from a byte offset / len(string): for input with multi-byte runes it lies beyond the rune the caller meant (or beyond the end of the rune buffer)")
					}
				}
			}
		}
	}
	c.OK("byte-offset sources and []rune index sites examined", token.NoPos, "%d sources, %d []rune index/slice sites, %d fields carrying byte offsets", nSrc, nSink, len(taintedFields))
	c.OK("no byte offset reaches a []rune index (summary)", token.NoPos, "violations, if any, are listed individually")
	// the parser position is a rune position: currentPos must not be a tainted field
	cur := p.LookupField("syntax", "parser", "currentPos")
	c.Check(cur != nil && !taintedFields[cur], "syntax.parser.currentPos / never assigned a byte offset", token.NoPos, "the parser indexes []rune with it")
}

// ---------------------------------------------------------------------------
// R-ESCLETTERS: the letters escape() writes after a backslash reach
// scanCharEscape.  In a pattern (outside a class) a backslash is first looked
// at by scanBackslash, which claims some letters for anchors and classes
// (\b \B \A \G \Z \z \w \W \s \S \d \D \p \P), and by scanBasicBackslash
// (\k, digits, \< \').  A letter from those sets written by Escape would be
// read back as an assertion or a class, not as the character (\b is a word
// boundary in a pattern although scanCharEscape decodes it as backspace).
// ---------------------------------------------------------------------------

func REscLetters(c *core.Ctx) {
	c.Rule("R-ESCLETTERS", "no escape sequence written by escape() (the character after the backslash in every string constant it writes) is one that the pattern-level scanners claim before scanCharEscape is reached: the case labels of scanBackslash's switch and the characters scanBasicBackslash compares the escape character with", 6)
	p := c.P
	syn := p.Pkg("syntax")
	info := syn.TypesInfo
	esc, _ := p.DeclOf(p.LookupFunc("syntax", "escape"))
	sb, _ := p.DeclOf(p.LookupFunc("syntax", "parser.scanBackslash"))
	sbb, _ := p.DeclOf(p.LookupFunc("syntax", "parser.scanBasicBackslash"))
	if esc == nil || sb == nil || sbb == nil {
		c.Anchor("syntax.escape / parser.scanBackslash / parser.scanBasicBackslash")
		return
	}
	c.Visit("syntax.escape")
	claimed := map[rune]string{}
	isRune := func(e ast.Expr) (rune, bool) {
		tv, ok := info.Types[e]
		if !ok || tv.Value == nil {
			return 0, false
		}
		if _, isLit := ast.Unparen(e).(*ast.BasicLit); !isLit {
			return 0, false
		}
		if ast.Unparen(e).(*ast.BasicLit).Kind != token.CHAR {
			return 0, false
		}
		v, ok := core.ConstInt(info, e)
		return rune(v), ok
	}
	ast.Inspect(sb.Body, func(n ast.Node) bool {
		if cc, ok := n.(*ast.CaseClause); ok {
			for _, e := range cc.List {
				if r, ok := isRune(e); ok {
					claimed[r] = "scanBackslash case '" + string(r) + "'"
				}
			}
		}
		return true
	})
	ast.Inspect(sbb.Body, func(n ast.Node) bool {
		if be, ok := n.(*ast.BinaryExpr); ok && (be.Op == token.EQL || be.Op == token.NEQ || be.Op == token.GEQ || be.Op == token.LEQ) {
			for _, side := range []ast.Expr{be.X, be.Y} {
				if r, ok := isRune(side); ok && r != '\\' {
					claimed[r] = "scanBasicBackslash comparison with '" + string(r) + "'"
				}
			}
		}
		return true
	})
	if len(claimed) < 10 {
		c.Anchor("escape letters claimed by scanBackslash / scanBasicBackslash")
		return
	}
	n := 0
	ast.Inspect(esc.Body, func(x ast.Node) bool {
		call, ok := x.(*ast.CallExpr)
		if !ok || len(call.Args) != 1 {
			return true
		}
		s, ok := stringLit(info, call.Args[0])
		if !ok || len(s) < 2 || s[0] != '\\' {
			return true
		}
		n++
		letter := rune(s[1])
		why, bad := claimed[letter]
		// digits are claimed as backreferences through a range comparison
		if letter >= '0' && letter <= '9' {
			why, bad = "scanBasicBackslash treats digits as a backreference", true
		}
		c.Check(!bad, fmt.Sprintf("escape / sequence %q is not claimed by the pattern-level scanners", s), call.Pos(),
			"in a pattern this sequence never reaches scanCharEscape: %s", why)
		return true
	})
	if n == 0 {
		c.Anchor("escape sequences written by escape()")
	}
}

// ---------------------------------------------------------------------------
// R-KEYINJ: the set-table key is an injective encoding of the class.
// writer.setCode de-duplicates character classes through the byte string
// mapHashFill produces, so two different classes must never serialise alike.
// (*bytes.Buffer).WriteRune is not injective on the values a range bound can
// take: every surrogate half and every value above MaxRune is written as
// U+FFFD, so [\uD800a] and [�a] share one table entry.  Rune-typed
// values have to be written with a fixed-width integer encoding, and the
// reader (NewCharSetRuntime) has to use the matching read.
// ---------------------------------------------------------------------------

func RKeyInj(c *core.Ctx) {
	c.Rule("R-KEYINJ", "CharSet.mapHashFill (the key under which writer.setCode de-duplicates classes) writes no rune-typed value with WriteRune (which maps every invalid code point to U+FFFD) and NewCharSetRuntime reads none with ReadRune: range bounds are encoded with a fixed-width integer write / read pair", 2)
	p := c.P
	for _, fname := range []string{"CharSet.mapHashFill", "NewCharSetRuntime"} {
		fn := p.SSAFunc(p.LookupFunc("syntax", fname))
		if fn == nil {
			c.Anchor("syntax." + fname)
			continue
		}
		name := core.SSAName(fn)
		c.Visit(name)
		lossy := token.NoPos
		what := ""
		n := 0
		for _, b := range fn.Blocks {
			for _, ins := range b.Instrs {
				call, ok := ins.(*ssa.Call)
				if !ok {
					continue
				}
				cal := call.Call.StaticCallee()
				if cal == nil || cal.Pkg == nil {
					continue
				}
				n++
				if cal.Pkg.Pkg.Path() == "bytes" && (core.BaseName(cal) == "WriteRune" || core.BaseName(cal) == "ReadRune") {
					lossy, what = call.Pos(), cal.Name()
				}
			}
		}
		c.Check(lossy == token.NoPos, name+" / rune values are encoded injectively", fn.Pos(), "%s at %s: surrogate halves and out-of-range values all become U+FFFD, so distinct classes get the same key (%d calls inspected)", what, p.Pos(lossy), n)
	}
	// the string table: no map of package syntax is keyed by string([]rune), which is lossy in the same way
	for _, fn := range p.ModuleFuncs() {
		if core.FnPkgPath(fn) != core.PkgSyntax {
			continue
		}
		for _, b := range fn.Blocks {
			for _, ins := range b.Instrs {
				cv, ok := ins.(*ssa.Convert)
				if !ok {
					continue
				}
				if bt, ok := cv.Type().Underlying().(*types.Basic); !ok || bt.Info()&types.IsString == 0 {
					continue
				}
				sl, ok := cv.X.Type().Underlying().(*types.Slice)
				if !ok {
					continue
				}
				if eb, ok := sl.Elem().Underlying().(*types.Basic); !ok || eb.Kind() != types.Int32 {
					continue
				}
				asKey := false
				for _, r := range core.Referrers(cv) {
					switch x := r.(type) {
					case *ssa.Lookup:
						if x.Index == ssa.Value(cv) {
							asKey = true
						}
					case *ssa.MapUpdate:
						if x.Key == ssa.Value(cv) {
							asKey = true
						}
					}
				}
				if !asKey {
					continue
				}
				c.Visit(core.SSAName(fn))
				c.Bad(core.SSAName(fn)+" / a []rune is not turned into a map key by string()", cv.Pos(), "string([]rune) replaces every surrogate half and out-of-range value by U+FFFD: two different literals get the same key and share one table entry (a\\ud800b and a\\ud801b)")
			}
		}
	}
}

// ---------------------------------------------------------------------------
// R-SETCODEC: the class serialiser and its reader have the same shape.
// mapHashFill writes a class as a byte string (the set-table key, and the form
// generated code hands to NewCharSetRuntime); NewCharSetRuntime reads it back.
// Both are reduced to a signature of primitive operations — fixed-width
// integers by width, raw strings, nested loops, optional tails, recursion into
// the subtraction — and the signatures must be identical: a field written but
// not read (or read with another width) shifts everything after it.
// ---------------------------------------------------------------------------

func RSetCodec(c *core.Ctx) {
	c.Rule("R-SETCODEC", "CharSet.mapHashFill and NewCharSetRuntime perform the same sequence of primitive codec operations (byte, fixed-width integers by width, raw string, loops, optional tail, recursion into the subtraction): every value the writer emits is consumed by the reader with the same width at the same place", 1)
	p := c.P
	syn := p.Pkg("syntax")
	info := syn.TypesInfo
	wfd, _ := p.DeclOf(p.LookupFunc("syntax", "CharSet.mapHashFill"))
	rfd, _ := p.DeclOf(p.LookupFunc("syntax", "NewCharSetRuntime"))
	if wfd == nil || rfd == nil {
		c.Anchor("CharSet.mapHashFill / NewCharSetRuntime")
		return
	}
	c.Visit("syntax.(CharSet).mapHashFill")
	c.Visit("syntax.NewCharSetRuntime")
	width := func(t types.Type) string {
		if pt, ok := t.Underlying().(*types.Pointer); ok {
			t = pt.Elem()
		}
		if b, ok := t.Underlying().(*types.Basic); ok {
			switch b.Kind() {
			case types.Int8, types.Uint8:
				return "1"
			case types.Int16, types.Uint16:
				return "2"
			case types.Int32, types.Uint32:
				return "4"
			case types.Int64, types.Uint64:
				return "8"
			}
		}
		return "?"
	}
	var sigStmts func(list []ast.Stmt, self string) string
	callSig := func(call *ast.CallExpr, self string) string {
		switch f := call.Fun.(type) {
		case *ast.SelectorExpr:
			switch f.Sel.Name {
			case "WriteByte", "ReadByte":
				return "B1 "
			case "WriteString", "Next":
				return "S "
			case "WriteRune", "ReadRune":
				return "R "
			case "Write", "Read":
				if id, ok := f.X.(*ast.Ident); ok && id.Name == "binary" && len(call.Args) == 3 {
					return "B" + width(info.TypeOf(call.Args[2])) + " "
				}
			case self:
				return "REC "
			}
		case *ast.Ident:
			if f.Name == self {
				return "REC "
			}
		}
		return ""
	}
	exprSig := func(n ast.Node, self string) string {
		out := ""
		ast.Inspect(n, func(x ast.Node) bool {
			if _, ok := x.(*ast.FuncLit); ok {
				return false
			}
			if call, ok := x.(*ast.CallExpr); ok {
				// arguments first (evaluation order), then the call itself
				for _, a := range call.Args {
					ast.Inspect(a, func(y ast.Node) bool {
						if c2, ok := y.(*ast.CallExpr); ok {
							out += callSig(c2, self)
						}
						return true
					})
				}
				out += callSig(call, self)
				return false
			}
			return true
		})
		return out
	}
	sigStmts = func(list []ast.Stmt, self string) string {
		out := ""
		for _, st := range list {
			switch x := st.(type) {
			case *ast.ForStmt:
				if body := sigStmts(x.Body.List, self); body != "" {
					out += "L[ " + body + "] "
				}
			case *ast.RangeStmt:
				if body := sigStmts(x.Body.List, self); body != "" {
					out += "L[ " + body + "] "
				}
			case *ast.IfStmt:
				a := sigStmts(x.Body.List, self)
				b := ""
				switch e := x.Else.(type) {
				case *ast.BlockStmt:
					b = sigStmts(e.List, self)
				case *ast.IfStmt:
					b = sigStmts([]ast.Stmt{e}, self)
				}
				switch {
				case a == b:
					out += a
				case b == "":
					out += "OPT[ " + a + "] "
				default:
					out += "IF[ " + a + "| " + b + "] "
				}
			case *ast.BlockStmt:
				out += sigStmts(x.List, self)
			default:
				out += exprSig(st, self)
			}
		}
		return out
	}
	w := sigStmts(wfd.Body.List, "mapHashFill")
	r := sigStmts(rfd.Body.List, "NewCharSetRuntime")
	c.Check(w == r && w != "", "mapHashFill / NewCharSetRuntime have the same codec signature", wfd.Pos(), "writer: %s; reader: %s", w, r)
}
