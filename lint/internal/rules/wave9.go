package rules

import (
	"fmt"
	"go/ast"
	"go/constant"
	"go/token"
	"go/types"
	"regexp"
	"strings"

	"golang.org/x/tools/go/ssa"

	"regexlint/internal/core"
)

// Rules added for the ninth wave of seeded changes.

// R-RESETALL: a recycled Match starts with no captures, whatever the last scan left behind
// (a scan aborted by the stack limit or a timeout does not backtrack out of its captures).
func RResetAll(c *core.Ctx) {
	c.Rule("R-RESETALL", "Match.reset zeroes every element of matchcount unconditionally: the statement that clears it (the loop over the slice or clear(…)) does not stand under an if", 1)
	p := c.P
	pk := p.Pkg("")
	info := pk.TypesInfo
	fd, _ := p.DeclOf(p.LookupFunc("", "Match.reset"))
	mc := p.LookupField("", "Match", "matchcount")
	if fd == nil || mc == nil {
		c.Anchor("Match.reset / Match.matchcount")
		return
	}
	c.Visit("regexp2.(*Match).reset")
	n := 0
	var stack []ast.Node
	ast.Inspect(fd.Body, func(x ast.Node) bool {
		if x == nil {
			stack = stack[:len(stack)-1]
			return true
		}
		stack = append(stack, x)
		clears := false
		switch s := x.(type) {
		case *ast.AssignStmt:
			if len(s.Lhs) == 1 && len(s.Rhs) == 1 {
				if ix, ok := ast.Unparen(s.Lhs[0]).(*ast.IndexExpr); ok && core.FieldOf(info, ix.X) == mc {
					if v, ok := core.ConstInt(info, s.Rhs[0]); ok && v == 0 {
						clears = true
					}
				}
			}
		case *ast.ExprStmt:
			if call, ok := s.X.(*ast.CallExpr); ok && len(call.Args) == 1 && core.FieldOf(info, call.Args[0]) == mc {
				if id, ok := ast.Unparen(call.Fun).(*ast.Ident); ok && id.Name == "clear" {
					clears = true
				}
			}
		}
		if !clears {
			return true
		}
		n++
		cond := false
		for i := len(stack) - 2; i >= 0; i-- {
			if _, ok := stack[i].(*ast.IfStmt); ok {
				cond = true
			}
		}
		c.Check(!cond, fmt.Sprintf("Match.reset / clearing #%d of matchcount is unconditional", n), x.Pos(), "the capture counts are cleared only under a condition: a scan that was aborted (stack limit, timeout) leaves counts behind without a match, and the next call on that pooled runner starts with phantom captures — conditionals and backreferences then read groups that were never set")
		return true
	})
	if n == 0 {
		c.Anchor("the statement clearing matchcount in Match.reset")
	}
}

// R-BYTECAND: a byte candidate is found, not computed from a pattern length (which counts runes).
func RByteCand(c *core.Ctx) {
	c.Rule("R-BYTECAND", "no string prefix filter (a function (string, int) (int, bool) of package regexp2) returns as its candidate len(input) minus something: pattern lengths count runes, and only for ASCII input is that a byte offset of the right rune", 1)
	p := c.P
	n, examined := 0, 0
	for _, fn := range p.ModuleFuncs() {
		if core.FnPkgPath(fn) != core.PkgRoot {
			continue
		}
		sig := fn.Signature
		if sig.Params().Len() != 2 || sig.Results().Len() != 2 || sig.Recv() != nil {
			continue
		}
		if b, ok := sig.Params().At(0).Type().Underlying().(*types.Basic); !ok || b.Info()&types.IsString == 0 {
			continue
		}
		if b, ok := sig.Results().At(1).Type().Underlying().(*types.Basic); !ok || b.Kind() != types.Bool {
			continue
		}
		examined++
		for _, b := range fn.Blocks {
			for _, ins := range b.Instrs {
				ret, ok := ins.(*ssa.Return)
				if !ok || len(ret.Results) != 2 {
					continue
				}
				bin, ok := ret.Results[0].(*ssa.BinOp)
				if !ok || bin.Op != token.SUB {
					continue
				}
				if call, ok := bin.X.(*ssa.Call); ok {
					if bi, ok := call.Call.Value.(*ssa.Builtin); ok && bi.Name() == "len" {
						if bt, ok := call.Call.Args[0].Type().Underlying().(*types.Basic); ok && bt.Info()&types.IsString != 0 {
							n++
							c.Visit(core.SSAName(fn))
							c.Bad(fmt.Sprintf("%s / candidate computed from the byte length #%d", core.SSAName(fn), n), ret.Pos(), "`%s` is returned as the candidate byte index: the subtrahend is a pattern length in runes, so with a multi-byte character near the end of the input the candidate lies to the right of the only possible match start", bin.String())
						}
					}
				}
			}
		}
	}
	if n == 0 {
		c.OK("package regexp2 / prefix-filter candidates are not len(input) minus a length", token.NoPos, "%d filter functions examined", examined)
	}
}

// R-MONOFLAG: "all branches have the same fixed width" can only be lost, never regained.
func RMonoFlag(c *core.Ctx) {
	c.Rule("R-MONOFLAG", "in tryFindRawFixedSets a bool local that is true before a loop over an alternation's branches and assigned inside it is only ever assigned false or the conjunction of itself with something: once one branch was not fully fixed, a later branch cannot switch the flag back on", 1)
	p := c.P
	syn := p.Pkg("syntax")
	info := syn.TypesInfo
	fd, _ := p.DeclOf(p.LookupFunc("syntax", "tryFindRawFixedSets"))
	if fd == nil {
		c.Anchor("syntax.tryFindRawFixedSets")
		return
	}
	c.Visit("syntax.tryFindRawFixedSets")
	// flags: bool locals defined as `x := true`
	flags := map[types.Object]bool{}
	ast.Inspect(fd.Body, func(x ast.Node) bool {
		if as, ok := x.(*ast.AssignStmt); ok && as.Tok == token.DEFINE && len(as.Lhs) == 1 && len(as.Rhs) == 1 {
			if tv, ok := info.Types[as.Rhs[0]]; ok && tv.Value != nil && tv.Value.String() == "true" {
				if id, ok := as.Lhs[0].(*ast.Ident); ok {
					flags[info.ObjectOf(id)] = true
				}
			}
		}
		return true
	})
	n := 0
	ast.Inspect(fd.Body, func(x ast.Node) bool {
		var body *ast.BlockStmt
		switch l := x.(type) {
		case *ast.ForStmt:
			body = l.Body
		case *ast.RangeStmt:
			body = l.Body
		default:
			return true
		}
		ast.Inspect(body, func(y ast.Node) bool {
			as, ok := y.(*ast.AssignStmt)
			if !ok || as.Tok != token.ASSIGN || len(as.Lhs) != 1 || len(as.Rhs) != 1 {
				return true
			}
			id, ok := as.Lhs[0].(*ast.Ident)
			if !ok || !flags[info.ObjectOf(id)] {
				return true
			}
			n++
			rhs := ast.Unparen(as.Rhs[0])
			mono := false
			if tv, ok := info.Types[rhs]; ok && tv.Value != nil && tv.Value.String() == "false" {
				mono = true
			}
			if be, ok := rhs.(*ast.BinaryExpr); ok && be.Op == token.LAND {
				if l, ok := ast.Unparen(be.X).(*ast.Ident); ok && info.ObjectOf(l) == info.ObjectOf(id) {
					mono = true
				}
			}
			c.Check(mono, fmt.Sprintf("tryFindRawFixedSets / assignment #%d to %s only lowers it", n, id.Name), as.Pos(), "`%s` can set the flag back to true after an earlier branch cleared it (or overwrite what earlier branches established): the analysis then goes on behind an alternation whose branches do not all end at the same distance, and publishes a set at an offset where a longer branch still has its own characters", stmtStr(as))
			return true
		})
		return true
	})
	if n == 0 {
		c.Anchor("flag assignments inside the branch loop of tryFindRawFixedSets")
	}
}

// R-ENUMFULL: "disjoint" is answered only after every member was looked at.
func REnumFull(c *core.Ctx) {
	c.Rule("R-ENUMFULL", "in mayOverlapByEnumeration every loop condition is a single bound comparison and no break leaves a loop: the answer false (disjoint) is reached only when all members of the enumerated class were tested — a work budget that runs out must not be read as disjoint", 1)
	p := c.P
	syn := p.Pkg("syntax")
	fd, _ := p.DeclOf(p.LookupFunc("syntax", "mayOverlapByEnumeration"))
	if fd == nil {
		c.Anchor("syntax.mayOverlapByEnumeration")
		return
	}
	_ = syn
	c.Visit("syntax.mayOverlapByEnumeration")
	n := 0
	ast.Inspect(fd.Body, func(x ast.Node) bool {
		switch l := x.(type) {
		case *ast.ForStmt:
			n++
			single := false
			if be, ok := ast.Unparen(l.Cond).(*ast.BinaryExpr); ok && be.Op != token.LAND && be.Op != token.LOR {
				single = true
			}
			c.Check(single, fmt.Sprintf("mayOverlapByEnumeration / loop #%d runs over all members", n), l.Pos(), "the loop condition `%s` has a second way to end: when it does, the function falls through to `return false` and two overlapping classes (large Unicode blocks) are reported disjoint, which makes the loop in front of them atomic", exprStr(l.Cond))
		case *ast.BranchStmt:
			if l.Tok == token.BREAK {
				n++
				c.Bad(fmt.Sprintf("mayOverlapByEnumeration / break #%d", n), l.Pos(), "a break leaves the enumeration early and the function then answers false (disjoint)")
			}
		}
		return true
	})
	if n == 0 {
		c.Anchor("loops of mayOverlapByEnumeration")
	}
}

func stmtStr(as *ast.AssignStmt) string {
	var l, r []string
	for _, e := range as.Lhs {
		l = append(l, types.ExprString(e))
	}
	for _, e := range as.Rhs {
		r = append(r, types.ExprString(e))
	}
	return strings.Join(l, ", ") + " " + as.Tok.String() + " " + strings.Join(r, ", ")
}

func exprStr(e ast.Expr) string {
	if e == nil {
		return "<none>"
	}
	return types.ExprString(e)
}

// R-REPKIND: a group loop absorbs a child loop of its own laziness only.
var familyPred = regexp.MustCompile(`^Is(One|Notone|Set)(loop)?Family$`)

func RRepKind(c *core.Ctx) {
	c.Rule("R-REPKIND", "in reduceRep no assignment to the flag that licenses merging a group loop with its child loop is governed by an Is{One,Notone,Set}[loop]Family predicate: those span greedy, lazy and atomic loops alike, and a greedy group loop may only multiply into a greedy child ((?:a+?)* is not a*?)", 1)
	p := c.P
	syn := p.Pkg("syntax")
	info := syn.TypesInfo
	fd, _ := p.DeclOf(p.LookupFunc("syntax", "RegexNode.reduceRep"))
	if fd == nil {
		c.Anchor("syntax.RegexNode.reduceRep")
		return
	}
	c.Visit("syntax.(*RegexNode).reduceRep")
	usesFamily := func(e ast.Node) string {
		found := ""
		if e == nil {
			return found
		}
		ast.Inspect(e, func(y ast.Node) bool {
			if call, ok := y.(*ast.CallExpr); ok {
				if fn := core.Callee(info, call); fn != nil && familyPred.MatchString(core.BaseName(fn)) {
					found = core.BaseName(fn)
				}
			}
			return true
		})
		return found
	}
	n := 0
	var stack []ast.Node
	ast.Inspect(fd.Body, func(x ast.Node) bool {
		if x == nil {
			stack = stack[:len(stack)-1]
			return true
		}
		stack = append(stack, x)
		as, ok := x.(*ast.AssignStmt)
		if !ok || len(as.Lhs) != 1 || len(as.Rhs) != 1 {
			return true
		}
		id, ok := as.Lhs[0].(*ast.Ident)
		if !ok {
			return true
		}
		if b, ok := info.TypeOf(id).Underlying().(*types.Basic); !ok || b.Kind() != types.Bool || as.Tok == token.DEFINE {
			return true
		}
		if tv, ok := info.Types[as.Rhs[0]]; ok && tv.Value != nil && tv.Value.String() == "false" {
			return true
		}
		n++
		bad := usesFamily(as.Rhs[0])
		for i := len(stack) - 2; i >= 0 && bad == ""; i-- {
			switch g := stack[i].(type) {
			case *ast.IfStmt:
				bad = usesFamily(g.Cond)
			case *ast.CaseClause:
				for _, e := range g.List {
					if b := usesFamily(e); b != "" {
						bad = b
					}
				}
			}
		}
		c.Check(bad == "", fmt.Sprintf("reduceRep / merge licence #%d names exact loop kinds", n), as.Pos(), "`%s` is decided by %s, which is also true for lazy (and atomic) loops: a greedy group loop around a lazy child is multiplied into one lazy loop and takes the shortest instead of the longest match", stmtStr(as), bad)
		return true
	})
	if n == 0 {
		c.Anchor("assignments to the merge flag in reduceRep")
	}
}

// R-ROOMLTR: "enough input left" is measured to the right; it means something for left-to-right scans only.
func RRoomLTR(c *core.Ctx) {
	c.Rule("R-ROOMLTR", "hasMinRequiredBytes (room between an offset and the END of the input) is called only from the string prefix filters, which exist for left-to-right patterns only, or behind a test that the pattern is not RightToLeft: a right-to-left search from that offset has the text to its LEFT", 2)
	p := c.P
	h := p.SSAFunc(p.LookupFunc("", "hasMinRequiredBytes"))
	rtl := p.SSAFunc(p.LookupFunc("", "Regexp.RightToLeft"))
	if h == nil || rtl == nil {
		c.Anchor("hasMinRequiredBytes / Regexp.RightToLeft")
		return
	}
	n := 0
	for _, fn := range p.ModuleFuncs() {
		if core.FnPkgPath(fn) != core.PkgRoot {
			continue
		}
		name := core.SSAName(fn)
		for _, b := range fn.Blocks {
			for _, ins := range b.Instrs {
				call, ok := ins.(*ssa.Call)
				if !ok || call.Call.StaticCallee() != h {
					continue
				}
				n++
				c.Visit(name)
				inFilterFile := strings.HasSuffix(p.Fset.Position(fn.Pos()).Filename, "stringprefixfilter.go")
				guarded := false
				for d := b; d != nil && !guarded; d = d.Idom() {
					idom := d.Idom()
					if idom == nil || len(idom.Instrs) == 0 || len(idom.Succs) != 2 {
						continue
					}
					if ifi, ok := idom.Instrs[len(idom.Instrs)-1].(*ssa.If); ok {
						if cc, ok := ifi.Cond.(*ssa.Call); ok && cc.Call.StaticCallee() == rtl && (idom.Succs[1] == d || idom.Succs[1].Dominates(d)) {
							guarded = true
						}
					}
				}
				c.Check(inFilterFile || guarded, fmt.Sprintf("%s / room-to-the-right test #%d is for a left-to-right search", name, n), call.Pos(), "hasMinRequiredBytes is consulted outside the string prefix filters without a RightToLeft test: for a right-to-left pattern started near the end of the input there is no room to the right and all the text to the left, so a search that would match is answered \"nothing to do\"")
			}
		}
	}
	if n == 0 {
		c.Anchor("calls of hasMinRequiredBytes")
	}
}

// R-COUNTDEC: the caller's match count only counts down.
func RCountDec(c *core.Ctx) {
	c.Rule("R-COUNTDEC", "in replace.go and split.go an int parameter that the function decrements (the number of matches still to take) is assigned only under a test of its own value (sentinel normalisation): no shortcut sets the remaining count from a property of the pattern (an anchored pattern can still match again: \\G moves with each match)", 3)
	p := c.P
	pk := p.Pkg("")
	info := pk.TypesInfo
	n := 0
	for _, fd := range p.FuncDecls(pk) {
		if fd.Body == nil || p.IsTestFile(fd.Pos()) {
			continue
		}
		file := p.Fset.Position(fd.Pos()).Filename
		if !strings.HasSuffix(file, "replace.go") && !strings.HasSuffix(file, "split.go") {
			continue
		}
		params := map[types.Object]bool{}
		for _, f := range fd.Type.Params.List {
			if b, ok := info.TypeOf(f.Type).Underlying().(*types.Basic); ok && b.Kind() == types.Int {
				for _, id := range f.Names {
					params[info.ObjectOf(id)] = true
				}
			}
		}
		counters := map[types.Object]bool{}
		ast.Inspect(fd.Body, func(x ast.Node) bool {
			if inc, ok := x.(*ast.IncDecStmt); ok && inc.Tok == token.DEC {
				if id, ok := ast.Unparen(inc.X).(*ast.Ident); ok && params[info.ObjectOf(id)] {
					counters[info.ObjectOf(id)] = true
				}
			}
			return true
		})
		if len(counters) == 0 {
			continue
		}
		name := core.DeclName(pk, fd)
		n++
		c.Visit(name)
		var bad token.Pos
		what := ""
		var stack []ast.Node
		ast.Inspect(fd.Body, func(x ast.Node) bool {
			if x == nil {
				stack = stack[:len(stack)-1]
				return true
			}
			stack = append(stack, x)
			if as, ok := x.(*ast.AssignStmt); ok {
				for _, l := range as.Lhs {
					id, ok := ast.Unparen(l).(*ast.Ident)
					if !ok || !counters[info.ObjectOf(id)] || bad.IsValid() {
						continue
					}
					// normalising the caller's sentinel (`if count < 0 { count = MaxInt }`) is a test of the counter itself
					own := false
					mentions := func(e ast.Node) {
						if e == nil {
							return
						}
						ast.Inspect(e, func(y ast.Node) bool {
							if cid, ok := y.(*ast.Ident); ok && info.ObjectOf(cid) == info.ObjectOf(id) {
								own = true
							}
							return true
						})
					}
					for i := len(stack) - 2; i >= 0; i-- {
						switch g := stack[i].(type) {
						case *ast.IfStmt:
							mentions(g.Cond)
						case *ast.CaseClause:
							for _, e := range g.List {
								mentions(e)
							}
						case *ast.SwitchStmt:
							if g.Tag != nil {
								mentions(g.Tag)
							}
						}
					}
					if !own {
						bad, what = as.Pos(), stmtStr(as)
					}
				}
			}
			return true
		})
		c.Check(!bad.IsValid(), name+" / the remaining-match count only counts down", fd.Pos(), "`%s` at %s overwrites the number of matches still to take: with a leading \\G (AnchorStart) each match moves the anchor, so `\\G\\d` replaces all leading digits, not one", what, p.Pos(bad))
	}
	if n == 0 {
		c.Anchor("functions of replace.go / split.go that count matches down")
	}
}

// R-FRESHRE: every caller gets its own Regexp.
func RFreshRE(c *core.Ctx) {
	c.Rule("R-FRESHRE", "no package-level variable of package regexp2 can hold a *Regexp (directly or inside a map, slice, struct or pointer it holds): a Regexp carries settings of its holder (MatchTimeout, options outside the registry key), so Compile / MustCompile hand out a new one each time", 1)
	p := c.P
	pk := p.Pkg("")
	re := p.LookupObj("", "Regexp")
	if re == nil {
		c.Anchor("regexp2.Regexp")
		return
	}
	var holds func(t types.Type, depth int, seen map[types.Type]bool) bool
	holds = func(t types.Type, depth int, seen map[types.Type]bool) bool {
		if depth > 6 || seen[t] {
			return false
		}
		seen[t] = true
		switch x := t.(type) {
		case *types.Named:
			if x.Obj() == re {
				return true
			}
			if x.Obj().Pkg() == nil || x.Obj().Pkg() != pk.Types {
				return false
			}
			return holds(x.Underlying(), depth+1, seen)
		case *types.Pointer:
			return holds(x.Elem(), depth+1, seen)
		case *types.Slice:
			return holds(x.Elem(), depth+1, seen)
		case *types.Array:
			return holds(x.Elem(), depth+1, seen)
		case *types.Map:
			return holds(x.Key(), depth+1, seen) || holds(x.Elem(), depth+1, seen)
		case *types.Struct:
			for i := 0; i < x.NumFields(); i++ {
				if holds(x.Field(i).Type(), depth+1, seen) {
					return true
				}
			}
		}
		return false
	}
	n, examined := 0, 0
	sc := pk.Types.Scope()
	for _, nm := range sc.Names() {
		v, ok := sc.Lookup(nm).(*types.Var)
		if !ok || p.IsTestFile(v.Pos()) {
			continue
		}
		examined++
		if holds(v.Type(), 0, map[types.Type]bool{}) {
			n++
			c.Bad(fmt.Sprintf("package variable %s can hold a *Regexp", core.BaseName(v)), v.Pos(), "%s (type %s) can keep a *Regexp alive between calls: a Regexp handed to two holders shares MatchTimeout and every other per-instance setting — one holder's timeout fires in the other's match, and writes to it race", v.Name(), v.Type())
		}
	}
	if n == 0 {
		c.OK("package regexp2 / no package-level variable holds a *Regexp", token.NoPos, "%d package-level variables examined", examined)
	}
}

// R-CRAWLGUARD: a push onto the capture crawl stack makes room for itself.
func RCrawlGuard(c *core.Ctx) {
	c.Rule("R-CRAWLGUARD", "every function that stores into an element of Runner.runcrawl also grows that stack itself (a call that is handed &r.runcrawl): the crawl stack starts at a fixed 32 slots and is not covered by the per-instruction reserve of the other two stacks", 1)
	p := c.P
	crawl := p.LookupField("", "Runner", "runcrawl")
	if crawl == nil {
		c.Anchor("Runner.runcrawl")
		return
	}
	n := 0
	for _, fn := range p.ModuleFuncs() {
		if core.FnPkgPath(fn) != core.PkgRoot {
			continue
		}
		stores, grows := false, false
		var at token.Pos
		for _, b := range fn.Blocks {
			for _, ins := range b.Instrs {
				switch x := ins.(type) {
				case *ssa.Store:
					if ia, ok := x.Addr.(*ssa.IndexAddr); ok {
						if _, ok := core.LoadOfField(ia.X, crawl); ok {
							stores = true
							at = x.Pos()
						}
					}
				case *ssa.Call:
					for _, a := range x.Call.Args {
						if fa, ok := a.(*ssa.FieldAddr); ok && core.FieldVarOfAddr(fa) == crawl {
							grows = true
						}
					}
				}
			}
		}
		if !stores {
			continue
		}
		n++
		name := core.SSAName(fn)
		c.Visit(name)
		c.Check(grows, name+" / the push onto the crawl stack makes room first", at, "an element of runcrawl is written without this function growing the stack: with the growth left to a reserve that is tested elsewhere, a pattern that completes more captures in one straight run than the stack has slots (70 groups on a fresh 32-slot stack) writes at index -1 on the first call and works on the second")
	}
	if n == 0 {
		c.Anchor("functions storing into Runner.runcrawl")
	}
}

// R-TRACKGROW: the backtracking stack grows through the limit-aware routine only.
func RTrackGrow(c *core.Ctx) {
	c.Rule("R-TRACKGROW", "&r.runtrack is never handed to the generic doubling helper (or any function other than the limit-aware growTrack): every enlargement of the backtracking stack is checked against MaxBacktrackingStackSize", 1)
	p := c.P
	track := p.LookupField("", "Runner", "runtrack")
	if track == nil {
		c.Anchor("Runner.runtrack")
		return
	}
	n, examined := 0, 0
	for _, fn := range p.ModuleFuncs() {
		if core.FnPkgPath(fn) != core.PkgRoot {
			continue
		}
		for _, b := range fn.Blocks {
			for _, ins := range b.Instrs {
				call, ok := ins.(ssa.CallInstruction)
				if !ok {
					continue
				}
				for _, a := range call.Common().Args {
					if fa, ok := a.(*ssa.FieldAddr); ok && core.FieldVarOfAddr(fa) == track {
						examined++
						n++
						c.Visit(core.SSAName(fn))
						cal := "a function value"
						if sc := call.Common().StaticCallee(); sc != nil {
							cal = core.BaseName(sc)
						}
						c.Bad(fmt.Sprintf("%s / the backtracking stack is enlarged outside growTrack #%d", core.SSAName(fn), n), call.Pos(), "&r.runtrack is passed to %s, which knows nothing of the configured limit: the pooled runner ends up with a stack larger than MaxBacktrackingStackSize and a match that must fail with ErrBacktrackingStackLimit succeeds", cal)
					}
				}
			}
		}
	}
	if n == 0 {
		c.OK("package regexp2 / the address of runtrack is never handed to a helper", token.NoPos, "no call receives &r.runtrack")
	}
}

// R-TIMEOUTSRC: the runner uses the timeout it was called with.
func RTimeoutSrc(c *core.Ctx) {
	c.Rule("R-TIMEOUTSRC", "no method of Runner reads Regexp.MatchTimeout through the runner's back pointer (r.re.MatchTimeout): the timeout of a scan is the value its caller passed in; r.re is the Regexp the runner was created for, which for a copied or unmarshalled Regexp is a different object with a different MatchTimeout", 1)
	p := c.P
	mt := p.LookupField("", "Regexp", "MatchTimeout")
	reF := p.LookupField("", "Runner", "re")
	if mt == nil || reF == nil {
		c.Anchor("Regexp.MatchTimeout / Runner.re")
		return
	}
	n, examined := 0, 0
	for _, fn := range p.ModuleFuncs() {
		if core.FnPkgPath(fn) != core.PkgRoot {
			continue
		}
		for _, b := range fn.Blocks {
			for _, ins := range b.Instrs {
				fa, ok := ins.(*ssa.FieldAddr)
				if !ok || core.FieldVarOfAddr(fa) != mt {
					continue
				}
				examined++
				if _, ok := core.LoadOfField(fa.X, reF); ok {
					n++
					c.Visit(core.SSAName(fn))
					c.Bad(fmt.Sprintf("%s / MatchTimeout read through the runner's back pointer #%d", core.SSAName(fn), n), fa.Pos(), "r.re.MatchTimeout is read: r.re is the Regexp that created the pooled runner, not necessarily the one whose method was called (UnmarshalText and by-value copies share the pool) — a timeout set on the copy is ignored and the match never times out")
				}
			}
		}
	}
	if n == 0 {
		c.OK("package regexp2 / the runner takes its timeout from its caller", token.NoPos, "%d reads of Regexp.MatchTimeout examined, none through Runner.re", examined)
	}
}

// R-NEGTOGGLE: negation is set, never toggled.
func RNegToggle(c *core.Ctx) {
	c.Rule("R-NEGTOGGLE", "no store into CharSet.negate computes its value from the field's own current value (c.negate = !c.negate): canonicalize's rewrite applies to positive classes and sets the constant true; toggling would also rewrite classes the pattern negated, which the un-flip routine then restores as positive", 1)
	p := c.P
	neg := p.LookupField("syntax", "CharSet", "negate")
	if neg == nil {
		c.Anchor("syntax.CharSet.negate")
		return
	}
	n, examined := 0, 0
	for _, fn := range p.ModuleFuncs() {
		if core.FnPkgPath(fn) != core.PkgSyntax {
			continue
		}
		for _, b := range fn.Blocks {
			for _, ins := range b.Instrs {
				st, ok := ins.(*ssa.Store)
				if !ok || core.FieldVarOfAddr(st.Addr) != neg {
					continue
				}
				examined++
				if un, ok := st.Val.(*ssa.UnOp); ok && un.Op == token.NOT {
					if _, ok := core.LoadOfField(un.X, neg); ok {
						n++
						c.Visit(core.SSAName(fn))
						c.Bad(fmt.Sprintf("%s / negate is toggled #%d", core.SSAName(fn), n), st.Pos(), "negate is set to its own complement: for a class the pattern negated ([^…]) the flipped form is positive, and the un-flip routine, which always restores negate = false, then loses the pattern's negation")
					}
				}
			}
		}
	}
	if n == 0 {
		c.OK("package syntax / negate is only ever set to a value that does not depend on itself", token.NoPos, "%d stores examined", examined)
	}
}

// R-SPACEARGS: the two dialect flags of addSpace are passed separately.
func RSpaceArgs(c *core.Ctx) {
	c.Rule("R-SPACEARGS", "in every call of CharSet.addSpace(ecma, re2, negate) the ecma argument does not consult useRE2 and the re2 argument does not consult useOptionE: the function chooses between three space classes, and folding RE2 into the ECMAScript flag gives RE2's [\\s] the ECMAScript list", 1)
	p := c.P
	syn := p.Pkg("syntax")
	info := syn.TypesInfo
	add := p.LookupFunc("syntax", "CharSet.addSpace")
	re2 := p.LookupFunc("syntax", "parser.useRE2")
	ecma := p.LookupFunc("syntax", "parser.useOptionE")
	if add == nil || re2 == nil || ecma == nil {
		c.Anchor("CharSet.addSpace / parser.useRE2 / parser.useOptionE")
		return
	}
	n := 0
	for _, fd := range p.FuncDecls(syn) {
		if fd.Body == nil || p.IsTestFile(fd.Pos()) {
			continue
		}
		ast.Inspect(fd.Body, func(x ast.Node) bool {
			call, ok := x.(*ast.CallExpr)
			if !ok || core.Callee(info, call) != add || len(call.Args) != 3 {
				return true
			}
			n++
			c.Visit(core.DeclName(syn, fd))
			bad := len(core.CallsIn(info, call.Args[0], re2)) > 0 || len(core.CallsIn(info, call.Args[1], ecma)) > 0
			c.Check(!bad, fmt.Sprintf("%s / addSpace call #%d passes the dialect flags separately", core.DeclName(syn, fd), n), call.Pos(), "`%s`: the ECMAScript flag is true under RE2 as well, so inside a class \\s / \\S use the ECMAScript space list under RE2 ([\\s] differs from \\s for U+000B, U+00A0, U+2028 …)", types.ExprString(call))
			return true
		})
	}
	if n == 0 {
		c.Anchor("calls of CharSet.addSpace")
	}
}

// R-DENSEEQ: the direct capture table is for patterns without holes.
func RDenseEq(c *core.Ctx) {
	c.Rule("R-DENSEEQ", "in codeFromTree the branch that drops the sparse capture map (w.caps = nil) is taken on Capnumlist == nil or on EQUALITY of Captop and len(Capnumlist): the parser lays out names and slots compactly whenever a number is unused, so any other relation makes writer and parser disagree about the slots", 1)
	p := c.P
	syn := p.Pkg("syntax")
	info := syn.TypesInfo
	fd, _ := p.DeclOf(p.LookupFunc("syntax", "writer.codeFromTree"))
	caps := p.LookupField("syntax", "writer", "caps")
	captop := p.LookupField("syntax", "RegexTree", "Captop")
	if fd == nil || caps == nil || captop == nil {
		c.Anchor("writer.codeFromTree / writer.caps / RegexTree.Captop")
		return
	}
	c.Visit("syntax.(*writer).codeFromTree")
	n := 0
	ast.Inspect(fd.Body, func(x ast.Node) bool {
		ifs, ok := x.(*ast.IfStmt)
		if !ok {
			return true
		}
		setsNil := false
		for _, st := range ifs.Body.List {
			if as, ok := st.(*ast.AssignStmt); ok && len(as.Lhs) == 1 && len(as.Rhs) == 1 && core.FieldOf(info, as.Lhs[0]) == caps {
				if id, ok := ast.Unparen(as.Rhs[0]).(*ast.Ident); ok && id.Name == "nil" {
					setsNil = true
				}
			}
		}
		if !setsNil {
			return true
		}
		n++
		var bad ast.Expr
		ast.Inspect(ifs.Cond, func(y ast.Node) bool {
			be, ok := y.(*ast.BinaryExpr)
			if !ok {
				return true
			}
			switch be.Op {
			case token.LSS, token.LEQ, token.GTR, token.GEQ, token.NEQ:
				if core.FieldOf(info, be.X) == captop || core.FieldOf(info, be.Y) == captop {
					bad = be
				}
			}
			return true
		})
		if bad != nil {
			c.Bad("codeFromTree / the dense capture table is chosen on equality", bad.Pos(), "`%s` lets a pattern with unused group numbers keep the direct table: names and numbers lists get different lengths, names shift by one slot and a phantom group appears ((a)(?<3>b))", types.ExprString(bad))
		} else {
			c.OK("codeFromTree / the dense capture table is chosen on equality", ifs.Pos(), "`%s`", types.ExprString(ifs.Cond))
		}
		return true
	})
	if n == 0 {
		c.Anchor("the branch of codeFromTree that clears w.caps")
	}
}

// R-ESCFORMS: escape() introduces no escape form the codec check does not know.
func REscForms(c *core.Ctx) {
	c.Rule("R-ESCFORMS", "every string constant that escape() writes and that begins with a backslash is one of \\a \\f \\n \\r \\t \\v \\x \\u (the forms whose agreement with the parser R-CODEC checks under every option set): a new introducer such as `\\x{` is read differently by some flavour (ECMAScript takes \\x{ as an identity escape)", 6)
	p := c.P
	syn := p.Pkg("syntax")
	info := syn.TypesInfo
	fd, _ := p.DeclOf(p.LookupFunc("syntax", "escape"))
	if fd == nil {
		c.Anchor("syntax.escape")
		return
	}
	c.Visit("syntax.escape")
	known := map[string]bool{`\a`: true, `\f`: true, `\n`: true, `\r`: true, `\t`: true, `\v`: true, `\x`: true, `\u`: true, `\`: true}
	n := 0
	ast.Inspect(fd.Body, func(x ast.Node) bool {
		call, ok := x.(*ast.CallExpr)
		if !ok || len(call.Args) != 1 {
			return true
		}
		sel, ok := ast.Unparen(call.Fun).(*ast.SelectorExpr)
		if !ok || !strings.HasPrefix(sel.Sel.Name, "Write") {
			return true
		}
		tv, ok := info.Types[call.Args[0]]
		if !ok || tv.Value == nil {
			return true
		}
		s := ""
		switch tv.Value.Kind() {
		case constant.String:
			s = constant.StringVal(tv.Value)
		case constant.Int:
			if v, ok := constant.Int64Val(tv.Value); ok {
				s = string(rune(v))
			}
		}
		if !strings.HasPrefix(s, `\`) {
			return true
		}
		n++
		c.Check(known[s], fmt.Sprintf("escape / backslash form #%d is a known one", n), call.Pos(), "escape() writes %q: not one of the forms whose reading is checked against the parser in every flavour", s)
		return true
	})
	if n == 0 {
		c.Anchor("backslash forms written by escape()")
	}
}

// R-EXCLEND: an exclusive end is not decremented twice.
// A helper whose loop starts at `end - 1` takes an EXCLUSIVE end.  A caller
// that wants to look at everything in front of a position passes the position;
// passing `pos - 1` skips the character directly in front of it.
func RExclEnd(c *core.Ctx) {
	c.Rule("R-EXCLEND", "for every function of package regexp2 one of whose int parameters is used only as `param - 1` (an exclusive end: the scan starts one below it), no call site passes an argument that is itself `x - 1` of a position: the element directly in front of the position would never be examined", 1)
	p := c.P
	type key struct {
		fn  *ssa.Function
		idx int
	}
	excl := map[key]bool{}
	for _, fn := range p.ModuleFuncs() {
		if core.FnPkgPath(fn) != core.PkgRoot || len(fn.Blocks) == 0 {
			continue
		}
		for i, prm := range fn.Params {
			if b, ok := prm.Type().Underlying().(*types.Basic); !ok || b.Kind() != types.Int {
				continue
			}
			refs := core.Referrers(prm)
			if len(refs) == 0 {
				continue
			}
			all := true
			for _, r := range refs {
				bin, ok := r.(*ssa.BinOp)
				if !ok || bin.Op != token.SUB || bin.X != ssa.Value(prm) {
					all = false
					break
				}
				k, ok := bin.Y.(*ssa.Const)
				if !ok || k.Value == nil || k.Value.Kind() != constant.Int {
					all = false
					break
				}
				if v, _ := constant.Int64Val(k.Value); v != 1 {
					all = false
				}
			}
			if all {
				excl[key{fn, i}] = true
			}
		}
	}
	n, sites := 0, 0
	for _, fn := range p.ModuleFuncs() {
		if !core.InModule(fn) {
			continue
		}
		for _, b := range fn.Blocks {
			for _, ins := range b.Instrs {
				call, ok := ins.(ssa.CallInstruction)
				if !ok {
					continue
				}
				cal := call.Common().StaticCallee()
				if cal == nil {
					continue
				}
				for i, a := range call.Common().Args {
					if !excl[key{cal, i}] {
						continue
					}
					sites++
					if bin, ok := a.(*ssa.BinOp); ok && bin.Op == token.SUB {
						if k, ok := bin.Y.(*ssa.Const); ok && k.Value != nil && k.Value.Kind() == constant.Int {
							if v, _ := constant.Int64Val(k.Value); v == 1 {
								n++
								c.Visit(core.SSAName(fn))
								c.Bad(fmt.Sprintf("%s / exclusive end of %s decremented by the caller #%d", core.SSAName(fn), core.BaseName(cal), n), call.Pos(), "`%s` is passed as the end of %s, which already starts one below its end: the character directly in front of the position is skipped — a right-to-left search misses a match that ends exactly at the start offset and drops adjacent matches", bin.String(), core.BaseName(cal))
							}
						}
					}
				}
			}
		}
	}
	if n == 0 {
		c.OK("package regexp2 / no exclusive end is decremented by its caller", token.NoPos, "%d functions with an exclusive-end parameter, %d call sites examined", len(excl), sites)
	}
}

// R-REPCAP: two nested group loops are one loop only where nothing is captured.
// (?:X{a,b}){c,d} and X{ac,bd} match the same texts, but they run different
// iterations: with a capture inside X the last capture (and the number of
// captures) differs — (?:(a{1,2}){1,2}){2} on "aaaa" ends with group 1 = "a",
// the merged loop with "aa".
func RRepCap(c *core.Ctx) {
	c.Rule("R-REPCAP", "in reduceRep the loop that multiplies the bounds of a group loop into its child has an exit (break) taken under a condition that asks whether the child contains a capture group (a call of a syntax function that looks for NtCapture below a node): nested group loops around a capture are not merged", 1)
	p := c.P
	syn := p.Pkg("syntax")
	info := syn.TypesInfo
	fd, _ := p.DeclOf(p.LookupFunc("syntax", "RegexNode.reduceRep"))
	capK := p.LookupObj("syntax", "NtCapture")
	if fd == nil || capK == nil {
		c.Anchor("syntax.RegexNode.reduceRep / NtCapture")
		return
	}
	c.Visit("syntax.(*RegexNode).reduceRep")
	memo := map[*types.Func]bool{}
	var looksForCapture func(fn *types.Func, depth int) bool
	looksForCapture = func(fn *types.Func, depth int) bool {
		if fn == nil || fn.Pkg() != syn.Types || depth > 2 {
			return false
		}
		if v, ok := memo[fn]; ok {
			return v
		}
		memo[fn] = false
		d, _ := p.DeclOf(fn)
		if d == nil || d.Body == nil {
			return false
		}
		res := false
		ast.Inspect(d.Body, func(x ast.Node) bool {
			switch y := x.(type) {
			case *ast.Ident:
				if info.ObjectOf(y) == capK {
					res = true
				}
			case *ast.CallExpr:
				if cal := core.Callee(info, y); cal != nil && cal != fn && looksForCapture(cal, depth+1) {
					res = true
				}
			}
			return !res
		})
		memo[fn] = res
		return res
	}
	found := false
	var at token.Pos
	ast.Inspect(fd.Body, func(x ast.Node) bool {
		loop, ok := x.(*ast.ForStmt)
		if !ok {
			return true
		}
		at = loop.Pos()
		ast.Inspect(loop.Body, func(y ast.Node) bool {
			ifs, ok := y.(*ast.IfStmt)
			if !ok {
				return true
			}
			breaks := false
			for _, st := range ifs.Body.List {
				if br, ok := st.(*ast.BranchStmt); ok && br.Tok == token.BREAK {
					breaks = true
				}
			}
			if !breaks {
				return true
			}
			ast.Inspect(ifs.Cond, func(z ast.Node) bool {
				if call, ok := z.(*ast.CallExpr); ok && looksForCapture(core.Callee(info, call), 0) {
					found = true
				}
				return true
			})
			return true
		})
		return false
	})
	if !at.IsValid() {
		c.Anchor("the merging loop of reduceRep")
		return
	}
	c.Check(found, "reduceRep / nested group loops around a capture are not merged", at, "no exit of the merging loop asks whether the child contains a capture: (?:(a{1,2}){1,2}){2} becomes (a{1,2}){2,4}, which matches the same text but ends with a different last capture of group 1 (and a different number of captures) than the pattern as written")
}

// R-REPLMASK: replacement text is never case-folded.
// addToConcatenate serves the pattern parser and the replacement parser.  A
// literal of a replacement string is emitted verbatim: its nodes must not
// carry IgnoreCase (the replacement compiler rejects anything but plain
// literals and references — "replacement pattern error").  The function is
// evaluated for isReplacement = true and every relevant literal length
// (0, 1, 2, 3 characters): integer comparisons on the length and the flag are
// decided, every other condition is explored both ways, and each node
// constructor reached must be given options with IgnoreCase masked out.
func RReplMask(c *core.Ctx) {
	c.Rule("R-REPLMASK", "on every path of addToConcatenate that is feasible for isReplacement = true (literal lengths 0 to 3 evaluated concretely, other conditions both ways) every RegexNode constructed is given options with IgnoreCase cleared (an `&^ IgnoreCase` / `& ^IgnoreCase` on the options argument)", 2)
	p := c.P
	syn := p.Pkg("syntax")
	info := syn.TypesInfo
	fd, _ := p.DeclOf(p.LookupFunc("syntax", "parser.addToConcatenate"))
	ic := p.LookupObj("syntax", "IgnoreCase")
	if fd == nil || ic == nil || fd.Type.Params == nil {
		c.Anchor("syntax.parser.addToConcatenate / IgnoreCase")
		return
	}
	c.Visit("syntax.(*parser).addToConcatenate")
	// parameters: the int named/positioned second (length) and the bool
	var lenP, replP types.Object
	var ints []types.Object
	for _, f := range fd.Type.Params.List {
		for _, id := range f.Names {
			o := info.ObjectOf(id)
			if b, ok := o.Type().Underlying().(*types.Basic); ok {
				if b.Kind() == types.Int {
					ints = append(ints, o)
				}
				if b.Kind() == types.Bool {
					replP = o
				}
			}
		}
	}
	if len(ints) >= 2 {
		lenP = ints[1]
	}
	if lenP == nil || replP == nil {
		c.Anchor("the length and mode parameters of addToConcatenate")
		return
	}
	maskedLocal := map[types.Object]bool{}
	masked := func(e ast.Expr) bool {
		found := false
		if id, ok := ast.Unparen(e).(*ast.Ident); ok && maskedLocal[info.ObjectOf(id)] {
			return true
		}
		ast.Inspect(e, func(y ast.Node) bool {
			switch z := y.(type) {
			case *ast.BinaryExpr:
				if z.Op == token.AND_NOT {
					if id, ok := ast.Unparen(z.Y).(*ast.Ident); ok && info.ObjectOf(id) == ic {
						found = true
					}
				}
				if z.Op == token.AND {
					if u, ok := ast.Unparen(z.Y).(*ast.UnaryExpr); ok && u.Op == token.XOR {
						if id, ok := ast.Unparen(u.X).(*ast.Ident); ok && info.ObjectOf(id) == ic {
							found = true
						}
					}
				}
			}
			return true
		})
		return found
	}
	isNodeCtor := func(call *ast.CallExpr) bool {
		fn := core.Callee(info, call)
		if fn == nil || fn.Pkg() != syn.Types || !strings.HasPrefix(core.BaseName(fn), "newRegexNode") {
			return false
		}
		return len(call.Args) >= 2
	}
	// three-valued evaluation: 1 true, 0 false, -1 unknown
	var eval func(e ast.Expr, n int64) int
	eval = func(e ast.Expr, n int64) int {
		e = ast.Unparen(e)
		switch x := e.(type) {
		case *ast.Ident:
			if info.ObjectOf(x) == replP {
				return 1
			}
		case *ast.UnaryExpr:
			if x.Op == token.NOT {
				switch eval(x.X, n) {
				case 1:
					return 0
				case 0:
					return 1
				}
			}
		case *ast.BinaryExpr:
			switch x.Op {
			case token.LAND:
				a, b := eval(x.X, n), eval(x.Y, n)
				if a == 0 || b == 0 {
					return 0
				}
				if a == 1 && b == 1 {
					return 1
				}
			case token.LOR:
				a, b := eval(x.X, n), eval(x.Y, n)
				if a == 1 || b == 1 {
					return 1
				}
				if a == 0 && b == 0 {
					return 0
				}
			case token.EQL, token.NEQ, token.LSS, token.LEQ, token.GTR, token.GEQ:
				val := func(y ast.Expr) (int64, bool) {
					y = ast.Unparen(y)
					if id, ok := y.(*ast.Ident); ok && info.ObjectOf(id) == lenP {
						return n, true
					}
					return core.ConstInt(info, y)
				}
				a, ok1 := val(x.X)
				b, ok2 := val(x.Y)
				if ok1 && ok2 {
					var r bool
					switch x.Op {
					case token.EQL:
						r = a == b
					case token.NEQ:
						r = a != b
					case token.LSS:
						r = a < b
					case token.LEQ:
						r = a <= b
					case token.GTR:
						r = a > b
					case token.GEQ:
						r = a >= b
					}
					if r {
						return 1
					}
					return 0
				}
			}
		}
		return -1
	}
	type finding struct {
		pos  token.Pos
		text string
	}
	var bad []finding
	ctors := 0
	scanCtors := func(node ast.Node) {
		ast.Inspect(node, func(y ast.Node) bool {
			switch z := y.(type) {
			case *ast.IfStmt, *ast.ForStmt, *ast.RangeStmt, *ast.BlockStmt:
				return y == node
			case *ast.CallExpr:
				if isNodeCtor(z) {
					ctors++
					if !masked(z.Args[1]) {
						bad = append(bad, finding{z.Pos(), types.ExprString(z)})
					}
				}
			}
			return true
		})
	}
	// returns true when the path has ended (return)
	var walk func(list []ast.Stmt, n int64) bool
	walk = func(list []ast.Stmt, n int64) bool {
		for _, st := range list {
			switch s := st.(type) {
			case *ast.ReturnStmt:
				scanCtors(s)
				return true
			case *ast.IfStmt:
				v := eval(s.Cond, n)
				endThen, endElse := false, false
				if v != 0 {
					endThen = walk(s.Body.List, n)
				}
				if v != 1 {
					switch e := s.Else.(type) {
					case *ast.BlockStmt:
						endElse = walk(e.List, n)
					case *ast.IfStmt:
						endElse = walk([]ast.Stmt{e}, n)
					}
				}
				if (v == 1 && endThen) || (v == 0 && endElse) {
					return true
				}
				// unknown: continue unless both ways ended
				if v == -1 && endThen && endElse {
					return true
				}
			case *ast.AssignStmt:
				// opts &^= IgnoreCase  /  opts = opts &^ IgnoreCase on the path
				if len(s.Lhs) == 1 && len(s.Rhs) == 1 {
					if id, ok := ast.Unparen(s.Lhs[0]).(*ast.Ident); ok {
						isIC := func(e ast.Expr) bool {
							i2, ok := ast.Unparen(e).(*ast.Ident)
							return ok && info.ObjectOf(i2) == ic
						}
						if (s.Tok == token.AND_NOT_ASSIGN && isIC(s.Rhs[0])) || (s.Tok == token.ASSIGN && masked(s.Rhs[0])) {
							maskedLocal[info.ObjectOf(id)] = true
						} else if s.Tok == token.ASSIGN || s.Tok == token.DEFINE {
							delete(maskedLocal, info.ObjectOf(id))
							if s.Tok == token.DEFINE && masked(s.Rhs[0]) {
								maskedLocal[info.ObjectOf(id)] = true
							}
						}
					}
				}
				scanCtors(st)
			case *ast.SwitchStmt:
				// switch on the length: take the arm for this length (or default)
				var arm *ast.CaseClause
				var def *ast.CaseClause
				decided := s.Tag != nil
				if decided {
					if id, ok := ast.Unparen(s.Tag).(*ast.Ident); !ok || info.ObjectOf(id) != lenP {
						decided = false
					}
				}
				for _, cs := range s.Body.List {
					cc := cs.(*ast.CaseClause)
					if cc.List == nil {
						def = cc
						continue
					}
					for _, e := range cc.List {
						if decided {
							if v, ok := core.ConstInt(info, e); ok && v == n {
								arm = cc
							}
						} else if s.Tag == nil && eval(e, n) == 1 && arm == nil {
							arm = cc
						}
					}
				}
				if s.Tag == nil {
					// tagless: arms whose condition is unknown are explored as well
					ended := arm != nil
					for _, cs := range s.Body.List {
						cc := cs.(*ast.CaseClause)
						take := cc == arm
						for _, e := range cc.List {
							if eval(e, n) == -1 && arm == nil {
								take = true
							}
						}
						if cc.List == nil && arm == nil {
							take = true
						}
						if take && !walk(cc.Body, n) {
							ended = false
						}
					}
					if ended && arm != nil {
						return true
					}
					break
				}
				if !decided {
					for _, cs := range s.Body.List {
						walk(cs.(*ast.CaseClause).Body, n)
					}
					break
				}
				if arm == nil {
					arm = def
				}
				if arm != nil && walk(arm.Body, n) {
					return true
				}
			case *ast.ForStmt:
				// `for i := pos; i < pos+len; i++`: runs iff the length is positive
				if n > 0 {
					walk(s.Body.List, n)
				}
			case *ast.RangeStmt:
				if n > 0 {
					walk(s.Body.List, n)
				}
			case *ast.BlockStmt:
				if walk(s.List, n) {
					return true
				}
			default:
				scanCtors(st)
			}
		}
		return false
	}
	for _, n := range []int64{0, 1, 2, 3} {
		before := len(bad)
		maskedLocal = map[types.Object]bool{}
		walk(fd.Body.List, n)
		key := fmt.Sprintf("addToConcatenate / replacement literal of %d character(s) gets nodes without IgnoreCase", n)
		if len(bad) > before {
			c.Bad(key, bad[before].pos, "`%s` is reached with isReplacement = true and a literal of %d character(s), and its options are not masked: under the IgnoreCase option the replacement parser produces a case-insensitive node, which the replacement compiler rejects (Replace panics with \"replacement pattern error\")", bad[before].text, n)
		} else {
			c.OK(key, fd.Pos(), "every node constructor reached clears IgnoreCase")
		}
	}
	if ctors == 0 {
		c.Anchor("node constructors reached in addToConcatenate")
	}
}

// R-LASTLE: "the last entry not beyond x" is search(first entry > x) - 1.
// stringByteMapper.byteIndex looks up the last recorded rune index that is <=
// its argument.  With a binary search that is the first index whose entry is
// STRICTLY greater, minus one; a search for the first entry >= x (sort.SearchInts,
// a `>=` predicate) lands one entry early whenever x itself is recorded — the
// position right after a multi-byte rune.
func RLastLE(c *core.Ctx) {
	c.Rule("R-LASTLE", "in stringByteMapper.byteIndex the binary search whose result is decremented by one uses a strict predicate (entry > x): it is not sort.SearchInts / slices.BinarySearch (first entry >= x) and its predicate closure does not compare with >=", 1)
	p := c.P
	pk := p.Pkg("")
	info := pk.TypesInfo
	fd, _ := p.DeclOf(p.LookupFunc("", "stringByteMapper.byteIndex"))
	if fd == nil {
		c.Anchor("regexp2.stringByteMapper.byteIndex")
		return
	}
	c.Visit("regexp2.(*stringByteMapper).byteIndex")
	n := 0
	ast.Inspect(fd.Body, func(x ast.Node) bool {
		be, ok := x.(*ast.BinaryExpr)
		if !ok || be.Op != token.SUB {
			return true
		}
		if k, ok := core.ConstInt(info, be.Y); !ok || k != 1 {
			return true
		}
		call, ok := ast.Unparen(be.X).(*ast.CallExpr)
		if !ok {
			return true
		}
		cal := core.Callee(info, call)
		if cal == nil || cal.Pkg() == nil || (cal.Pkg().Path() != "sort" && cal.Pkg().Path() != "slices") {
			return true
		}
		n++
		key := fmt.Sprintf("byteIndex / search #%d minus one uses a strict predicate", n)
		if cal.Name() != "Search" && cal.Name() != "Find" {
			c.Bad(key, call.Pos(), "%s.%s finds the first entry >= x; minus one that is the last entry < x, one entry early when x itself is in the table (the rune right after a multi-byte rune gets the byte offset of the rune before the shift)", cal.Pkg().Name(), cal.Name())
			return true
		}
		strict := false
		var op token.Token
		for _, a := range call.Args {
			if fl, ok := ast.Unparen(a).(*ast.FuncLit); ok {
				ast.Inspect(fl.Body, func(y ast.Node) bool {
					if b2, ok := y.(*ast.BinaryExpr); ok {
						switch b2.Op {
						case token.GTR, token.LSS:
							strict, op = true, b2.Op
						case token.GEQ, token.LEQ:
							op = b2.Op
						}
					}
					return true
				})
			}
		}
		c.Check(strict, key, call.Pos(), "the predicate compares with %s: the search then finds the first entry >= x and the decrement lands one entry early when x itself is recorded", op)
		return true
	})
	if n == 0 {
		c.Anchor("a binary search decremented by one in byteIndex")
	}
}

// R-BMFALLBACK: where the good-suffix analysis found nothing, the scanner steps by one.
// A shift larger than one position is sound only with a proof about the
// occurrences (borders) of the matched tail in the pattern; the entries part I
// of the table builder could not justify are therefore filled with the unit
// step, which can never jump over a candidate.
func RBmFallback(c *core.Ctx) {
	c.Rule("R-BMFALLBACK", "in newBmPrefix every store into an element of the good-suffix table that stands under a test of that element against 0 (the entries the analysis left open) stores either the distance between two pattern positions that the enclosing test has just compared (the analysis proper) or the unit step — a variable that is only ever assigned the constants 1 and -1: no larger fallback shift, whose soundness would depend on the borders of the pattern, is installed", 2)
	p := c.P
	syn := p.Pkg("syntax")
	info := syn.TypesInfo
	fd, _ := p.DeclOf(p.LookupFunc("syntax", "newBmPrefix"))
	pos := p.LookupField("syntax", "BmPrefix", "positive")
	if fd == nil || pos == nil {
		c.Anchor("syntax.newBmPrefix / BmPrefix.positive")
		return
	}
	c.Visit("syntax.newBmPrefix")
	// unit-step variables: int locals all of whose assignments are the constants 1 / -1
	unit := map[types.Object]bool{}
	notUnit := map[types.Object]bool{}
	ast.Inspect(fd.Body, func(x ast.Node) bool {
		as, ok := x.(*ast.AssignStmt)
		if !ok || len(as.Lhs) != len(as.Rhs) {
			return true
		}
		for i, l := range as.Lhs {
			id, ok := ast.Unparen(l).(*ast.Ident)
			if !ok {
				continue
			}
			o := info.ObjectOf(id)
			if v, ok := core.ConstInt(info, as.Rhs[i]); ok && (v == 1 || v == -1) && as.Tok != token.ADD_ASSIGN && as.Tok != token.SUB_ASSIGN {
				unit[o] = true
			} else {
				notUnit[o] = true
			}
		}
		return true
	})
	patF := p.LookupField("syntax", "BmPrefix", "pattern")
	n := 0
	var stack []ast.Node
	ast.Inspect(fd.Body, func(x ast.Node) bool {
		if x == nil {
			stack = stack[:len(stack)-1]
			return true
		}
		stack = append(stack, x)
		ifs, ok := x.(*ast.IfStmt)
		if !ok {
			return true
		}
		be, ok := ast.Unparen(ifs.Cond).(*ast.BinaryExpr)
		if !ok || be.Op != token.EQL {
			return true
		}
		ix, ok := ast.Unparen(be.X).(*ast.IndexExpr)
		if !ok || core.FieldOf(info, ix.X) != pos {
			return true
		}
		if v, ok := core.ConstInt(info, be.Y); !ok || v != 0 {
			return true
		}
		// cursors that an enclosing condition compares pattern characters at: pattern[a] != pattern[b]
		cursors := map[types.Object]bool{}
		for i := len(stack) - 2; i >= 0; i-- {
			if outer, ok := stack[i].(*ast.IfStmt); ok {
				ast.Inspect(outer.Cond, func(y ast.Node) bool {
					if ie, ok := y.(*ast.IndexExpr); ok && patF != nil && core.FieldOf(info, ie.X) == patF {
						if id, ok := ast.Unparen(ie.Index).(*ast.Ident); ok {
							cursors[info.ObjectOf(id)] = true
						}
					}
					return true
				})
			}
		}
		for _, st := range ifs.Body.List {
			as, ok := st.(*ast.AssignStmt)
			if !ok || len(as.Lhs) != 1 || len(as.Rhs) != 1 {
				continue
			}
			lx, ok := ast.Unparen(as.Lhs[0]).(*ast.IndexExpr)
			if !ok || core.FieldOf(info, lx.X) != pos {
				continue
			}
			n++
			okUnit := false
			if id, ok := ast.Unparen(as.Rhs[0]).(*ast.Ident); ok {
				o := info.ObjectOf(id)
				okUnit = unit[o] && !notUnit[o]
			}
			if v, ok := core.ConstInt(info, as.Rhs[0]); ok && (v == 1 || v == -1) {
				okUnit = true
			}
			// the distance between two positions whose characters the enclosing test has just compared:
			// that is the analysis itself (an occurrence of the tail was found there), not a fallback
			if d, ok := ast.Unparen(as.Rhs[0]).(*ast.BinaryExpr); ok && d.Op == token.SUB {
				l, lok := ast.Unparen(d.X).(*ast.Ident)
				r, rok := ast.Unparen(d.Y).(*ast.Ident)
				if lok && rok && cursors[info.ObjectOf(l)] && cursors[info.ObjectOf(r)] {
					okUnit = true
				}
			}
			c.Check(okUnit, fmt.Sprintf("newBmPrefix / open entry #%d of the good-suffix table gets a justified shift", n), as.Pos(), "`%s`: the shift is neither the unit step nor the distance between two pattern positions the enclosing test compared; a larger fallback is sound only if no occurrence of the matched tail (no border of the pattern) lies within it — with the shortest instead of the longest border the scanner jumps over matches of self-overlapping literals", stmtStr(as))
		}
		return true
	})
	if n == 0 {
		c.Anchor("the fallback fill of the good-suffix table in newBmPrefix")
	}
}

// R-STRRUNES: String() is the text of Runes().
// The engine works on runes: for string input every invalid byte IS the rune
// U+FFFD (that is what RuneIndex / RuneLength count, what Runes() returns, what
// a backreference compares and what Replace emits).  Capture.String() is the
// encoding of exactly that rune slice — not a cut of the original bytes, which
// differs as soon as the capture covers an invalid byte.
func RStrRunes(c *core.Ctx) {
	c.Rule("R-STRRUNES", "every value returned by Capture.String is string(E) where E is the expression Capture.Runes returns (or a call of Runes): the two accessors read the same rune slice, so String() == string(Runes()) for every input", 1)
	p := c.P
	pk := p.Pkg("")
	info := pk.TypesInfo
	sfn := p.LookupFunc("", "Capture.String")
	rfn := p.LookupFunc("", "Capture.Runes")
	sd, _ := p.DeclOf(sfn)
	rd, _ := p.DeclOf(rfn)
	if sd == nil || rd == nil {
		c.Anchor("regexp2.Capture.String / Capture.Runes")
		return
	}
	c.Visit("regexp2.(*Capture).String")
	// what Runes returns (receiver names normalised)
	norm := func(fd *ast.FuncDecl, e ast.Expr) string {
		s := types.ExprString(e)
		if fd.Recv != nil && len(fd.Recv.List) == 1 && len(fd.Recv.List[0].Names) == 1 {
			s = strings.ReplaceAll(" "+s, " "+fd.Recv.List[0].Names[0].Name+".", " RECV.")
			s = strings.ReplaceAll(s, "["+fd.Recv.List[0].Names[0].Name+".", "[RECV.")
			s = strings.ReplaceAll(s, ":"+fd.Recv.List[0].Names[0].Name+".", ":RECV.")
			s = strings.ReplaceAll(s, "+"+fd.Recv.List[0].Names[0].Name+".", "+RECV.")
			s = strings.ReplaceAll(s, "("+fd.Recv.List[0].Names[0].Name+".", "(RECV.")
		}
		return strings.ReplaceAll(strings.TrimSpace(s), " ", "")
	}
	runesExprs := map[string]bool{}
	ast.Inspect(rd.Body, func(x ast.Node) bool {
		if rs, ok := x.(*ast.ReturnStmt); ok && len(rs.Results) == 1 {
			runesExprs[norm(rd, rs.Results[0])] = true
		}
		return true
	})
	n := 0
	ast.Inspect(sd.Body, func(x ast.Node) bool {
		rs, ok := x.(*ast.ReturnStmt)
		if !ok || len(rs.Results) != 1 {
			return true
		}
		n++
		okSame := false
		if call, ok := ast.Unparen(rs.Results[0]).(*ast.CallExpr); ok && len(call.Args) == 1 {
			if tv, ok := info.Types[call.Fun]; ok && tv.IsType() {
				arg := call.Args[0]
				if runesExprs[norm(sd, arg)] {
					okSame = true
				}
				if c2, ok := ast.Unparen(arg).(*ast.CallExpr); ok && core.Callee(info, c2) == rfn {
					okSame = true
				}
			}
		}
		c.Check(okSame, fmt.Sprintf("Capture.String / return #%d is the encoding of the rune slice Runes() returns", n), rs.Pos(), "`%s` is not string(<what Runes returns>): for string input with an invalid byte inside the capture the raw byte comes back instead of U+FFFD, so String() differs from string(Runes()), from what Replace substitutes for the group and from what a backreference compared", types.ExprString(rs.Results[0]))
		return true
	})
	if n == 0 {
		c.Anchor("return statements of Capture.String")
	}
}
