package rules

import (
	"fmt"
	"go/ast"
	"go/constant"
	"go/token"
	"go/types"
	"sort"
	"strings"

	"golang.org/x/tools/go/ssa"

	"regexlint/internal/core"
)

// Rules added for the eighth wave of seeded changes.

// ---------------------------------------------------------------------------
// R-RELEASEOWN: a pooled runner is released by the function that took it.
// getRunner / putRunner bracket one call.  A helper that is handed a runner
// and puts it back "early" on an error path releases it a second time when the
// caller's deferred putRunner runs: the pool then hands the same runner to two
// goroutines.
// ---------------------------------------------------------------------------

func RReleaseOwn(c *core.Ctx) {
	c.Rule("R-RELEASEOWN", "every pooled runner is released exactly once, by the function that took it: each call of Regexp.putRunner (deferred or not) is applied to a value obtained from getRunner in the same function; a helper that releases a runner it was handed is allowed only if every caller passes it a runner it took itself and has no other release of its own", 3)
	p := c.P
	put := p.SSAFunc(p.LookupFunc("", "Regexp.putRunner"))
	get := p.SSAFunc(p.LookupFunc("", "Regexp.getRunner"))
	if put == nil || get == nil {
		c.Anchor("Regexp.putRunner / Regexp.getRunner")
		return
	}
	var origin func(v ssa.Value, d int) bool
	origin = func(v ssa.Value, d int) bool {
		if d > 4 {
			return false
		}
		switch x := v.(type) {
		case *ssa.Call:
			return x.Call.StaticCallee() == get
		case *ssa.Phi:
			for _, e := range x.Edges {
				if !origin(e, d+1) {
					return false
				}
			}
			return len(x.Edges) > 0
		case *ssa.UnOp:
			// a local spilled because a closure / defer captures it
			if al, ok := x.X.(*ssa.Alloc); ok {
				okAll, any := true, false
				for _, r := range core.Referrers(al) {
					if st, ok := r.(*ssa.Store); ok && st.Addr == ssa.Value(al) {
						any = true
						if !origin(st.Val, d+1) {
							okAll = false
						}
					}
				}
				return any && okAll
			}
			if _, ok := x.X.(*ssa.FreeVar); ok {
				return true // a deferred closure of the acquiring function
			}
		}
		return false
	}
	commons := func(fn *ssa.Function) []*ssa.CallCommon {
		var out []*ssa.CallCommon
		for _, b := range fn.Blocks {
			for _, ins := range b.Instrs {
				switch x := ins.(type) {
				case *ssa.Call:
					out = append(out, &x.Call)
				case *ssa.Defer:
					out = append(out, &x.Call)
				case *ssa.Go:
					out = append(out, &x.Call)
				}
			}
		}
		return out
	}
	// release helpers: functions that put back one of their own parameters -> index of it
	helpers := map[*ssa.Function]int{}
	for _, fn := range p.ModuleFuncs() {
		for _, cm := range commons(fn) {
			if cm.StaticCallee() != put || len(cm.Args) < 2 {
				continue
			}
			if prm, ok := cm.Args[1].(*ssa.Parameter); ok {
				for i, q := range fn.Params {
					if q == prm {
						helpers[fn] = i
					}
				}
			}
		}
	}
	// the release sites of a function: putRunner / helper calls on a runner it took
	releases := func(fn *ssa.Function) int {
		k := 0
		for _, cm := range commons(fn) {
			cal := cm.StaticCallee()
			if cal == put && len(cm.Args) >= 2 && origin(cm.Args[1], 0) {
				k++
			}
			if idx, ok := helpers[cal]; ok && idx < len(cm.Args) && origin(cm.Args[idx], 0) {
				k++
			}
		}
		return k
	}
	n := 0
	for _, fn := range p.ModuleFuncs() {
		name := core.SSAName(fn)
		ord := 0
		for _, cm := range commons(fn) {
			if cm.StaticCallee() != put || len(cm.Args) < 2 {
				continue
			}
			n++
			ord++
			c.Visit(name)
			key := fmt.Sprintf("%s / release #%d is of a runner taken here", name, ord)
			pos := cm.Pos()
			if origin(cm.Args[1], 0) {
				c.Check(releases(fn) == 1, key, pos, "the runner comes from getRunner in this function, which releases it %d times (putRunner and release helpers together): after the second release the pool holds the same runner twice and two overlapping calls share one interpreter state", releases(fn))
				continue
			}
			if idx, isHelper := helpers[fn]; isHelper {
				// every caller hands over a runner it took and releases nothing else
				bad := ""
				callers := 0
				if node := p.CallGraph().Nodes[fn]; node != nil {
					for _, e := range node.In {
						if e.Caller == nil || e.Caller.Func == nil || e.Site == nil {
							continue
						}
						callers++
						args := e.Site.Common().Args
						if idx >= len(args) || !origin(args[idx], 0) {
							bad = core.SSAName(e.Caller.Func) + " passes a runner it did not take"
						} else if k := releases(e.Caller.Func); k != 1 {
							bad = fmt.Sprintf("%s releases the runner %d times (its own putRunner and this helper)", core.SSAName(e.Caller.Func), k)
						}
					}
				}
				if callers == 0 {
					bad = "no caller found"
				}
				c.Check(bad == "", key, pos, "a runner received as a parameter is put back here, and %s: after an aborted scan the pool holds the same runner twice and two overlapping calls share one interpreter state", bad)
				continue
			}
			c.Bad(key, pos, "the runner released here was neither taken by this function nor handed to it as a parameter (a field / a result of something else)")
		}
	}
	if n == 0 {
		c.Anchor("calls of Regexp.putRunner")
	}
}

// ---------------------------------------------------------------------------
// R-RUNMATCHOWN: the runner's working Match is its own.
// Runner.runmatch is scratch state that goes back into the pool with the
// runner; results are handed out as copies (R-DETACH).  Installing a Match the
// caller holds as the working Match makes later scans — of any goroutine that
// gets that runner — write into an object the caller still reads.
// ---------------------------------------------------------------------------

func RRunmatchOwn(c *core.Ctx) {
	c.Rule("R-RUNMATCHOWN", "Runner.runmatch is stored only by methods of Runner, and never with a Match that reached the method as a parameter: the working Match is created (or reset) by the runner itself", 1)
	p := c.P
	rm := p.LookupField("", "Runner", "runmatch")
	if rm == nil {
		c.Anchor("Runner.runmatch")
		return
	}
	n := 0
	for _, fn := range p.ModuleFuncs() {
		name := core.SSAName(fn)
		ord := 0
		for _, b := range fn.Blocks {
			for _, ins := range b.Instrs {
				st, ok := ins.(*ssa.Store)
				if !ok || core.FieldVarOfAddr(st.Addr) != rm {
					continue
				}
				n++
				ord++
				c.Visit(name)
				key := fmt.Sprintf("%s / store #%d to Runner.runmatch", name, ord)
				isMethod := false
				if recv := fn.Signature.Recv(); recv != nil {
					if _, nm := core.NamedOf(recv.Type()); nm == "Runner" {
						isMethod = true
					}
				}
				_, fromParam := st.Val.(*ssa.Parameter)
				switch {
				case !isMethod:
					c.Bad(key, st.Pos(), "the working Match of a pooled runner is replaced from outside the runner: the object installed stays reachable by whoever supplied it while later scans (of any caller that gets this runner) write into it")
				case fromParam:
					c.Bad(key, st.Pos(), "a Match handed in by the caller becomes the runner's working Match")
				default:
					c.OK(key, st.Pos(), "set by the runner itself")
				}
			}
		}
	}
	if n == 0 {
		c.Anchor("stores to Runner.runmatch")
	}
}

// ---------------------------------------------------------------------------
// R-IGNORETO: "no timeout" is decided where the deadline is read.
// CheckTimeout is exported for pre-built engines (RegisterEngine).  A runner
// without a timeout has no deadline armed — the field holds zero or whatever an
// earlier call left — so reading it is meaningful only behind ignoreTimeout.
// ---------------------------------------------------------------------------

func RIgnoreTO(c *core.Ctx) {
	c.Rule("R-IGNORETO", "every evaluation of Runner.deadline's reached() is dominated, in the same function, by the not-taken edge of a test of Runner.ignoreTimeout: the flag is tested where the deadline is read, not left to the callers (CheckTimeout is exported and called by external engines)", 1)
	p := c.P
	dl := p.LookupField("", "Runner", "deadline")
	ig := p.LookupField("", "Runner", "ignoreTimeout")
	reached := p.SSAFunc(p.LookupFunc("", "fasttime.reached"))
	if dl == nil || ig == nil || reached == nil {
		c.Anchor("Runner.deadline / Runner.ignoreTimeout / fasttime.reached")
		return
	}
	n := 0
	for _, fn := range p.ModuleFuncs() {
		if core.FnPkgPath(fn) != core.PkgRoot {
			continue
		}
		name := core.SSAName(fn)
		for _, b := range fn.Blocks {
			for _, ins := range b.Instrs {
				call, ok := ins.(*ssa.Call)
				if !ok || call.Call.StaticCallee() != reached || len(call.Call.Args) != 1 {
					continue
				}
				if _, ok := core.LoadOfField(call.Call.Args[0], dl); !ok {
					continue
				}
				n++
				c.Visit(name)
				guarded := false
				for d := b; d != nil && !guarded; d = d.Idom() {
					idom := d.Idom()
					if idom == nil || len(idom.Instrs) == 0 || len(idom.Succs) != 2 {
						continue
					}
					if ifi, ok := idom.Instrs[len(idom.Instrs)-1].(*ssa.If); ok {
						if _, ok := core.LoadOfField(ifi.Cond, ig); ok && (idom.Succs[1] == d || idom.Succs[1].Dominates(d)) {
							guarded = true
						}
					}
				}
				c.Check(guarded, name+" / the deadline is read only when a timeout is set", call.Pos(), "deadline.reached() is evaluated without testing ignoreTimeout in this function: for a Regexp without MatchTimeout the deadline is zero or stale, so an engine that calls the exported CheckTimeout unguarded gets an immediate \"match timeout\"")
			}
		}
	}
	if n == 0 {
		c.Anchor("reads of Runner.deadline through reached()")
	}
}

// ---------------------------------------------------------------------------
// R-PADPERIOD: the deadline is padded by the clock's period.
// The coarse clock is refreshed once per clockPeriod; the value read may be a
// whole period old.  A deadline of current + d can therefore fire up to one
// period early unless the period is added.
// ---------------------------------------------------------------------------

func RPadPeriod(c *core.Ctx) {
	c.Rule("R-PADPERIOD", "in makeDeadline every tick count that is added to a reading of fast.current to form the deadline is computed from the caller's duration AND from clockPeriod: the reading may be one period old, so a deadline without that pad fires up to a period early", 1)
	p := c.P
	md := p.SSAFunc(p.LookupFunc("", "makeDeadline"))
	period := p.LookupObj("", "clockPeriod")
	cur := p.LookupField("", "fastclock", "current")
	if md == nil || period == nil || cur == nil || len(md.Params) == 0 {
		c.Anchor("makeDeadline / clockPeriod / fastclock.current")
		return
	}
	c.Visit(core.SSAName(md))
	var derives func(v ssa.Value, seen map[ssa.Value]bool) (fromD, fromPeriod bool)
	derives = func(v ssa.Value, seen map[ssa.Value]bool) (bool, bool) {
		if v == nil || seen[v] {
			return false, false
		}
		seen[v] = true
		if v == ssa.Value(md.Params[0]) {
			return true, false
		}
		if ld, ok := v.(*ssa.UnOp); ok && ld.Op == token.MUL {
			if g, ok := ld.X.(*ssa.Global); ok && g.Object() == period {
				return false, true
			}
		}
		ins, ok := v.(ssa.Instruction)
		if !ok {
			return false, false
		}
		a, b := false, false
		for _, op := range ins.Operands(nil) {
			if *op != nil {
				x, y := derives(*op, seen)
				a, b = a || x, b || y
			}
		}
		return a, b
	}
	isCurRead := func(v ssa.Value) bool {
		call, ok := v.(*ssa.Call)
		if !ok || len(call.Call.Args) != 1 {
			return false
		}
		fa, ok := call.Call.Args[0].(*ssa.FieldAddr)
		return ok && core.FieldVarOfAddr(fa) == cur
	}
	n := 0
	for _, b := range md.Blocks {
		for _, ins := range b.Instrs {
			bin, ok := ins.(*ssa.BinOp)
			if !ok || bin.Op != token.ADD {
				continue
			}
			var ticks ssa.Value
			switch {
			case isCurRead(bin.X):
				ticks = bin.Y
			case isCurRead(bin.Y):
				ticks = bin.X
			default:
				continue
			}
			n++
			d, per := derives(ticks, map[ssa.Value]bool{})
			c.Check(d && per, fmt.Sprintf("makeDeadline / deadline sum #%d is padded by the clock period", n), bin.Pos(), "`%s`: derived from the caller's duration: %v, from clockPeriod: %v — without the period the deadline can lie up to one refresh interval before now + d (a 200ms timeout firing after 90ms at the default 100ms period)", bin.String(), d, per)
		}
	}
	if n == 0 {
		c.Anchor("current.read() + ticks in makeDeadline")
	}
}

// ---------------------------------------------------------------------------
// R-NOUNSAFE: no memory is shared behind Go's back.
// Buffers are pooled across calls and goroutines.  unsafe.String / unsafe.Slice
// over such memory hands the caller a "string" that a later call overwrites.
// ---------------------------------------------------------------------------

func RNoUnsafe(c *core.Ctx) {
	c.Rule("R-NOUNSAFE", "no non-test file of packages regexp2 and compat (where the pooled buffers live) imports package unsafe: every string and slice handed to a caller is an ordinary Go value that owns (or immutably shares) its memory, never a view of a pooled buffer", 1)
	p := c.P
	n, files := 0, 0
	for _, pk := range p.ModulePkgs() {
		if pp := pk.Types.Path(); pp != core.PkgRoot && pp != core.PkgCompat {
			continue // helpers / syntax use unsafe.Sizeof and a read-only byte view for comparisons
		}
		for _, f := range pk.Syntax {
			if p.IsTestFile(f.Pos()) {
				continue
			}
			files++
			for _, im := range f.Imports {
				if im.Path != nil && im.Path.Value == `"unsafe"` {
					n++
					c.Bad(fmt.Sprintf("%s imports unsafe #%d", p.Pos(f.Pos()), n), im.Pos(), "package unsafe is imported: a string or slice built with it over a bytes.Buffer or a pooled array changes under its holder when the buffer is reused")
				}
			}
		}
	}
	if n == 0 {
		c.OK("module / no file imports unsafe", token.NoPos, "%d non-test files examined", files)
	}
}

// ---------------------------------------------------------------------------
// R-BUFESCAPE: the runner's text buffer does not outlive the call in a new
// object.  For string input Runner.Runtext is a pooled decode buffer; a value
// built during the call (an error, a result struct) that keeps the slice shows
// another call's text later and races with it.
// ---------------------------------------------------------------------------

func RBufEscape(c *core.Ctx) {
	c.Rule("R-BUFESCAPE", "in package regexp2 no load of Runner.Runtext (or a slice of it) is stored into a field of an object allocated in the same function: anything that has to outlive the call copies the text (string(...)) instead of keeping the pooled buffer", 1)
	p := c.P
	rt := p.LookupField("", "Runner", "Runtext")
	if rt == nil {
		c.Anchor("Runner.Runtext")
		return
	}
	isText := func(v ssa.Value) bool {
		for d := 0; d < 3; d++ {
			if sl, ok := v.(*ssa.Slice); ok {
				v = sl.X
				continue
			}
			break
		}
		_, ok := core.LoadOfField(v, rt)
		return ok
	}
	n, examined := 0, 0
	for _, fn := range p.ModuleFuncs() {
		if core.FnPkgPath(fn) != core.PkgRoot {
			continue
		}
		name := core.SSAName(fn)
		for _, b := range fn.Blocks {
			for _, ins := range b.Instrs {
				st, ok := ins.(*ssa.Store)
				if !ok || !isText(st.Val) {
					continue
				}
				examined++
				fa, ok := st.Addr.(*ssa.FieldAddr)
				if !ok {
					continue
				}
				if al, ok := fa.X.(*ssa.Alloc); ok && al.Heap {
					n++
					c.Visit(name)
					c.Bad(fmt.Sprintf("%s / the runner's text buffer is kept in a new object #%d", name, n), st.Pos(), "Runner.Runtext is stored into a freshly allocated %s: for string input it is a pooled decode buffer, so the object later shows (and races with) the input of whichever call reuses the buffer", al.Type().String())
				}
			}
		}
	}
	if n == 0 {
		c.OK("package regexp2 / Runner.Runtext is not kept in objects built during a call", token.NoPos, "%d stores of the buffer examined", examined)
	}
}

var _ = ast.Inspect
var _ = types.Typ
var _ = strings.Contains
var _ = constant.MakeBool

// ---------------------------------------------------------------------------
// R-REFZERO: a backreference contributes nothing to the minimum length.
// What \1 has to repeat depends on which capture of the group is current at
// run time (a group captured twice, a balancing group, an unset group under
// ECMAScript): ComputeMinLength knows NtRef only in the arm that answers 0.
// ---------------------------------------------------------------------------

func RRefZero(c *core.Ctx) {
	c.Rule("R-REFZERO", "in ComputeMinLength the node kind NtRef is mentioned only in the case list of an arm that returns the constant 0: no branch credits a backreference with the length of the group it names", 1)
	p := c.P
	syn := p.Pkg("syntax")
	info := syn.TypesInfo
	fd, _ := p.DeclOf(p.LookupFunc("syntax", "RegexNode.ComputeMinLength"))
	ref := p.LookupObj("syntax", "NtRef")
	if fd == nil || ref == nil {
		c.Anchor("syntax.RegexNode.ComputeMinLength / NtRef")
		return
	}
	c.Visit("syntax.(*RegexNode).ComputeMinLength")
	// identifiers of NtRef that stand in a case list whose arm returns 0
	okIdent := map[*ast.Ident]bool{}
	ast.Inspect(fd.Body, func(x ast.Node) bool {
		cc, ok := x.(*ast.CaseClause)
		if !ok {
			return true
		}
		zero := false
		for _, st := range cc.Body {
			if rs, ok := st.(*ast.ReturnStmt); ok && len(rs.Results) == 1 {
				if v, ok := core.ConstInt(info, rs.Results[0]); ok && v == 0 {
					zero = true
				}
			}
		}
		// an empty arm that falls out of the switch to a final `return 0`
		if len(cc.Body) == 0 {
			zero = true
		}
		if zero {
			for _, e := range cc.List {
				if id, ok := ast.Unparen(e).(*ast.Ident); ok && info.ObjectOf(id) == ref {
					okIdent[id] = true
				}
			}
		}
		return true
	})
	n := 0
	ast.Inspect(fd.Body, func(x ast.Node) bool {
		id, ok := x.(*ast.Ident)
		if !ok || info.ObjectOf(id) != ref {
			return true
		}
		n++
		c.Check(okIdent[id], fmt.Sprintf("ComputeMinLength / mention #%d of NtRef is in the arm that answers 0", n), id.Pos(), "NtRef is tested outside the zero arm: a backreference is given a minimum length, but `(?<n>abc)(?<n>d)\\k<n>` repeats only \"d\" and a balancing group's reference repeats the enclosed span — the inflated minimum makes the scan give up on real matches near the end of the input")
		return true
	})
	if n == 0 {
		c.Anchor("mentions of NtRef in ComputeMinLength")
	}
}

// ---------------------------------------------------------------------------
// R-SAMEHAY: every needle is searched in the same haystack.
// A multi-prefix filter answers with the LEFTMOST occurrence of any prefix.
// An occurrence of a longer prefix can start left of the best hit so far and
// end right of it; narrowing the haystack to the end of the best hit hides it.
// ---------------------------------------------------------------------------

func RSameHay(c *core.Ctx) {
	c.Rule("R-SAMEHAY", "in indexAnyPrefixFallback the string that the prefixes are searched in is not reassigned inside the loop over the prefixes: each prefix is looked for in the whole remaining input, and only the offsets are compared", 1)
	p := c.P
	pk := p.Pkg("")
	info := pk.TypesInfo
	fd, _ := p.DeclOf(p.LookupFunc("", "indexAnyPrefixFallback"))
	if fd == nil {
		c.Anchor("regexp2.indexAnyPrefixFallback")
		return
	}
	c.Visit("regexp2.indexAnyPrefixFallback")
	n := 0
	ast.Inspect(fd.Body, func(x ast.Node) bool {
		rg, ok := x.(*ast.RangeStmt)
		if !ok {
			return true
		}
		// haystacks: first arguments of calls in the loop that take (string, string)
		hay := map[types.Object]bool{}
		var needle types.Object
		if id, ok := rg.Value.(*ast.Ident); ok {
			needle = info.ObjectOf(id)
		}
		ast.Inspect(rg.Body, func(y ast.Node) bool {
			call, ok := y.(*ast.CallExpr)
			if !ok || len(call.Args) < 2 || needle == nil {
				return true
			}
			// a search call: it is given the loop's element (the needle) and a string declared outside the loop
			takesNeedle := false
			for _, a := range call.Args {
				if id, ok := ast.Unparen(a).(*ast.Ident); ok && info.ObjectOf(id) == needle {
					takesNeedle = true
				}
			}
			if !takesNeedle {
				return true
			}
			for _, a := range call.Args {
				id, ok := ast.Unparen(a).(*ast.Ident)
				if !ok || info.ObjectOf(id) == needle {
					continue
				}
				if b, ok := info.TypeOf(id).Underlying().(*types.Basic); ok && b.Info()&types.IsString != 0 {
					if o := info.ObjectOf(id); o != nil && !(rg.Pos() <= o.Pos() && o.Pos() < rg.End()) {
						hay[o] = true
					}
				}
			}
			return true
		})
		if len(hay) == 0 {
			return true
		}
		n++
		var bad token.Pos
		ast.Inspect(rg.Body, func(y ast.Node) bool {
			if as, ok := y.(*ast.AssignStmt); ok {
				for _, l := range as.Lhs {
					if id, ok := ast.Unparen(l).(*ast.Ident); ok && hay[info.ObjectOf(id)] && !bad.IsValid() {
						bad = as.Pos()
					}
				}
			}
			return true
		})
		c.Check(!bad.IsValid(), fmt.Sprintf("indexAnyPrefixFallback / loop #%d searches every prefix in the same text", n), rg.Pos(), "the haystack is reassigned at %s inside the loop: a prefix that begins left of the best hit so far but ends right of where the haystack was cut is no longer found, and the filter hands the matcher a candidate to the right of a real match start", p.Pos(bad))
		return true
	})
	if n == 0 {
		c.Anchor("the loop over the prefixes in indexAnyPrefixFallback")
	}
}

// ---------------------------------------------------------------------------
// R-CONDUNWRAP: only a positive lookahead is the same thing as its body when
// it stands as the condition of (?(cond)yes|no).  A negative lookahead throws
// its captures away whatever happens; replacing it by its body (and swapping
// the branches) keeps them.
// ---------------------------------------------------------------------------

func RCondUnwrap(c *core.Ctx) {
	c.Rule("R-CONDUNWRAP", "in reduceExpressionConditional the condition is replaced by its own child only under a test that names NtPosLook and no other node kind: a negative lookahead is not unwrapped", 1)
	p := c.P
	syn := p.Pkg("syntax")
	info := syn.TypesInfo
	fd, _ := p.DeclOf(p.LookupFunc("syntax", "RegexNode.reduceExpressionConditional"))
	repl := p.LookupFunc("syntax", "RegexNode.ReplaceChild")
	if fd == nil || repl == nil {
		c.Anchor("syntax.RegexNode.reduceExpressionConditional / ReplaceChild")
		return
	}
	c.Visit("syntax.(*RegexNode).reduceExpressionConditional")
	n := 0
	var stack []ast.Node
	ast.Inspect(fd.Body, func(x ast.Node) bool {
		if x == nil {
			stack = stack[:len(stack)-1]
			return true
		}
		stack = append(stack, x)
		call, ok := x.(*ast.CallExpr)
		if !ok || core.Callee(info, call) != repl {
			return true
		}
		n++
		kinds := map[string]bool{}
		for i := len(stack) - 2; i >= 0; i-- {
			if ifs, ok := stack[i].(*ast.IfStmt); ok {
				ast.Inspect(ifs.Cond, func(y ast.Node) bool {
					if id, ok := y.(*ast.Ident); ok {
						if k, ok := info.ObjectOf(id).(*types.Const); ok && strings.HasPrefix(core.BaseName(k), "Nt") {
							kinds[core.BaseName(k)] = true
						}
					}
					return true
				})
			}
		}
		okOnly := len(kinds) == 1 && kinds["NtPosLook"]
		c.Check(okOnly, fmt.Sprintf("reduceExpressionConditional / unwrapping #%d is for a positive lookahead only", n), call.Pos(), "the condition is replaced by its child under a test naming %v: for a negative lookahead the captures made inside it must be discarded, unwrapped they survive into the match and into later \\1 / (?(1)…) tests", keysOfBoolMap(kinds))
		return true
	})
	if n == 0 {
		c.Anchor("ReplaceChild in reduceExpressionConditional")
	}
}

func keysOfBoolMap(m map[string]bool) []string {
	var out []string
	for k := range m {
		out = append(out, k)
	}
	sort.Strings(out)
	return out
}

// ---------------------------------------------------------------------------
// R-NOSHORTCUT: whether there is a match is decided by the matcher.
// An entry point may answer "no match" without running the program only when
// the prefix filter said so.  "Nothing left to scan" is not such a reason: at
// the very end of the input $, \b, x* and lookbehinds still match.
// ---------------------------------------------------------------------------

func RNoShortcut(c *core.Ctx) {
	c.Rule("R-NOSHORTCUT", "no exported method of Regexp returns its \"no match\" answer (nil match / false with a nil error) on the strength of a comparison between the start offset and the length of the input: the empty string at the end of the text is still searched", 1)
	p := c.P
	n, examined := 0, 0
	for _, fn := range p.ModuleFuncs() {
		if core.FnPkgPath(fn) != core.PkgRoot || fn.Signature.Recv() == nil || !ast.IsExported(fn.Name()) {
			continue
		}
		if _, nm := core.NamedOf(fn.Signature.Recv().Type()); nm != "Regexp" {
			continue
		}
		res := fn.Signature.Results()
		if res.Len() != 2 || !types.Identical(res.At(1).Type(), types.Universe.Lookup("error").Type()) {
			continue
		}
		examined++
		name := core.SSAName(fn)
		isLenOfParam := func(v ssa.Value) bool {
			call, ok := v.(*ssa.Call)
			if !ok {
				return false
			}
			bi, ok := call.Call.Value.(*ssa.Builtin)
			if !ok || bi.Name() != "len" || len(call.Call.Args) != 1 {
				return false
			}
			_, isP := call.Call.Args[0].(*ssa.Parameter)
			return isP
		}
		isParam := func(v ssa.Value) bool { _, ok := v.(*ssa.Parameter); return ok }
		isZero := func(v ssa.Value) bool {
			k, ok := v.(*ssa.Const)
			if !ok || k.Value == nil || k.Value.Kind() != constant.Int {
				return false
			}
			i, _ := constant.Int64Val(k.Value)
			return i == 0
		}
		nilAnswer := func(b *ssa.BasicBlock) bool {
			if len(b.Instrs) == 0 {
				return false
			}
			ret, ok := b.Instrs[len(b.Instrs)-1].(*ssa.Return)
			if !ok || len(ret.Results) != 2 {
				return false
			}
			k0, ok0 := ret.Results[0].(*ssa.Const)
			k1, ok1 := ret.Results[1].(*ssa.Const)
			if !ok0 || !ok1 || !k1.IsNil() {
				return false
			}
			return k0.IsNil() || (k0.Value != nil && k0.Value.Kind() == constant.Bool && !constant.BoolVal(k0.Value))
		}
		for _, b := range fn.Blocks {
			if len(b.Instrs) == 0 || len(b.Succs) != 2 {
				continue
			}
			ifi, ok := b.Instrs[len(b.Instrs)-1].(*ssa.If)
			if !ok {
				continue
			}
			cmp, ok := ifi.Cond.(*ssa.BinOp)
			if !ok || (cmp.Op != token.EQL && cmp.Op != token.GEQ && cmp.Op != token.LEQ) {
				continue
			}
			offsetVsLen := (isParam(cmp.X) && isLenOfParam(cmp.Y)) || (isParam(cmp.Y) && isLenOfParam(cmp.X))
			_ = isZero
			if !offsetVsLen {
				continue
			}
			// the true edge (or a short chain from it) returns the no-match answer
			t := b.Succs[0]
			for d := 0; d < 2 && t != nil && !nilAnswer(t) && len(t.Succs) == 1 && len(t.Instrs) == 1; d++ {
				t = t.Succs[0]
			}
			if t != nil && nilAnswer(t) {
				n++
				c.Visit(name)
				c.Bad(fmt.Sprintf("%s / no-match answer without a scan #%d", name, n), cmp.Pos(), "`%s` leads straight to the \"no match\" answer: with the start offset at the end of the input (or at 0 for a right-to-left pattern) `$`, `\\b`, `x*`, `(?<=…)` still match there, and the string entry point, which does scan, disagrees", cmp.String())
			}
		}
	}
	if n == 0 {
		c.OK("package regexp2 / entry points leave \"no match\" to the matcher", token.NoPos, "%d exported Regexp methods returning (…, error) examined", examined)
	}
}

// ---------------------------------------------------------------------------
// R-RUNEERR: U+FFFD is a character; "invalid UTF-8" is U+FFFD of width 1.
// `range` over a string yields utf8.RuneError both for the valid three-byte
// encoding of U+FFFD and for an invalid byte.  A comparison with RuneError
// therefore says nothing until the width is looked at.
// ---------------------------------------------------------------------------

func RRuneErr(c *core.Ctx) {
	c.Rule("R-RUNEERR", "in packages regexp2 and compat every branch taken on `r == utf8.RuneError` goes on to decode the rune again for its width (utf8.DecodeRune*): the comparison alone never decides that text is invalid — U+FFFD is a valid character that patterns and inputs may contain", 2)
	p := c.P
	n := 0
	for _, pkn := range []string{"", "compat"} {
		pk := p.Pkg(pkn)
		if pk == nil {
			continue
		}
		info := pk.TypesInfo
		isRuneError := func(e ast.Expr) bool {
			sel, ok := ast.Unparen(e).(*ast.SelectorExpr)
			if !ok {
				return false
			}
			k, ok := info.ObjectOf(sel.Sel).(*types.Const)
			return ok && k.Pkg() != nil && k.Pkg().Path() == "unicode/utf8" && k.Name() == "RuneError"
		}
		for _, fd := range p.FuncDecls(pk) {
			if fd.Body == nil || p.IsTestFile(fd.Pos()) {
				continue
			}
			name := core.DeclName(pk, fd)
			ord := 0
			ast.Inspect(fd.Body, func(x ast.Node) bool {
				ifs, ok := x.(*ast.IfStmt)
				if !ok {
					return true
				}
				hit := false
				ast.Inspect(ifs.Cond, func(y ast.Node) bool {
					if be, ok := y.(*ast.BinaryExpr); ok && (be.Op == token.EQL || be.Op == token.NEQ) && (isRuneError(be.X) || isRuneError(be.Y)) {
						hit = true
					}
					return true
				})
				if !hit {
					return true
				}
				n++
				ord++
				c.Visit(name)
				decodes := false
				ast.Inspect(ifs, func(y ast.Node) bool {
					if call, ok := y.(*ast.CallExpr); ok {
						if cal := core.Callee(info, call); cal != nil && cal.Pkg() != nil && cal.Pkg().Path() == "unicode/utf8" && strings.HasPrefix(cal.Name(), "Decode") {
							decodes = true
						}
					}
					return true
				})
				c.Check(decodes, fmt.Sprintf("%s / RuneError test #%d looks at the width", name, ord), ifs.Pos(), "`%s` is acted on without decoding for the width: a pattern or input that contains the valid character U+FFFD is treated as invalid UTF-8", types.ExprString(ifs.Cond))
				return true
			})
		}
	}
	if n == 0 {
		c.Anchor("comparisons with utf8.RuneError in packages regexp2 / compat")
	}
}

// ---------------------------------------------------------------------------
// R-ESCAPEONE: Escape has one codec.
// What Escape writes for a rune is decided by the helper escape(), whose
// output the parser's scanners are checked against (R-CODEC).  Escape itself
// writes no escape sequence of its own: `\0` for NUL, say, is an OCTAL escape
// that swallows the digits that follow.
// ---------------------------------------------------------------------------

func REscapeOne(c *core.Ctx) {
	c.Rule("R-ESCAPEONE", "syntax.Escape writes to its output only through the helper escape(): it contains no Write* of its own (no string or rune literal with a backslash)", 1)
	p := c.P
	syn := p.Pkg("syntax")
	info := syn.TypesInfo
	fd, _ := p.DeclOf(p.LookupFunc("syntax", "Escape"))
	helper := p.LookupFunc("syntax", "escape")
	if fd == nil || helper == nil {
		c.Anchor("syntax.Escape / syntax.escape")
		return
	}
	c.Visit("syntax.Escape")
	var bad token.Pos
	what := ""
	calls := 0
	ast.Inspect(fd.Body, func(x ast.Node) bool {
		call, ok := x.(*ast.CallExpr)
		if !ok {
			return true
		}
		if core.Callee(info, call) == helper {
			calls++
			return true
		}
		if sel, ok := ast.Unparen(call.Fun).(*ast.SelectorExpr); ok && strings.HasPrefix(sel.Sel.Name, "Write") && !bad.IsValid() {
			bad, what = call.Pos(), types.ExprString(call)
		}
		return true
	})
	switch {
	case bad.IsValid():
		c.Bad("Escape / every rune goes through escape()", bad, "`%s` writes to the output directly: the text it writes is not covered by the agreement between escape() and the parser's scanners (a `\\0` for NUL is an octal escape and absorbs following digits: Unescape(Escape(\"\\x007\")) is \"\\a\")", what)
	case calls == 0:
		c.Unknown("Escape / every rune goes through escape()", fd.Pos(), "no call of escape() found")
	default:
		c.OK("Escape / every rune goes through escape()", fd.Pos(), "%d call(s) of escape(), no direct write", calls)
	}
}

// ---------------------------------------------------------------------------
// R-NAMESTART: where a group name may start is one predicate.
// The characters that can begin a name depend on the flavour (ECMAScript: $,
// _, letters incl. Nl, and a backslash for \uXXXX).  The replacement parser
// decides "is this ${name}" with the parser's own predicate, so that every
// name the pattern can define can be referenced.
// ---------------------------------------------------------------------------

func RNameStart(c *core.Ctx) {
	c.Rule("R-NAMESTART", "in scanDollar the branch that scans a group name (calls scanCapname) is entered under the parser's flavour-aware predicate isGroupNameStartChar, not under a fixed character test", 1)
	p := c.P
	syn := p.Pkg("syntax")
	info := syn.TypesInfo
	fd, _ := p.DeclOf(p.LookupFunc("syntax", "parser.scanDollar"))
	capname := p.LookupFunc("syntax", "parser.scanCapname")
	pred := p.LookupFunc("syntax", "parser.isGroupNameStartChar")
	if fd == nil || capname == nil || pred == nil {
		c.Anchor("parser.scanDollar / scanCapname / isGroupNameStartChar")
		return
	}
	c.Visit("syntax.(*parser).scanDollar")
	n := 0
	var stack []ast.Node
	ast.Inspect(fd.Body, func(x ast.Node) bool {
		if x == nil {
			stack = stack[:len(stack)-1]
			return true
		}
		stack = append(stack, x)
		call, ok := x.(*ast.CallExpr)
		if !ok || core.Callee(info, call) != capname {
			return true
		}
		n++
		guarded := false
		for i := len(stack) - 2; i >= 0; i-- {
			if ifs, ok := stack[i].(*ast.IfStmt); ok && len(core.CallsIn(info, ifs.Cond, pred)) > 0 {
				// the call must be in the body, not in the else part
				if ifs.Body.Pos() <= call.Pos() && call.Pos() < ifs.Body.End() {
					guarded = true
				}
			}
		}
		c.Check(guarded, fmt.Sprintf("scanDollar / name scan #%d is entered under isGroupNameStartChar", n), call.Pos(), "the name scan is not guarded by the flavour-aware predicate: under ECMAScript a group called `$amount` (or one written with a \\uXXXX escape) can be defined and looked up everywhere except in `${$amount}`, which is copied through as text")
		return true
	})
	if n == 0 {
		c.Anchor("scanCapname call in scanDollar")
	}
}

// ---------------------------------------------------------------------------
// R-TAKEALL: UnmarshalText takes over the whole compiled Regexp.
// A field-by-field copy silently drops whatever field it forgets (capnames:
// names are listed but no longer resolve).
// ---------------------------------------------------------------------------

func RTakeAll(c *core.Ctx) {
	c.Rule("R-TAKEALL", "Regexp.UnmarshalText installs the freshly compiled Regexp by assigning the whole value (*re = *new); if it copies field by field instead, every field of Regexp that Compile's result carries is assigned or is re-initialised by initCaches", 1)
	p := c.P
	fn := p.SSAFunc(p.LookupFunc("", "Regexp.UnmarshalText"))
	if fn == nil || len(fn.Params) == 0 {
		c.Anchor("Regexp.UnmarshalText")
		return
	}
	c.Visit(core.SSAName(fn))
	recv := fn.Params[0]
	whole := false
	assigned := map[string]bool{}
	for _, b := range fn.Blocks {
		for _, ins := range b.Instrs {
			st, ok := ins.(*ssa.Store)
			if !ok {
				continue
			}
			if st.Addr == ssa.Value(recv) {
				whole = true
			}
			if fa, ok := st.Addr.(*ssa.FieldAddr); ok && fa.X == ssa.Value(recv) {
				if f := core.FieldVarOfAddr(fa); f != nil {
					assigned[f.Name()] = true
				}
			}
		}
	}
	if whole {
		var kept []string
		for f := range assigned {
			kept = append(kept, f)
		}
		sort.Strings(kept)
		c.Check(len(kept) == 0, "UnmarshalText / the whole Regexp value is replaced", fn.Pos(), "after *re = *new the fields %v are assigned again (kept from the old receiver): the runner pool taken over from the new Regexp still points at the new object's settings, so the receiver reports one configuration (stack limit, timeout) and runs on another", kept)
		return
	}
	// fields written by initCaches
	if ic := p.SSAFunc(p.LookupFunc("", "Regexp.initCaches")); ic != nil {
		for _, b := range ic.Blocks {
			for _, ins := range b.Instrs {
				if st, ok := ins.(*ssa.Store); ok {
					if fa, ok := st.Addr.(*ssa.FieldAddr); ok {
						if f := core.FieldVarOfAddr(fa); f != nil {
							assigned[f.Name()] = true
						}
					}
				}
			}
		}
	}
	var missing []string
	_, nm := core.NamedOf(recv.Type())
	_ = nm
	if pt, ok := recv.Type().Underlying().(*types.Pointer); ok {
		if st, ok := pt.Elem().Underlying().(*types.Struct); ok {
			for i := 0; i < st.NumFields(); i++ {
				if f := st.Field(i); !assigned[f.Name()] {
					missing = append(missing, f.Name())
				}
			}
		}
	}
	c.Check(len(missing) == 0, "UnmarshalText / the whole Regexp value is replaced", fn.Pos(), "the Regexp is taken over field by field and %v is left out: the receiver keeps the old (or zero) value of it — with capnames missing, GetGroupNames lists the names but GroupNumberFromName / ${name} no longer resolve them", missing)
}

// ---------------------------------------------------------------------------
// R-CATEQ: a category is redundant in a class only next to itself.
// The categories of a class form a union; dropping a new category because a
// "covering" one is present is right for \p{L}\p{Lu} and wrong for
// \P{L}\P{Lu} (inclusion reverses under negation).  addCategories marks a
// category as already present only on equality of the names.
// ---------------------------------------------------------------------------

func RCatEq(c *core.Ctx) {
	c.Rule("R-CATEQ", "in CharSet.addCategories a new category is treated as already present (not appended) only inside a branch on equality of the two category names: no other relation between categories — sub-category, alias, complement — makes one of them redundant", 1)
	p := c.P
	syn := p.Pkg("syntax")
	info := syn.TypesInfo
	fd, _ := p.DeclOf(p.LookupFunc("syntax", "CharSet.addCategories"))
	catF := p.LookupField("syntax", "Category", "Cat")
	if fd == nil || catF == nil {
		c.Anchor("syntax.CharSet.addCategories / Category.Cat")
		return
	}
	c.Visit("syntax.(*CharSet).addCategories")
	// the flag: the bool local negated in the condition that guards the append to categories
	n := 0
	var stack []ast.Node
	ast.Inspect(fd.Body, func(x ast.Node) bool {
		if x == nil {
			stack = stack[:len(stack)-1]
			return true
		}
		stack = append(stack, x)
		as, ok := x.(*ast.AssignStmt)
		if !ok || len(as.Lhs) != 1 || len(as.Rhs) != 1 {
			return true
		}
		id, ok := as.Lhs[0].(*ast.Ident)
		if !ok {
			return true
		}
		if tv, ok := info.Types[as.Rhs[0]]; !ok || tv.Value == nil || tv.Value.String() != "true" {
			return true
		}
		if b, ok := info.TypeOf(id).Underlying().(*types.Basic); !ok || b.Kind() != types.Bool {
			return true
		}
		n++
		// innermost enclosing if: its condition must be exactly an equality of two .Cat fields
		okEq := false
		for i := len(stack) - 2; i >= 0; i-- {
			ifs, ok := stack[i].(*ast.IfStmt)
			if !ok {
				continue
			}
			if be, ok := ast.Unparen(ifs.Cond).(*ast.BinaryExpr); ok && be.Op == token.EQL && core.FieldOf(info, be.X) == catF && core.FieldOf(info, be.Y) == catF {
				okEq = true
			}
			break
		}
		c.Check(okEq, fmt.Sprintf("addCategories / \"already present\" #%d follows from equal category names", n), as.Pos(), "`%s = true` is reached under a condition other than equality of the category names: a category is dropped because another one is taken to cover it, which does not hold for negated categories ([\\P{L}\\P{Lu}] is not [\\P{L}])", id.Name)
		return true
	})
	if n == 0 {
		c.Anchor("the already-present flag in addCategories")
	}
}

// ---------------------------------------------------------------------------
// R-FOLDWALK: case closure asks every member.
// addCaseEquivalences adds, for every rune of every range, the runes
// SimpleFold connects it with.  A short cut for "wide" ranges through the
// one-directional lowercase table leaves out the upper-case partners of
// letters at the lower edge of the range.
// ---------------------------------------------------------------------------

func RFoldWalk(c *core.Ctx) {
	c.Rule("R-FOLDWALK", "in CharSet.addCaseEquivalences the loop over the ranges has no continue / break: every range is walked rune by rune through tryFindCaseEquivalences, none is handled by another (one-directional) routine", 1)
	p := c.P
	syn := p.Pkg("syntax")
	info := syn.TypesInfo
	fd, _ := p.DeclOf(p.LookupFunc("syntax", "CharSet.addCaseEquivalences"))
	walk := p.LookupFunc("syntax", "tryFindCaseEquivalences")
	if fd == nil || walk == nil {
		c.Anchor("syntax.CharSet.addCaseEquivalences / tryFindCaseEquivalences")
		return
	}
	c.Visit("syntax.(*CharSet).addCaseEquivalences")
	n := 0
	ast.Inspect(fd.Body, func(x ast.Node) bool {
		var body *ast.BlockStmt
		switch l := x.(type) {
		case *ast.ForStmt:
			body = l.Body
		case *ast.RangeStmt:
			body = l.Body
		default:
			return true
		}
		if len(core.CallsIn(info, body, walk)) == 0 {
			return true
		}
		// outermost loop containing the walk
		n++
		var bad token.Pos
		ast.Inspect(body, func(y ast.Node) bool {
			switch s := y.(type) {
			case *ast.ForStmt, *ast.RangeStmt:
				return y == ast.Node(body) // nested loops: their own break/continue do not leave ours
			case *ast.BranchStmt:
				if (s.Tok == token.CONTINUE || s.Tok == token.BREAK) && !bad.IsValid() {
					bad = s.Pos()
				}
			case *ast.ReturnStmt:
				if !bad.IsValid() {
					bad = s.Pos()
				}
			}
			return true
		})
		c.Check(!bad.IsValid(), "addCaseEquivalences / every range is walked", x.Pos(), "the loop over the ranges is left / continued early at %s: the ranges that take that way do not get the partners SimpleFold gives — `(?i)[a-\\x{FFFF}]` then matches \"hello\" but not \"HELLO\"", p.Pos(bad))
		return false
	})
	if n == 0 {
		c.Anchor("the loop that calls tryFindCaseEquivalences")
	}
}

// ---------------------------------------------------------------------------
// R-SCANASCII: the byte-set pre-filter holds ASCII bytes only.
// asciiSetStringScanner searches the raw string with strings.IndexAny, which
// treats its set as UTF-8 text: a lone lead byte of a multi-byte member is
// read as U+FFFD and never found.  The constructor therefore refuses any set
// with a member beyond ASCII, and every byte it stores is such a member.
// ---------------------------------------------------------------------------

func RScanASCII(c *core.Ctx) {
	c.Rule("R-SCANASCII", "every byte that newASCIISetStringScanner puts into the scanner's character list is the conversion byte(ch) of a set member ch: no byte from any other source (an encoded lead byte) enters the list", 1)
	p := c.P
	fn := p.SSAFunc(p.LookupFunc("", "newASCIISetStringScanner"))
	if fn == nil {
		c.Anchor("regexp2.newASCIISetStringScanner")
		return
	}
	c.Visit(core.SSAName(fn))
	isByteSlice := func(t types.Type) bool {
		sl, ok := t.Underlying().(*types.Slice)
		if !ok {
			return false
		}
		b, ok := sl.Elem().Underlying().(*types.Basic)
		return ok && b.Kind() == types.Uint8
	}
	fromMember := func(v ssa.Value) bool {
		cv, ok := v.(*ssa.Convert)
		if !ok {
			return false
		}
		b, ok := cv.X.Type().Underlying().(*types.Basic)
		return ok && b.Kind() == types.Int32
	}
	n := 0
	check := func(v ssa.Value, pos token.Pos) {
		n++
		c.Check(fromMember(v), fmt.Sprintf("newASCIISetStringScanner / byte #%d stored in the list is byte(member)", n), pos, "a byte that is not the conversion of a set member is put into the list (`%s`): strings.IndexAny reads the list as UTF-8, a lone lead byte in it means U+FFFD, so the multi-byte member is never searched for and matches that begin with it are skipped", v.String())
	}
	for _, b := range fn.Blocks {
		for _, ins := range b.Instrs {
			switch x := ins.(type) {
			case *ssa.Store:
				if ia, ok := x.Addr.(*ssa.IndexAddr); ok && isByteSlice(ia.X.Type()) {
					// skip the stores that build the variadic argument of append (handled below)
					if al, ok := ia.X.(*ssa.Alloc); ok {
						_ = al
						continue
					}
					check(x.Val, x.Pos())
				}
			case *ssa.Call:
				if bi, ok := x.Call.Value.(*ssa.Builtin); ok && bi.Name() == "append" && len(x.Call.Args) == 2 && isByteSlice(x.Call.Args[0].Type()) {
					// appended elements: stores into the backing array of the variadic slice
					if sl, ok := x.Call.Args[1].(*ssa.Slice); ok {
						if al, ok := sl.X.(*ssa.Alloc); ok {
							for _, r := range core.Referrers(al) {
								if ia, ok := r.(*ssa.IndexAddr); ok {
									for _, r2 := range core.Referrers(ia) {
										if st, ok := r2.(*ssa.Store); ok {
											check(st.Val, st.Pos())
										}
									}
								}
							}
						}
					}
				}
			}
		}
	}
	if n == 0 {
		c.Anchor("bytes stored by newASCIISetStringScanner")
	}
}
