package rules

import (
	"fmt"
	"go/ast"
	"go/constant"
	"go/token"
	"go/types"
	"strings"

	"golang.org/x/tools/go/ssa"

	"regexlint/internal/core"
)

// Rules added for the eighth wave of seeded changes.

// ---------------------------------------------------------------------------
// R-RELEASEOWN: a pooled runner is released by the function that took it.
// getRunner / putRunner bracket one call.  A helper that is handed a runner
// and puts it back "early" on an error path releases it a second time when the
// caller's deferred putRunner runs: the pool then hands the same runner to two
// goroutines.
// ---------------------------------------------------------------------------

func RReleaseOwn(c *core.Ctx) {
	c.Rule("R-RELEASEOWN", "every call of Regexp.putRunner (deferred or not) releases a runner that the same function obtained from getRunner: a runner received as a parameter, read from a field or returned by anything else is never put back by the receiver of it", 3)
	p := c.P
	put := p.SSAFunc(p.LookupFunc("", "Regexp.putRunner"))
	get := p.SSAFunc(p.LookupFunc("", "Regexp.getRunner"))
	if put == nil || get == nil {
		c.Anchor("Regexp.putRunner / Regexp.getRunner")
		return
	}
	n := 0
	for _, fn := range p.ModuleFuncs() {
		name := core.SSAName(fn)
		ord := 0
		check := func(common *ssa.CallCommon, pos token.Pos) {
			if common.StaticCallee() != put || len(common.Args) < 2 {
				return
			}
			n++
			ord++
			c.Visit(name)
			key := fmt.Sprintf("%s / release #%d is of a runner taken here", name, ord)
			var origin func(v ssa.Value, d int) bool
			origin = func(v ssa.Value, d int) bool {
				if d > 4 {
					return false
				}
				switch x := v.(type) {
				case *ssa.Call:
					return x.Call.StaticCallee() == get
				case *ssa.Phi:
					for _, e := range x.Edges {
						if !origin(e, d+1) {
							return false
						}
					}
					return len(x.Edges) > 0
				case *ssa.UnOp:
					// a local spilled because a closure / defer captures it
					if al, ok := x.X.(*ssa.Alloc); ok {
						okAll, any := true, false
						for _, r := range core.Referrers(al) {
							if st, ok := r.(*ssa.Store); ok && st.Addr == ssa.Value(al) {
								any = true
								if !origin(st.Val, d+1) {
									okAll = false
								}
							}
						}
						return any && okAll
					}
					if fv, ok := x.X.(*ssa.FreeVar); ok {
						_ = fv
						return true // a deferred closure of the acquiring function (its parent is checked by the store rule below)
					}
				}
				return false
			}
			if origin(common.Args[1], 0) {
				c.OK(key, pos, "the runner comes from getRunner in this function")
			} else {
				c.Bad(key, pos, "the runner released here was not taken by this function (a parameter / field): the function that did take it releases it as well (deferred putRunner), so after an aborted scan the pool holds the same runner twice and two overlapping calls share one interpreter state")
			}
		}
		for _, b := range fn.Blocks {
			for _, ins := range b.Instrs {
				switch x := ins.(type) {
				case *ssa.Call:
					check(&x.Call, x.Pos())
				case *ssa.Defer:
					check(&x.Call, x.Pos())
				case *ssa.Go:
					check(&x.Call, x.Pos())
				}
			}
		}
	}
	if n == 0 {
		c.Anchor("calls of Regexp.putRunner")
	}
}

// ---------------------------------------------------------------------------
// R-RUNMATCHOWN: the runner's working Match is its own.
// Runner.runmatch is scratch state that goes back into the pool with the
// runner; results are handed out as copies (R-DETACH).  Installing a Match the
// caller holds as the working Match makes later scans — of any goroutine that
// gets that runner — write into an object the caller still reads.
// ---------------------------------------------------------------------------

func RRunmatchOwn(c *core.Ctx) {
	c.Rule("R-RUNMATCHOWN", "Runner.runmatch is stored only by methods of Runner, and never with a Match that reached the method as a parameter: the working Match is created (or reset) by the runner itself", 1)
	p := c.P
	rm := p.LookupField("", "Runner", "runmatch")
	if rm == nil {
		c.Anchor("Runner.runmatch")
		return
	}
	n := 0
	for _, fn := range p.ModuleFuncs() {
		name := core.SSAName(fn)
		ord := 0
		for _, b := range fn.Blocks {
			for _, ins := range b.Instrs {
				st, ok := ins.(*ssa.Store)
				if !ok || core.FieldVarOfAddr(st.Addr) != rm {
					continue
				}
				n++
				ord++
				c.Visit(name)
				key := fmt.Sprintf("%s / store #%d to Runner.runmatch", name, ord)
				isMethod := false
				if recv := fn.Signature.Recv(); recv != nil {
					if _, nm := core.NamedOf(recv.Type()); nm == "Runner" {
						isMethod = true
					}
				}
				_, fromParam := st.Val.(*ssa.Parameter)
				switch {
				case !isMethod:
					c.Bad(key, st.Pos(), "the working Match of a pooled runner is replaced from outside the runner: the object installed stays reachable by whoever supplied it while later scans (of any caller that gets this runner) write into it")
				case fromParam:
					c.Bad(key, st.Pos(), "a Match handed in by the caller becomes the runner's working Match")
				default:
					c.OK(key, st.Pos(), "set by the runner itself")
				}
			}
		}
	}
	if n == 0 {
		c.Anchor("stores to Runner.runmatch")
	}
}

// ---------------------------------------------------------------------------
// R-IGNORETO: "no timeout" is decided where the deadline is read.
// CheckTimeout is exported for pre-built engines (RegisterEngine).  A runner
// without a timeout has no deadline armed — the field holds zero or whatever an
// earlier call left — so reading it is meaningful only behind ignoreTimeout.
// ---------------------------------------------------------------------------

func RIgnoreTO(c *core.Ctx) {
	c.Rule("R-IGNORETO", "every evaluation of Runner.deadline's reached() is dominated, in the same function, by the not-taken edge of a test of Runner.ignoreTimeout: the flag is tested where the deadline is read, not left to the callers (CheckTimeout is exported and called by external engines)", 1)
	p := c.P
	dl := p.LookupField("", "Runner", "deadline")
	ig := p.LookupField("", "Runner", "ignoreTimeout")
	reached := p.SSAFunc(p.LookupFunc("", "fasttime.reached"))
	if dl == nil || ig == nil || reached == nil {
		c.Anchor("Runner.deadline / Runner.ignoreTimeout / fasttime.reached")
		return
	}
	n := 0
	for _, fn := range p.ModuleFuncs() {
		if core.FnPkgPath(fn) != core.PkgRoot {
			continue
		}
		name := core.SSAName(fn)
		for _, b := range fn.Blocks {
			for _, ins := range b.Instrs {
				call, ok := ins.(*ssa.Call)
				if !ok || call.Call.StaticCallee() != reached || len(call.Call.Args) != 1 {
					continue
				}
				if _, ok := core.LoadOfField(call.Call.Args[0], dl); !ok {
					continue
				}
				n++
				c.Visit(name)
				guarded := false
				for d := b; d != nil && !guarded; d = d.Idom() {
					idom := d.Idom()
					if idom == nil || len(idom.Instrs) == 0 || len(idom.Succs) != 2 {
						continue
					}
					if ifi, ok := idom.Instrs[len(idom.Instrs)-1].(*ssa.If); ok {
						if _, ok := core.LoadOfField(ifi.Cond, ig); ok && (idom.Succs[1] == d || idom.Succs[1].Dominates(d)) {
							guarded = true
						}
					}
				}
				c.Check(guarded, name+" / the deadline is read only when a timeout is set", call.Pos(), "deadline.reached() is evaluated without testing ignoreTimeout in this function: for a Regexp without MatchTimeout the deadline is zero or stale, so an engine that calls the exported CheckTimeout unguarded gets an immediate \"match timeout\"")
			}
		}
	}
	if n == 0 {
		c.Anchor("reads of Runner.deadline through reached()")
	}
}

// ---------------------------------------------------------------------------
// R-PADPERIOD: the deadline is padded by the clock's period.
// The coarse clock is refreshed once per clockPeriod; the value read may be a
// whole period old.  A deadline of current + d can therefore fire up to one
// period early unless the period is added.
// ---------------------------------------------------------------------------

func RPadPeriod(c *core.Ctx) {
	c.Rule("R-PADPERIOD", "in makeDeadline every tick count that is added to a reading of fast.current to form the deadline is computed from the caller's duration AND from clockPeriod: the reading may be one period old, so a deadline without that pad fires up to a period early", 1)
	p := c.P
	md := p.SSAFunc(p.LookupFunc("", "makeDeadline"))
	period := p.LookupObj("", "clockPeriod")
	cur := p.LookupField("", "fastclock", "current")
	if md == nil || period == nil || cur == nil || len(md.Params) == 0 {
		c.Anchor("makeDeadline / clockPeriod / fastclock.current")
		return
	}
	c.Visit(core.SSAName(md))
	var derives func(v ssa.Value, seen map[ssa.Value]bool) (fromD, fromPeriod bool)
	derives = func(v ssa.Value, seen map[ssa.Value]bool) (bool, bool) {
		if v == nil || seen[v] {
			return false, false
		}
		seen[v] = true
		if v == ssa.Value(md.Params[0]) {
			return true, false
		}
		if ld, ok := v.(*ssa.UnOp); ok && ld.Op == token.MUL {
			if g, ok := ld.X.(*ssa.Global); ok && g.Object() == period {
				return false, true
			}
		}
		ins, ok := v.(ssa.Instruction)
		if !ok {
			return false, false
		}
		a, b := false, false
		for _, op := range ins.Operands(nil) {
			if *op != nil {
				x, y := derives(*op, seen)
				a, b = a || x, b || y
			}
		}
		return a, b
	}
	isCurRead := func(v ssa.Value) bool {
		call, ok := v.(*ssa.Call)
		if !ok || len(call.Call.Args) != 1 {
			return false
		}
		fa, ok := call.Call.Args[0].(*ssa.FieldAddr)
		return ok && core.FieldVarOfAddr(fa) == cur
	}
	n := 0
	for _, b := range md.Blocks {
		for _, ins := range b.Instrs {
			bin, ok := ins.(*ssa.BinOp)
			if !ok || bin.Op != token.ADD {
				continue
			}
			var ticks ssa.Value
			switch {
			case isCurRead(bin.X):
				ticks = bin.Y
			case isCurRead(bin.Y):
				ticks = bin.X
			default:
				continue
			}
			n++
			d, per := derives(ticks, map[ssa.Value]bool{})
			c.Check(d && per, fmt.Sprintf("makeDeadline / deadline sum #%d is padded by the clock period", n), bin.Pos(), "`%s`: derived from the caller's duration: %v, from clockPeriod: %v — without the period the deadline can lie up to one refresh interval before now + d (a 200ms timeout firing after 90ms at the default 100ms period)", bin.String(), d, per)
		}
	}
	if n == 0 {
		c.Anchor("current.read() + ticks in makeDeadline")
	}
}

// ---------------------------------------------------------------------------
// R-NOUNSAFE: no memory is shared behind Go's back.
// Buffers are pooled across calls and goroutines.  unsafe.String / unsafe.Slice
// over such memory hands the caller a "string" that a later call overwrites.
// ---------------------------------------------------------------------------

func RNoUnsafe(c *core.Ctx) {
	c.Rule("R-NOUNSAFE", "no non-test file of packages regexp2 and compat (where the pooled buffers live) imports package unsafe: every string and slice handed to a caller is an ordinary Go value that owns (or immutably shares) its memory, never a view of a pooled buffer", 1)
	p := c.P
	n, files := 0, 0
	for _, pk := range p.ModulePkgs() {
		if pp := pk.Types.Path(); pp != core.PkgRoot && pp != core.PkgCompat {
			continue // helpers / syntax use unsafe.Sizeof and a read-only byte view for comparisons
		}
		for _, f := range pk.Syntax {
			if p.IsTestFile(f.Pos()) {
				continue
			}
			files++
			for _, im := range f.Imports {
				if im.Path != nil && im.Path.Value == `"unsafe"` {
					n++
					c.Bad(fmt.Sprintf("%s imports unsafe #%d", p.Pos(f.Pos()), n), im.Pos(), "package unsafe is imported: a string or slice built with it over a bytes.Buffer or a pooled array changes under its holder when the buffer is reused")
				}
			}
		}
	}
	if n == 0 {
		c.OK("module / no file imports unsafe", token.NoPos, "%d non-test files examined", files)
	}
}

// ---------------------------------------------------------------------------
// R-BUFESCAPE: the runner's text buffer does not outlive the call in a new
// object.  For string input Runner.Runtext is a pooled decode buffer; a value
// built during the call (an error, a result struct) that keeps the slice shows
// another call's text later and races with it.
// ---------------------------------------------------------------------------

func RBufEscape(c *core.Ctx) {
	c.Rule("R-BUFESCAPE", "in package regexp2 no load of Runner.Runtext (or a slice of it) is stored into a field of an object allocated in the same function: anything that has to outlive the call copies the text (string(...)) instead of keeping the pooled buffer", 1)
	p := c.P
	rt := p.LookupField("", "Runner", "Runtext")
	if rt == nil {
		c.Anchor("Runner.Runtext")
		return
	}
	isText := func(v ssa.Value) bool {
		for d := 0; d < 3; d++ {
			if sl, ok := v.(*ssa.Slice); ok {
				v = sl.X
				continue
			}
			break
		}
		_, ok := core.LoadOfField(v, rt)
		return ok
	}
	n, examined := 0, 0
	for _, fn := range p.ModuleFuncs() {
		if core.FnPkgPath(fn) != core.PkgRoot {
			continue
		}
		name := core.SSAName(fn)
		for _, b := range fn.Blocks {
			for _, ins := range b.Instrs {
				st, ok := ins.(*ssa.Store)
				if !ok || !isText(st.Val) {
					continue
				}
				examined++
				fa, ok := st.Addr.(*ssa.FieldAddr)
				if !ok {
					continue
				}
				if al, ok := fa.X.(*ssa.Alloc); ok && al.Heap {
					n++
					c.Visit(name)
					c.Bad(fmt.Sprintf("%s / the runner's text buffer is kept in a new object #%d", name, n), st.Pos(), "Runner.Runtext is stored into a freshly allocated %s: for string input it is a pooled decode buffer, so the object later shows (and races with) the input of whichever call reuses the buffer", al.Type().String())
				}
			}
		}
	}
	if n == 0 {
		c.OK("package regexp2 / Runner.Runtext is not kept in objects built during a call", token.NoPos, "%d stores of the buffer examined", examined)
	}
}

var _ = ast.Inspect
var _ = types.Typ
var _ = strings.Contains
var _ = constant.MakeBool
