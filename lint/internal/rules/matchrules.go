package rules

import (
	"fmt"
	"go/token"
	"go/types"
	"strings"

	"golang.org/x/tools/go/ssa"

	"regexlint/internal/core"
)

// ---------------------------------------------------------------------------
// C08: well-formed matches and exact index conversion
// ---------------------------------------------------------------------------

// affine evaluates v as a*x + b for the SSA value x (integers only).
func affine(v, x ssa.Value, depth int) (a, b int64, ok bool) {
	if v == x {
		return 1, 0, true
	}
	if k, isC := core.IntConst(v); isC {
		return 0, k, true
	}
	if depth > 6 {
		return 0, 0, false
	}
	bin, isB := v.(*ssa.BinOp)
	if !isB {
		return 0, 0, false
	}
	a1, b1, ok1 := affine(bin.X, x, depth+1)
	a2, b2, ok2 := affine(bin.Y, x, depth+1)
	if !ok1 || !ok2 {
		return 0, 0, false
	}
	switch bin.Op {
	case token.ADD:
		return a1 + a2, b1 + b2, true
	case token.SUB:
		return a1 - a2, b1 - b2, true
	case token.MUL:
		if a1 == 0 {
			return b1 * a2, b1 * b2, true
		}
		if a2 == 0 {
			return a1 * b2, b1 * b2, true
		}
	}
	return 0, 0, false
}

func RCapNorm(c *core.Ctx) {
	c.Rule("R-CAPNORM", "every recorded capture length `end - start` (Runner.Capture, Runner.transferCapture -> Match.addMatch) is computed after the `end < start -> swap` normalisation, so right-to-left captures are stored as ordinary (start, length) spans", 2)
	p := c.P
	addMatch := p.SSAFunc(p.LookupFunc("", "Match.addMatch"))
	if addMatch == nil {
		c.Anchor("Match.addMatch")
		return
	}
	n := 0
	for _, fn := range p.ModuleFuncs() {
		name := core.SSAName(fn)
		for _, b := range fn.Blocks {
			for _, ins := range b.Instrs {
				call, ok := ins.(*ssa.Call)
				if !ok || call.Call.StaticCallee() != addMatch || len(call.Call.Args) != 4 {
					continue
				}
				sub, isSub := call.Call.Args[3].(*ssa.BinOp)
				if !isSub || sub.Op != token.SUB {
					continue // lengths copied from existing entries (balanceMatch)
				}
				if _, isConst := sub.X.(*ssa.Const); isConst {
					continue // `-4 - target`: a balancing back-reference marker, not a span length
				}
				n++
				c.Visit(name)
				// the function starts with `if end < start` on two parameters, and the SUB operands are not those raw parameters
				var pe, ps *ssa.Parameter
				swapTest := false
				for _, bb := range fn.Blocks {
					for _, i2 := range bb.Instrs {
						if cmp, ok := i2.(*ssa.BinOp); ok && cmp.Op == token.LSS {
							x, okx := cmp.X.(*ssa.Parameter)
							y, oky := cmp.Y.(*ssa.Parameter)
							if okx && oky && bb.Dominates(b) {
								pe, ps, swapTest = x, y, true
							}
						}
					}
				}
				raw := swapTest && (sub.X == ssa.Value(pe) || sub.Y == ssa.Value(ps) || sub.X == ssa.Value(ps) || sub.Y == ssa.Value(pe))
				c.Check(swapTest && !raw, fmt.Sprintf("%s / capture length #%d computed after the swap", name, n), call.Pos(), "`end < start` test dominating: %v; length uses the un-normalised parameters: %v", swapTest, raw)
			}
		}
	}
	if n == 0 {
		c.Anchor("addMatch(c, start, end-start) sites")
	}
}

func RLastCap(c *core.Ctx) {
	c.Rule("R-LASTCAP", "newGroup takes a group's embedded capture from its LAST capture (index pair 2*capcount-2, 2*capcount-1) and its Captures list from pairs (2i, 2i+1); Match.tidy gives group 0 exactly one capture, built from matches[0]", 3)
	p := c.P
	ng := p.SSAFunc(p.LookupFunc("", "newGroup"))
	setFields := p.SSAFunc(p.LookupFunc("", "setCaptureFields"))
	newCap := p.SSAFunc(p.LookupFunc("", "newCapture"))
	if ng == nil || setFields == nil || newCap == nil {
		c.Anchor("newGroup / setCaptureFields / newCapture")
		return
	}
	c.Visit(core.SSAName(ng))
	var capcount *ssa.Parameter
	for _, prm := range ng.Params {
		if prm.Name() == "capcount" {
			capcount = prm
		}
	}
	idxOf := func(v ssa.Value) ssa.Value {
		ld, ok := v.(*ssa.UnOp)
		if !ok {
			return nil
		}
		ia, ok := ld.X.(*ssa.IndexAddr)
		if !ok {
			return nil
		}
		return ia.Index
	}
	okLast := false
	okList := false
	for _, b := range ng.Blocks {
		for _, ins := range b.Instrs {
			call, ok := ins.(*ssa.Call)
			if !ok {
				continue
			}
			switch call.Call.StaticCallee() {
			case setFields:
				i1, i2 := idxOf(call.Call.Args[1]), idxOf(call.Call.Args[2])
				if i1 != nil && i2 != nil && capcount != nil {
					a1, b1, ok1 := affine(i1, capcount, 0)
					a2, b2, ok2 := affine(i2, capcount, 0)
					okLast = ok1 && ok2 && a1 == 2 && b1 == -2 && a2 == 2 && b2 == -1
				}
			case newCap:
				i1, i2 := idxOf(call.Call.Args[1]), idxOf(call.Call.Args[2])
				if i1 != nil && i2 != nil {
					// both affine in the loop variable: 2i and 2i+1
					var loopVar ssa.Value
					if bin, ok := i1.(*ssa.BinOp); ok {
						loopVar = bin.X
					}
					if loopVar != nil {
						a1, b1, ok1 := affine(i1, loopVar, 0)
						a2, b2, ok2 := affine(i2, loopVar, 0)
						okList = ok1 && ok2 && a1 == 2 && b1 == 0 && a2 == 2 && b2 == 1
					}
				}
			}
		}
	}
	c.Check(okLast, "newGroup / embedded capture is the last capture", ng.Pos(), "setCaptureFields(&g.Capture, caps[2*capcount-2], caps[2*capcount-1])")
	c.Check(okList, "newGroup / capture i is the pair (2i, 2i+1)", ng.Pos(), "newCapture(text, caps[2i], caps[2i+1])")
	tidy := p.SSAFunc(p.LookupFunc("", "Match.tidy"))
	captures := p.LookupField("", "Group", "Captures")
	matches := p.LookupField("", "Match", "matches")
	if tidy == nil || captures == nil || matches == nil {
		c.Anchor("Match.tidy / Group.Captures / Match.matches")
		return
	}
	c.Visit(core.SSAName(tidy))
	one := false
	for _, b := range tidy.Blocks {
		for _, ins := range b.Instrs {
			st, ok := ins.(*ssa.Store)
			if !ok || core.FieldVarOfAddr(st.Addr) != captures {
				continue
			}
			if sl, ok := st.Val.(*ssa.Slice); ok {
				if al, ok := sl.X.(*ssa.Alloc); ok {
					if at, ok := al.Type().(*types.Pointer).Elem().(*types.Array); ok && at.Len() == 1 && b.Dominates(exitBlockOf(tidy)) {
						one = true
					}
				}
			}
		}
	}
	// matches[0]
	fromZero := false
	for _, b := range tidy.Blocks {
		for _, ins := range b.Instrs {
			if ia, ok := ins.(*ssa.IndexAddr); ok {
				if _, ok := core.LoadOfField(ia.X, matches); ok {
					if k, ok := core.IntConst(ia.Index); ok && k == 0 {
						fromZero = true
					}
				}
			}
		}
	}
	c.Check(one && fromZero, "Match.tidy / group 0 has exactly one capture, from matches[0]", tidy.Pos(), "Captures = []Capture{m.Capture} on every path: %v; reads matches[0]: %v", one, fromZero)
}

func RRuneWidth(c *core.Ctx) {
	c.Rule("R-RUNEWIDTH", "every function (or closure) that works on a string and takes a byte width from utf8.RuneLen of a non-constant rune corrects it, under `ch == utf8.RuneError`, by re-decoding at that position (utf8.DecodeRuneInString): RuneLen(RuneError) is 3 but an invalid byte occupies 1, while a genuine U+FFFD occupies 3 — only re-decoding tells them apart (sibling agreement of the byte mappers)", 2)
	p := c.P
	n := 0
	for _, fn := range p.ModuleFuncs() {
		pkg := core.FnPkgPath(fn)
		if pkg != core.PkgRoot && pkg != core.PkgCompat {
			continue
		}
		name := core.SSAName(fn)
		for _, b := range fn.Blocks {
			for _, ins := range b.Instrs {
				call, ok := ins.(*ssa.Call)
				if !ok || call.Call.StaticCallee() == nil || call.Call.StaticCallee().String() != "unicode/utf8.RuneLen" {
					continue
				}
				// argument is the value of a range-over-string, or the function (closure) works on a string:
				// then the width is going to be used as a distance in that string's bytes
				if _, isConst := call.Call.Args[0].(*ssa.Const); isConst {
					continue
				}
				onString := false
				if ex, ok := call.Call.Args[0].(*ssa.Extract); ok {
					if nx, ok := ex.Tuple.(*ssa.Next); ok && nx.IsString {
						onString = true
					}
				}
				for _, prm := range fn.Params {
					if bt, ok := prm.Type().Underlying().(*types.Basic); ok && bt.Info()&types.IsString != 0 {
						onString = true
					}
				}
				if !onString {
					continue
				}
				n++
				c.Visit(name)
				// the width must merge with the result of DecodeRuneInString
				okFix := false
				for _, r := range core.Referrers(call) {
					phi, ok := r.(*ssa.Phi)
					if !ok {
						continue
					}
					for _, e := range phi.Edges {
						if ex2, ok := e.(*ssa.Extract); ok && ex2.Index == 1 {
							if dc, ok := ex2.Tuple.(*ssa.Call); ok && dc.Call.StaticCallee() != nil && strings.HasPrefix(dc.Call.StaticCallee().String(), "unicode/utf8.DecodeRune") {
								okFix = true
							}
						}
					}
				}
				c.Check(okFix, fmt.Sprintf("%s / RuneLen of a ranged rune #%d is corrected by re-decoding", name, n), call.Pos(), "the width must be phi(RuneLen(ch), size from DecodeRuneInString(s[i:]))")
			}
		}
	}
	if n == 0 {
		c.Anchor("utf8.RuneLen over ranged strings")
	}
}

func RStrText(c *core.Ctx) {
	c.Rule("R-STRTEXT", "a function that decodes its string parameter with getRunesAndStart and returns a *Match runs the search with match text built from that same string (run(…, newStringMatchText(s, runes))): ByteRange() needs the original bytes to size invalid input bytes as 1", 2)
	p := c.P
	run := p.SSAFunc(p.LookupFunc("", "Regexp.run"))
	getRunes := p.SSAFunc(p.LookupFunc("", "Regexp.getRunesAndStart"))
	newText := p.SSAFunc(p.LookupFunc("", "newStringMatchText"))
	if run == nil || getRunes == nil || newText == nil {
		c.Anchor("Regexp.run / getRunesAndStart / newStringMatchText")
		return
	}
	tiIdx := -1
	for i, prm := range run.Params {
		if prm.Name() == "textInfo" {
			tiIdx = i
		}
	}
	n := 0
	for _, fn := range p.ModuleFuncs() {
		var strArg ssa.Value
		for _, b := range fn.Blocks {
			for _, ins := range b.Instrs {
				if call, ok := ins.(*ssa.Call); ok && call.Call.StaticCallee() == getRunes {
					strArg = call.Call.Args[1]
				}
			}
		}
		if strArg == nil {
			continue
		}
		n++
		name := core.SSAName(fn)
		c.Visit(name)
		okRun := false
		for _, b := range fn.Blocks {
			for _, ins := range b.Instrs {
				call, ok := ins.(*ssa.Call)
				if !ok || call.Call.StaticCallee() != run || tiIdx < 0 {
					continue
				}
				if tc, ok := call.Call.Args[tiIdx].(*ssa.Call); ok && tc.Call.StaticCallee() == newText && tc.Call.Args[0] == strArg {
					okRun = true
				}
			}
		}
		c.Check(okRun, name+" / searches with match text built from its string argument", fn.Pos(), "expected run(…, newStringMatchText(<the decoded string>, runes))")
	}
	if n == 0 {
		c.Anchor("callers of getRunesAndStart")
	}
}

// ---------------------------------------------------------------------------
// R-LAZYTABLE: the "rune index == byte index" shortcut ends at the first rune
// that is not one byte wide.
//
// stringByteOffsets, runeByteOffsets and the compat byte adapter keep their
// offset table nil while every rune so far was one byte wide and allocate it
// at the first rune that is not.  The decision has to look at the width of
// the CURRENT rune: relying on "the positions will have diverged by the next
// iteration" misses a multi-byte rune that is the last one.
// ---------------------------------------------------------------------------

func RLazyTable(c *core.Ctx) {
	c.Rule("R-LAZYTABLE", "every function of the module that builds a []int offset table lazily (allocates it with make under a `table == nil` test inside its scanning loop) compares the byte width of the current rune (utf8.RuneLen / the size result of utf8.DecodeRune*) with 1 in a branch condition: the table must come into existence at the first rune that is not one byte wide, including when it is the last rune", 3)
	p := c.P
	n := 0
	for _, fn := range p.ModuleFuncs() {
		// lazily allocated []int: a MakeSlice of []int in a block dominated by `x == nil` on a []int
		lazy := false
		for _, b := range fn.Blocks {
			for _, ins := range b.Instrs {
				ms, ok := ins.(*ssa.MakeSlice)
				if !ok {
					continue
				}
				st, ok := ms.Type().Underlying().(*types.Slice)
				if !ok {
					continue
				}
				if bt, ok := st.Elem().Underlying().(*types.Basic); !ok || bt.Kind() != types.Int {
					continue
				}
				for _, f := range core.FactsAtBlock(b) {
					bin, ok := f.Cond.(*ssa.BinOp)
					if !ok || bin.Op != token.EQL || !f.Val {
						continue
					}
					if core.IsNilConst(bin.Y) || core.IsNilConst(bin.X) {
						v := bin.X
						if core.IsNilConst(bin.X) {
							v = bin.Y
						}
						if s2, ok := v.Type().Underlying().(*types.Slice); ok {
							if bt, ok := s2.Elem().Underlying().(*types.Basic); ok && bt.Kind() == types.Int {
								// and the allocation sits in a loop
								if onCycle(b) {
									lazy = true
								}
							}
						}
					}
				}
			}
		}
		if !lazy {
			continue
		}
		name := core.SSAName(fn)
		n++
		c.Visit(name)
		// width values
		width := map[ssa.Value]bool{}
		for _, b := range fn.Blocks {
			for _, ins := range b.Instrs {
				switch x := ins.(type) {
				case *ssa.Call:
					if cal := x.Call.StaticCallee(); cal != nil && cal.Pkg != nil && cal.Pkg.Pkg.Path() == "unicode/utf8" && core.BaseName(cal) == "RuneLen" {
						width[x] = true
					}
				case *ssa.Extract:
					if call, ok := x.Tuple.(*ssa.Call); ok && x.Index == 1 {
						if cal := call.Call.StaticCallee(); cal != nil && cal.Pkg != nil && cal.Pkg.Pkg.Path() == "unicode/utf8" && strings.HasPrefix(core.BaseName(cal), "Decode") {
							width[x] = true
						}
					}
				}
			}
		}
		for changed := true; changed; {
			changed = false
			for _, b := range fn.Blocks {
				for _, ins := range b.Instrs {
					if phi, ok := ins.(*ssa.Phi); ok && !width[phi] {
						for _, e := range phi.Edges {
							if width[e] {
								width[phi] = true
								changed = true
							}
						}
					}
				}
			}
		}
		compared := false
		for _, b := range fn.Blocks {
			for _, ins := range b.Instrs {
				bin, ok := ins.(*ssa.BinOp)
				if !ok || (bin.Op != token.NEQ && bin.Op != token.EQL && bin.Op != token.GTR && bin.Op != token.LSS && bin.Op != token.GEQ && bin.Op != token.LEQ) {
					continue
				}
				k, isC := core.IntConst(bin.Y)
				if !isC || !width[bin.X] || (k != 1 && k != 2) {
					continue
				}
				for _, r := range core.Referrers(bin) {
					switch r.(type) {
					case *ssa.If, *ssa.Phi, *ssa.BinOp:
						compared = true
					}
				}
			}
		}
		c.Check(compared, name+" / the lazy offset table is created when the current rune is not one byte wide", fn.Pos(),
			"%d width value(s) found, none of them is compared with 1 in a branch: a multi-byte rune that is the last rune of the input never creates the table and rune indexes are returned as byte indexes", len(width))
	}
	if n == 0 {
		c.Anchor("functions that build a []int offset table lazily")
	}
}

func onCycle(b *ssa.BasicBlock) bool {
	seen := map[*ssa.BasicBlock]bool{}
	work := append([]*ssa.BasicBlock(nil), b.Succs...)
	for len(work) > 0 {
		x := work[0]
		work = work[1:]
		if seen[x] {
			continue
		}
		seen[x] = true
		if x == b {
			return true
		}
		work = append(work, x.Succs...)
	}
	return false
}

// ---------------------------------------------------------------------------
// R-STEPDECODE: a cursor moves by the width of the rune decoded AT the cursor.
//   _, size := utf8.DecodeRuneInString(s[i:]);      i += size
//   _, size := utf8.DecodeLastRuneInString(s[:i]);  i -= size
// Stepping i by the width of a rune decoded at some other position (a loop-
// invariant index, the neighbouring variable) lands inside a multi-byte rune
// or on the wrong rune whenever widths differ.
// ---------------------------------------------------------------------------

func RStepDecode(c *core.Ctx) {
	c.Rule("R-STEPDECODE", "wherever a byte cursor is advanced (or moved back) by the size result of utf8.DecodeRune* (DecodeLastRune*) applied to a slice expression, the slice starts (ends) at that very cursor: i += size goes with s[i:], i -= size with s[:i]", 2)
	p := c.P
	n := 0
	for _, fn := range p.ModuleFuncs() {
		name := core.SSAName(fn)
		cnt := 0
		for _, b := range fn.Blocks {
			for _, ins := range b.Instrs {
				bin, ok := ins.(*ssa.BinOp)
				if !ok || (bin.Op != token.ADD && bin.Op != token.SUB) {
					continue
				}
				for _, pair := range [][2]ssa.Value{{bin.X, bin.Y}, {bin.Y, bin.X}} {
					cur, w := pair[0], pair[1]
					if bin.Op == token.SUB && w != bin.Y {
						continue
					}
					ex, ok := w.(*ssa.Extract)
					if !ok || ex.Index != 1 {
						continue
					}
					call, ok := ex.Tuple.(*ssa.Call)
					if !ok {
						continue
					}
					cal := call.Call.StaticCallee()
					if cal == nil || cal.Pkg == nil || cal.Pkg.Pkg.Path() != "unicode/utf8" || !strings.HasPrefix(core.BaseName(cal), "Decode") {
						continue
					}
					sl, ok := call.Call.Args[0].(*ssa.Slice)
					if !ok {
						continue
					}
					last := strings.HasPrefix(core.BaseName(cal), "DecodeLast")
					cnt++
					n++
					c.Visit(name)
					var at ssa.Value
					want := "s[i:]"
					if last {
						at, want = sl.High, "s[:i]"
					} else {
						at = sl.Low
					}
					okPos := at != nil && (at == cur || core.SameValue(at, cur))
					okOp := (last && bin.Op == token.SUB) || (!last && bin.Op == token.ADD)
					atS := "<whole>"
					if at != nil {
						atS = at.Name()
					}
					c.Check(okPos && okOp, fmt.Sprintf("%s / cursor step #%d uses the width of the rune at the cursor", name, cnt), bin.Pos(),
						"%s %s size, but size comes from %s on a slice bounded by %s, not by the cursor itself (expected %s): the step is the width of a different rune", cur.Name(), bin.Op, cal.Name(), atS, want)
				}
			}
		}
	}
	if n == 0 {
		c.Anchor("cursor steps by a decoded rune width")
	}
}

// ---------------------------------------------------------------------------
// R-UNITCMP: byte offsets and rune indexes are not compared with each other.
// Byte-valued: results of Capture.ByteRange, of the adapter's captureIndex
// (elements of the slice it returns), of stringByteMapper.byteIndex.
// Rune-valued: Capture.RuneIndex, Capture.RuneLength, Match.textpos.
// A comparison between the two kinds (the adjacency test of the find-all
// loops: "does this empty match touch the previous one?") is right on ASCII
// text and wrong after the first multi-byte rune.
// ---------------------------------------------------------------------------

func RUnitCmp(c *core.Ctx) {
	c.Rule("R-UNITCMP", "within a function of packages regexp2 / compat no value derived from a byte-offset source (Capture.ByteRange, captureIndex, stringByteMapper.byteIndex; through +, -, phi) is compared with, added to or subtracted from a value derived from a rune-index field (Capture.RuneIndex, Capture.RuneLength, Match.textpos)", 3)
	p := c.P
	byteFns := map[*ssa.Function]bool{}
	for _, n := range [][2]string{{"", "Capture.ByteRange"}, {"compat", "captureIndex"}, {"", "stringByteMapper.byteIndex"}} {
		if f := p.SSAFunc(p.LookupFunc(n[0], n[1])); f != nil {
			byteFns[f] = true
		} else {
			c.Anchor(n[0] + "." + n[1])
		}
	}
	runeFields := map[*types.Var]bool{}
	for _, n := range [][2]string{{"Capture", "RuneIndex"}, {"Capture", "RuneLength"}, {"Match", "textpos"}} {
		if f := p.LookupField("", n[0], n[1]); f != nil {
			runeFields[f] = true
		} else {
			c.Anchor("regexp2." + n[0] + "." + n[1])
		}
	}
	nFn := 0
	for _, fn := range p.ModuleFuncs() {
		pkg := core.FnPkgPath(fn)
		if pkg != core.PkgRoot && pkg != core.PkgCompat {
			continue
		}
		kind := map[ssa.Value]int{} // 1 byte, 2 rune
		has := [3]bool{}
		for changed := true; changed; {
			changed = false
			set := func(v ssa.Value, k int) {
				if k != 0 && kind[v] == 0 {
					kind[v] = k
					has[k] = true
					changed = true
				}
			}
			for _, b := range fn.Blocks {
				for _, ins := range b.Instrs {
					switch x := ins.(type) {
					case *ssa.Call:
						if cal := x.Call.StaticCallee(); cal != nil && byteFns[cal] {
							set(x, 1)
						}
						// an index-mapping callback handed in by the caller (makeIndex): given rune
						// positions it answers in the caller's unit, which for string input is bytes
						if prm, ok := x.Call.Value.(*ssa.Parameter); ok {
							if _, isFn := prm.Type().Underlying().(*types.Signature); isFn {
								for _, a := range x.Call.Args {
									if kind[a] == 2 {
										set(x, 1)
									}
								}
							}
						}
					case *ssa.Extract:
						set(x, kind[x.Tuple])
					case *ssa.IndexAddr:
						set(x, kind[x.X])
					case *ssa.Index:
						set(x, kind[x.X])
					case *ssa.UnOp:
						if x.Op == token.MUL {
							if f := core.FieldVarOfAddr(x.X); f != nil && runeFields[f] {
								set(x, 2)
							} else {
								set(x, kind[x.X])
							}
						}
					case *ssa.BinOp:
						if x.Op == token.ADD || x.Op == token.SUB {
							if kind[x.X] != 0 && (kind[x.Y] == kind[x.X] || kind[x.Y] == 0) {
								set(x, kind[x.X])
							} else if kind[x.Y] != 0 && kind[x.X] == 0 {
								set(x, kind[x.Y])
							}
						}
					case *ssa.Phi:
						for _, e := range x.Edges {
							if kind[e] != 0 {
								set(x, kind[e])
							}
						}
					}
				}
			}
		}
		if !has[1] {
			continue // no byte offsets in this function
		}
		nFn++
		name := core.SSAName(fn)
		c.Visit(name)
		bad := token.NoPos
		what := ""
		for _, b := range fn.Blocks {
			for _, ins := range b.Instrs {
				bin, ok := ins.(*ssa.BinOp)
				if !ok {
					continue
				}
				switch bin.Op {
				case token.EQL, token.NEQ, token.LSS, token.LEQ, token.GTR, token.GEQ, token.ADD, token.SUB:
					// comparing the two units is wrong, and so is adding a rune count to a byte offset
					if kind[bin.X] != 0 && kind[bin.Y] != 0 && kind[bin.X] != kind[bin.Y] {
						bad, what = bin.Pos(), bin.String()
					}
				}
			}
		}
		c.Check(bad == token.NoPos, name+" / byte offsets and rune indexes are not compared", fn.Pos(), "%s at %s combines a byte offset with a rune index / rune count: right only while every rune involved is one byte wide", what, p.Pos(bad))
	}
	if nFn == 0 {
		c.Anchor("functions that obtain byte offsets (ByteRange / captureIndex / byteIndex)")
	}
}

// R-RUNELENNEG: utf8.RuneLen answers -1 for values that are not valid runes.
func RRuneLenNeg(c *core.Ctx) {
	c.Rule("R-RUNELENNEG", "wherever utf8.RuneLen is applied to a rune that does not come from decoding a string (an element of a caller's []rune may be a surrogate half or lie above MaxRune) the -1 answer is handled before the width is used: a phi / branch on `width < 0`", 1)
	p := c.P
	n := 0
	for _, fn := range p.ModuleFuncs() {
		pkg := core.FnPkgPath(fn)
		if pkg != core.PkgRoot && pkg != core.PkgCompat {
			continue
		}
		name := core.SSAName(fn)
		cnt := 0
		for _, b := range fn.Blocks {
			for _, ins := range b.Instrs {
				call, ok := ins.(*ssa.Call)
				if !ok || call.Call.StaticCallee() == nil || call.Call.StaticCallee().String() != "unicode/utf8.RuneLen" {
					continue
				}
				arg := call.Call.Args[0]
				if _, isC := arg.(*ssa.Const); isC {
					continue
				}
				if ex, ok := arg.(*ssa.Extract); ok {
					if nx, ok := ex.Tuple.(*ssa.Next); ok && nx.IsString {
						continue // decoded from a string: always a valid rune (invalid bytes arrive as U+FFFD)
					}
				}
				if _, isParam := arg.(*ssa.Parameter); isParam {
					continue // a pattern character handed in by the caller of the helper
				}
				if mc, ok := arg.(*ssa.UnOp); ok {
					if _, isFree := mc.X.(*ssa.FreeVar); isFree {
						continue
					}
				}
				cnt++
				n++
				c.Visit(name)
				guarded := false
				for _, r := range core.Referrers(call) {
					if bin, ok := r.(*ssa.BinOp); ok && (bin.Op == token.LSS || bin.Op == token.LEQ || bin.Op == token.GEQ || bin.Op == token.GTR || bin.Op == token.EQL) {
						if k, isC := core.IntConst(bin.Y); isC && k <= 0 && k >= -1 {
							guarded = true
						}
					}
				}
				c.Check(guarded, fmt.Sprintf("%s / RuneLen #%d of a caller-supplied rune handles the -1 answer", name, cnt), call.Pos(),
					"the rune comes from a []rune the caller filled, so it may be a surrogate half or exceed MaxRune; RuneLen then returns -1 and the byte position moves backwards")
			}
		}
	}
	if n == 0 {
		c.Anchor("utf8.RuneLen on runes that do not come from a string")
	}
}
