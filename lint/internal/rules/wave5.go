package rules

import (
	"fmt"
	"go/token"

	"golang.org/x/tools/go/ssa"

	"regexlint/internal/core"
)

// Rules added for the fifth wave of seeded changes.

// ---------------------------------------------------------------------------
// R-FAILPROP: a failed sub-analysis is never swallowed.
//
// tryFindFirstCharClass answers 1 (the set is complete), -1 (nullable: keep
// looking) or 0 (failed: what was collected cannot be trusted).  Whatever a
// recursive call answers, 0 has to travel up: on every path from a recursive
// call to a return, either the call's own result is returned, or 0 is
// returned, or a branch on the way has established that the result is not 0.
// `if node.M == 0 { return -1 }` after the call answers "nullable" for a loop
// whose body could not be described, and the leading set that is published
// misses the characters of that body.
// ---------------------------------------------------------------------------

// edgeExcludesZero: taking the `val` side of a branch on cond implies v != 0.
func edgeExcludesZero(cond ssa.Value, val bool, alias map[ssa.Value]bool) bool {
	if u, ok := cond.(*ssa.UnOp); ok && u.Op == token.NOT {
		return edgeExcludesZero(u.X, !val, alias)
	}
	bin, ok := cond.(*ssa.BinOp)
	if !ok {
		return false
	}
	x, y, op := bin.X, bin.Y, bin.Op
	if !alias[x] && alias[y] {
		x, y = y, x
		switch op {
		case token.LSS:
			op = token.GTR
		case token.LEQ:
			op = token.GEQ
		case token.GTR:
			op = token.LSS
		case token.GEQ:
			op = token.LEQ
		}
	}
	if !alias[x] {
		return false
	}
	k, isC := core.IntConst(y)
	if !isC {
		return false
	}
	// does 0 satisfy (0 op k) == val ?  if not, the edge excludes 0
	var zeroSat bool
	switch op {
	case token.EQL:
		zeroSat = 0 == k
	case token.NEQ:
		zeroSat = 0 != k
	case token.LSS:
		zeroSat = 0 < k
	case token.LEQ:
		zeroSat = 0 <= k
	case token.GTR:
		zeroSat = 0 > k
	case token.GEQ:
		zeroSat = 0 >= k
	default:
		return false
	}
	return zeroSat != val
}

func RFailProp(c *core.Ctx) {
	c.Rule("R-FAILPROP", "in tryFindFirstCharClass the answer 0 (failed) of a recursive call is never swallowed: on every path from the call to a return the call's own result is returned, or the constant 0, or a branch taken on the way excludes 0 for that result (val > 0, val == -1, val != 0 ...)", 5)
	p := c.P
	tf := p.LookupFunc("syntax", "tryFindFirstCharClass")
	fn := p.SSAFunc(tf)
	if fn == nil {
		c.Anchor("syntax.tryFindFirstCharClass")
		return
	}
	name := core.SSAName(fn)
	c.Visit(name)
	n := 0
	for _, b := range fn.Blocks {
		for idx, ins := range b.Instrs {
			call, ok := ins.(*ssa.Call)
			if !ok || call.Call.StaticCallee() != fn {
				continue
			}
			n++
			alias := map[ssa.Value]bool{call: true}
			// a phi that merges the result with others stands for it where it is tested
			for _, r := range core.Referrers(call) {
				if ph, ok := r.(*ssa.Phi); ok {
					alias[ph] = true
				}
			}
			// explore forward
			type item struct {
				blk  *ssa.BasicBlock
				from *ssa.BasicBlock
				at   int
			}
			seen := map[*ssa.BasicBlock]bool{}
			var bad ssa.Instruction
			stack := []item{{b, nil, idx + 1}}
			for len(stack) > 0 && bad == nil {
				it := stack[len(stack)-1]
				stack = stack[:len(stack)-1]
				if it.at == 0 {
					if seen[it.blk] {
						continue
					}
					seen[it.blk] = true
				}
				again := false
				for _, i2 := range it.blk.Instrs[it.at:] {
					if c2, ok := i2.(*ssa.Call); ok && c2 == call {
						again = true // back at the same call: a new result replaces this one on the next iteration
						break
					}
				}
				if again {
					continue
				}
				last := it.blk.Instrs[len(it.blk.Instrs)-1]
				switch t := last.(type) {
				case *ssa.Return:
					if len(t.Results) != 1 {
						continue
					}
					res := t.Results[0]
					if ph, ok := res.(*ssa.Phi); ok && ph.Block() == it.blk && it.from != nil {
						for k, pr := range it.blk.Preds {
							if pr == it.from {
								res = ph.Edges[k]
							}
						}
					}
					if alias[res] {
						continue
					}
					if k, isC := core.IntConst(res); isC && k == 0 {
						continue
					}
					bad = t
				case *ssa.If:
					for k, succ := range it.blk.Succs {
						if edgeExcludesZero(t.Cond, k == 0, alias) {
							continue
						}
						stack = append(stack, item{succ, it.blk, 0})
					}
				default:
					for _, succ := range it.blk.Succs {
						stack = append(stack, item{succ, it.blk, 0})
					}
				}
			}
			key := fmt.Sprintf("%s / result of recursive call #%d reaches every return as itself, as 0, or after 0 was excluded", name, n)
			if bad != nil {
				c.Bad(key, bad.Pos(), "this return is reached from the recursive call at %s with the call's result neither returned nor tested against 0: when the sub-analysis failed, the function still answers 'nullable' or 'done' and the set it leaves behind is published without the characters of that part", p.Pos(call.Pos()))
			} else {
				c.OK(key, call.Pos(), "every path returns the result, returns 0, or passes a branch that excludes 0")
			}
		}
	}
	if n == 0 {
		c.Anchor("recursive calls in syntax.tryFindFirstCharClass")
	}
}
