package rules

import (
	"fmt"
	"go/ast"
	"go/token"
	"go/types"
	"sort"
	"strconv"
	"strings"
	"unicode"

	"golang.org/x/tools/go/ssa"

	"regexlint/internal/core"
)

// Rules added for the fifth wave of seeded changes.

// ---------------------------------------------------------------------------
// R-FAILPROP: a failed sub-analysis is never swallowed.
//
// tryFindFirstCharClass answers 1 (the set is complete), -1 (nullable: keep
// looking) or 0 (failed: what was collected cannot be trusted).  Whatever a
// recursive call answers, 0 has to travel up: on every path from a recursive
// call to a return, either the call's own result is returned, or 0 is
// returned, or a branch on the way has established that the result is not 0.
// `if node.M == 0 { return -1 }` after the call answers "nullable" for a loop
// whose body could not be described, and the leading set that is published
// misses the characters of that body.
// ---------------------------------------------------------------------------

// edgeExcludesZero: taking the `val` side of a branch on cond implies v != 0.
func edgeExcludesZero(cond ssa.Value, val bool, alias map[ssa.Value]bool) bool {
	if u, ok := cond.(*ssa.UnOp); ok && u.Op == token.NOT {
		return edgeExcludesZero(u.X, !val, alias)
	}
	bin, ok := cond.(*ssa.BinOp)
	if !ok {
		return false
	}
	x, y, op := bin.X, bin.Y, bin.Op
	if !alias[x] && alias[y] {
		x, y = y, x
		switch op {
		case token.LSS:
			op = token.GTR
		case token.LEQ:
			op = token.GEQ
		case token.GTR:
			op = token.LSS
		case token.GEQ:
			op = token.LEQ
		}
	}
	if !alias[x] {
		return false
	}
	k, isC := core.IntConst(y)
	if !isC {
		return false
	}
	// does 0 satisfy (0 op k) == val ?  if not, the edge excludes 0
	var zeroSat bool
	switch op {
	case token.EQL:
		zeroSat = 0 == k
	case token.NEQ:
		zeroSat = 0 != k
	case token.LSS:
		zeroSat = 0 < k
	case token.LEQ:
		zeroSat = 0 <= k
	case token.GTR:
		zeroSat = 0 > k
	case token.GEQ:
		zeroSat = 0 >= k
	default:
		return false
	}
	return zeroSat != val
}

func RFailProp(c *core.Ctx) {
	c.Rule("R-FAILPROP", "in tryFindFirstCharClass the answer 0 (failed) of a recursive call is never swallowed: on every path from the call to a return the call's own result is returned, or the constant 0, or a branch taken on the way excludes 0 for that result (val > 0, val == -1, val != 0 ...)", 5)
	p := c.P
	tf := p.LookupFunc("syntax", "tryFindFirstCharClass")
	fn := p.SSAFunc(tf)
	if fn == nil {
		c.Anchor("syntax.tryFindFirstCharClass")
		return
	}
	name := core.SSAName(fn)
	c.Visit(name)
	n := 0
	for _, b := range fn.Blocks {
		for idx, ins := range b.Instrs {
			call, ok := ins.(*ssa.Call)
			if !ok || call.Call.StaticCallee() != fn {
				continue
			}
			n++
			alias := map[ssa.Value]bool{call: true}
			// a phi that merges the result with others stands for it where it is tested
			for _, r := range core.Referrers(call) {
				if ph, ok := r.(*ssa.Phi); ok {
					alias[ph] = true
				}
			}
			// explore forward
			type item struct {
				blk  *ssa.BasicBlock
				from *ssa.BasicBlock
				at   int
			}
			seen := map[*ssa.BasicBlock]bool{}
			var bad ssa.Instruction
			stack := []item{{b, nil, idx + 1}}
			for len(stack) > 0 && bad == nil {
				it := stack[len(stack)-1]
				stack = stack[:len(stack)-1]
				if it.at == 0 {
					if seen[it.blk] {
						continue
					}
					seen[it.blk] = true
				}
				again := false
				for _, i2 := range it.blk.Instrs[it.at:] {
					if c2, ok := i2.(*ssa.Call); ok && c2 == call {
						again = true // back at the same call: a new result replaces this one on the next iteration
						break
					}
				}
				if again {
					continue
				}
				last := it.blk.Instrs[len(it.blk.Instrs)-1]
				switch t := last.(type) {
				case *ssa.Return:
					if len(t.Results) != 1 {
						continue
					}
					res := t.Results[0]
					if ph, ok := res.(*ssa.Phi); ok && ph.Block() == it.blk && it.from != nil {
						for k, pr := range it.blk.Preds {
							if pr == it.from {
								res = ph.Edges[k]
							}
						}
					}
					if alias[res] {
						continue
					}
					if k, isC := core.IntConst(res); isC && k == 0 {
						continue
					}
					bad = t
				case *ssa.If:
					for k, succ := range it.blk.Succs {
						if edgeExcludesZero(t.Cond, k == 0, alias) {
							continue
						}
						stack = append(stack, item{succ, it.blk, 0})
					}
				default:
					for _, succ := range it.blk.Succs {
						stack = append(stack, item{succ, it.blk, 0})
					}
				}
			}
			key := fmt.Sprintf("%s / result of recursive call #%d reaches every return as itself, as 0, or after 0 was excluded", name, n)
			if bad != nil {
				c.Bad(key, bad.Pos(), "this return is reached from the recursive call at %s with the call's result neither returned nor tested against 0: when the sub-analysis failed, the function still answers 'nullable' or 'done' and the set it leaves behind is published without the characters of that part", p.Pos(call.Pos()))
			} else {
				c.OK(key, call.Pos(), "every path returns the result, returns 0, or passes a branch that excludes 0")
			}
		}
	}
	if n == 0 {
		c.Anchor("recursive calls in syntax.tryFindFirstCharClass")
	}
}

// ---------------------------------------------------------------------------
// R-LOOPSIB: the loop a "literal after the leading loop" is published for is
// the FIRST CHILD of the concatenation whose following child yields the
// literal.  The walk from that child down to the loop may only pass nodes that
// wrap exactly one child and have no say in control flow (Atomic, Capture,
// Group).  A helper that also steps into the first child of a nested
// concatenation takes the loop out of a leading group `(\w+:)//`: what follows
// the loop is then `:`, not the literal `//` that was published.
// ---------------------------------------------------------------------------

var singleChildWrappers = map[string]string{
	"NtAtomic":  "one child; only removes backtracking",
	"NtCapture": "one child; only records positions",
	"NtGroup":   "one child; no effect",
}

// wrapperOnlyDescent: every `v = v.Children[k]` in body (v one of vars) stands
// under a condition that restricts v.T to single-child wrappers.
func wrapperOnlyDescent(info *types.Info, body *ast.BlockStmt, v types.Object) (bool, token.Pos, string) {
	ok := true
	var at token.Pos
	why := ""
	var walk func(n ast.Node, guards []ast.Expr)
	isWrapperCond := func(cond ast.Expr) bool {
		// a disjunction (possibly conjoined with other tests) of v.T == K, K a wrapper kind
		for _, cj := range conjuncts(cond) {
			all := true
			some := false
			var dis func(e ast.Expr)
			dis = func(e ast.Expr) {
				e = ast.Unparen(e)
				if be, isB := e.(*ast.BinaryExpr); isB && be.Op == token.LOR {
					dis(be.X)
					dis(be.Y)
					return
				}
				be, isB := e.(*ast.BinaryExpr)
				if !isB || be.Op != token.EQL {
					all = false
					return
				}
				sel, isS := ast.Unparen(be.X).(*ast.SelectorExpr)
				if !isS || sel.Sel.Name != "T" {
					all = false
					return
				}
				if id, isI := ast.Unparen(sel.X).(*ast.Ident); !isI || info.ObjectOf(id) != v {
					all = false
					return
				}
				kid, isI := ast.Unparen(be.Y).(*ast.Ident)
				if !isI {
					all = false
					return
				}
				if _, listed := singleChildWrappers[kid.Name]; !listed {
					all = false
					return
				}
				some = true
			}
			dis(cj)
			if all && some {
				return true
			}
		}
		return false
	}
	walk = func(n ast.Node, guards []ast.Expr) {
		switch x := n.(type) {
		case nil:
			return
		case *ast.BlockStmt:
			for _, st := range x.List {
				walk(st, guards)
			}
		case *ast.ForStmt:
			g := guards
			if x.Cond != nil {
				g = append(append([]ast.Expr(nil), guards...), x.Cond)
			}
			walk(x.Body, g)
		case *ast.IfStmt:
			walk(x.Body, append(append([]ast.Expr(nil), guards...), x.Cond))
			if x.Else != nil {
				walk(x.Else, guards)
			}
		case *ast.SwitchStmt:
			for _, cs := range x.Body.List {
				cc := cs.(*ast.CaseClause)
				g := guards
				// switch v.T { case NtAtomic, NtCapture: v = v.Children[0] }
				if sel, isS := ast.Unparen(x.Tag).(*ast.SelectorExpr); x.Tag != nil && isS && sel.Sel.Name == "T" && len(cc.List) > 0 {
					var cond ast.Expr
					for _, e := range cc.List {
						eq := &ast.BinaryExpr{X: x.Tag, Op: token.EQL, Y: e}
						if cond == nil {
							cond = eq
						} else {
							cond = &ast.BinaryExpr{X: cond, Op: token.LOR, Y: eq}
						}
					}
					g = append(append([]ast.Expr(nil), guards...), cond)
				}
				for _, st := range cc.Body {
					walk(st, g)
				}
			}
		case *ast.AssignStmt:
			for i, l := range x.Lhs {
				id, isI := l.(*ast.Ident)
				if !isI || info.ObjectOf(id) != v || i >= len(x.Rhs) {
					continue
				}
				ie, isIdx := ast.Unparen(x.Rhs[i]).(*ast.IndexExpr)
				if !isIdx {
					continue
				}
				sel, isS := ast.Unparen(ie.X).(*ast.SelectorExpr)
				if !isS || sel.Sel.Name != "Children" {
					continue
				}
				if bid, isB := ast.Unparen(sel.X).(*ast.Ident); !isB || info.ObjectOf(bid) != v {
					continue
				}
				// v = v.Children[k]: a descent
				guarded := false
				for _, g := range guards {
					if isWrapperCond(g) {
						guarded = true
					}
				}
				if !guarded {
					ok = false
					at = x.Pos()
					why = "`" + types.ExprString(x.Lhs[i]) + " = " + types.ExprString(x.Rhs[i]) + "` is not under a test that the node is a single-child wrapper (" + wrapperKindList() + ")"
				}
			}
		case *ast.LabeledStmt:
			walk(x.Stmt, guards)
		case *ast.RangeStmt:
			walk(x.Body, guards)
		}
	}
	walk(body, nil)
	return ok, at, why
}

func wrapperKindList() string {
	var ks []string
	for k := range singleChildWrappers {
		ks = append(ks, k)
	}
	sort.Strings(ks)
	return strings.Join(ks, ", ")
}

func RLoopSib(c *core.Ctx) {
	c.Rule("R-LOOPSIB", "wherever a LiteralAfterLoop is published, its LoopNode is the first child of the concatenation under analysis, reached from `X.Children[0]` only through single-child wrappers (Atomic, Capture, Group) — by an inline loop under that test or by a helper whose own descents are all under it; never through a helper that steps into the first child of a nested concatenation (the literal then no longer follows the loop)", 1)
	p := c.P
	syn := p.Pkg("syntax")
	info := syn.TypesInfo
	n := 0
	helperOK := map[*types.Func]bool{}
	helperWhy := map[*types.Func]string{}
	checkHelper := func(fn *types.Func) bool {
		if v, done := helperOK[fn]; done {
			return v
		}
		helperOK[fn] = false
		fd, _ := p.DeclOf(fn)
		if fd == nil || fd.Body == nil || fd.Type.Params == nil || len(fd.Type.Params.List) == 0 || len(fd.Type.Params.List[0].Names) == 0 {
			helperWhy[fn] = "no body"
			return false
		}
		prm := info.ObjectOf(fd.Type.Params.List[0].Names[0])
		ok, _, why := wrapperOnlyDescent(info, fd.Body, prm)
		// the helper must hand back its (descended) parameter or nil, nothing else
		ast.Inspect(fd.Body, func(x ast.Node) bool {
			rs, isR := x.(*ast.ReturnStmt)
			if !isR || len(rs.Results) != 1 {
				return true
			}
			if id, isI := ast.Unparen(rs.Results[0]).(*ast.Ident); isI && (info.ObjectOf(id) == prm || isNilIdent(info, id)) {
				return true
			}
			ok = false
			why = "returns something other than the node it was given"
			return true
		})
		helperOK[fn] = ok
		helperWhy[fn] = why
		return ok
	}
	for _, fd := range p.FuncDecls(syn) {
		if fd.Body == nil || p.IsTestFile(fd.Pos()) {
			continue
		}
		name := core.DeclName(syn, fd)
		// LoopNode values of LiteralAfterLoop literals in this function
		loopVars := map[types.Object]token.Pos{}
		ast.Inspect(fd.Body, func(x ast.Node) bool {
			cl, ok := x.(*ast.CompositeLit)
			if !ok || !core.IsNamed(info.TypeOf(cl), core.PkgSyntax, "LiteralAfterLoop") {
				return true
			}
			for _, e := range cl.Elts {
				kv, ok := e.(*ast.KeyValueExpr)
				if !ok {
					continue
				}
				if k, ok := kv.Key.(*ast.Ident); ok && k.Name == "LoopNode" {
					if id, ok := ast.Unparen(kv.Value).(*ast.Ident); ok {
						if _, seen := loopVars[info.ObjectOf(id)]; !seen {
							loopVars[info.ObjectOf(id)] = kv.Pos()
						}
					} else {
						n++
						c.Unknown(fmt.Sprintf("%s / LoopNode %s", name, types.ExprString(kv.Value)), kv.Pos(), "the published loop is not a local variable: its derivation is not followed")
					}
				}
			}
			return true
		})
		for v := range loopVars {
			n++
			c.Visit(name)
			key := fmt.Sprintf("%s / published LoopNode %s is the concatenation's first child behind single-child wrappers only", name, v.Name())
			ok, at, why := wrapperOnlyDescent(info, fd.Body, v)
			// its initial value: X.Children[0], or helper(X.Children[0]) with a wrapper-only helper
			ast.Inspect(fd.Body, func(x ast.Node) bool {
				as, isA := x.(*ast.AssignStmt)
				if !isA {
					return true
				}
				for i, l := range as.Lhs {
					id, isI := l.(*ast.Ident)
					if !isI || info.ObjectOf(id) != v || i >= len(as.Rhs) {
						continue
					}
					rhs := ast.Unparen(as.Rhs[i])
					if call, isC := rhs.(*ast.CallExpr); isC {
						fn := core.Callee(info, call)
						if fn == nil || fn.Pkg() != syn.Types || len(call.Args) != 1 {
							ok, at, why = false, as.Pos(), "assigned from a call that is not followed"
							continue
						}
						if !checkHelper(fn) {
							ok, at, why = false, as.Pos(), "assigned through "+fn.Name()+", which is not a pure single-child unwrapping: "+helperWhy[fn]
						}
						rhs = ast.Unparen(call.Args[0])
					}
					ie, isIdx := rhs.(*ast.IndexExpr)
					if !isIdx {
						ok, at, why = false, as.Pos(), "not derived from an element of Children"
						continue
					}
					sel, isS := ast.Unparen(ie.X).(*ast.SelectorExpr)
					if !isS || sel.Sel.Name != "Children" {
						ok, at, why = false, as.Pos(), "not derived from an element of Children"
						continue
					}
					if bid, isB := ast.Unparen(sel.X).(*ast.Ident); isB && info.ObjectOf(bid) == v {
						continue // a descent: judged above
					}
					if k, isK := core.ConstInt(info, ie.Index); !isK || k != 0 {
						ok, at, why = false, as.Pos(), "not the FIRST child"
					}
				}
				return true
			})
			if ok {
				c.OK(key, loopVars[v], "derived from Children[0] through single-child wrappers")
			} else {
				c.Bad(key, at, "%s: the loop may come from inside a leading group, and the literal published with it does not directly follow it", why)
			}
		}
	}
	if n == 0 {
		c.Anchor("LiteralAfterLoop literals with a LoopNode in package syntax")
	}
}

// ---------------------------------------------------------------------------
// R-BOUNDSET: a loop is made atomic in front of \b only when EVERY character
// of its class is a word character (then the boundary can only hold at the
// end of the run and giving characters back cannot help).  The code states
// this by identity with a predefined class: n.Set.Equals(WordClass()) etc.
// The rule enumerates, in canBeMadeAtomic, every conjunction that tests the
// successor against a boundary kind and requires that the loop's set enters it
// only through Equals with a predefined class listed for that kind, and the
// loop's character only through the word predicate of that dialect.  The
// listed classes are checked against the source: the categories of DigitClass
// are among those IsWordChar tests, the ECMAScript digit ranges lie inside the
// ECMAScript word ranges.  A predicate that samples the class (range end
// points, a few characters) lets [A-z]+\b become atomic although [ \ ] ^ `
// are not word characters.
// ---------------------------------------------------------------------------

var boundaryClassTable = map[string]map[string]string{
	"NtBoundary": {
		"WordClass":  "the class \\b itself is defined with (R-WORDSIB ties IsWordChar to WordClass)",
		"DigitClass": "Nd is one of the categories of a word character (checked against IsWordChar)",
	},
	"NtECMABoundary": {
		"ECMAWordClass":  "the class ECMAScript \\b is defined with",
		"ECMADigitClass": "0-9 lies inside the ECMAScript word ranges (checked against the range tables)",
	},
	// the negated boundaries are judged by R-ATOMSUCC (K1); here only the form is required
	"NtNonboundary":     {"NotWordClass": "form only (see R-ATOMSUCC)", "NotDigitClass": "form only (see R-ATOMSUCC)"},
	"NtNonECMABoundary": {"NotECMAWordClass": "form only (see R-ATOMSUCC)", "NotDigitClass": "form only (see R-ATOMSUCC)", "NotECMADigitClass": "form only (see R-ATOMSUCC)"},
}

var boundaryPredTable = map[string]string{
	"NtBoundary": "IsWordChar", "NtNonboundary": "IsWordChar",
	"NtECMABoundary": "IsECMAWordChar", "NtNonECMABoundary": "IsECMAWordChar",
}

func RBoundSet(c *core.Ctx) {
	c.Rule("R-BOUNDSET", "in canBeMadeAtomic a loop's class is related to a word-boundary successor only by identity with a predefined class (n.Set.Equals(WordClass()), …DigitClass()) listed for that boundary kind, and a loop's character only by the word predicate of that dialect; the listed classes are verified against the source to consist of word characters only. No predicate that samples the class (end points of its ranges, some of its characters) may stand in", 6)
	p := c.P
	syn := p.Pkg("syntax")
	info := syn.TypesInfo
	fd, _ := p.DeclOf(p.LookupFunc("syntax", "RegexNode.canBeMadeAtomic"))
	tField := p.LookupField("syntax", "RegexNode", "T")
	equals := p.LookupFunc("syntax", "CharSet.Equals")
	if fd == nil || tField == nil || equals == nil {
		c.Anchor("syntax.RegexNode.canBeMadeAtomic / RegexNode.T / CharSet.Equals")
		return
	}
	c.Visit("syntax.(*RegexNode).canBeMadeAtomic")
	mentionsSetOrCh := func(e ast.Expr) (set, ch bool) {
		ast.Inspect(e, func(x ast.Node) bool {
			if sel, ok := x.(*ast.SelectorExpr); ok {
				if f := core.FieldOf(info, sel); f != nil && core.IsNamed(info.TypeOf(sel.X), core.PkgSyntax, "RegexNode") {
					switch core.BaseName(f) {
					case "Set":
						set = true
					case "Ch":
						ch = true
					}
				}
			}
			return true
		})
		return
	}
	// classNames: e is a disjunction of S.Equals(P()) (helpers that are one such return are followed)
	var classNames func(e ast.Expr, depth int) ([]string, bool)
	classNames = func(e ast.Expr, depth int) ([]string, bool) {
		e = ast.Unparen(e)
		if be, ok := e.(*ast.BinaryExpr); ok && be.Op == token.LOR {
			a, ok1 := classNames(be.X, depth)
			b, ok2 := classNames(be.Y, depth)
			return append(a, b...), ok1 && ok2
		}
		call, ok := e.(*ast.CallExpr)
		if !ok {
			return nil, false
		}
		if core.IsCallTo(info, call, equals) && len(call.Args) == 1 {
			inner, ok := ast.Unparen(call.Args[0]).(*ast.CallExpr)
			if !ok || len(inner.Args) != 0 {
				return nil, false
			}
			id, ok := ast.Unparen(inner.Fun).(*ast.Ident)
			if !ok {
				return nil, false
			}
			v, ok := info.ObjectOf(id).(*types.Var)
			if !ok || v.Parent() != syn.Types.Scope() {
				return nil, false
			}
			return []string{core.BaseName(v)}, true
		}
		// a helper of the package whose body is a single `return <such a disjunction>`
		if fn := core.Callee(info, call); fn != nil && fn.Pkg() == syn.Types && depth < 2 {
			hd, _ := p.DeclOf(fn)
			if hd != nil && hd.Body != nil && len(hd.Body.List) == 1 {
				if rs, ok := hd.Body.List[0].(*ast.ReturnStmt); ok && len(rs.Results) == 1 {
					return classNames(rs.Results[0], depth+1)
				}
			}
		}
		return nil, false
	}
	n := 0
	ord := map[string]int{}
	var visitCond func(e ast.Expr)
	visitCond = func(e ast.Expr) {
		e = ast.Unparen(e)
		if be, ok := e.(*ast.BinaryExpr); ok && be.Op == token.LOR {
			visitCond(be.X)
			visitCond(be.Y)
			return
		}
		cjs := conjuncts(e)
		kind := ""
		for _, cj := range cjs {
			if be, ok := ast.Unparen(cj).(*ast.BinaryExpr); ok && be.Op == token.EQL && core.FieldOf(info, be.X) == tField {
				if id, ok := ast.Unparen(be.Y).(*ast.Ident); ok {
					if k, ok := info.ObjectOf(id).(*types.Const); ok {
						if _, isB := boundaryClassTable[core.BaseName(k)]; isB {
							kind = core.BaseName(k)
						}
					}
				}
			}
		}
		if kind == "" {
			return
		}
		for _, cj := range cjs {
			set, ch := mentionsSetOrCh(cj)
			if !set && !ch {
				continue
			}
			n++
			ord[kind]++
			key := fmt.Sprintf("canBeMadeAtomic / %s arm #%d relates the loop to the boundary through a listed class or the dialect's word predicate", kind, ord[kind])
			if set {
				names, ok := classNames(cj, 0)
				if !ok {
					c.Bad(key, cj.Pos(), "`%s` is not an identity test against predefined classes: a predicate that inspects parts of the class (range end points, listed characters) does not show that EVERY member is a word character, and the loop loses the backtracking it needs when a member is not", types.ExprString(cj))
					continue
				}
				bad := ""
				for _, nm := range names {
					if _, listed := boundaryClassTable[kind][nm]; !listed {
						bad = nm
					}
				}
				if bad != "" {
					c.Bad(key, cj.Pos(), "%s is not a class recorded as consisting of word characters only (for %s)", bad, kind)
				} else {
					c.OK(key, cj.Pos(), "classes %v", names)
				}
				continue
			}
			// character form: [!]Pred(n.Ch)
			x := ast.Unparen(cj)
			if u, ok := x.(*ast.UnaryExpr); ok && u.Op == token.NOT {
				x = ast.Unparen(u.X)
			}
			call, ok := x.(*ast.CallExpr)
			fn := (*types.Func)(nil)
			if ok {
				fn = core.Callee(info, call)
			}
			c.Check(fn != nil && core.BaseName(fn) == boundaryPredTable[kind], key, cj.Pos(), "`%s`: expected the word predicate %s of this boundary's dialect applied to the loop's character", types.ExprString(cj), boundaryPredTable[kind])
		}
	}
	// canBeMadeAtomic and the helpers of the package it hands its tests to: conditions of ifs,
	// returned boolean expressions and the clauses of tagless switches
	unitsB := []*ast.FuncDecl{fd}
	for i := 0; i < len(unitsB) && i < 16; i++ {
		ast.Inspect(unitsB[i].Body, func(x ast.Node) bool {
			if call, ok := x.(*ast.CallExpr); ok {
				if fn := core.Callee(info, call); fn != nil && fn.Pkg() == syn.Types {
					if d, _ := p.DeclOf(fn); d != nil && d.Body != nil && strings.Contains(strings.ToLower(core.BaseName(fn)), "overlap") || (d != nil && d.Body != nil && i == 0 && strings.Contains(strings.ToLower(core.BaseName(fn)), "atomic")) {
						dup := false
						for _, u := range unitsB {
							if u == d {
								dup = true
							}
						}
						if !dup {
							unitsB = append(unitsB, d)
						}
					}
				}
			}
			return true
		})
	}
	for _, u := range unitsB {
		ast.Inspect(u.Body, func(x ast.Node) bool {
			switch y := x.(type) {
			case *ast.IfStmt:
				visitCond(y.Cond)
			case *ast.ReturnStmt:
				for _, r := range y.Results {
					if isBoolExpr(info, r) {
						visitCond(r)
					}
				}
			case *ast.CaseClause:
				for _, e := range y.List {
					if isBoolExpr(info, e) {
						visitCond(e)
					}
				}
			}
			return true
		})
	}
	if n == 0 {
		c.Anchor("boundary arms in canBeMadeAtomic")
		return
	}
	// the listed positive classes against the source
	// (a) DigitClass: its categories are among those IsWordChar tests
	wordCats := map[string]bool{}
	if wd, _ := p.DeclOf(p.LookupFunc("syntax", "IsWordChar")); wd != nil {
		ast.Inspect(wd.Body, func(x ast.Node) bool {
			if ie, ok := x.(*ast.IndexExpr); ok {
				if s, ok := stringLit(info, ie.Index); ok {
					wordCats[s] = true
				}
			}
			if sel, ok := x.(*ast.SelectorExpr); ok {
				if pk, ok := sel.X.(*ast.Ident); ok && pk.Name == "unicode" {
					wordCats[sel.Sel.Name] = true
				}
			}
			return true
		})
	}
	initOf := func(name string) *ast.CallExpr {
		v := p.LookupObj("syntax", name)
		if v == nil {
			return nil
		}
		for _, f := range syn.Syntax {
			for _, d := range f.Decls {
				gd, ok := d.(*ast.GenDecl)
				if !ok {
					continue
				}
				for _, sp := range gd.Specs {
					vs, ok := sp.(*ast.ValueSpec)
					if !ok {
						continue
					}
					for i, id := range vs.Names {
						if info.Defs[id] == v && i < len(vs.Values) {
							call, _ := vs.Values[i].(*ast.CallExpr)
							return call
						}
					}
				}
			}
		}
		return nil
	}
	if call := initOf("DigitClass"); call != nil && len(call.Args) >= 3 {
		okAll := true
		var cats []string
		for _, a := range call.Args[2:] {
			s, ok := stringLit(info, a)
			cats = append(cats, s)
			if !ok || !wordCats[s] {
				okAll = false
			}
		}
		neg := false
		for _, a := range call.Args[:2] {
			if tv, ok := info.Types[a]; ok && tv.Value != nil && tv.Value.String() == "true" {
				neg = true
			}
		}
		c.Check(okAll && !neg, "DigitClass / consists of word characters only", call.Pos(), "categories %v, negated %v; categories IsWordChar tests: %d", cats, neg, len(wordCats))
	} else {
		c.Anchor("initialiser of syntax.DigitClass")
	}
	// (b) ECMADigitClass ranges inside ECMAWordClass ranges
	runesOf := func(name string) ([]int64, bool) {
		call := initOf(name)
		if call == nil || len(call.Args) < 1 {
			return nil, false
		}
		id, ok := ast.Unparen(call.Args[0]).(*ast.Ident)
		if !ok {
			return nil, false
		}
		tbl := info.ObjectOf(id)
		for _, f := range syn.Syntax {
			for _, d := range f.Decls {
				gd, ok := d.(*ast.GenDecl)
				if !ok {
					continue
				}
				for _, sp := range gd.Specs {
					vs, ok := sp.(*ast.ValueSpec)
					if !ok {
						continue
					}
					for i, vid := range vs.Names {
						if info.Defs[vid] == tbl && i < len(vs.Values) {
							cl, ok := vs.Values[i].(*ast.CompositeLit)
							if !ok {
								return nil, false
							}
							var out []int64
							for _, e := range cl.Elts {
								k, ok := core.ConstInt(info, e)
								if !ok {
									return nil, false
								}
								out = append(out, k)
							}
							return out, true
						}
					}
				}
			}
		}
		return nil, false
	}
	dg, ok1 := runesOf("ECMADigitClass")
	wd, ok2 := runesOf("ECMAWordClass")
	if !ok1 || !ok2 || len(dg)%2 != 0 || len(wd)%2 != 0 {
		c.Anchor("range tables of ECMADigitClass / ECMAWordClass")
		return
	}
	inside := true
	for i := 0; i+1 < len(dg); i += 2 {
		cov := false
		for j := 0; j+1 < len(wd); j += 2 {
			if wd[j] <= dg[i] && dg[i+1] <= wd[j+1] {
				cov = true
			}
		}
		if !cov {
			inside = false
		}
	}
	c.Check(inside, "ECMADigitClass / consists of ECMAScript word characters only", token.NoPos, "digit ranges %v, word ranges %v (half-open pairs)", dg, wd)
}

// ---------------------------------------------------------------------------
// R-DISTINCT: knownDistinctSets asserts "these two classes share no
// character" without looking at their members; MayOverlap answers "no
// overlap" on its word, and the auto-atomic rewrite removes backtracking on
// MayOverlap's.  The only sound basis is identity of BOTH operands with
// predefined classes, and every pair so listed is evaluated here, from the
// classes' own initialisers in the source and the Unicode tables of the
// toolchain, over all code points.  Reasoning by category names ("\w has no
// punctuation") is refused: \w contains Pc.
// ---------------------------------------------------------------------------

// predefClassEval builds a membership predicate for a predefined class from
// its initialiser: getCharSetFromCategoryString(negSet, negCat, cats...) or
// getCharSetFromOldString(table, negate).
func predefClassEval(c *core.Ctx, name string) (func(rune) bool, bool) {
	p := c.P
	syn := p.Pkg("syntax")
	info := syn.TypesInfo
	findInit := func(obj types.Object) ast.Expr {
		for _, f := range syn.Syntax {
			for _, d := range f.Decls {
				gd, ok := d.(*ast.GenDecl)
				if !ok {
					continue
				}
				for _, sp := range gd.Specs {
					vs, ok := sp.(*ast.ValueSpec)
					if !ok {
						continue
					}
					for i, id := range vs.Names {
						if info.Defs[id] == obj && i < len(vs.Values) {
							return vs.Values[i]
						}
					}
				}
			}
		}
		return nil
	}
	v := p.LookupObj("syntax", name)
	if v == nil {
		return nil, false
	}
	call, _ := findInit(v).(*ast.CallExpr)
	if call == nil {
		return nil, false
	}
	fn := core.Callee(info, call)
	if fn == nil {
		return nil, false
	}
	boolArg := func(e ast.Expr) (bool, bool) {
		tv, ok := info.Types[e]
		if !ok || tv.Value == nil {
			return false, false
		}
		return tv.Value.String() == "true", true
	}
	switch core.BaseName(fn) {
	case "getCharSetFromCategoryString":
		if len(call.Args) < 3 {
			return nil, false
		}
		negSet, ok1 := boolArg(call.Args[0])
		negCat, ok2 := boolArg(call.Args[1])
		if !ok1 || !ok2 {
			return nil, false
		}
		// the word pseudo-category as IsWordChar defines it
		wordCats := []*unicode.RangeTable{}
		wordExtra := map[rune]bool{}
		if wd, _ := p.DeclOf(p.LookupFunc("syntax", "IsWordChar")); wd != nil {
			ast.Inspect(wd.Body, func(x ast.Node) bool {
				if ie, ok := x.(*ast.IndexExpr); ok {
					if s, ok := stringLit(info, ie.Index); ok {
						if t := unicode.Categories[s]; t != nil {
							wordCats = append(wordCats, t)
						}
					}
				}
				if bl, ok := x.(*ast.BasicLit); ok && bl.Kind == token.CHAR {
					if k, ok := core.ConstInt(info, bl); ok {
						wordExtra[rune(k)] = true
					}
				}
				return true
			})
		}
		wordText, _ := p.LookupObj("syntax", "WordCategoryText").(*types.Const)
		spaceText, _ := p.LookupObj("syntax", "SpaceCategoryText").(*types.Const)
		if wordText == nil || spaceText == nil || len(wordCats) == 0 {
			return nil, false
		}
		unq := func(k *types.Const) string { s, _ := strconv.Unquote(k.Val().ExactString()); return s }
		var preds []func(rune) bool
		for _, a := range call.Args[2:] {
			s, ok := stringLit(info, a)
			if !ok {
				return nil, false
			}
			switch {
			case s == unq(wordText):
				preds = append(preds, func(r rune) bool { return unicode.In(r, wordCats...) || wordExtra[r] })
			case s == unq(spaceText):
				preds = append(preds, unicode.IsSpace)
			default:
				t := unicode.Categories[s]
				if t == nil {
					return nil, false
				}
				preds = append(preds, func(r rune) bool { return unicode.Is(t, r) })
			}
		}
		return func(r rune) bool {
			in := false
			for _, pr := range preds {
				if pr(r) != negCat {
					in = true
				}
			}
			return in != negSet
		}, true
	case "getCharSetFromOldString":
		if len(call.Args) != 2 {
			return nil, false
		}
		neg, ok := boolArg(call.Args[1])
		if !ok {
			return nil, false
		}
		var cl *ast.CompositeLit
		switch a := ast.Unparen(call.Args[0]).(type) {
		case *ast.CompositeLit:
			cl = a
		case *ast.Ident:
			cl, _ = findInit(info.ObjectOf(a)).(*ast.CompositeLit)
		}
		if cl == nil {
			return nil, false
		}
		var bounds []rune
		for _, e := range cl.Elts {
			k, ok := core.ConstInt(info, e)
			if !ok {
				return nil, false
			}
			bounds = append(bounds, rune(k))
		}
		// the old string format: alternating starts of "in" and "out" stretches
		return func(r rune) bool {
			in := false
			for _, b := range bounds {
				if r >= b {
					in = !in
				} else {
					break
				}
			}
			return in != neg
		}, true
	}
	return nil, false
}

func RDistinct(c *core.Ctx) {
	c.Rule("R-DISTINCT", "knownDistinctSets concludes 'no common character' only from identity of BOTH operands with predefined classes (a conjunction of two Equals-disjunctions, directly, under an if, or through boolean locals), and every pair of classes so listed is disjoint when the two are evaluated from their initialisers over all code points; no conclusion is drawn from category names or tables", 4)
	p := c.P
	syn := p.Pkg("syntax")
	info := syn.TypesInfo
	kd := p.LookupFunc("syntax", "knownDistinctSets")
	fd, _ := p.DeclOf(kd)
	equals := p.LookupFunc("syntax", "CharSet.Equals")
	if fd == nil || equals == nil || fd.Type.Params == nil {
		c.Anchor("syntax.knownDistinctSets / CharSet.Equals")
		return
	}
	c.Visit("syntax.knownDistinctSets")
	var params []types.Object
	for _, f := range fd.Type.Params.List {
		for _, id := range f.Names {
			params = append(params, info.ObjectOf(id))
		}
	}
	if len(params) != 2 {
		c.Anchor("the two parameters of knownDistinctSets")
		return
	}
	// Semantic reading of the function: its atoms are the identity tests `param.Equals(Class())`;
	// the body is evaluated (if / return / boolean locals, !, &&, ||) for every truth assignment of
	// the atoms.  The form is accepted when every assignment that makes the function answer true
	// contains an identity of BOTH operands with listed classes — whatever the spelling (one
	// expression, guard clauses, De Morgan, locals).  Anything the evaluator cannot read (loops,
	// category tables, other predicates) may influence the answer and is refused.
	type atom struct {
		prm   int
		class string
	}
	var atoms []atom
	atomIndex := map[atom]int{}
	atomOf := func(e ast.Expr) (int, bool) {
		call, ok := ast.Unparen(e).(*ast.CallExpr)
		if !ok || !core.IsCallTo(info, call, equals) || len(call.Args) != 1 {
			return 0, false
		}
		sel, ok := call.Fun.(*ast.SelectorExpr)
		if !ok {
			return 0, false
		}
		rid, ok := ast.Unparen(sel.X).(*ast.Ident)
		if !ok {
			return 0, false
		}
		which := -1
		for i, prm := range params {
			if info.ObjectOf(rid) == prm {
				which = i
			}
		}
		inner, ok := ast.Unparen(call.Args[0]).(*ast.CallExpr)
		if !ok || len(inner.Args) != 0 || which < 0 {
			return 0, false
		}
		id, ok := ast.Unparen(inner.Fun).(*ast.Ident)
		if !ok {
			return 0, false
		}
		v, ok := info.ObjectOf(id).(*types.Var)
		if !ok || v.Parent() != syn.Types.Scope() {
			return 0, false
		}
		a := atom{which, core.BaseName(v)}
		if k, seen := atomIndex[a]; seen {
			return k, true
		}
		atomIndex[a] = len(atoms)
		atoms = append(atoms, a)
		return len(atoms) - 1, true
	}
	// first pass: collect atoms
	ast.Inspect(fd.Body, func(x ast.Node) bool {
		if e, ok := x.(ast.Expr); ok {
			atomOf(e)
		}
		return true
	})
	formOK := true
	var badAt token.Pos
	unknown := func(pos token.Pos) {
		if formOK {
			formOK, badAt = false, pos
		}
	}
	var evalExpr func(e ast.Expr, asg uint, env map[types.Object]bool) bool
	evalExpr = func(e ast.Expr, asg uint, env map[types.Object]bool) bool {
		e = ast.Unparen(e)
		if tv, ok := info.Types[e]; ok && tv.Value != nil {
			return tv.Value.String() == "true"
		}
		if k, ok := atomOf(e); ok {
			return asg&(1<<uint(k)) != 0
		}
		switch x := e.(type) {
		case *ast.Ident:
			if v, ok := env[info.ObjectOf(x)]; ok {
				return v
			}
		case *ast.UnaryExpr:
			if x.Op == token.NOT {
				return !evalExpr(x.X, asg, env)
			}
		case *ast.BinaryExpr:
			switch x.Op {
			case token.LAND:
				return evalExpr(x.X, asg, env) && evalExpr(x.Y, asg, env)
			case token.LOR:
				return evalExpr(x.X, asg, env) || evalExpr(x.Y, asg, env)
			}
		}
		unknown(e.Pos())
		return false
	}
	// evalStmts: (result, returned)
	var evalStmts func(list []ast.Stmt, asg uint, env map[types.Object]bool) (bool, bool)
	evalStmts = func(list []ast.Stmt, asg uint, env map[types.Object]bool) (bool, bool) {
		for _, st := range list {
			switch x := st.(type) {
			case *ast.ReturnStmt:
				if len(x.Results) != 1 {
					unknown(x.Pos())
					return false, true
				}
				return evalExpr(x.Results[0], asg, env), true
			case *ast.IfStmt:
				if x.Init != nil {
					unknown(x.Pos())
					return false, true
				}
				if evalExpr(x.Cond, asg, env) {
					if r, done := evalStmts(x.Body.List, asg, env); done {
						return r, true
					}
				} else if x.Else != nil {
					var el []ast.Stmt
					switch e := x.Else.(type) {
					case *ast.BlockStmt:
						el = e.List
					default:
						el = []ast.Stmt{e}
					}
					if r, done := evalStmts(el, asg, env); done {
						return r, true
					}
				}
			case *ast.AssignStmt:
				if len(x.Lhs) != len(x.Rhs) {
					unknown(x.Pos())
					return false, true
				}
				for i, l := range x.Lhs {
					id, ok := l.(*ast.Ident)
					if !ok || !isBoolExpr(info, x.Rhs[i]) {
						unknown(x.Pos())
						return false, true
					}
					env[info.ObjectOf(id)] = evalExpr(x.Rhs[i], asg, env)
				}
			case *ast.BlockStmt:
				if r, done := evalStmts(x.List, asg, env); done {
					return r, true
				}
			default:
				unknown(st.Pos())
				return false, true
			}
		}
		return false, false
	}
	type pair struct{ a, b string }
	var pairs []pair
	if len(atoms) == 0 || len(atoms) > 14 {
		unknown(fd.Pos())
	}
	listed := map[[2]int]bool{}
	if formOK {
		// pairs: only these two identities hold
		for i, a := range atoms {
			for j, b := range atoms {
				if a.prm != 0 || b.prm != 1 {
					continue
				}
				r, _ := evalStmts(fd.Body.List, (1<<uint(i))|(1<<uint(j)), map[types.Object]bool{})
				if r && formOK {
					listed[[2]int{i, j}] = true
					pairs = append(pairs, pair{a.class, b.class})
				}
			}
		}
		// every true answer is backed by a listed pair
		for asg := uint(0); asg < 1<<uint(len(atoms)) && formOK; asg++ {
			r, _ := evalStmts(fd.Body.List, asg, map[types.Object]bool{})
			if !r || !formOK {
				continue
			}
			backed := false
			for pr := range listed {
				if asg&(1<<uint(pr[0])) != 0 && asg&(1<<uint(pr[1])) != 0 {
					backed = true
				}
			}
			if !backed {
				formOK, badAt = false, fd.Pos()
			}
		}
	}
	if !formOK {
		c.Bad("knownDistinctSets / distinctness follows only from identity of both operands with predefined classes", badAt, "the function can answer from something other than `set1.Equals(A()) … && set2.Equals(B()) …` (this statement or expression is not an identity test, a boolean connective, a guard or a boolean local): a conclusion drawn from category names or tables is not checked against the characters (\\w contains the connector punctuation Pc; \\d and \\p{N} overlap)")
	} else {
		c.OK("knownDistinctSets / distinctness follows only from identity of both operands with predefined classes", fd.Pos(), "%d identity atoms, %d class pairs listed, all truth assignments evaluated", len(atoms), len(pairs))
	}
	evals := map[string]func(rune) bool{}
	for _, pr := range pairs {
		key := fmt.Sprintf("knownDistinctSets / %s and %s share no character", pr.a, pr.b)
		for _, nm := range []string{pr.a, pr.b} {
			if _, done := evals[nm]; !done {
				f, ok := predefClassEval(c, nm)
				if !ok {
					f = nil
				}
				evals[nm] = f
			}
		}
		fa, fb := evals[pr.a], evals[pr.b]
		if fa == nil || fb == nil {
			c.Unknown(key, fd.Pos(), "the initialiser of one of the classes could not be evaluated")
			continue
		}
		common := rune(-1)
		for r := rune(0); r <= unicode.MaxRune; r++ {
			if fa(r) && fb(r) {
				common = r
				break
			}
		}
		c.Check(common < 0, key, fd.Pos(), "U+%04X is in both classes", common)
	}
	if len(pairs) == 0 && formOK {
		c.Anchor("class pairs in knownDistinctSets")
	}
}

// ---------------------------------------------------------------------------
// R-NOMATCHEXIT: the attempt loop gives up only when the scan position has
// run out of text.  Every `return nil, nil` of scan stands under a branch that
// reads the scan position (against the stop position, the end of the text or
// the minimum required length).  A shortcut that answers "no further match"
// from facts about the pattern alone (a leading \z or $ "can match only
// once") is wrong as soon as the fact has a second position — `$` matches
// before a final newline and at the very end.
// ---------------------------------------------------------------------------

func readsField(v ssa.Value, f *types.Var, depth int) bool {
	if v == nil || depth > 4 {
		return false
	}
	switch x := v.(type) {
	case *ssa.UnOp:
		if x.Op == token.MUL && core.FieldVarOfAddr(x.X) == f {
			return true
		}
		return readsField(x.X, f, depth+1)
	case *ssa.BinOp:
		return readsField(x.X, f, depth+1) || readsField(x.Y, f, depth+1)
	case *ssa.Convert:
		return readsField(x.X, f, depth+1)
	case *ssa.Phi:
		for _, e := range x.Edges {
			if readsField(e, f, depth+1) {
				return true
			}
		}
	case *ssa.Call:
		// a predicate of the module that reads the field (r.remainingShorterThan(n))
		if cal := x.Call.StaticCallee(); cal != nil && core.InModule(cal) && depth < 3 {
			for _, b := range cal.Blocks {
				for _, ins := range b.Instrs {
					if ld, ok := ins.(*ssa.UnOp); ok && ld.Op == token.MUL && core.FieldVarOfAddr(ld.X) == f {
						return true
					}
				}
			}
		}
	}
	return false
}

// returnsNilNilHelper: `return r.noMatch()` where every return of the helper is (nil, nil).
func returnsNilNilHelper(ret *ssa.Return) bool {
	ex0, ok0 := ret.Results[0].(*ssa.Extract)
	ex1, ok1 := ret.Results[1].(*ssa.Extract)
	if !ok0 || !ok1 || ex0.Tuple != ex1.Tuple {
		return false
	}
	call, ok := ex0.Tuple.(*ssa.Call)
	if !ok {
		return false
	}
	cal := call.Call.StaticCallee()
	if cal == nil || !core.InModule(cal) || len(cal.Blocks) == 0 {
		return false
	}
	n := 0
	for _, b := range cal.Blocks {
		r, ok := b.Instrs[len(b.Instrs)-1].(*ssa.Return)
		if !ok {
			continue
		}
		n++
		if len(r.Results) != 2 || !core.IsNilConst(r.Results[0]) || !core.IsNilConst(r.Results[1]) {
			return false
		}
	}
	return n > 0
}

func RNoMatchExit(c *core.Ctx) {
	c.Rule("R-NOMATCHEXIT", "every `return nil, nil` (no match, no error) of (*Runner).scan is dominated by a branch whose condition reads the scan position Runtextpos: the search is abandoned because the position ran out of text, never because of facts about the pattern alone", 3)
	p := c.P
	scan := p.SSAFunc(p.LookupFunc("", "Runner.scan"))
	pos := p.LookupField("", "Runner", "Runtextpos")
	if scan == nil || pos == nil {
		c.Anchor("regexp2.(*Runner).scan / Runner.Runtextpos")
		return
	}
	name := core.SSAName(scan)
	c.Visit(name)
	n := 0
	for _, b := range scan.Blocks {
		ret, ok := b.Instrs[len(b.Instrs)-1].(*ssa.Return)
		if !ok || len(ret.Results) != 2 {
			continue
		}
		if !(core.IsNilConst(ret.Results[0]) && core.IsNilConst(ret.Results[1])) && !returnsNilNilHelper(ret) {
			continue
		}
		n++
		byPos := false
		for _, f := range core.FactsAtBlock(b) {
			if readsField(f.Cond, pos, 0) {
				byPos = true
			}
		}
		c.Check(byPos, fmt.Sprintf("%s / 'no match' exit #%d is decided by the scan position", name, n), ret.Pos(), "none of the branch conditions this return stands under reads Runtextpos: the scan is given up without the position having run out of text")
	}
	if n == 0 {
		c.Anchor("`return nil, nil` in scan")
	}
}

// ---------------------------------------------------------------------------
// R-VALIDFLAG: a field that is only meaningful when a companion flag is set
// is read only under that flag.  matchText.input is the caller's string for
// string entry points and EMPTY for rune-slice entry points
// (hasStringInput == false): len(t.input) read without the flag answers 0 for
// every rune-slice match.
// ---------------------------------------------------------------------------

var validFlagTable = []struct{ pkg, typ, field, flag, why string }{
	{"", "matchText", "input", "hasStringInput", "the original string exists only for string entry points; rune-slice entry points leave it empty"},
}

func RValidFlag(c *core.Ctx) {
	c.Rule("R-VALIDFLAG", "a field that is meaningful only when its companion flag is set (matchText.input / hasStringInput) is read only where that flag is known to be true for the same object: under a dominating test of the flag, or in a conjunction after it", 1)
	p := c.P
	n := 0
	for _, ent := range validFlagTable {
		field := p.LookupField(ent.pkg, ent.typ, ent.field)
		flag := p.LookupField(ent.pkg, ent.typ, ent.flag)
		if field == nil || flag == nil {
			c.Anchor(ent.typ + "." + ent.field + " / " + ent.typ + "." + ent.flag)
			continue
		}
		pk := p.Pkg(ent.pkg)
		info := pk.TypesInfo
		for _, fd := range p.FuncDecls(pk) {
			if fd.Body == nil || p.IsTestFile(fd.Pos()) {
				continue
			}
			name := core.DeclName(pk, fd)
			// writes: left sides of assignments
			lhs := map[ast.Expr]bool{}
			ast.Inspect(fd.Body, func(x ast.Node) bool {
				if as, ok := x.(*ast.AssignStmt); ok {
					for _, l := range as.Lhs {
						lhs[ast.Unparen(l)] = true
					}
				}
				return true
			})
			var g *core.Graph
			ord := 0
			ast.Inspect(fd.Body, func(x ast.Node) bool {
				sel, ok := x.(*ast.SelectorExpr)
				if !ok || core.FieldOf(info, sel) != field || lhs[sel] {
					return true
				}
				recv := types.ExprString(sel.X)
				if g == nil {
					g = core.NewGraph(info, fd.Body)
				}
				ord++
				n++
				c.Visit(name)
				guarded := false
				isFlagOf := func(e ast.Expr) bool {
					fs, ok := ast.Unparen(e).(*ast.SelectorExpr)
					return ok && core.FieldOf(info, fs) == flag && types.ExprString(fs.X) == recv
				}
				check := func(at ast.Node) {
					b, _ := g.BlockOf(at)
					if b == nil {
						return
					}
					for _, f := range g.FactsAt(b) {
						for _, cj := range conjunctsOrNegDisjuncts(f) {
							if cj.val && isFlagOf(cj.e) {
								guarded = true
							}
						}
					}
				}
				check(sel)
				if !guarded {
					if st := enclosingStmt(fd.Body, sel); st != nil {
						check(st)
						// `flag && … field …` inside one condition
						ast.Inspect(st, func(y ast.Node) bool {
							be, ok := y.(*ast.BinaryExpr)
							if !ok || be.Op != token.LAND || !(be.Y.Pos() <= sel.Pos() && sel.End() <= be.Y.End()) {
								return true
							}
							for _, cj := range conjuncts(be.X) {
								if isFlagOf(cj) {
									guarded = true
								}
							}
							return true
						})
					}
				}
				c.Check(guarded, fmt.Sprintf("%s / read #%d of %s.%s is under %s", name, ord, ent.typ, ent.field, ent.flag), sel.Pos(), "%s is read without knowing that %s.%s is true: %s", types.ExprString(sel), recv, ent.flag, ent.why)
				return true
			})
		}
	}
	if n == 0 {
		c.Anchor("reads of flag-guarded fields")
	}
}

// ---------------------------------------------------------------------------
// R-REFDEPTH: balancing groups leave REFERENCES in a group's capture list: a
// negative entry -3-t stands for "the capture in slot t".  The readers
// (matchIndex, matchLength, isMatched) follow exactly one such step, so a
// writer must never store a reference to a slot that holds a reference
// itself: wherever addMatch is given the encoding `-3 - t`, that call stands
// on the negative side of a test `…matches[c][t] < 0` (the positive side
// copies the existing reference instead).
// ---------------------------------------------------------------------------

func RRefDepth(c *core.Ctx) {
	c.Rule("R-REFDEPTH", "the readers of a group's capture list resolve one level of reference (-3-t → slot t); every addMatch that stores such a reference to slot t is on the false side of a test that slot t is itself a reference (matches[c][t] < 0), so references never chain", 1)
	p := c.P
	root := p.Pkg("")
	info := root.TypesInfo
	addMatch := p.LookupFunc("", "Match.addMatch")
	matches := p.LookupField("", "Match", "matches")
	mi, _ := p.DeclOf(p.LookupFunc("", "Match.matchIndex"))
	if addMatch == nil || matches == nil || mi == nil {
		c.Anchor("Match.addMatch / Match.matches / Match.matchIndex")
		return
	}
	// the decoding constant K of `-K - i` in the reader
	var decodeK int64 = -1
	oneLevel := true
	nIdx := 0
	ast.Inspect(mi.Body, func(x ast.Node) bool {
		if be, ok := x.(*ast.BinaryExpr); ok && be.Op == token.SUB {
			if k, ok := core.ConstInt(info, be.X); ok && k < 0 {
				decodeK = -k
			}
		}
		if rs, ok := x.(*ast.ReturnStmt); ok && len(rs.Results) == 1 {
			// a return of matches[..][-K-i] : one step; a loop would be several
			ast.Inspect(rs.Results[0], func(y ast.Node) bool {
				if _, ok := y.(*ast.IndexExpr); ok {
					nIdx++
				}
				return true
			})
		}
		if _, ok := x.(*ast.ForStmt); ok {
			oneLevel = false
		}
		return true
	})
	if decodeK < 0 {
		c.Anchor("the reference decoding `-K - i` in Match.matchIndex")
		return
	}
	if !oneLevel {
		c.OK("Match.matchIndex / resolves references in a loop", mi.Pos(), "chains are followed: the writers need no depth discipline")
		return
	}
	n := 0
	for _, fd := range p.FuncDecls(root) {
		if fd.Body == nil || p.IsTestFile(fd.Pos()) {
			continue
		}
		name := core.DeclName(root, fd)
		var g *core.Graph
		for _, call := range core.CallsIn(info, fd.Body, addMatch) {
			if len(call.Args) < 2 {
				continue
			}
			be, ok := ast.Unparen(call.Args[1]).(*ast.BinaryExpr)
			if !ok || be.Op != token.SUB {
				continue
			}
			if k, ok := core.ConstInt(info, be.X); !ok || -k != decodeK {
				continue
			}
			slot := types.ExprString(ast.Unparen(be.Y))
			n++
			c.Visit(name)
			if g == nil {
				g = core.NewGraph(info, fd.Body)
			}
			guarded := false
			if b, _ := g.BlockOf(call); b != nil {
				for _, f := range g.FactsAt(b) {
					if f.Value {
						continue
					}
					for _, cj := range conjuncts(f.Cond) {
						cmp, ok := ast.Unparen(cj).(*ast.BinaryExpr)
						if !ok || cmp.Op != token.LSS {
							continue
						}
						if k, ok := core.ConstInt(info, cmp.Y); !ok || k != 0 {
							continue
						}
						ie, ok := ast.Unparen(cmp.X).(*ast.IndexExpr)
						if !ok || types.ExprString(ast.Unparen(ie.Index)) != slot {
							continue
						}
						if inner, ok := ast.Unparen(ie.X).(*ast.IndexExpr); ok && core.FieldOf(info, inner.X) == matches {
							guarded = true
						}
					}
				}
			}
			c.Check(guarded, fmt.Sprintf("%s / reference to slot %s stored by addMatch #%d is not a reference to a reference", name, slot, n), call.Pos(), "`%s` is stored without being on the false side of `matches[c][%s] < 0`: when that slot holds a reference itself, matchIndex / matchLength (one step of resolution) read the inner marker as a text position", types.ExprString(call.Args[1]), slot)
		}
	}
	if n == 0 {
		c.Anchor("addMatch calls that store a reference (-K - slot)")
	}
}

// ---------------------------------------------------------------------------
// R-FOLDSRC: Replace and Split fold the MATCH SEQUENCE (FindStringMatch, then
// FindNextMatch): every match, empty ones next to a previous match included.
// The find-all calls return that sequence minus the empty matches adjacent to
// the preceding match, so nothing a fold is built on may obtain its matches
// from them: `x*` splits "axb" into "", "a", "", "b", "" — through
// FindAllStringIndex the third piece disappears.
// ---------------------------------------------------------------------------

func RFoldSrc(c *core.Ctx) {
	c.Rule("R-FOLDSRC", "nothing reachable from Regexp.Split, Regexp.Replace or Regexp.ReplaceFunc (VTA call graph) calls the find-all driver findAllRunesIndex or an exported FindAll* method: those drop empty matches adjacent to the previous match, the folds must see every match of the sequence", 3)
	p := c.P
	var roots []*ssa.Function
	for _, nm := range []string{"Regexp.Split", "Regexp.Replace", "Regexp.ReplaceFunc"} {
		f := p.SSAFunc(p.LookupFunc("", nm))
		if f == nil {
			c.Anchor("regexp2." + nm)
			return
		}
		roots = append(roots, f)
	}
	driver := p.SSAFunc(p.LookupFunc("", "Regexp.findAllRunesIndex"))
	if driver == nil {
		c.Anchor("regexp2.Regexp.findAllRunesIndex")
		return
	}
	filtered := map[*ssa.Function]bool{driver: true}
	for _, fn := range p.ModuleFuncs() {
		if core.FnPkgPath(fn) == core.PkgRoot && fn.Signature.Recv() != nil && strings.HasPrefix(core.BaseName(fn), "FindAll") {
			filtered[fn] = true
		}
	}
	for _, r := range roots {
		name := core.SSAName(r)
		c.Visit(name)
		reach := p.Reachable([]*ssa.Function{r})
		var hit *ssa.Function
		for f := range reach {
			if filtered[f] && (hit == nil || core.SSAName(f) < core.SSAName(hit)) {
				hit = f
			}
		}
		if hit != nil {
			c.Bad(name+" / folds the full match sequence, not a find-all result", r.Pos(), "%s is reachable from here: the find-all calls drop an empty match that touches the previous match, so pieces / replacements at those positions are lost", core.SSAName(hit))
		} else {
			c.OK(name+" / folds the full match sequence, not a find-all result", r.Pos(), "%d functions reachable, no find-all driver among them", len(reach))
		}
	}
}

// ---------------------------------------------------------------------------
// R-SENTCONST: "no timeout" is the constant math.MaxInt64.  The flag that
// switches the deadline machinery off for a scan (Runner.ignoreTimeout) is
// computed by comparing the scan's timeout with a CONSTANT; a comparison with
// a package-level variable (DefaultMatchTimeout is assignable by the program)
// makes every Regexp whose timeout happens to equal the current default run
// without a deadline.
// ---------------------------------------------------------------------------

func RSentConst(c *core.Ctx) {
	c.Rule("R-SENTCONST", "every value stored into Runner.ignoreTimeout is a boolean constant or the comparison of a duration with a constant (the MaxInt64 'no timeout' sentinel); never a comparison with a package-level variable", 1)
	p := c.P
	f := p.LookupField("", "Runner", "ignoreTimeout")
	if f == nil {
		c.Anchor("Runner.ignoreTimeout")
		return
	}
	n := 0
	unconv := func(v ssa.Value) ssa.Value {
		for {
			switch x := v.(type) {
			case *ssa.Convert:
				v = x.X
			case *ssa.ChangeType:
				v = x.X
			default:
				return v
			}
		}
	}
	for _, fn := range p.ModuleFuncs() {
		name := core.SSAName(fn)
		for _, b := range fn.Blocks {
			for _, ins := range b.Instrs {
				st, ok := ins.(*ssa.Store)
				if !ok || core.FieldVarOfAddr(st.Addr) != f {
					continue
				}
				n++
				c.Visit(name)
				key := fmt.Sprintf("%s / store #%d to ignoreTimeout compares with a constant", name, n)
				v := unconv(st.Val)
				if _, isC := v.(*ssa.Const); isC {
					c.OK(key, st.Pos(), "constant")
					continue
				}
				bin, ok := v.(*ssa.BinOp)
				if !ok || (bin.Op != token.EQL && bin.Op != token.NEQ) {
					c.Bad(key, st.Pos(), "not a comparison: %s", v.String())
					continue
				}
				_, xc := unconv(bin.X).(*ssa.Const)
				_, yc := unconv(bin.Y).(*ssa.Const)
				c.Check(xc || yc, key, st.Pos(), "`%s` compares the timeout with a value that is not a constant: the 'no timeout' sentinel is math.MaxInt64, whatever a package variable currently holds", bin.String())
			}
		}
	}
	if n == 0 {
		c.Anchor("stores to Runner.ignoreTimeout")
	}
}

// ---------------------------------------------------------------------------
// R-CRAWLPAIR: what a forward clause records on the crawl stack, its
// backtracking clause takes off again — the same number of entries under the
// same operand conditions.  The forward clause of Capturemark records one
// entry for a plain capture and one or two for a balancing group (always the
// popped group, and the capturing group when there is one, operand(0) != -1);
// the Back clause must call uncapture() exactly as often.  One too many pops
// the crawl stack below its floor (index out of range) or undoes a capture of
// an enclosing group.
// ---------------------------------------------------------------------------

type crawlEval struct {
	info   *types.Info
	p      *core.Program
	crawl  *types.Func
	uncap  *types.Func
	opnd   *types.Func
	env    map[string]bool         // atom "operand(k) != -1" -> value
	bind   map[types.Object]string // parameter -> "operand(k)"
	failed bool                    // could not be evaluated
}

// atomOf: e is `X != -1` / `X == -1` with X an operand(k) call or a parameter bound to one.
func (ce *crawlEval) atomOf(e ast.Expr) (string, bool, bool) {
	be, ok := ast.Unparen(e).(*ast.BinaryExpr)
	if !ok || (be.Op != token.NEQ && be.Op != token.EQL) {
		return "", false, false
	}
	if k, ok := core.ConstInt(ce.info, be.Y); !ok || k != -1 {
		return "", false, false
	}
	name := ""
	switch x := ast.Unparen(be.X).(type) {
	case *ast.CallExpr:
		if core.Callee(ce.info, x) == ce.opnd && len(x.Args) == 1 {
			if k, ok := core.ConstInt(ce.info, x.Args[0]); ok {
				name = fmt.Sprintf("operand(%d)", k)
			}
		}
	case *ast.Ident:
		name = ce.bind[ce.info.ObjectOf(x)]
	}
	if name == "" {
		return "", false, false
	}
	return name, be.Op == token.NEQ, true
}

// condVal: three-valued evaluation under env (known bool, or unknown)
func (ce *crawlEval) condVal(e ast.Expr) (val, known bool) {
	e = ast.Unparen(e)
	if name, pos, ok := ce.atomOf(e); ok {
		v, has := ce.env[name]
		if !has {
			return false, false
		}
		return v == pos, true
	}
	switch x := e.(type) {
	case *ast.UnaryExpr:
		if x.Op == token.NOT {
			v, k := ce.condVal(x.X)
			return !v, k
		}
	case *ast.BinaryExpr:
		if x.Op == token.LAND || x.Op == token.LOR {
			a, ka := ce.condVal(x.X)
			b, kb := ce.condVal(x.Y)
			and := x.Op == token.LAND
			switch {
			case ka && a != and: // false && _ , true || _
				return a, true
			case kb && b != and:
				return b, true
			case ka && kb:
				return b, true
			}
			return false, false
		}
	}
	return false, false
}

// counts returns the set of (pushes - pops) over the paths of stmts that do not leave by break/return-without-effect.
func (ce *crawlEval) counts(stmts []ast.Stmt, depth int) map[int]bool {
	cur := map[int]bool{0: true}
	add := func(set map[int]bool, d int) map[int]bool {
		out := map[int]bool{}
		for k := range set {
			out[k+d] = true
		}
		return out
	}
	seq := func(a, b map[int]bool) map[int]bool {
		out := map[int]bool{}
		for x := range a {
			for y := range b {
				out[x+y] = true
			}
		}
		return out
	}
	var exprDelta func(n ast.Node) map[int]bool
	exprDelta = func(n ast.Node) map[int]bool {
		res := map[int]bool{0: true}
		ast.Inspect(n, func(x ast.Node) bool {
			call, ok := x.(*ast.CallExpr)
			if !ok {
				return true
			}
			fn := core.Callee(ce.info, call)
			switch {
			case fn == nil:
			case fn == ce.crawl:
				res = add(res, 1)
			case fn == ce.uncap:
				res = add(res, -1)
			case fn.Pkg() != nil && fn.Pkg().Path() == core.PkgRoot && depth < 3:
				fd, _ := ce.p.DeclOf(fn)
				if fd != nil && fd.Body != nil && mentionsCrawl(ce, fd, 0) {
					// bind parameters that receive operand(k)
					saved := ce.bind
					nb := map[types.Object]string{}
					i := 0
					for _, f := range fd.Type.Params.List {
						for _, id := range f.Names {
							if i < len(call.Args) {
								if c2, ok := ast.Unparen(call.Args[i]).(*ast.CallExpr); ok && core.Callee(ce.info, c2) == ce.opnd && len(c2.Args) == 1 {
									if k, ok := core.ConstInt(ce.info, c2.Args[0]); ok {
										nb[ce.info.ObjectOf(id)] = fmt.Sprintf("operand(%d)", k)
									}
								}
							}
							i++
						}
					}
					ce.bind = nb
					res = seq(res, ce.counts(fd.Body.List, depth+1))
					ce.bind = saved
				}
			}
			return true
		})
		return res
	}
	for _, st := range stmts {
		if len(cur) == 0 {
			break
		}
		switch x := st.(type) {
		case *ast.IfStmt:
			v, known := ce.condVal(x.Cond)
			thenC := func() map[int]bool { return ce.counts(x.Body.List, depth) }
			elseC := func() map[int]bool {
				switch e := x.Else.(type) {
				case *ast.BlockStmt:
					return ce.counts(e.List, depth)
				case *ast.IfStmt:
					return ce.counts([]ast.Stmt{e}, depth)
				}
				return map[int]bool{0: true}
			}
			var br map[int]bool
			switch {
			case known && v:
				br = thenC()
			case known && !v:
				br = elseC()
			default:
				br = map[int]bool{}
				for k := range thenC() {
					br[k] = true
				}
				for k := range elseC() {
					br[k] = true
				}
			}
			cur = seq(cur, br)
		case *ast.BranchStmt:
			if x.Tok == token.BREAK {
				return map[int]bool{} // the clause is left on the failure path: nothing recorded counts
			}
		case *ast.ReturnStmt:
			return cur
		case *ast.ForStmt, *ast.RangeStmt, *ast.SwitchStmt:
			if mentionsCrawlNode(ce, st) {
				ce.failed = true
			}
		default:
			cur = seq(cur, exprDelta(st))
		}
	}
	return cur
}

func mentionsCrawlNode(ce *crawlEval, n ast.Node) bool {
	found := false
	ast.Inspect(n, func(x ast.Node) bool {
		if call, ok := x.(*ast.CallExpr); ok {
			fn := core.Callee(ce.info, call)
			if fn == ce.crawl || fn == ce.uncap {
				found = true
			}
		}
		return true
	})
	return found
}

func mentionsCrawl(ce *crawlEval, fd *ast.FuncDecl, depth int) bool {
	found := false
	ast.Inspect(fd.Body, func(x ast.Node) bool {
		call, ok := x.(*ast.CallExpr)
		if !ok || found {
			return !found
		}
		fn := core.Callee(ce.info, call)
		if fn == ce.crawl || fn == ce.uncap {
			found = true
		} else if fn != nil && fn.Pkg() != nil && fn.Pkg().Path() == core.PkgRoot && depth < 2 {
			if d, _ := ce.p.DeclOf(fn); d != nil && d.Body != nil && d != fd && mentionsCrawl(ce, d, depth+1) {
				found = true
			}
		}
		return true
	})
	return found
}

func RCrawlPair(c *core.Ctx) {
	c.Rule("R-CRAWLPAIR", "for every opcode whose forward clause records captures on the crawl stack (calls of crawl, through Capture / transferCapture), the |Back clause calls uncapture() exactly as many times, for each combination of the operand tests `operand(k) != -1` the two clauses branch on", 4)
	m := buildOpModel(c)
	if !m.ok {
		c.Anchor("bytecode model")
		return
	}
	p := c.P
	info := p.Pkg("").TypesInfo
	ce := &crawlEval{info: info, p: p, crawl: p.LookupFunc("", "Runner.crawl"), uncap: p.LookupFunc("", "Runner.uncapture"), opnd: p.LookupFunc("", "Runner.operand")}
	if ce.crawl == nil || ce.uncap == nil || ce.opnd == nil {
		c.Anchor("Runner.crawl / Runner.uncapture / Runner.operand")
		return
	}
	fwd := map[int64]*clause{}
	back := map[int64]*clause{}
	for _, cl := range m.clauses {
		for _, lab := range cl.labels {
			if !lab.back && !lab.back2 {
				fwd[lab.op] = cl
			} else if lab.back {
				back[lab.op] = cl
			}
		}
	}
	n := 0
	var ops []int64
	for op := range fwd {
		ops = append(ops, op)
	}
	sort.Slice(ops, func(i, j int) bool { return ops[i] < ops[j] })
	for _, op := range ops {
		cl := fwd[op]
		records := false
		ce.bind = map[types.Object]string{}
		for _, st := range cl.cc.Body {
			ast.Inspect(st, func(x ast.Node) bool {
				if call, ok := x.(*ast.CallExpr); ok {
					fn := core.Callee(info, call)
					if fn == ce.crawl {
						records = true
					} else if fn != nil && fn != ce.uncap && fn.Pkg() != nil && fn.Pkg().Path() == core.PkgRoot {
						if d, _ := p.DeclOf(fn); d != nil && d.Body != nil && mentionsCrawlPush(ce, d, 0) {
							records = true
						}
					}
				}
				return true
			})
		}
		if !records {
			continue
		}
		name := m.opName[op]
		c.Visit("regexp2.executeDefault")
		bcl := back[op]
		if bcl == nil {
			n++
			c.Bad(fmt.Sprintf("executeDefault / %s records captures and has a |Back clause that removes them", name), cl.cc.Pos(), "no |Back clause")
			continue
		}
		for _, a := range []bool{false, true} {
			for _, b := range []bool{false, true} {
				n++
				ce.env = map[string]bool{"operand(0)": a, "operand(1)": b}
				ce.failed = false
				ce.bind = map[types.Object]string{}
				f := ce.counts(cl.cc.Body, 0)
				ce.bind = map[types.Object]string{}
				bk := ce.counts(bcl.cc.Body, 0)
				key := fmt.Sprintf("executeDefault / %s under operand(0)!=-1:%v operand(1)!=-1:%v records as many crawl entries as %s|Back removes", name, a, b, name)
				if ce.failed || len(f) != 1 || len(bk) != 1 {
					if len(f) == 0 {
						// no successful forward path under this combination (e.g. a balancing group needs operand(1)): nothing to pair
						c.OK(key, cl.cc.Pos(), "no forward path records anything under this combination")
						continue
					}
					c.Unknown(key, cl.cc.Pos(), "the clauses could not be evaluated to one count each (forward %v, back %v)", intKeysOf(f), intKeysOf(bk))
					continue
				}
				var fv, bv int
				for k := range f {
					fv = k
				}
				for k := range bk {
					bv = k
				}
				c.Check(fv+bv == 0, key, bcl.cc.Pos(), "the forward clause records %d crawl entr(y/ies), the Back clause removes %d: backtracking through this instruction leaves the capture bookkeeping one off (index out of range on the crawl stack, or a capture of another group undone)", fv, -bv)
			}
		}
	}
	if n == 0 {
		c.Anchor("interpreter clauses that record captures")
	}
}

func mentionsCrawlPush(ce *crawlEval, fd *ast.FuncDecl, depth int) bool {
	found := false
	ast.Inspect(fd.Body, func(x ast.Node) bool {
		call, ok := x.(*ast.CallExpr)
		if !ok || found {
			return !found
		}
		fn := core.Callee(ce.info, call)
		if fn == ce.crawl {
			found = true
		} else if fn != nil && fn != ce.uncap && fn.Pkg() != nil && fn.Pkg().Path() == core.PkgRoot && depth < 2 {
			if d, _ := ce.p.DeclOf(fn); d != nil && d.Body != nil && d != fd && mentionsCrawlPush(ce, d, depth+1) {
				found = true
			}
		}
		return true
	})
	return found
}

func intKeysOf(m map[int]bool) []int {
	var out []int
	for k := range m {
		out = append(out, k)
	}
	sort.Ints(out)
	return out
}

// ---------------------------------------------------------------------------
// R-ANYSUB: "the class matches everything" (IsAnything / the anything flag)
// is a statement about the BASE of a class; [\s\S-[a]] is anything minus a.
// A transformation that has to reach the subtraction as well (the methods
// that recurse into c.sub: addCaseEquivalences, addLowercase …) may therefore
// not be skipped because the base is anything — unless the same condition
// also asks about the subtraction.
// ---------------------------------------------------------------------------

func RAnySub(c *core.Ctx) {
	c.Rule("R-ANYSUB", "no call of a CharSet method that propagates to the subtraction (one that calls itself on c.sub) stands under a condition that tests IsAnything() / the anything flag without also consulting the subtraction (HasSubtraction, .sub): 'anything' describes the base only", 2)
	p := c.P
	syn := p.Pkg("syntax")
	info := syn.TypesInfo
	subF := p.LookupField("syntax", "CharSet", "sub")
	anyF := p.LookupField("syntax", "CharSet", "anything")
	isAny := p.LookupFunc("syntax", "CharSet.IsAnything")
	hasSub := p.LookupFunc("syntax", "CharSet.HasSubtraction")
	if subF == nil || anyF == nil || isAny == nil {
		c.Anchor("CharSet.sub / CharSet.anything / CharSet.IsAnything")
		return
	}
	// methods that recurse into the subtraction with themselves
	prop := map[*types.Func]bool{}
	for _, fd := range p.FuncDecls(syn) {
		if fd.Body == nil || fd.Recv == nil {
			continue
		}
		self, _ := info.Defs[fd.Name].(*types.Func)
		if self == nil {
			continue
		}
		if _, nm := core.NamedOf(self.Type().(*types.Signature).Recv().Type()); nm != "CharSet" {
			continue
		}
		ast.Inspect(fd.Body, func(x ast.Node) bool {
			call, ok := x.(*ast.CallExpr)
			if !ok || core.Callee(info, call) != self {
				return true
			}
			if sel, ok := call.Fun.(*ast.SelectorExpr); ok && core.FieldOf(info, sel.X) == subF {
				prop[self] = true
			}
			return true
		})
	}
	// ... and that change the class (observers such as equals answer conservatively when they stop early)
	var mutates func(f *ssa.Function, depth int) bool
	mutates = func(f *ssa.Function, depth int) bool {
		if f == nil || len(f.Params) == 0 || depth > 2 {
			return false
		}
		for _, b := range f.Blocks {
			for _, ins := range b.Instrs {
				switch x := ins.(type) {
				case *ssa.Store:
					if fa, ok := x.Addr.(*ssa.FieldAddr); ok && fa.X == ssa.Value(f.Params[0]) {
						return true
					}
				case *ssa.Call:
					if cal := x.Call.StaticCallee(); cal != nil && core.InModule(cal) && len(x.Call.Args) > 0 && x.Call.Args[0] == ssa.Value(f.Params[0]) && cal != f && mutates(cal, depth+1) {
						return true
					}
				}
			}
		}
		return false
	}
	for fn := range prop {
		if !mutates(p.SSAFunc(fn), 0) {
			delete(prop, fn)
		}
	}
	if len(prop) == 0 {
		c.Anchor("CharSet methods that call themselves on c.sub")
		return
	}
	n := 0
	for _, fd := range p.FuncDecls(syn) {
		if fd.Body == nil || p.IsTestFile(fd.Pos()) {
			continue
		}
		name := core.DeclName(syn, fd)
		var g *core.Graph
		ord := 0
		ast.Inspect(fd.Body, func(x ast.Node) bool {
			call, ok := x.(*ast.CallExpr)
			if !ok || !prop[core.Callee(info, call)] {
				return true
			}
			if sel, ok := call.Fun.(*ast.SelectorExpr); ok && core.FieldOf(info, sel.X) == subF {
				return true // the recursion itself
			}
			if g == nil {
				g = core.NewGraph(info, fd.Body)
			}
			n++
			ord++
			c.Visit(name)
			bad := ""
			var conds []ast.Expr
			if b, _ := g.BlockOf(call); b != nil {
				for _, f := range g.FactsAt(b) {
					conds = append(conds, f.Cond)
				}
			}
			if st := enclosingStmt(fd.Body, call); st != nil {
				if b, _ := g.BlockOf(st); b != nil {
					for _, f := range g.FactsAt(b) {
						conds = append(conds, f.Cond)
					}
				}
			}
			for _, cond := range conds {
				any, sub := false, false
				ast.Inspect(cond, func(y ast.Node) bool {
					switch z := y.(type) {
					case *ast.CallExpr:
						fn := core.Callee(info, z)
						if fn == isAny {
							any = true
						}
						if fn != nil && fn == hasSub {
							sub = true
						}
					case *ast.SelectorExpr:
						switch core.FieldOf(info, z) {
						case anyF:
							any = true
						case subF:
							sub = true
						}
					}
					return true
				})
				if any && !sub {
					bad = types.ExprString(cond)
				}
			}
			// inside CharSet's own methods the flag is tested on the receiver and the method goes on to c.sub itself (R-SUBFIRST)
			if fd.Recv != nil {
				if self, _ := info.Defs[fd.Name].(*types.Func); self != nil && prop[self] {
					bad = ""
				}
			}
			c.Check(bad == "", fmt.Sprintf("%s / call #%d of %s is not skipped on 'anything' alone", name, ord, core.Callee(info, call).Name()), call.Pos(),
				"the call stands under `%s`: a class whose base is anything can still have a subtraction ([\\s\\S-[a]]), which this transformation has to reach", bad)
			return true
		})
	}
	if n == 0 {
		c.Anchor("calls of subtraction-propagating CharSet methods")
	}
}

// ---------------------------------------------------------------------------
// R-RANGEBYTE: in `for i, r := range s` over a string, i is a BYTE offset and
// r may be several bytes wide.  `i + 1` as "the position after r" is right
// only for one-byte runes: it has to stand under a test that r is ASCII
// (r < utf8.RuneSelf), or be written with the rune's width.  Escape copying
// `input[start:i]` and resuming at `start = i + 1` emits the continuation
// bytes of every escaped multi-byte rune.
// ---------------------------------------------------------------------------

func RRangeByte(c *core.Ctx) {
	c.Rule("R-RANGEBYTE", "inside `for i, r := range <string>` the byte offset i is advanced past r by a constant (`i + 1`) only where r is known to be a one-byte rune (a dominating r < utf8.RuneSelf / r <= 0x7f test); otherwise the rune's width has to be used", 0)
	p := c.P
	n, examined := 0, 0
	for _, pk := range p.ModulePkgs() {
		info := pk.TypesInfo
		for _, fd := range p.FuncDecls(pk) {
			if fd.Body == nil || p.IsTestFile(fd.Pos()) {
				continue
			}
			name := core.DeclName(pk, fd)
			var g *core.Graph
			ast.Inspect(fd.Body, func(x ast.Node) bool {
				rs, ok := x.(*ast.RangeStmt)
				if !ok || rs.Key == nil || rs.Value == nil {
					return true
				}
				bt, ok := info.TypeOf(rs.X).Underlying().(*types.Basic)
				if !ok || bt.Info()&types.IsString == 0 {
					return true
				}
				kid, ok1 := rs.Key.(*ast.Ident)
				vid, ok2 := rs.Value.(*ast.Ident)
				if !ok1 || !ok2 || kid.Name == "_" || vid.Name == "_" {
					return true
				}
				examined++
				ki, vi := info.ObjectOf(kid), info.ObjectOf(vid)
				ast.Inspect(rs.Body, func(y ast.Node) bool {
					be, ok := y.(*ast.BinaryExpr)
					if !ok || be.Op != token.ADD {
						return true
					}
					id, ok := ast.Unparen(be.X).(*ast.Ident)
					if !ok || info.ObjectOf(id) != ki {
						return true
					}
					if k, ok := core.ConstInt(info, be.Y); !ok || k < 1 || k > 4 {
						return true
					}
					// only where the sum is a position in the string: a slice bound of it, or kept for later
					if g == nil {
						g = core.NewGraph(info, fd.Body)
					}
					ascii := false
					check := func(at ast.Node) {
						b, _ := g.BlockOf(at)
						if b == nil {
							return
						}
						for _, f := range g.FactsAt(b) {
							for _, cj := range conjunctsOrNegDisjuncts(f) {
								cmp, ok := ast.Unparen(cj.e).(*ast.BinaryExpr)
								if !ok {
									continue
								}
								rid, ok := ast.Unparen(cmp.X).(*ast.Ident)
								if !ok || info.ObjectOf(rid) != vi {
									continue
								}
								k, ok := core.ConstInt(info, cmp.Y)
								if !ok {
									continue
								}
								switch {
								case cj.val && cmp.Op == token.LSS && k <= 0x80, cj.val && cmp.Op == token.LEQ && k <= 0x7f,
									!cj.val && cmp.Op == token.GEQ && k <= 0x80, !cj.val && cmp.Op == token.GTR && k <= 0x7f:
									ascii = true
								}
							}
						}
					}
					check(be)
					if st := enclosingStmt(fd.Body, be); st != nil && !ascii {
						check(st)
					}
					n++
					c.Visit(name)
					c.Check(ascii, fmt.Sprintf("%s / `%s` in a range over a string is under a one-byte test of %s #%d", name, types.ExprString(be), vid.Name, n), be.Pos(),
						"%s is the byte offset of the rune %s, which may be up to four bytes wide: `%s` points into the middle of a multi-byte rune", kid.Name, vid.Name, types.ExprString(be))
					return true
				})
				return true
			})
		}
	}
	c.Note("R-RANGEBYTE: %d range loops over strings with index and value examined", examined)
	if n == 0 {
		c.OK("module / no constant step past a rune in a range over a string", token.NoPos, "%d `for i, r := range <string>` loops examined; none computes i + constant", examined)
	}
}

// ---------------------------------------------------------------------------
// R-NOALIAS: no exported method of *Regexp hands out a slice or map that IS
// part of the compiled object.  The caller may sort, filter or overwrite what
// it gets (names[:0] filtering is idiomatic); if that is re.capslist itself,
// every later GroupNameFromNumber / Group.Name / GetGroupNames follows the
// mutation while the name->number map does not, and concurrent users race.
// ---------------------------------------------------------------------------

func RNoAlias(c *core.Ctx) {
	c.Rule("R-NOALIAS", "an exported method of *Regexp that returns a slice or a map returns a fresh one: no returned value is a field of the receiver (or of something reached from it), nor a re-slice of one", 2)
	p := c.P
	n := 0
	var rootedAt func(v ssa.Value, recv ssa.Value, depth int) bool
	rootedAt = func(v ssa.Value, recv ssa.Value, depth int) bool {
		if depth > 8 || v == nil {
			return false
		}
		if v == recv {
			return true
		}
		switch x := v.(type) {
		case *ssa.UnOp:
			if x.Op == token.MUL {
				return rootedAt(x.X, recv, depth+1)
			}
		case *ssa.FieldAddr:
			return rootedAt(x.X, recv, depth+1)
		case *ssa.Field:
			return rootedAt(x.X, recv, depth+1)
		case *ssa.IndexAddr:
			return rootedAt(x.X, recv, depth+1)
		case *ssa.Slice:
			return rootedAt(x.X, recv, depth+1)
		case *ssa.Phi:
			for _, e := range x.Edges {
				if rootedAt(e, recv, depth+1) {
					return true
				}
			}
		case *ssa.ChangeType:
			return rootedAt(x.X, recv, depth+1)
		case *ssa.Lookup:
			return rootedAt(x.X, recv, depth+1)
		}
		return false
	}
	for _, fn := range p.ModuleFuncs() {
		if core.FnPkgPath(fn) != core.PkgRoot || fn.Signature.Recv() == nil || fn.Object() == nil || !fn.Object().Exported() || len(fn.Params) == 0 {
			continue
		}
		if _, nm := core.NamedOf(fn.Signature.Recv().Type()); nm != "Regexp" {
			continue
		}
		res := fn.Signature.Results()
		var idx []int
		for i := 0; i < res.Len(); i++ {
			switch res.At(i).Type().Underlying().(type) {
			case *types.Slice, *types.Map:
				idx = append(idx, i)
			}
		}
		if len(idx) == 0 {
			continue
		}
		name := core.SSAName(fn)
		c.Visit(name)
		for _, i := range idx {
			n++
			var bad ssa.Instruction
			for _, b := range fn.Blocks {
				ret, ok := b.Instrs[len(b.Instrs)-1].(*ssa.Return)
				if !ok || i >= len(ret.Results) {
					continue
				}
				for _, l := range append(leaves(ret.Results[i]), ret.Results[i]) {
					if rootedAt(l, fn.Params[0], 0) {
						bad = ret
					}
				}
			}
			key := fmt.Sprintf("%s / result #%d is not storage of the compiled Regexp", name, i)
			if bad != nil {
				c.Bad(key, bad.Pos(), "the returned %s is (a slice of) a field reached from the receiver: a caller that sorts, filters in place or overwrites it changes the compiled expression for everyone", res.At(i).Type())
			} else {
				c.OK(key, fn.Pos(), "fresh value on every return")
			}
		}
	}
	if n == 0 {
		c.Anchor("exported *Regexp methods returning slices or maps")
	}
}

// ---------------------------------------------------------------------------
// R-CIEXACT: an ignore-case search returns the LEFTMOST occurrence in any
// case.  A case-sensitive search for the whole needle (strings.Index,
// bytes.Index, the package's own IndexOf …) finds the leftmost occurrence in
// ONE case, which may lie to the right of an occurrence in another case: used
// as a fast path it moves the candidate the prefix filter hands to the
// matcher ("ABC1 abc2" starts at 5).  Exact single-byte searches for both
// cases of one letter (IndexByte twice, minimum taken) are the sound form.
// ---------------------------------------------------------------------------

var exactMultiSearch = map[string]bool{
	"strings.Index": true, "strings.LastIndex": true, "strings.Contains": true, "strings.HasPrefix": true, "strings.HasSuffix": true, "strings.Cut": true,
	"bytes.Index": true, "bytes.LastIndex": true, "bytes.Contains": true, "bytes.HasPrefix": true, "bytes.HasSuffix": true, "bytes.Equal": false,
	"slices.Index": false,
}

func RCiExact(c *core.Ctx) {
	c.Rule("R-CIEXACT", "no function whose name says IgnoreCase hands its needle (a string / slice parameter) to a case-sensitive multi-character search (strings.Index, bytes.Index, strings.HasPrefix, the helpers' own exact IndexOf …): the leftmost exact-case occurrence is not the leftmost occurrence in any case", 0)
	p := c.P
	n, examined := 0, 0
	for _, pk := range p.ModulePkgs() {
		info := pk.TypesInfo
		for _, fd := range p.FuncDecls(pk) {
			if fd.Body == nil || p.IsTestFile(fd.Pos()) || fd.Type.Params == nil {
				continue
			}
			fnObj, _ := info.Defs[fd.Name].(*types.Func)
			if fnObj == nil || !strings.Contains(core.BaseName(fnObj), "IgnoreCase") {
				continue
			}
			examined++
			name := core.DeclName(pk, fd)
			params := map[types.Object]bool{}
			for _, f := range fd.Type.Params.List {
				for _, id := range f.Names {
					o := info.ObjectOf(id)
					switch t := o.Type().Underlying().(type) {
					case *types.Slice:
						params[o] = true
					case *types.Basic:
						if t.Info()&types.IsString != 0 {
							params[o] = true
						}
					}
				}
			}
			ast.Inspect(fd.Body, func(x ast.Node) bool {
				call, ok := x.(*ast.CallExpr)
				if !ok || len(call.Args) < 2 {
					return true
				}
				fn := core.Callee(info, call)
				if fn == nil {
					return true
				}
				exact := exactMultiSearch[fn.FullName()]
				// the module's own exact searches: an Index* helper that is not itself an IgnoreCase one and takes a slice needle
				if fn.Pkg() != nil && strings.HasPrefix(fn.Pkg().Path(), core.Mod) && strings.HasPrefix(core.BaseName(fn), "Index") && !strings.Contains(core.BaseName(fn), "IgnoreCase") && !strings.Contains(core.BaseName(fn), "Any") {
					if sig, ok := fn.Type().(*types.Signature); ok && sig.Params().Len() == 2 {
						if _, isSl := sig.Params().At(1).Type().Underlying().(*types.Slice); isSl {
							exact = true
						}
					}
				}
				if !exact {
					return true
				}
				// both haystack and needle come from the parameters (possibly re-sliced)
				fromParam := func(e ast.Expr) bool {
					for {
						switch y := ast.Unparen(e).(type) {
						case *ast.SliceExpr:
							e = y.X
							continue
						case *ast.Ident:
							return params[info.ObjectOf(y)]
						}
						return false
					}
				}
				if !fromParam(call.Args[len(call.Args)-1]) {
					return true
				}
				n++
				c.Visit(name)
				c.Bad(fmt.Sprintf("%s / case-sensitive search for the whole needle #%d", name, n), call.Pos(), "%s looks for the needle in exactly the case it was given: an occurrence in another case further left is skipped, so the result is not the leftmost ignore-case occurrence", types.ExprString(call))
				return true
			})
		}
	}
	c.Note("R-CIEXACT: %d IgnoreCase functions examined", examined)
	if examined == 0 {
		c.Anchor("functions named *IgnoreCase*")
		return
	}
	if n == 0 {
		c.OK("module / no ignore-case search falls back on a case-sensitive search for the whole needle", token.NoPos, "%d functions examined", examined)
	}
}

// ---------------------------------------------------------------------------
// R-FOLDPAIR: whether a case variant belongs into a class depends on the PAIR
// (the character it is a variant of, and the variant): "no folding across the
// ASCII boundary" is `(ch <= 0x7f) != (eq <= 0x7f)`.  A filter that looks at
// the variant alone (`eq > MaxASCII → skip`) also drops É for é and П for п.
// Wherever the variants returned by tryFindCaseEquivalences are walked, a
// branch that decides about a variant mentions the original character too.
// ---------------------------------------------------------------------------

func RFoldPair(c *core.Ctx) {
	c.Rule("R-FOLDPAIR", "in every loop over the result of tryFindCaseEquivalences(ch), a condition that mentions the variant also mentions ch (or there is no condition at all: every variant is added): a variant is never judged on its own", 1)
	p := c.P
	syn := p.Pkg("syntax")
	info := syn.TypesInfo
	tf := p.LookupFunc("syntax", "tryFindCaseEquivalences")
	if tf == nil {
		c.Anchor("syntax.tryFindCaseEquivalences")
		return
	}
	n := 0
	for _, fd := range p.FuncDecls(syn) {
		if fd.Body == nil || p.IsTestFile(fd.Pos()) {
			continue
		}
		name := core.DeclName(syn, fd)
		// locals assigned from the call, with the argument they were computed for
		src := map[types.Object]ast.Expr{}
		ast.Inspect(fd.Body, func(x ast.Node) bool {
			as, ok := x.(*ast.AssignStmt)
			if !ok || len(as.Lhs) != len(as.Rhs) {
				return true
			}
			for i, r := range as.Rhs {
				if call, ok := ast.Unparen(r).(*ast.CallExpr); ok && core.IsCallTo(info, call, tf) && len(call.Args) == 1 {
					if id, ok := as.Lhs[i].(*ast.Ident); ok {
						src[info.ObjectOf(id)] = call.Args[0]
					}
				}
			}
			return true
		})
		ast.Inspect(fd.Body, func(x ast.Node) bool {
			rs, ok := x.(*ast.RangeStmt)
			if !ok || rs.Value == nil {
				return true
			}
			var arg ast.Expr
			switch y := ast.Unparen(rs.X).(type) {
			case *ast.Ident:
				arg = src[info.ObjectOf(y)]
			case *ast.CallExpr:
				if core.IsCallTo(info, y, tf) && len(y.Args) == 1 {
					arg = y.Args[0]
				}
			}
			vid, ok := rs.Value.(*ast.Ident)
			if arg == nil || !ok {
				return true
			}
			n++
			c.Visit(name)
			variant := info.ObjectOf(vid)
			var origObjs []types.Object
			ast.Inspect(arg, func(y ast.Node) bool {
				if id, ok := y.(*ast.Ident); ok {
					if o := info.ObjectOf(id); o != nil {
						origObjs = append(origObjs, o)
					}
				}
				return true
			})
			bad := ""
			var badPos token.Pos
			ast.Inspect(rs.Body, func(y ast.Node) bool {
				var cond ast.Expr
				switch z := y.(type) {
				case *ast.IfStmt:
					cond = z.Cond
				case *ast.SwitchStmt:
					cond = z.Tag
				}
				if cond == nil {
					return true
				}
				hasVar, hasOrig := false, false
				ast.Inspect(cond, func(w ast.Node) bool {
					if id, ok := w.(*ast.Ident); ok {
						o := info.ObjectOf(id)
						if o == variant {
							hasVar = true
						}
						for _, oo := range origObjs {
							if o == oo {
								hasOrig = true
							}
						}
					}
					return true
				})
				if hasVar && !hasOrig {
					bad = types.ExprString(cond)
					badPos = cond.Pos()
				}
				return true
			})
			key := fmt.Sprintf("%s / variants of %s #%d are judged together with the character they belong to", name, types.ExprString(arg), n)
			if bad != "" {
				c.Bad(key, badPos, "`%s` decides about the variant %s without looking at %s: a rule about pairs (no fold across the ASCII boundary, keep only simple pairs) written on the variant alone drops the partners of characters it was not meant for", bad, vid.Name, types.ExprString(arg))
			} else {
				c.OK(key, rs.Pos(), "no condition on the variant alone")
			}
			return true
		})
	}
	if n == 0 {
		c.Anchor("loops over tryFindCaseEquivalences results")
	}
}

// ---------------------------------------------------------------------------
// R-LMSTART: the landmark-chain finder hands the matcher a candidate START.
// It finds the first occurrence of the first landmark and walks left from it:
// over the whitespace a landmark alternative may begin with, then over the
// characters of the leading loop.  Whatever it hands over must not lie to the
// right of a position where a match can start — the scan never comes back.
// Two structural conditions follow:
//   (1) where the occurrences of the alternatives are collected, the Start of
//       the result is the smallest Start (a comparison between two Start
//       values, as for End): `;` and `\s*;` match at the same core position
//       with different starts;
//   (2) the walk to the left uses the leading whitespace set of EVERY
//       alternative of the first landmark (a loop over its Alternatives that
//       reads LeadingWhitespaceSet): the occurrence found first (`\t`) may lie
//       inside the whitespace run of the alternative the match uses (`\s+=`).
// ---------------------------------------------------------------------------

func RLmStart(c *core.Ctx) {
	c.Rule("R-LMSTART", "the candidate start of the landmark-chain finder is never later than a possible match start: the occurrence collector keeps the smallest Start among the alternatives (a comparison between two Start values), and the function that stores the candidate rewinds over the leading whitespace set of every alternative of the first landmark (a loop over Alternatives reading LeadingWhitespaceSet, in it or in a helper it calls)", 2)
	p := c.P
	root := p.Pkg("regexp2")
	info := root.TypesInfo
	alts := p.LookupField("syntax", "RequiredLandmark", "Alternatives")
	startF := p.LookupField("regexp2", "requiredLandmarkMatch", "Start")
	endF := p.LookupField("regexp2", "requiredLandmarkMatch", "End")
	wsF := p.LookupField("syntax", "RequiredLandmarkAlternative", "LeadingWhitespaceSet")
	posF := p.LookupField("", "Runner", "Runtextpos")
	if alts == nil || startF == nil || endF == nil || wsF == nil || posF == nil {
		c.Anchor("RequiredLandmark.Alternatives / requiredLandmarkMatch.Start, End / RequiredLandmarkAlternative.LeadingWhitespaceSet / Runner.Runtextpos")
		return
	}
	var collectors []*types.Func
	n := 0
	for _, fd := range p.FuncDecls(root) {
		if fd.Body == nil || p.IsTestFile(fd.Pos()) {
			continue
		}
		name := core.DeclName(root, fd)
		collects := false
		ast.Inspect(fd.Body, func(x ast.Node) bool {
			rs, ok := x.(*ast.RangeStmt)
			if !ok || core.FieldOf(info, rs.X) != alts {
				return true
			}
			ast.Inspect(rs.Body, func(y ast.Node) bool {
				if sel, ok := y.(*ast.SelectorExpr); ok && core.FieldOf(info, sel) == endF {
					collects = true
				}
				return true
			})
			return true
		})
		if !collects {
			continue
		}
		fn, _ := info.Defs[fd.Name].(*types.Func)
		collectors = append(collectors, fn)
		n++
		c.Visit(name)
		cmp := false
		ast.Inspect(fd.Body, func(y ast.Node) bool {
			be, ok := y.(*ast.BinaryExpr)
			if !ok {
				return true
			}
			switch be.Op {
			case token.LSS, token.LEQ, token.GTR, token.GEQ:
				if core.FieldOf(info, be.X) == startF && core.FieldOf(info, be.Y) == startF {
					cmp = true
				}
			}
			return true
		})
		c.Check(cmp, name+" / keeps the smallest Start among the alternatives", fd.Pos(), "the Start of the result is the one of the first alternative that matched: another alternative at the same position may begin further left (`\\s*;` next to `;`), and the candidate handed to the matcher is then to the right of the real match start")
	}
	if n == 0 {
		c.Anchor("a function collecting occurrences of landmark alternatives")
		return
	}
	// (2) the function(s) that turn an occurrence into the scan position
	var readsAllWS func(fd *ast.FuncDecl, depth int) bool
	readsAllWS = func(fd *ast.FuncDecl, depth int) bool {
		found := false
		ast.Inspect(fd.Body, func(x ast.Node) bool {
			switch y := x.(type) {
			case *ast.RangeStmt:
				if core.FieldOf(info, y.X) == alts {
					ast.Inspect(y.Body, func(z ast.Node) bool {
						if sel, ok := z.(*ast.SelectorExpr); ok && core.FieldOf(info, sel) == wsF {
							found = true
						}
						return true
					})
				}
			case *ast.CallExpr:
				if fn := core.Callee(info, y); fn != nil && fn.Pkg() == root.Types && depth < 2 {
					isCollector := false
					for _, cf := range collectors {
						if cf == fn {
							isCollector = true
						}
					}
					if d, _ := p.DeclOf(fn); d != nil && d.Body != nil && d != fd && !isCollector && readsAllWS(d, depth+1) {
						found = true
					}
				}
			}
			return true
		})
		return found
	}
	m := 0
	for _, fd := range p.FuncDecls(root) {
		if fd.Body == nil || p.IsTestFile(fd.Pos()) {
			continue
		}
		callsCollector, storesPos := false, false
		ast.Inspect(fd.Body, func(x ast.Node) bool {
			switch y := x.(type) {
			case *ast.CallExpr:
				fn := core.Callee(info, y)
				for _, cf := range collectors {
					if fn == cf {
						callsCollector = true
					}
				}
			case *ast.AssignStmt:
				for _, l := range y.Lhs {
					if core.FieldOf(info, l) == posF {
						storesPos = true
					}
				}
			}
			return true
		})
		if !callsCollector || !storesPos {
			continue
		}
		m++
		name := core.DeclName(root, fd)
		c.Visit(name)
		c.Check(readsAllWS(fd, 0), name+" / the rewind to the candidate start covers the leading whitespace of every alternative", fd.Pos(), "the candidate is derived from the first occurrence found, using only that occurrence's own alternative: an occurrence of one alternative inside the whitespace run that another alternative would absorb (`\\t` inside `\\s+=`) moves the candidate past the real match start")
	}
	if m == 0 {
		c.Anchor("the function that stores a landmark-derived candidate into Runtextpos")
	}
}

// ---------------------------------------------------------------------------
// R-PRESCANSIB: the capture pre-scan and the main parse read the SAME text.
// scanCharSet runs in both (scanOnly = true / false).  What it does to the
// class may differ between the two modes; how far it moves through the pattern
// may not: wherever a branch on scanOnly contains calls that consume pattern
// text (a recursive scanCharSet for a subtraction, moveRight, the scan*
// helpers), the other side of that branch consumes the same.  Otherwise the
// pre-scan sees a `)` or `(` of a nested class as a group boundary and the two
// passes disagree on group numbers and on where inline options end.
// ---------------------------------------------------------------------------

func RPrescanSib(c *core.Ctx) {
	c.Rule("R-PRESCANSIB", "in every parser method with a scan-only mode parameter, each branch on that parameter consumes the same pattern text on both sides: the position-moving calls (moveRight*, textto, recursive scanCharSet, scan* helpers that move) under `!scanOnly` have their twins under `scanOnly`", 2)
	p := c.P
	syn := p.Pkg("syntax")
	info := syn.TypesInfo
	prims := map[*types.Func]bool{}
	for _, nm := range []string{"parser.moveRight", "parser.moveRightGetChar", "parser.moveLeft", "parser.textto"} {
		if f := p.LookupFunc("syntax", nm); f != nil {
			prims[f] = true
		}
	}
	if len(prims) < 3 {
		c.Anchor("the parser's position primitives")
		return
	}
	movesMemo := map[*types.Func]bool{}
	var moves func(fn *types.Func, depth int) bool
	moves = func(fn *types.Func, depth int) bool {
		if fn == nil {
			return false
		}
		if prims[fn] {
			return true
		}
		if v, ok := movesMemo[fn]; ok {
			return v
		}
		movesMemo[fn] = false
		if depth > 5 || fn.Pkg() != syn.Types {
			return false
		}
		fd, _ := p.DeclOf(fn)
		if fd == nil || fd.Body == nil {
			return false
		}
		res := false
		ast.Inspect(fd.Body, func(x ast.Node) bool {
			if call, ok := x.(*ast.CallExpr); ok && !res {
				if cal := core.Callee(info, call); cal != nil && cal != fn && moves(cal, depth+1) {
					res = true
				}
			}
			return !res
		})
		movesMemo[fn] = res
		return res
	}
	n := 0
	for _, fd := range p.FuncDecls(syn) {
		if fd.Body == nil || fd.Recv == nil || p.IsTestFile(fd.Pos()) || fd.Type.Params == nil {
			continue
		}
		self, _ := info.Defs[fd.Name].(*types.Func)
		// the mode parameter: a bool parameter named scanOnly (resolved through the baseline when renamed is not possible for parameters: matched by name)
		var mode types.Object
		for _, f := range fd.Type.Params.List {
			for _, id := range f.Names {
				if strings.EqualFold(id.Name, "scanOnly") {
					mode = info.ObjectOf(id)
				}
			}
		}
		if mode == nil {
			continue
		}
		name := core.DeclName(syn, fd)
		movers := func(n ast.Node) map[string]int {
			out := map[string]int{}
			if n == nil {
				return out
			}
			ast.Inspect(n, func(x ast.Node) bool {
				// do not descend into nested branches on the mode: they are judged on their own
				if ifs, ok := x.(*ast.IfStmt); ok && x != n {
					if modeTest(info, ifs.Cond, mode) != 0 {
						return false
					}
				}
				if call, ok := x.(*ast.CallExpr); ok {
					cal := core.Callee(info, call)
					if cal != nil && (cal == self || moves(cal, 0)) {
						out[core.BaseName(cal)]++
					}
				}
				return true
			})
			return out
		}
		ord := 0
		// what follows an `if mode { …; return }` in its statement list is the other side of the branch
		restOf := map[*ast.IfStmt][]ast.Stmt{}
		var lists func(n ast.Node)
		lists = func(n ast.Node) {
			ast.Inspect(n, func(x ast.Node) bool {
				var list []ast.Stmt
				switch b := x.(type) {
				case *ast.BlockStmt:
					list = b.List
				case *ast.CaseClause:
					list = b.Body
				}
				for i, st := range list {
					if ifs, ok := st.(*ast.IfStmt); ok && ifs.Else == nil && modeTest(info, ifs.Cond, mode) != 0 && len(ifs.Body.List) > 0 {
						switch l := ifs.Body.List[len(ifs.Body.List)-1].(type) {
						case *ast.ReturnStmt:
							restOf[ifs] = list[i+1:]
						case *ast.BranchStmt:
							if l.Tok == token.CONTINUE || l.Tok == token.BREAK {
								restOf[ifs] = list[i+1:]
							}
						}
					}
				}
				return true
			})
		}
		lists(fd.Body)
		moversOfList := func(list []ast.Stmt) map[string]int {
			out := map[string]int{}
			for _, st := range list {
				for k, v := range movers(st) {
					out[k] += v
				}
			}
			return out
		}
		ast.Inspect(fd.Body, func(x ast.Node) bool {
			ifs, ok := x.(*ast.IfStmt)
			if !ok {
				return true
			}
			pol := modeTest(info, ifs.Cond, mode)
			if pol == 0 {
				return true
			}
			var a, b map[string]int // a: main parse side, b: scan-only side
			var elseNode ast.Node
			if ifs.Else != nil {
				elseNode = ifs.Else
			}
			other := movers(elseNode)
			if rest, ok := restOf[ifs]; ok {
				other = moversOfList(rest)
			}
			if pol < 0 { // if !scanOnly { main } else { prescan }
				a, b = movers(ifs.Body), other
			} else {
				a, b = other, movers(ifs.Body)
			}
			if len(a) == 0 && len(b) == 0 {
				return true
			}
			n++
			ord++
			c.Visit(name)
			same := len(a) == len(b)
			for k, v := range a {
				if b[k] != v {
					same = false
				}
			}
			c.Check(same, fmt.Sprintf("%s / branch #%d on %s consumes the same pattern text in both modes", name, ord, mode.Name()), ifs.Pos(), "position-moving calls in the main parse: %v; in the pre-scan: %v — the pre-scan then stands at a different place in the pattern, reads members of a nested class as pattern syntax, and the two passes disagree on groups and option scopes", a, b)
			return true
		})
	}
	if n == 0 {
		c.Anchor("branches on a scanOnly parameter that consume pattern text")
	}
}

// modeTest: cond is `mode` (+1), `!mode` (-1) or something else (0).
func modeTest(info *types.Info, cond ast.Expr, mode types.Object) int {
	e := ast.Unparen(cond)
	if u, ok := e.(*ast.UnaryExpr); ok && u.Op == token.NOT {
		if id, ok := ast.Unparen(u.X).(*ast.Ident); ok && info.ObjectOf(id) == mode {
			return -1
		}
		return 0
	}
	if id, ok := e.(*ast.Ident); ok && info.ObjectOf(id) == mode {
		return 1
	}
	return 0
}
