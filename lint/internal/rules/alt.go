package rules

import (
	"fmt"
	"go/ast"
	"go/token"
	"go/types"

	"regexlint/internal/core"
)

// ---------------------------------------------------------------------------
// R-ALTALL: a fact about an alternation is a fact about EVERY branch.
//
// The analyses in package syntax that publish something for an Alternate node
// (a landmark, an anchor, a prefix, a set of first characters …) loop over
// node.Children.  Two shapes make the published fact cover only some of the
// branches, so that a match through an uncovered branch is lost:
//   (a) the loop skips a branch (`continue`) instead of giving up;
//   (b) the first branch is analysed before the loop, the others in it with
//       the same function, but their results are not compared with the first
//       one's (so different answers per branch are accepted and the first is
//       published for all).
// ---------------------------------------------------------------------------

func RAltAll(c *core.Ctx) {
	c.Rule("R-ALTALL", "in the compile-time analyses of package syntax (files prefix.go, prefixanalyzer.go, optimizations.go) every loop over the children of a node known to be an Alternate (a) contains no `continue` that skips a branch, and (b) when the first branch is analysed before the loop and the remaining ones inside it with the same function, compares each branch's result with the first branch's result", 6)
	p := c.P
	syn := p.Pkg("syntax")
	info := syn.TypesInfo
	children := p.LookupField("syntax", "RegexNode", "Children")
	tField := p.LookupField("syntax", "RegexNode", "T")
	alt, ok := constInScope(syn.Types, "NtAlternate")
	if children == nil || tField == nil || !ok {
		c.Anchor("RegexNode.Children / RegexNode.T / NtAlternate")
		return
	}
	files := map[string]bool{"prefix.go": true, "prefixanalyzer.go": true, "optimizations.go": true}
	n := 0
	for _, fd := range p.FuncDecls(syn) {
		if fd.Body == nil {
			continue
		}
		fname := p.Pos(fd.Pos())
		okFile := false
		for f := range files {
			if len(fname) >= len("syntax/"+f) && fname[:len("syntax/"+f)] == "syntax/"+f {
				okFile = true
			}
		}
		if !okFile {
			continue
		}
		name := core.DeclName(syn, fd)
		// base expression text of X in `X.Children`
		childrenBase := func(e ast.Expr) (string, bool) {
			se, ok := ast.Unparen(e).(*ast.SelectorExpr)
			if !ok || info.ObjectOf(se.Sel) != children {
				return "", false
			}
			return types.ExprString(se.X), true
		}
		// alternation context: (1) enclosing case clause with an NtAlternate label of a switch on base.T
		//                      (2) an earlier top-level `if base.T != NtAlternate { … return }`
		isAltLabel := func(cc *ast.CaseClause) bool {
			for _, e := range cc.List {
				if v, ok := core.ConstInt(info, e); ok && v == alt {
					return true
				}
			}
			return false
		}
		earlyGuard := map[string]token.Pos{}
		for _, st := range fd.Body.List {
			ifs, ok := st.(*ast.IfStmt)
			if !ok {
				continue
			}
			be, ok := ast.Unparen(ifs.Cond).(*ast.BinaryExpr)
			if !ok || be.Op != token.NEQ || core.FieldOf(info, be.X) != tField {
				continue
			}
			if v, ok := core.ConstInt(info, be.Y); !ok || v != alt {
				continue
			}
			if len(ifs.Body.List) > 0 && core.IsReturn(ifs.Body.List[len(ifs.Body.List)-1]) {
				earlyGuard[types.ExprString(ast.Unparen(be.X).(*ast.SelectorExpr).X)] = ifs.End()
			}
		}
		var stack []ast.Node
		cnt := 0
		ast.Inspect(fd.Body, func(x ast.Node) bool {
			if x == nil {
				stack = stack[:len(stack)-1]
				return true
			}
			stack = append(stack, x)
			var body *ast.BlockStmt
			var base string
			startsAtOne := false
			var loopVar types.Object // range value var or index var
			switch l := x.(type) {
			case *ast.RangeStmt:
				b, ok := childrenBase(l.X)
				if !ok {
					return true
				}
				base, body = b, l.Body
				if id, ok := l.Value.(*ast.Ident); ok {
					loopVar = info.ObjectOf(id)
				}
			case *ast.ForStmt:
				if l.Cond == nil {
					return true
				}
				found := false
				ast.Inspect(l.Cond, func(y ast.Node) bool {
					if call, ok := y.(*ast.CallExpr); ok {
						if id, ok := call.Fun.(*ast.Ident); ok && id.Name == "len" && len(call.Args) == 1 {
							if b, ok := childrenBase(call.Args[0]); ok {
								base, found = b, true
							}
						}
					}
					return true
				})
				if !found {
					return true
				}
				body = l.Body
				if as, ok := l.Init.(*ast.AssignStmt); ok && len(as.Lhs) == 1 && len(as.Rhs) == 1 {
					if id, ok := as.Lhs[0].(*ast.Ident); ok {
						loopVar = info.ObjectOf(id)
					}
					if k, ok := core.ConstInt(info, as.Rhs[0]); ok && k == 1 {
						startsAtOne = true
					}
				}
			default:
				return true
			}
			// context
			inAlt := false
			for i := len(stack) - 2; i >= 0; i-- {
				if cc, ok := stack[i].(*ast.CaseClause); ok && isAltLabel(cc) {
					// the switch tag must be base.T
					for j := i - 1; j >= 0; j-- {
						if sw, ok := stack[j].(*ast.SwitchStmt); ok {
							if sw.Tag != nil && core.FieldOf(info, sw.Tag) == tField {
								if se, ok := ast.Unparen(sw.Tag).(*ast.SelectorExpr); ok && types.ExprString(se.X) == base {
									inAlt = true
								}
							}
							break
						}
					}
					break
				}
			}
			if g, ok := earlyGuard[base]; ok && g < x.Pos() {
				inAlt = true
			}
			if !inAlt {
				return true
			}
			cnt++
			n++
			c.Visit(name)
			// (a) no continue of this loop
			var skip *ast.BranchStmt
			var walk func(nd ast.Node, depth int)
			walk = func(nd ast.Node, depth int) {
				ast.Inspect(nd, func(y ast.Node) bool {
					switch z := y.(type) {
					case *ast.FuncLit:
						return false
					case *ast.ForStmt, *ast.RangeStmt:
						if y != nd {
							return false // a continue inside a nested loop belongs to that loop
						}
					case *ast.BranchStmt:
						if z.Tok == token.CONTINUE && z.Label == nil && skip == nil {
							skip = z
						}
					}
					return true
				})
			}
			walk(body, 0)
			pos := x.Pos()
			detail := ""
			if skip != nil {
				pos = skip.Pos()
				detail = "`continue` at " + p.Pos(skip.Pos()) + " goes on to the next branch: the fact published for the alternation then ignores this branch, and a match through it contradicts the fact"
			}
			c.Check(skip == nil, fmt.Sprintf("%s / alternation loop #%d analyses every branch (no branch is skipped)", name, cnt), pos, "%s", detail)

			// (b) first branch before the loop, same analysis inside: results must be compared with the first one's
			if startsAtOne && loopVar != nil {
				// find `v := f(base.Children[0], …)` before the loop in the enclosing list
				var firstVar types.Object
				var firstFn *types.Func
				for i := len(stack) - 2; i >= 0 && firstVar == nil; i-- {
					var list []ast.Stmt
					switch b := stack[i].(type) {
					case *ast.BlockStmt:
						list = b.List
					case *ast.CaseClause:
						list = b.Body
					default:
						continue
					}
					for _, st := range list {
						if st.Pos() >= x.Pos() {
							break
						}
						as, ok := st.(*ast.AssignStmt)
						if !ok || len(as.Lhs) != 1 || len(as.Rhs) != 1 {
							continue
						}
						call, ok := as.Rhs[0].(*ast.CallExpr)
						if !ok || len(call.Args) == 0 {
							continue
						}
						ie, ok := ast.Unparen(call.Args[0]).(*ast.IndexExpr)
						if !ok {
							continue
						}
						if b, ok := childrenBase(ie.X); !ok || b != base {
							continue
						}
						if k, ok := core.ConstInt(info, ie.Index); !ok || k != 0 {
							continue
						}
						if id, ok := as.Lhs[0].(*ast.Ident); ok {
							firstVar, firstFn = info.ObjectOf(id), core.Callee(info, call)
						}
					}
					break
				}
				if firstVar != nil && firstFn != nil {
					compared, sameCall := false, false
					ast.Inspect(body, func(y ast.Node) bool {
						if call, ok := y.(*ast.CallExpr); ok && core.Callee(info, call) == firstFn {
							sameCall = true
						}
						if be, ok := y.(*ast.BinaryExpr); ok && (be.Op == token.EQL || be.Op == token.NEQ) {
							for _, side := range []ast.Expr{be.X, be.Y} {
								if id, ok := ast.Unparen(side).(*ast.Ident); ok && info.ObjectOf(id) == firstVar {
									compared = true
								}
							}
						}
						return true
					})
					if sameCall {
						c.Check(compared, fmt.Sprintf("%s / alternation loop #%d compares every branch's answer with the first branch's", name, cnt), x.Pos(),
							"the first branch's answer (%s) is published for the whole alternation, but the answers of the other branches are never compared with it", firstVar.Name())
					}
				}
			}
			return true
		})
	}
	if n == 0 {
		c.Anchor("loops over the children of an Alternate in the analysis files")
	}
}

// ---------------------------------------------------------------------------
// R-BUMPWALK: which nodes the bump-along walk may look through.
//
// finalOptimize walks down the left edge of the tree to find a leading
// unbounded single-character loop and, if it finds one, inserts
// UpdateBumpalong so that a failed attempt restarts after the loop's run
// instead of at every position inside it.  Skipping those positions is sound
// only if an attempt starting inside the run could not succeed where the
// attempt from its beginning failed.  That holds when the walk passed only
//   Atomic       (grouping without observable side effects)
//   Concatenate  (its first child starts where it starts)
// and fails when it looks through a Capture (a backreference reads how much
// the loop took: (\w*-)\1 on "ab-b-") or an Alternate (the loop is not
// guaranteed to be at the beginning).
// ---------------------------------------------------------------------------

func RBumpWalk(c *core.Ctx) {
	c.Rule("R-BUMPWALK", "the left-edge walk in finalOptimize that decides where UpdateBumpalong is inserted steps into a child (node = node.Children[0]) only under tests for the kinds Atomic and Concatenate; stepping through a Capture or an Alternate makes the skipped start positions observable (a backreference to the group, another branch)", 2)
	p := c.P
	syn := p.Pkg("syntax")
	info := syn.TypesInfo
	fd, _ := p.DeclOf(p.LookupFunc("syntax", "RegexNode.finalOptimize"))
	tField := p.LookupField("syntax", "RegexNode", "T")
	children := p.LookupField("syntax", "RegexNode", "Children")
	if fd == nil || tField == nil || children == nil {
		c.Anchor("syntax.RegexNode.finalOptimize / RegexNode.T / Children")
		return
	}
	c.Visit("syntax.(*RegexNode).finalOptimize")
	allowed := map[string]string{"NtAtomic": "no side effects visible outside, nothing refers to its inside", "NtConcatenate": "its first child starts at the same position"}
	reasons := map[string]string{
		"NtCapture":   "a backreference to the group reads how much the loop consumed, so an attempt that starts inside the loop's run can succeed where the one from its beginning failed ((\\w*-)\\1 on \"ab-b-\")",
		"NtAlternate": "the loop is only the beginning of one branch; the other branches may match from the skipped positions",
	}
	// descent statements: X = X.Children[0]
	isDescent := func(st ast.Stmt) bool {
		as, ok := st.(*ast.AssignStmt)
		if !ok || len(as.Lhs) != 1 || len(as.Rhs) != 1 {
			return false
		}
		ie, ok := ast.Unparen(as.Rhs[0]).(*ast.IndexExpr)
		if !ok || core.FieldOf(info, ie.X) != children {
			return false
		}
		se := ast.Unparen(ie.X).(*ast.SelectorExpr)
		return types.ExprString(se.X) == types.ExprString(as.Lhs[0])
	}
	n := 0
	ast.Inspect(fd.Body, func(x ast.Node) bool {
		loop, ok := x.(*ast.ForStmt)
		if !ok || loop.Cond != nil {
			return true
		}
		ast.Inspect(loop.Body, func(y ast.Node) bool {
			ifs, ok := y.(*ast.IfStmt)
			if !ok {
				return true
			}
			descends := false
			for _, st := range ifs.Body.List {
				if isDescent(st) {
					descends = true
				}
			}
			if !descends {
				return true
			}
			// kinds tested in the condition
			kinds := 0
			ast.Inspect(ifs.Cond, func(z ast.Node) bool {
				be, ok := z.(*ast.BinaryExpr)
				if !ok || be.Op != token.EQL || core.FieldOf(info, be.X) != tField {
					return true
				}
				id, ok := ast.Unparen(be.Y).(*ast.Ident)
				if !ok {
					return true
				}
				kinds++
				n++
				key := fmt.Sprintf("finalOptimize / the bump-along walk may step through %s", id.Name)
				if why, ok := allowed[id.Name]; ok {
					c.OK(key, be.Pos(), "%s", why)
				} else if why, ok := reasons[id.Name]; ok {
					c.Bad(key, be.Pos(), "%s", why)
				} else {
					c.Unknown(key, be.Pos(), "no soundness argument recorded for stepping through this kind")
				}
				return true
			})
			if kinds == 0 {
				n++
				c.Unknown("finalOptimize / a descent of the bump-along walk is guarded by a kind test", ifs.Pos(), "the walk steps into a child under a condition that is not a kind test: %s", types.ExprString(ifs.Cond))
			}
			return true
		})
		return true
	})
	if n == 0 {
		c.Anchor("the descent loop of finalOptimize")
		return
	}
	// A lazy loop that sits inside an atomic group cannot be extended by a failure outside the group: it stays at its
	// minimum, so the positions of its run are NOT all tried and must not be skipped.  The arm that steps through an
	// Atomic therefore has to record that fact in a variable which the lazy-loop condition tests.
	var atomicFlagSet []types.Object
	var lazyCond ast.Expr
	ast.Inspect(fd.Body, func(x ast.Node) bool {
		ifs, ok := x.(*ast.IfStmt)
		if !ok {
			return true
		}
		mentionsKind := func(e ast.Expr, name string) bool {
			found := false
			ast.Inspect(e, func(y ast.Node) bool {
				if id, ok := y.(*ast.Ident); ok && id.Name == name {
					found = true
				}
				return !found
			})
			return found
		}
		if mentionsKind(ifs.Cond, "NtAtomic") && !mentionsKind(ifs.Cond, "NtOnelazy") {
			for _, st := range ifs.Body.List {
				if as, ok := st.(*ast.AssignStmt); ok && len(as.Lhs) == 1 {
					if id, ok := as.Lhs[0].(*ast.Ident); ok {
						if obj := info.ObjectOf(id); obj != nil {
							if bt, ok := obj.Type().Underlying().(*types.Basic); ok && bt.Info()&types.IsBoolean != 0 {
								atomicFlagSet = append(atomicFlagSet, obj)
							}
						}
					}
				}
			}
		}
		if mentionsKind(ifs.Cond, "NtOnelazy") || mentionsKind(ifs.Cond, "NtSetlazy") {
			lazyCond = ifs.Cond
		}
		return true
	})
	if lazyCond == nil {
		c.Anchor("the lazy-loop condition of the bump-along walk")
		return
	}
	tested := false
	for _, obj := range atomicFlagSet {
		ast.Inspect(lazyCond, func(y ast.Node) bool {
			if id, ok := y.(*ast.Ident); ok && info.ObjectOf(id) == obj {
				tested = true
			}
			return true
		})
	}
	c.Check(tested, "finalOptimize / a lazy loop inside an Atomic gets no bump-along marker", lazyCond.Pos(),
		"the arm that steps through an Atomic records nothing that the lazy-loop condition tests: a lazy loop at the start of an atomic group stays at its minimum (failures outside the group cannot extend it), so the positions inside its run have not been tried when UpdateBumpalong lets the scan skip them ((?>a+?b*)c on \"aac\")")
}
