package rules

import (
	"fmt"
	"go/ast"
	"go/token"
	"go/types"
	"sort"
	"strings"

	"golang.org/x/tools/go/packages"

	"regexlint/internal/core"
)

// ---------------------------------------------------------------------------
// R-DIRCTX: left-to-right-only reasoning stays in left-to-right context.
//
// `X.Str[0]` read as "the rune adjacent to what precedes X" and
// FirstCharOfOneOrMulti() are only meaningful for nodes that are matched left
// to right: a right-to-left Multi is consumed from its last rune.  Every
// function of package syntax containing such a use must be direction-safe:
//   (a) the use is dominated by a branch on `…Options & RightToLeft` (the
//       function handles direction itself), or
//   (b) every call path from the package's entry points to the function passes
//       a call site that is dominated by such a branch (fixpoint over the
//       static call graph).
// ---------------------------------------------------------------------------

type dirUse struct {
	fd   *ast.FuncDecl
	fn   *types.Func
	pos  token.Pos
	what string
}

// mentionsRTL: expression contains `<x> & RightToLeft` (either operand order),
// or an identifier that was assigned from such an expression in the function.
func mentionsRTL(info *types.Info, e ast.Node, rtlConst types.Object, dirVars map[types.Object]bool) bool {
	found := false
	ast.Inspect(e, func(n ast.Node) bool {
		switch x := n.(type) {
		case *ast.BinaryExpr:
			// `x &^ RightToLeft` masks the bit OUT: it is not a test of the direction
			if x.Op == token.AND {
				for _, side := range []ast.Expr{x.X, x.Y} {
					if core.ObjOf(info, side) == rtlConst && rtlConst != nil {
						found = true
					}
				}
			}
		case *ast.Ident:
			if dirVars[info.ObjectOf(x)] {
				found = true
			}
		}
		return !found
	})
	return found
}

func directionVars(info *types.Info, fd *ast.FuncDecl, rtlConst types.Object) map[types.Object]bool {
	vars := map[types.Object]bool{}
	for changed := true; changed; {
		changed = false
		// a bool assigned inside the body of `if <direction test>` carries the direction too
		ast.Inspect(fd.Body, func(n ast.Node) bool {
			ifs, ok := n.(*ast.IfStmt)
			if !ok || !mentionsRTL(info, ifs.Cond, rtlConst, vars) {
				return true
			}
			ast.Inspect(ifs.Body, func(m ast.Node) bool {
				if as, ok := m.(*ast.AssignStmt); ok {
					for _, l := range as.Lhs {
						if id, ok := l.(*ast.Ident); ok {
							if obj := info.ObjectOf(id); obj != nil && !vars[obj] {
								if bt, ok := obj.Type().Underlying().(*types.Basic); ok && bt.Info()&types.IsBoolean != 0 {
									vars[obj] = true
									changed = true
								}
							}
						}
					}
				}
				return true
			})
			return true
		})
		ast.Inspect(fd.Body, func(n ast.Node) bool {
			as, ok := n.(*ast.AssignStmt)
			if !ok || len(as.Lhs) != len(as.Rhs) {
				return true
			}
			for i, l := range as.Lhs {
				id, ok := l.(*ast.Ident)
				if !ok {
					continue
				}
				obj := info.ObjectOf(id)
				if obj == nil || vars[obj] {
					continue
				}
				if bt, ok := obj.Type().Underlying().(*types.Basic); !ok || bt.Info()&types.IsBoolean == 0 {
					continue
				}
				if mentionsRTL(info, as.Rhs[i], rtlConst, vars) {
					vars[obj] = true
					changed = true
				}
			}
			return true
		})
	}
	return vars
}

// guardedByDirection: the node lies in a block that is only reached through a
// branch whose condition mentions the direction bit.
func guardedByDirection(info *types.Info, g *core.Graph, n ast.Node, rtlConst types.Object, dirVars map[types.Object]bool) bool {
	b, _ := g.BlockOf(n)
	if b == nil {
		return false
	}
	for _, f := range g.FactsAt(b) {
		if mentionsRTL(info, f.Cond, rtlConst, dirVars) {
			return true
		}
	}
	// go/cfg keeps a whole `a && b || c` condition as one node: operands to the
	// left of a short-circuit operator guard the operands to its right.
	for _, nd := range b.Nodes {
		if nd.Pos() <= n.Pos() && n.End() <= nd.End() {
			if e, ok := nd.(ast.Expr); ok {
				for _, left := range shortCircuitGuards(e, n.Pos()) {
					if mentionsRTL(info, left, rtlConst, dirVars) {
						return true
					}
				}
			}
		}
	}
	return false
}

// shortCircuitGuards returns the left operands of every && / || on the path
// from the root of e to the sub-expression at pos, when pos lies in the right
// operand (those left operands have been evaluated, with a known outcome,
// before the sub-expression runs).
func shortCircuitGuards(e ast.Expr, pos token.Pos) []ast.Expr {
	var out []ast.Expr
	for {
		e = ast.Unparen(e)
		be, ok := e.(*ast.BinaryExpr)
		if !ok || (be.Op != token.LAND && be.Op != token.LOR) {
			return out
		}
		if be.Y.Pos() <= pos && pos < be.Y.End() {
			out = append(out, be.X)
			e = be.Y
		} else if be.X.Pos() <= pos && pos < be.X.End() {
			e = be.X
		} else {
			return out
		}
	}
}

func RDirCtx(c *core.Ctx) {
	c.Rule("R-DIRCTX", "every use of `X.Str[0]` or FirstCharOfOneOrMulti() on a RegexNode (the rune assumed adjacent to the preceding node) is either dominated by a branch on Options&RightToLeft, or sits in a function that is reached from the package entry points only through call sites dominated by such a branch", 6)
	p := c.P
	syn := p.Pkg("syntax")
	info := syn.TypesInfo
	rtlConst := syn.Types.Scope().Lookup("RightToLeft")
	strField := p.LookupField("syntax", "RegexNode", "Str")
	firstCh := p.LookupFunc("syntax", "RegexNode.FirstCharOfOneOrMulti")
	if rtlConst == nil || strField == nil {
		c.Anchor("syntax.RightToLeft / RegexNode.Str")
		return
	}
	var uses []dirUse
	decls := p.FuncDecls(syn)
	fnOf := map[*ast.FuncDecl]*types.Func{}
	for _, fd := range decls {
		fn, _ := info.Defs[fd.Name].(*types.Func)
		fnOf[fd] = fn
		if fn == firstCh {
			continue // the accessor itself
		}
		ast.Inspect(fd.Body, func(n ast.Node) bool {
			switch x := n.(type) {
			case *ast.IndexExpr:
				if core.FieldOf(info, x.X) == strField {
					if k, ok := core.ConstInt(info, x.Index); ok && k == 0 {
						// a store `prev.Str[0] = …` inside a direction branch is found guarded below like any use
						uses = append(uses, dirUse{fd, fn, x.Pos(), types.ExprString(x)})
					}
				}
			case *ast.CallExpr:
				if firstCh != nil && core.Callee(info, x) == firstCh {
					uses = append(uses, dirUse{fd, fn, x.Pos(), types.ExprString(x)})
				}
			case *ast.SliceExpr:
				// X.Str[k:] / X.Str[:k]: dropping ONE end of a literal — which end was consumed depends on the direction
				if core.FieldOf(info, x.X) == strField && (x.Low == nil) != (x.High == nil) {
					uses = append(uses, dirUse{fd, fn, x.Pos(), "one-sided cut " + types.ExprString(x)})
				}
			}
			return true
		})
	}
	if len(uses) == 0 {
		c.Anchor("uses of RegexNode.Str[0] / FirstCharOfOneOrMulti")
		return
	}
	// call-site safety fixpoint
	graphs := map[*ast.FuncDecl]*core.Graph{}
	dvars := map[*ast.FuncDecl]map[types.Object]bool{}
	graphOf := func(fd *ast.FuncDecl) *core.Graph {
		if graphs[fd] == nil {
			graphs[fd] = core.NewGraph(info, fd.Body)
			dvars[fd] = directionVars(info, fd, rtlConst)
		}
		return graphs[fd]
	}
	type site struct {
		caller *ast.FuncDecl
		call   *ast.CallExpr
	}
	callers := map[*types.Func][]site{}
	for _, fd := range decls {
		ast.Inspect(fd.Body, func(n ast.Node) bool {
			if call, ok := n.(*ast.CallExpr); ok {
				if cal := core.Callee(info, call); cal != nil && cal.Pkg() == syn.Types {
					callers[cal] = append(callers[cal], site{fd, call})
				}
			}
			return true
		})
	}
	// ctxSafe[f]: every call path into f passes a direction-guarded call site.
	ctxSafe := map[*types.Func]bool{}
	for _, fd := range decls {
		ctxSafe[fnOf[fd]] = true // optimistic start; greatest fixpoint
	}
	why := map[*types.Func]string{}
	for changed := true; changed; {
		changed = false
		for _, fd := range decls {
			fn := fnOf[fd]
			if !ctxSafe[fn] {
				continue
			}
			ok := true
			reason := ""
			if fn.Exported() || len(callers[fn]) == 0 {
				ok, reason = false, "entry point / no static callers in package syntax"
			}
			for _, s := range callers[fn] {
				if s.caller == fd {
					continue // self recursion inherits the context
				}
				g := graphOf(s.caller)
				if guardedByDirection(info, g, s.call, rtlConst, dvars[s.caller]) {
					continue
				}
				if ctxSafe[fnOf[s.caller]] {
					continue
				}
				ok = false
				reason = fmt.Sprintf("called from %s at %s, which is itself reachable without a direction test (%s)", core.FuncName(fnOf[s.caller]), p.Pos(s.call.Pos()), why[fnOf[s.caller]])
				break
			}
			if !ok {
				ctxSafe[fn] = false
				why[fn] = reason
				changed = true
			}
		}
	}
	ord := map[string]int{}
	for _, u := range uses {
		name := core.FuncName(u.fn)
		c.Visit(name)
		g := graphOf(u.fd)
		local := guardedByDirection(info, g, &posNode{u.pos}, rtlConst, dvars[u.fd])
		k := name + " / " + u.what
		ord[k]++
		key := fmt.Sprintf("%s #%d", k, ord[k])
		switch {
		case local:
			c.OK(key, u.pos, "dominated by a branch on the direction bit")
		case ctxSafe[u.fn]:
			c.OK(key, u.pos, "every call path into %s passes a direction-guarded call site", name)
		default:
			w := why[u.fn]
			if len(w) > 400 {
				w = w[:400] + "…"
			}
			c.Bad(key, u.pos, "assumes left-to-right order but can run on right-to-left nodes: %s", w)
		}
	}
}

// posNode lets BlockOf locate a position.
type posNode struct{ p token.Pos }

func (n *posNode) Pos() token.Pos { return n.p }
func (n *posNode) End() token.Pos { return n.p + 1 }

// ---------------------------------------------------------------------------
// R-ATOMCTX: eliminateEndingBacktracking is called only where nothing can
// backtrack into the node.
// ---------------------------------------------------------------------------

var atomCtxTable = map[string]string{
	"syntax.(*RegexNode).finalOptimize":               "the root: nothing follows it",
	"syntax.(*RegexNode).reduceLookaround":            "a lookaround is an atomic zero-width assertion",
	"syntax.(*RegexNode).reduceExpressionConditional": "the condition is evaluated as an atomic lookahead",
	"syntax.(*RegexNode).reduceAtomic":                "the child of an Atomic node",
	"syntax.(*RegexNode).eliminateEndingBacktracking": "recursion into the other branches of an alternation that is itself in ending position",
}

func RAtomCtx(c *core.Ctx) {
	c.Rule("R-ATOMCTX", "eliminateEndingBacktracking (which makes trailing loops atomic and wraps trailing alternations/loops in Atomic) is called only from the five contexts in which nothing can backtrack into the node: the root, a lookaround, the condition of an expression conditional, the child of an Atomic node, and itself", 5)
	p := c.P
	syn := p.Pkg("syntax")
	target := p.LookupFunc("syntax", "RegexNode.eliminateEndingBacktracking")
	if target == nil {
		c.Anchor("syntax.RegexNode.eliminateEndingBacktracking")
		return
	}
	n := 0
	for _, fd := range p.FuncDecls(syn) {
		name := core.DeclName(syn, fd)
		for i, call := range core.CallsIn(syn.TypesInfo, fd.Body, target) {
			n++
			c.Visit(name)
			reason, ok := atomCtxTable[name]
			c.Check(ok, fmt.Sprintf("%s / call #%d of eliminateEndingBacktracking", name, i+1), call.Pos(), "allowed context: %s", reason)
		}
	}
	if n == 0 {
		c.Anchor("calls of eliminateEndingBacktracking")
	}
}

// ---------------------------------------------------------------------------
// R-OPTLOOP: a loop's child is optional unless M > 0.
// ---------------------------------------------------------------------------

// optLoopExempt: functions that look at a loop's child without needing M > 0.
var optLoopExempt = map[string]string{
	"syntax.(*RegexNode).ComputeMinLength":                      "multiplies the child's length by M",
	"syntax.(*RegexNode).computeMaxLength":                      "multiplies the child's length by N",
	"syntax.(*regexFcd).calculateFC":                            "tracks nullability explicitly (node.M == 0 -> nullable)",
	"syntax.tryFindFirstCharClass":                              "tracks nullability explicitly",
	"syntax.(*RegexNode).reduceRep":                             "structural rewrite of nested repeaters, not an analysis of required content",
	"syntax.(*RegexNode).eliminateEndingBacktracking":           "ending position: atomicity of the tail is independent of whether the loop runs",
	"syntax.(*RegexNode).FindLastExpressionInLoopForAutoAtomic": "looks at the tail of the body under the assumption that the body ran",
	"syntax.(*RegexNode).findAndMakeLoopsAtomic":                "visits every node",
	"syntax.(*RegexNode).processNode":                           "descends through FindLastExpressionInLoopForAutoAtomic",
}

func ROptLoop(c *core.Ctx) {
	c.Rule("R-OPTLOOP", "an analysis that, on seeing NtLoop/NtLazyloop, descends into the loop's child or treats it as required content does so only where `M > 0` (or `M <= 0` -> stop) on that same node is known; comparing N instead of M does not count", 6)
	p := c.P
	syn := p.Pkg("syntax")
	info := syn.TypesInfo
	tField := p.LookupField("syntax", "RegexNode", "T")
	mField := p.LookupField("syntax", "RegexNode", "M")
	children := p.LookupField("syntax", "RegexNode", "Children")
	ntLoop, ok1 := constInScope(syn.Types, "NtLoop")
	ntLazy, ok2 := constInScope(syn.Types, "NtLazyloop")
	if tField == nil || mField == nil || children == nil || !ok1 || !ok2 {
		c.Anchor("RegexNode.T / M / Children / NtLoop / NtLazyloop")
		return
	}
	isLoopConst := func(e ast.Expr) bool {
		v, ok := core.ConstInt(info, e)
		return ok && (v == ntLoop || v == ntLazy)
	}
	// mTest: expression tests <base>.M against 0/1 in a way that establishes M > 0 when it has polarity pol.
	mPositive := func(e ast.Expr, base string, pol bool) bool {
		for _, pe := range conjunctsOrNegDisjuncts(core.EdgeFact{Cond: e, Value: pol}) {
			be, ok := pe.e.(*ast.BinaryExpr)
			if !ok {
				continue
			}
			if core.FieldOf(info, be.X) != mField {
				continue
			}
			if types.ExprString(ast.Unparen(be.X).(*ast.SelectorExpr).X) != base {
				continue
			}
			k, ok := core.ConstInt(info, be.Y)
			if !ok {
				continue
			}
			op := be.Op
			if !pe.val {
				switch op {
				case token.LEQ:
					op = token.GTR
				case token.LSS:
					op = token.GEQ
				case token.EQL:
					op = token.NEQ
				case token.GTR:
					op = token.LEQ
				case token.GEQ:
					op = token.LSS
				case token.NEQ:
					op = token.EQL
				}
			}
			if (op == token.GTR && k >= 0) || (op == token.GEQ && k >= 1) || (op == token.NEQ && k == 0) {
				return true
			}
		}
		return false
	}
	for _, fd := range p.FuncDecls(syn) {
		name := core.DeclName(syn, fd)
		if _, ex := optLoopExempt[name]; ex {
			continue
		}
		var g *core.Graph
		n := 0
		report := func(pos token.Pos, base string, node ast.Node, inlineCond ast.Expr) {
			if g == nil {
				g = core.NewGraph(info, fd.Body)
			}
			n++
			c.Visit(name)
			ok := false
			if inlineCond != nil && mPositive(inlineCond, base, true) {
				ok = true
			}
			if b, _ := g.BlockOf(node); b != nil && !ok {
				for _, f := range g.FactsAt(b) {
					if mPositive(f.Cond, base, f.Value) {
						ok = true
					}
				}
			}
			c.Check(ok, fmt.Sprintf("%s / descent into loop child of %s #%d", name, base, n), pos, "the child of a loop is required content only when %s.M > 0 is known here", base)
		}
		// shape 1: `case NtLoop, NtLazyloop:` arm of `switch X.T` whose body indexes X.Children[0]
		ast.Inspect(fd.Body, func(x ast.Node) bool {
			sw, ok := x.(*ast.SwitchStmt)
			if !ok || sw.Tag == nil || core.FieldOf(info, sw.Tag) != tField {
				return true
			}
			base := types.ExprString(ast.Unparen(sw.Tag).(*ast.SelectorExpr).X)
			for _, st := range sw.Body.List {
				cc := st.(*ast.CaseClause)
				onlyLoops := len(cc.List) > 0
				for _, e := range cc.List {
					if !isLoopConst(e) {
						onlyLoops = false
					}
				}
				if !onlyLoops {
					continue
				}
				body := cc.Body
				// `fallthrough` continues in the next clause: its statements belong to this arm too
				for idx := indexOfClause(sw, cc); len(body) > 0 && idx >= 0 && idx+1 < len(sw.Body.List); idx++ {
					br, isBr := body[len(body)-1].(*ast.BranchStmt)
					if !isBr || br.Tok != token.FALLTHROUGH {
						break
					}
					body = append(append([]ast.Stmt(nil), body...), sw.Body.List[idx+1].(*ast.CaseClause).Body...)
				}
				for _, bs := range body {
					ast.Inspect(bs, func(y ast.Node) bool {
						ie, ok := y.(*ast.IndexExpr)
						if !ok || core.FieldOf(info, ie.X) != children {
							return true
						}
						if types.ExprString(ast.Unparen(ie.X).(*ast.SelectorExpr).X) != base {
							return true
						}
						// the guard may sit in the loop-only clause before the fallthrough
						var inline ast.Expr
						for _, st := range cc.Body {
							if ifs, ok := st.(*ast.IfStmt); ok && ifs.End() <= ie.Pos() && endsFunction(ifs.Body) {
								// `if node.M <= 0 { return … }` : afterwards the negation holds
								inline = &ast.UnaryExpr{Op: token.NOT, X: ifs.Cond}
							}
						}
						report(ie.Pos(), base, ie, inline)
						return true
					})
				}
			}
			return true
		})
		// shape 2: a condition `(X.T == NtLoop || X.T == NtLazyloop) && …` guarding `X = X.Children[0]`
		ast.Inspect(fd.Body, func(x ast.Node) bool {
			var cond ast.Expr
			var body *ast.BlockStmt
			switch s := x.(type) {
			case *ast.IfStmt:
				cond, body = s.Cond, s.Body
			default:
				return true
			}
			// find disjuncts/conjunct groups mentioning T == NtLoop
			var visit func(e ast.Expr)
			visit = func(e ast.Expr) {
				e = ast.Unparen(e)
				be, ok := e.(*ast.BinaryExpr)
				if !ok {
					return
				}
				if be.Op == token.LOR {
					visit(be.X)
					visit(be.Y)
					return
				}
				// a conjunction (or single comparison): does it contain T == NtLoop / NtLazyloop ?
				base := ""
				for _, cj := range conjuncts(e) {
					ast.Inspect(cj, func(z ast.Node) bool {
						if cmp, ok := z.(*ast.BinaryExpr); ok && cmp.Op == token.EQL && core.FieldOf(info, cmp.X) == tField && isLoopConst(cmp.Y) {
							base = types.ExprString(ast.Unparen(cmp.X).(*ast.SelectorExpr).X)
						}
						return true
					})
				}
				if base == "" {
					return
				}
				// does the guarded body descend into base.Children[…] ?
				descends := false
				var at *ast.IndexExpr
				ast.Inspect(body, func(z ast.Node) bool {
					if ie, ok := z.(*ast.IndexExpr); ok && core.FieldOf(info, ie.X) == children {
						if types.ExprString(ast.Unparen(ie.X).(*ast.SelectorExpr).X) == base {
							descends = true
							at = ie
						}
					}
					return true
				})
				if descends {
					report(at.Pos(), base, at, e)
				}
			}
			visit(cond)
			return true
		})
	}
}

// ---------------------------------------------------------------------------
// R-NEGCHARS / R-SUBOBS: observers of a class account for negation / subtraction
// ---------------------------------------------------------------------------

// functions that may ignore negation, with the reason
var negCharsExempt = map[string]string{
	"syntax.mayContainCaseInsensitiveMatching": "heuristic only: its answer selects between two search strategies that are each sound on their own",
}

func RNegChars(c *core.Ctx) {
	c.Rule("R-NEGCHARS", "GetSetChars returns the listed characters of a class whether or not the class is negated (its contract: the caller must consult IsNegated); every function that calls GetSetChars on a set also consults IsNegated() (or the Negated flag derived from it) for that same set expression", 6)
	p := c.P
	syn := p.Pkg("syntax")
	info := syn.TypesInfo
	get := p.LookupFunc("syntax", "CharSet.GetSetChars")
	isNeg := p.LookupFunc("syntax", "CharSet.IsNegated")
	if get == nil || isNeg == nil {
		c.Anchor("CharSet.GetSetChars / CharSet.IsNegated")
		return
	}
	for _, fd := range p.FuncDecls(syn) {
		name := core.DeclName(syn, fd)
		calls := core.CallsIn(info, fd.Body, get)
		if len(calls) == 0 {
			continue
		}
		if fn, _ := info.Defs[fd.Name].(*types.Func); fn == get {
			continue
		}
		c.Visit(name)
		negRecv := map[string]bool{}
		for _, nc := range core.CallsIn(info, fd.Body, isNeg) {
			if sel, ok := nc.Fun.(*ast.SelectorExpr); ok {
				negRecv[types.ExprString(sel.X)] = true
			}
		}
		// methods of CharSet may read c.negate directly
		ast.Inspect(fd.Body, func(n ast.Node) bool {
			if sel, ok := n.(*ast.SelectorExpr); ok {
				if f := core.FieldOf(info, sel); f != nil && core.BaseName(f) == "negate" {
					negRecv[types.ExprString(sel.X)] = true
				}
			}
			return true
		})
		for i, call := range calls {
			recv := types.ExprString(call.Fun.(*ast.SelectorExpr).X)
			if reason, ok := negCharsExempt[name]; ok {
				c.OK(fmt.Sprintf("%s / GetSetChars on %s #%d (exempt)", name, recv, i+1), call.Pos(), "%s", reason)
				continue
			}
			c.Check(negRecv[recv], fmt.Sprintf("%s / GetSetChars on %s #%d consults IsNegated", name, recv, i+1), call.Pos(),
				"for a negated class the returned characters are the ones that do NOT match; using them as the matching characters publishes a wrong prefix/set")
			// ... and a single listed character is taken for "the character every match has here"
			// (V[k], range V) only where the set is known not to be negated: at the call or at the read
			v := assignedLocal(info, fd.Body, call)
			if v == nil {
				continue
			}
			g := core.NewGraph(info, fd.Body)
			notNegAt := func(n ast.Node) bool {
				b, _ := g.BlockOf(n)
				if b == nil {
					return false
				}
				for _, f := range g.FactsAt(b) {
					for _, cj := range conjunctsOrNegDisjuncts(f) {
						if nc, ok := ast.Unparen(cj.e).(*ast.CallExpr); ok && !cj.val && core.IsCallTo(info, nc, isNeg) {
							if sel, ok := nc.Fun.(*ast.SelectorExpr); ok && types.ExprString(sel.X) == recv {
								return true
							}
						}
					}
				}
				return false
			}
			if notNegAt(call) {
				continue
			}
			ord := 0
			ast.Inspect(fd.Body, func(n ast.Node) bool {
				var at ast.Node
				switch x := n.(type) {
				case *ast.IndexExpr:
					if id, ok := ast.Unparen(x.X).(*ast.Ident); ok && info.ObjectOf(id) == v {
						at = x
					}
				case *ast.RangeStmt:
					if id, ok := ast.Unparen(x.X).(*ast.Ident); ok && info.ObjectOf(id) == v && x.Value != nil {
						at = x
					}
				}
				if at == nil {
					return true
				}
				ord++
				okRead := notNegAt(at)
				if !okRead {
					// the statement the read stands in (an index inside a larger statement)
					if st := enclosingStmt(fd.Body, at); st != nil {
						okRead = notNegAt(st)
					}
				}
				c.Check(okRead, fmt.Sprintf("%s / element read #%d of the characters listed by %s.GetSetChars is under a not-negated test", name, ord, recv), at.Pos(),
					"neither the GetSetChars call nor this read is dominated by `!%s.IsNegated()`: for a negated class this takes a character the class EXCLUDES for a character every match has", recv)
				return true
			})
		}
	}
}

// assignedLocal: the local variable a call's result is assigned to (v := call / v = call), or nil.
func assignedLocal(info *types.Info, body *ast.BlockStmt, call *ast.CallExpr) *types.Var {
	var out *types.Var
	ast.Inspect(body, func(n ast.Node) bool {
		as, ok := n.(*ast.AssignStmt)
		if !ok || len(as.Lhs) != len(as.Rhs) {
			return true
		}
		for i, r := range as.Rhs {
			if ast.Unparen(r) == ast.Expr(call) {
				if id, ok := as.Lhs[i].(*ast.Ident); ok {
					out, _ = info.ObjectOf(id).(*types.Var)
				}
			}
		}
		return true
	})
	return out
}

// enclosingStmt: the innermost statement of body that contains n.
func enclosingStmt(body *ast.BlockStmt, n ast.Node) ast.Stmt {
	var best ast.Stmt
	ast.Inspect(body, func(x ast.Node) bool {
		if x == nil {
			return false
		}
		if x.Pos() > n.Pos() || x.End() < n.End() {
			return false
		}
		if st, ok := x.(ast.Stmt); ok {
			if _, isBlock := st.(*ast.BlockStmt); !isBlock {
				best = st
			}
		}
		return true
	})
	return best
}

// helper shared with charclass rules
func funcsReading(p *core.Program, pk *packages.Package, fields ...*types.Var) map[*ast.FuncDecl][]string {
	out := map[*ast.FuncDecl][]string{}
	for _, fd := range p.FuncDecls(pk) {
		seen := map[string]bool{}
		ast.Inspect(fd.Body, func(n ast.Node) bool {
			if sel, ok := n.(*ast.SelectorExpr); ok {
				f := core.FieldOf(pk.TypesInfo, sel)
				for _, want := range fields {
					if f == want && !seen[f.Name()] {
						seen[f.Name()] = true
						out[fd] = append(out[fd], f.Name())
					}
				}
			}
			return true
		})
		sort.Strings(out[fd])
	}
	return out
}

var _ = strings.Join

// ---------------------------------------------------------------------------
// R-XFIELD: two different nodes are compared field by field.
// ---------------------------------------------------------------------------

// RXField: a comparison `a.F op b.G` between the same-named scalar fields of
// two different RegexNode values compares like with like (F == G).  The node
// equality chains in the rewrites (extractCommonPrefixOneNotoneSet,
// reduceConcatenationWithAdjacentLoops, …) are written as such chains; a
// cross-field comparison in one of them lets two different nodes be merged.
func RXField(c *core.Ctx) {
	c.Rule("R-XFIELD", "in package syntax, a comparison between a scalar field of one RegexNode and a scalar field of a different RegexNode compares the same field on both sides (M with M, N with N, Ch with Ch, T with T, Options with Options)", 10)
	p := c.P
	syn := p.Pkg("syntax")
	info := syn.TypesInfo
	scalar := map[string]bool{"M": true, "N": true, "Ch": true, "T": true, "Options": true}
	isNodeField := func(e ast.Expr) (base, field string, ok bool) {
		sel, isSel := ast.Unparen(e).(*ast.SelectorExpr)
		if !isSel {
			return "", "", false
		}
		f := core.FieldOf(info, sel)
		if f == nil || !scalar[f.Name()] || !core.IsNamed(info.TypeOf(sel.X), core.PkgSyntax, "RegexNode") {
			return "", "", false
		}
		return types.ExprString(sel.X), f.Name(), true
	}
	ord := map[string]int{}
	for _, fd := range p.FuncDecls(syn) {
		name := core.DeclName(syn, fd)
		ast.Inspect(fd.Body, func(n ast.Node) bool {
			be, ok := n.(*ast.BinaryExpr)
			if !ok {
				return true
			}
			switch be.Op {
			case token.EQL, token.NEQ, token.LSS, token.GTR, token.LEQ, token.GEQ:
			default:
				return true
			}
			b1, f1, ok1 := isNodeField(be.X)
			b2, f2, ok2 := isNodeField(be.Y)
			if !ok1 || !ok2 || b1 == b2 {
				return true
			}
			c.Visit(name)
			ord[name]++
			c.Check(f1 == f2, fmt.Sprintf("%s / node comparison #%d %s", name, ord[name], types.ExprString(be)), be.Pos(), "compares %s.%s with %s.%s", b1, f1, b2, f2)
			return true
		})
	}
}

func indexOfClause(sw *ast.SwitchStmt, cc *ast.CaseClause) int {
	for i, st := range sw.Body.List {
		if st == ast.Stmt(cc) {
			return i
		}
	}
	return -1
}

// endsFunction: the block's last statement is a return.
func endsFunction(b *ast.BlockStmt) bool {
	if len(b.List) == 0 {
		return false
	}
	_, ok := b.List[len(b.List)-1].(*ast.ReturnStmt)
	return ok
}

// ---------------------------------------------------------------------------
// R-DIRTRUNC: truncating a text that is then handed, together with the
// matching direction, to a consumer.  Keeping the head (`s = s[:k]`) is right
// when the consumer works left to right and wrong when it works right to left
// (there the tail is the part adjacent to the scan position), so the
// truncation has to sit under a direction test.
// ---------------------------------------------------------------------------

func RDirTrunc(c *core.Ctx) {
	c.Rule("R-DIRTRUNC", "in package syntax, a string or slice that is passed to a call together with a direction value (a bool derived from Options&RightToLeft) and that the same function shortens with a one-sided slice expression (s = s[:k] or s = s[k:]) is shortened under a branch on the direction: which end may be dropped depends on the direction the consumer works in", 1)
	p := c.P
	syn := p.Pkg("syntax")
	info := syn.TypesInfo
	rtlConst := syn.Types.Scope().Lookup("RightToLeft")
	if rtlConst == nil {
		c.Anchor("syntax.RightToLeft")
		return
	}
	n := 0
	// direction PARAMETERS: bool parameters that some call site in the package feeds with a
	// value derived from Options&RightToLeft (newBmPrefix(pattern, ci, rtl))
	dirParams := map[*ast.FuncDecl]map[types.Object]bool{}
	for _, caller := range p.FuncDecls(syn) {
		if caller.Body == nil || p.IsTestFile(caller.Pos()) {
			continue
		}
		cdv := directionVars(info, caller, rtlConst)
		ast.Inspect(caller.Body, func(x ast.Node) bool {
			call, ok := x.(*ast.CallExpr)
			if !ok {
				return true
			}
			fn := core.Callee(info, call)
			if fn == nil || fn.Pkg() != syn.Types {
				return true
			}
			cd, _ := p.DeclOf(fn)
			if cd == nil || cd.Type.Params == nil {
				return true
			}
			var prms []types.Object
			for _, f := range cd.Type.Params.List {
				for _, id := range f.Names {
					prms = append(prms, info.ObjectOf(id))
				}
			}
			for i, a := range call.Args {
				if i >= len(prms) || prms[i] == nil {
					continue
				}
				if bt, ok := prms[i].Type().Underlying().(*types.Basic); ok && bt.Info()&types.IsBoolean != 0 && mentionsRTL(info, a, rtlConst, cdv) {
					if dirParams[cd] == nil {
						dirParams[cd] = map[types.Object]bool{}
					}
					dirParams[cd][prms[i]] = true
				}
			}
			return true
		})
	}
	for _, fd := range p.FuncDecls(syn) {
		if fd.Body == nil || p.IsTestFile(fd.Pos()) {
			continue
		}
		dv := directionVars(info, fd, rtlConst)
		texts := map[string]bool{}
		if dp := dirParams[fd]; len(dp) > 0 {
			for o := range dp {
				dv[o] = true
			}
			// a text that comes IN together with a direction is as direction-bound as one handed on with it
			for _, f := range fd.Type.Params.List {
				for _, id := range f.Names {
					switch t := info.ObjectOf(id).Type().Underlying().(type) {
					case *types.Slice:
						texts[id.Name] = true
					case *types.Basic:
						if t.Info()&types.IsString != 0 {
							texts[id.Name] = true
						}
					}
				}
			}
		}
		if len(dv) == 0 {
			continue
		}
		// texts passed along with a direction
		ast.Inspect(fd.Body, func(x ast.Node) bool {
			call, ok := x.(*ast.CallExpr)
			if !ok {
				return true
			}
			hasDir := false
			for _, a := range call.Args {
				if tv, ok := info.Types[a]; ok {
					if bt, ok := tv.Type.Underlying().(*types.Basic); ok && bt.Info()&types.IsBoolean != 0 && mentionsRTL(info, a, rtlConst, dv) {
						hasDir = true
					}
				}
			}
			if !hasDir {
				return true
			}
			for _, a := range call.Args {
				tv, ok := info.Types[a]
				if !ok {
					continue
				}
				switch t := tv.Type.Underlying().(type) {
				case *types.Slice:
					texts[types.ExprString(ast.Unparen(a))] = true
				case *types.Basic:
					if t.Info()&types.IsString != 0 {
						texts[types.ExprString(ast.Unparen(a))] = true
					}
				}
			}
			return true
		})
		if len(texts) == 0 {
			continue
		}
		name := core.DeclName(syn, fd)
		g := core.NewGraph(info, fd.Body)
		cnt := 0
		ast.Inspect(fd.Body, func(x ast.Node) bool {
			as, ok := x.(*ast.AssignStmt)
			if !ok || len(as.Lhs) != 1 || len(as.Rhs) != 1 {
				return true
			}
			se, ok := ast.Unparen(as.Rhs[0]).(*ast.SliceExpr)
			if !ok || (se.Low == nil) == (se.High == nil) {
				return true
			}
			lhs := types.ExprString(ast.Unparen(as.Lhs[0]))
			if !texts[lhs] || types.ExprString(ast.Unparen(se.X)) != lhs {
				return true
			}
			cnt++
			n++
			c.Visit(name)
			end := "tail"
			if se.Low != nil {
				end = "head"
			}
			c.Check(guardedByDirection(info, g, as, rtlConst, dv), fmt.Sprintf("%s / truncation #%d of %s is direction-aware", name, cnt, lhs), as.Pos(),
				"%s drops the %s of a text that is later handed to a direction-dependent consumer, without a test of the direction: for one of the two directions the wrong end is kept", types.ExprString(as.Rhs[0]), end)
			return true
		})
	}
	if n == 0 {
		c.Anchor("a one-sided truncation of a text passed along with a direction value")
	}
}

// ---------------------------------------------------------------------------
// R-ATOMSUCC: which successors let a loop become atomic.
//
// canBeMadeAtomic upgrades a greedy single-character loop to an atomic one
// when giving characters back can never help the node that follows.  For a
// consuming successor that is a disjointness test, checked elsewhere by
// value.  For a zero-width successor the argument has to be made per kind:
//   End / EndZ / Eol     succeed only at the end (or before a final \n the loop cannot match)
//   Boundary (\b)        after a greedy run of word characters the next character is not one,
//                        so \b holds at the greedy end and at no earlier position of the run
//   Nonboundary (\B)     after a greedy run of NON-word characters \B FAILS at the greedy end
//                        when a word character follows, and HOLDS one position earlier
//                        (between two non-word characters): backtracking is needed
// so \B (and its ECMAScript form) must not appear among the accepted kinds.
// ---------------------------------------------------------------------------

var atomSuccTable = map[string]string{
	"NtOne": "consuming: disjointness", "NtNotone": "consuming: disjointness", "NtSet": "consuming: disjointness", "NtMulti": "consuming: disjointness of its first matched character",
	"NtEnd": "holds only at the end of the text", "NtEndZ": "end, or before a final newline the loop cannot consume", "NtEol": "end, or before a newline the loop cannot consume",
	"NtBoundary":     "a greedy run of word characters ends at a boundary; no earlier position of the run is one",
	"NtECMABoundary": "same with the ECMAScript word class",
	"NtOneloop":      "loop-kind dispatch on the node itself", "NtOnelazy": "loop-kind dispatch", "NtNotoneloop": "loop-kind dispatch", "NtNotonelazy": "loop-kind dispatch", "NtSetloop": "loop-kind dispatch", "NtSetlazy": "loop-kind dispatch",
	"NtConcatenate": "walks into / out of a concatenation", "NtCapture": "transparent wrapper", "NtAtomic": "transparent wrapper", "NtAlternate": "every branch is checked recursively", "NtExprCond": "condition, yes and no branch are all checked recursively (only with both branches present)",
	"NtLoop": "M > 0 loops: their first iteration follows", "NtLazyloop": "M > 0 loops: their first iteration follows", "NtPosLook": "a lookahead is evaluated at the loop's end", "NtEmpty": "matches nothing: look at what follows",
}

// atomUpTable: parent kinds canBeMadeAtomic may leave upwards when the successor was optional.
var atomUpTable = map[string]string{
	"NtAtomic":      "what follows an atomic group follows its content",
	"NtAlternate":   "what follows an alternation follows each branch",
	"NtCapture":     "what follows a capture group follows its content",
	"NtConcatenate": "the next sibling follows; at the end the walk continues with the parent",
}

// isParentVar: e is a local variable every assignment of which is `<x>.Parent`.
func isParentVar(info *types.Info, fd *ast.FuncDecl, e ast.Expr) bool {
	id, ok := ast.Unparen(e).(*ast.Ident)
	if !ok {
		return false
	}
	obj := info.ObjectOf(id)
	n, okAll := 0, true
	ast.Inspect(fd.Body, func(x ast.Node) bool {
		as, ok := x.(*ast.AssignStmt)
		if !ok {
			return true
		}
		for i, l := range as.Lhs {
			lid, ok := l.(*ast.Ident)
			if !ok || info.ObjectOf(lid) != obj || i >= len(as.Rhs) {
				continue
			}
			n++
			sel, ok := ast.Unparen(as.Rhs[i]).(*ast.SelectorExpr)
			if !ok || sel.Sel.Name != "Parent" {
				okAll = false
			}
		}
		return true
	})
	return n > 0 && okAll
}

func RAtomSucc(c *core.Ctx) {
	c.Rule("R-ATOMSUCC", "every node kind that canBeMadeAtomic tests its successor (or the path to it) against is one for which giving characters back cannot help; in particular \\B / ECMAScript \\B are not accepted: after a greedy run of non-word characters \\B fails at the run's end when a word character follows and holds one character earlier", 10)
	p := c.P
	syn := p.Pkg("syntax")
	info := syn.TypesInfo
	fd, _ := p.DeclOf(p.LookupFunc("syntax", "RegexNode.canBeMadeAtomic"))
	tField := p.LookupField("syntax", "RegexNode", "T")
	if fd == nil || tField == nil {
		c.Anchor("syntax.RegexNode.canBeMadeAtomic / RegexNode.T")
		return
	}
	c.Visit("syntax.(*RegexNode).canBeMadeAtomic")
	seen := map[string]int{}
	check := func(e ast.Expr, pos token.Pos) {
		id, ok := ast.Unparen(e).(*ast.Ident)
		if !ok {
			return
		}
		k, ok := info.ObjectOf(id).(*types.Const)
		if !ok || !strings.HasPrefix(k.Name(), "Nt") {
			return
		}
		seen[k.Name()]++
		key := fmt.Sprintf("canBeMadeAtomic / successor kind %s #%d is one that cannot profit from backtracking", k.Name(), seen[k.Name()])
		switch reason, ok := atomSuccTable[k.Name()]; {
		case ok:
			c.OK(key, pos, "%s", reason)
		case core.BaseName(k) == "NtNonboundary" || core.BaseName(k) == "NtNonECMABoundary":
			c.Bad(key, pos, "\\B after a greedy run of non-word characters fails at the run's end when a word character follows but holds one character earlier, so the loop must be able to give a character back (\\W+\\B, \\D+\\B, -+\\B)")
		default:
			c.Unknown(key, pos, "no soundness argument recorded for this successor kind")
		}
	}
	ast.Inspect(fd.Body, func(x ast.Node) bool {
		switch b := x.(type) {
		case *ast.BinaryExpr:
			if b.Op == token.EQL || b.Op == token.NEQ {
				if core.FieldOf(info, b.X) == tField {
					check(b.Y, b.Pos())
				} else if core.FieldOf(info, b.Y) == tField {
					check(b.X, b.Pos())
				}
			}
		case *ast.SwitchStmt:
			if b.Tag != nil && core.FieldOf(info, b.Tag) == tField {
				// the walk UP (switch on the kind of a node obtained through .Parent) has its own table:
				// what may be left at its end without meeting anything that could take characters back
				if sel, ok := ast.Unparen(b.Tag).(*ast.SelectorExpr); ok && isParentVar(info, fd, sel.X) {
					for _, st := range b.Body.List {
						for _, e := range st.(*ast.CaseClause).List {
							id, ok := ast.Unparen(e).(*ast.Ident)
							if !ok {
								continue
							}
							seen["up:"+id.Name]++
							key := fmt.Sprintf("canBeMadeAtomic / walking up through a parent of kind %s", id.Name)
							if reason, ok := atomUpTable[id.Name]; ok {
								c.OK(key, e.Pos(), "%s", reason)
							} else if id.Name == "NtLoop" || id.Name == "NtLazyloop" {
								c.Bad(key, e.Pos(), "leaving a loop body at its end can also lead back to the start of the body (the next iteration), which is not compared with the loop being made atomic")
							} else {
								c.Unknown(key, e.Pos(), "no soundness argument recorded for walking up through this kind")
							}
						}
					}
					return true
				}
				for _, st := range b.Body.List {
					for _, e := range st.(*ast.CaseClause).List {
						check(e, e.Pos())
					}
				}
			}
		}
		return true
	})
	if len(seen) == 0 {
		c.Anchor("kind tests in canBeMadeAtomic")
	}
}

// R-MAXASMIN: "occurs at least once" is a statement about the MINIMUM.
func RMaxAsMin(c *core.Ctx) {
	c.Rule("R-MAXASMIN", "in the compile-time analyses (prefix.go, prefixanalyzer.go, optimizations.go) no condition tests a node's maximum iteration count N against 0 or 1 with >, >= or != : whether a loop's content is required is decided by its minimum M (N >= 1 holds for every loop that is not {0}); arithmetic on N elsewhere in the tree code is not concerned", 1)
	p := c.P
	syn := p.Pkg("syntax")
	info := syn.TypesInfo
	nField := p.LookupField("syntax", "RegexNode", "N")
	if nField == nil {
		c.Anchor("syntax.RegexNode.N")
		return
	}
	n, examined := 0, 0
	for _, fd := range p.FuncDecls(syn) {
		if fd.Body == nil {
			continue
		}
		pos := p.Pos(fd.Pos())
		if !(strings.HasPrefix(pos, "syntax/prefix.go") || strings.HasPrefix(pos, "syntax/prefixanalyzer.go") || strings.HasPrefix(pos, "syntax/optimizations.go")) {
			continue
		}
		name := core.DeclName(syn, fd)
		ast.Inspect(fd.Body, func(x ast.Node) bool {
			be, ok := x.(*ast.BinaryExpr)
			if !ok {
				return true
			}
			l, r, op := be.X, be.Y, be.Op
			if core.FieldOf(info, r) == nField {
				l, r = r, l
				switch op {
				case token.LSS:
					op = token.GTR
				case token.LEQ:
					op = token.GEQ
				case token.GTR:
					op = token.LSS
				case token.GEQ:
					op = token.LEQ
				}
			}
			if core.FieldOf(info, l) != nField {
				return true
			}
			examined++
			k, isC := core.ConstInt(info, r)
			if !isC {
				return true
			}
			if (op == token.GTR && k == 0) || (op == token.GEQ && k == 1) || (op == token.NEQ && k == 0) {
				n++
				c.Visit(name)
				c.Bad(fmt.Sprintf("%s / a requiredness test uses the maximum N #%d", name, n), be.Pos(),
					"`%s` holds for every loop that may iterate at all, including optional ones ([+-]?, x*): content of such a loop is then treated as required and published as a fact about every match", types.ExprString(be))
			}
			return true
		})
	}
	c.Note("R-MAXASMIN: %d comparisons of .N examined", examined)
	if n == 0 {
		c.OK("analyses / no requiredness test on the maximum iteration count", token.NoPos, "%d comparisons of .N examined, none of the form N > 0 / N >= 1 / N != 0", examined)
	}
}
