package rules

import (
	"fmt"
	"go/ast"
	"go/token"
	"go/types"
	"sort"
	"strings"

	"golang.org/x/tools/go/cfg"
	"golang.org/x/tools/go/ssa"

	"regexlint/internal/core"
)

type cfgBlock = cfg.Block

// ---------------------------------------------------------------------------
// C16 / C20: character classes
// ---------------------------------------------------------------------------

// functions that read ranges/categories without having to look at the
// subtraction, each with the reason
var subExempt = map[string]string{
	"syntax.(CharSet).Copy":                        "copies sub as well (deep copy)",
	"syntax.(CharSet).String":                      "debug rendering; prints the subtraction",
	"syntax.(CharSet).mapHashFill":                 "serialisation; serialises the subtraction",
	"syntax.NewCharSetRuntime":                     "deserialisation; restores the subtraction",
	"syntax.(CharSet).SingletonChar":               "documented precondition: caller checked IsSingleton / IsSingletonInverse (which test sub)",
	"syntax.(CharSet).IsEmpty":                     "tests sub == nil",
	"syntax.(*CharSet).charInCategories":           "helper of charInSlow, which applies the subtraction afterwards",
	"syntax.(*CharSet).addDigit":                   "builder: appends caller-supplied data",
	"syntax.(*CharSet).addSpace":                   "builder",
	"syntax.(*CharSet).addWord":                    "builder",
	"syntax.(*CharSet).addChar":                    "builder",
	"syntax.(*CharSet).addRange":                   "builder",
	"syntax.(*CharSet).addRanges":                  "builder",
	"syntax.(*CharSet).addNegativeRanges":          "builder",
	"syntax.(*CharSet).addCategories":              "builder",
	"syntax.(*CharSet).addCategory":                "builder",
	"syntax.(*CharSet).addNamedASCII":              "builder",
	"syntax.(*CharSet).makeAnything":               "only called where sub == nil was established (canonicalize guards, addSet on mergeable sets)",
	"syntax.(*CharSet).unflip":                     "rewrites the base from its negated to its positive form: the members of the base are unchanged and the subtraction is not touched",
	"syntax.(*CharSet).addLowercaseRange":          "helper of addLowercase: appends to ranges",
	"syntax.(*CharSet).addLowercase":               "the parser applies it to the subtraction separately: scanCharSet recurses with the same caseInsensitive flag (checked by R-CASERECUR)",
	"syntax.(*CharSet).addSet":                     "callers must have tested IsMergeable on both operands (checked below at every call site)",
	"syntax.getCharSetFromCategoryString":          "constructs constant classes without subtraction",
	"syntax.getCharSetFromOldString":               "constructs constant classes without subtraction",
	"syntax.mayOverlapByEnumeration":               "only called under !set2.HasSubtraction() (checked at its call sites)",
	"syntax.(*CharSet).prepareASCIIBitmap":         "fills the table from charInSlow, recursing into sub",
	"syntax.(CharSet).GetIfNRanges":                "tests sub",
	"syntax.(*CharSet).GetIfOnlyUnicodeCategories": "tests sub",
}

func RSub(c *core.Ctx) {
	c.Rule("R-SUB", "every function of package syntax that reads CharSet.ranges or CharSet.categories of some set expression — to answer a question about the class or to rewrite it from its own contents — also consults that set's subtraction (mentions .sub, HasSubtraction, IsMergeable, or delegates to CharIn/charInSlow/equals/IsSingleton…), unless it is a builder/serialiser listed with a reason; canonicalize rewrites negate/categories/anything only under sub == nil", 20)
	p := c.P
	syn := p.Pkg("syntax")
	info := syn.TypesInfo
	ranges := p.LookupField("syntax", "CharSet", "ranges")
	cats := p.LookupField("syntax", "CharSet", "categories")
	sub := p.LookupField("syntax", "CharSet", "sub")
	negate := p.LookupField("syntax", "CharSet", "negate")
	anything := p.LookupField("syntax", "CharSet", "anything")
	if ranges == nil || cats == nil || sub == nil || negate == nil || anything == nil {
		c.Anchor("CharSet.ranges / categories / sub / negate / anything")
		return
	}
	subAware := map[string]bool{"HasSubtraction": true, "IsMergeable": true, "CharIn": true, "charInSlow": true, "equals": true, "Equals": true,
		"IsSingleton": true, "IsSingletonInverse": true, "MayOverlap": true, "Copy": true}
	usedExempt := map[string]bool{}
	for _, fd := range p.FuncDecls(syn) {
		name := core.DeclName(syn, fd)
		// set expressions whose ranges/categories are read
		reads := map[string]token.Pos{}
		aware := map[string]bool{}
		ast.Inspect(fd.Body, func(n ast.Node) bool {
			switch x := n.(type) {
			case *ast.SelectorExpr:
				f := core.FieldOf(info, x)
				base := types.ExprString(x.X)
				if f == ranges || f == cats {
					if call, isCall := ast.Unparen(x.X).(*ast.CallExpr); isCall && len(call.Args) == 0 {
						return true // XClass().ranges: a constant class constructor, no subtraction
					}
					if _, ok := reads[base]; !ok {
						reads[base] = x.Pos()
					}
				}
				if f == sub {
					aware[base] = true
				}
			case *ast.CallExpr:
				if sel, ok := x.Fun.(*ast.SelectorExpr); ok {
					if fn := core.Callee(info, x); fn != nil && subAware[fn.Name()] {
						if sig := fn.Type().(*types.Signature); sig.Recv() != nil && core.IsNamed(sig.Recv().Type(), core.PkgSyntax, "CharSet") {
							aware[types.ExprString(sel.X)] = true
						}
					}
				}
			}
			return true
		})
		if len(reads) == 0 {
			continue
		}
		if reason, ok := subExempt[name]; ok {
			usedExempt[name] = true
			c.OK(name+" / reads class contents (exempt)", fd.Pos(), "%s", reason)
			continue
		}
		c.Visit(name)
		var bases []string
		for b := range reads {
			bases = append(bases, b)
		}
		sort.Strings(bases)
		for _, b := range bases {
			// a deref'd pointer `(*x)` and `x` are the same set
			alt := strings.TrimSuffix(strings.TrimPrefix(b, "(*"), ")")
			c.Check(aware[b] || aware[alt] || aware["*"+b], fmt.Sprintf("%s / reads contents of %s and consults its subtraction", name, b), reads[b],
				"a class is ranges ∪ categories, possibly negated, MINUS its subtraction; a function that looks only at ranges/categories of %s answers for the wrong set", b)
		}
	}
	// canonicalize: writes of negate / categories / anything(makeAnything) only under `c.sub == nil`
	canon, _ := p.DeclOf(p.LookupFunc("syntax", "CharSet.canonicalize"))
	makeAnything := p.LookupFunc("syntax", "CharSet.makeAnything")
	if canon == nil || makeAnything == nil {
		c.Anchor("CharSet.canonicalize / makeAnything")
	} else {
		g := core.NewGraph(info, canon.Body)
		n := 0
		check := func(node ast.Node, what string) {
			n++
			ok := false
			if b, _ := g.BlockOf(node); b != nil {
				for _, f := range g.FactsAt(b) {
					for _, pe := range conjunctsOrNegDisjuncts(f) {
						if be, isB := pe.e.(*ast.BinaryExpr); isB && core.FieldOf(info, be.X) == sub && isNilIdent(info, be.Y) {
							if (be.Op == token.EQL && pe.val) || (be.Op == token.NEQ && !pe.val) {
								ok = true
							}
						}
					}
				}
			}
			c.Check(ok, fmt.Sprintf("syntax.(*CharSet).canonicalize / %s #%d under sub == nil", what, n), node.Pos(), "normalising a class with a subtraction as if it had none changes its members")
		}
		ast.Inspect(canon.Body, func(x ast.Node) bool {
			switch s := x.(type) {
			case *ast.AssignStmt:
				for _, l := range s.Lhs {
					if f := core.FieldOf(info, l); f == negate || f == cats {
						check(s, "write of "+f.Name())
					}
				}
			case *ast.CallExpr:
				if core.IsCallTo(info, s, makeAnything) {
					check(s, "makeAnything()")
				}
			}
			return true
		})
		if n == 0 {
			c.Anchor("normalising writes in canonicalize")
		}
	}
	// addSet call sites: both operands mergeable
	addSet := p.LookupFunc("syntax", "CharSet.addSet")
	isMergeable := p.LookupFunc("syntax", "CharSet.IsMergeable")
	if addSet != nil && isMergeable != nil {
		for _, fd := range p.FuncDecls(syn) {
			name := core.DeclName(syn, fd)
			calls := core.CallsIn(info, fd.Body, addSet)
			if len(calls) == 0 {
				continue
			}
			merge := map[string]bool{}
			for _, mc := range core.CallsIn(info, fd.Body, isMergeable) {
				if sel, ok := mc.Fun.(*ast.SelectorExpr); ok {
					merge[strings.TrimPrefix(types.ExprString(sel.X), "*")] = true
				}
			}
			for i, call := range calls {
				recv := strings.TrimPrefix(types.ExprString(call.Fun.(*ast.SelectorExpr).X), "*")
				arg := strings.TrimPrefix(types.ExprString(call.Args[0]), "*")
				// reduceSingleLetterAndNestedAlternations carries the previous node's mergeability in
				// the flag lastNodeCannotMerge (set from !X.Set.IsMergeable() when X becomes the previous
				// node) and only merges when it is false: accepted when that assignment is present.
				fresh := false
				if name == "syntax.(*RegexNode).reduceSingleLetterAndNestedAlternations" && merge[arg] {
					ast.Inspect(fd.Body, func(n ast.Node) bool {
						if as, ok := n.(*ast.AssignStmt); ok && len(as.Rhs) == 1 {
							if u, ok := ast.Unparen(as.Rhs[0]).(*ast.UnaryExpr); ok && u.Op == token.NOT {
								if mc, ok := ast.Unparen(u.X).(*ast.CallExpr); ok && core.IsCallTo(info, mc, isMergeable) {
									fresh = true
								}
							}
						}
						return true
					})
				}
				c.Check((merge[recv] && merge[arg]) || fresh, fmt.Sprintf("%s / addSet #%d operands tested with IsMergeable", name, i+1), call.Pos(), "receiver %s tested: %v, argument %s tested: %v (addSet merges ranges and categories only; a negated or subtracted operand would be merged wrongly)", recv, merge[recv], arg, merge[arg])
			}
		}
	}
	// mayOverlapByEnumeration call sites
	enumFn := p.LookupFunc("syntax", "mayOverlapByEnumeration")
	hasSub := p.LookupFunc("syntax", "CharSet.HasSubtraction")
	if enumFn != nil && hasSub != nil {
		// which parameter is walked through its ranges: read it off the callee (a refactoring may swap them)
		enumIdx := 1
		rngF := p.LookupField("syntax", "CharSet", "ranges")
		if ed, _ := p.DeclOf(enumFn); ed != nil && ed.Type.Params != nil && rngF != nil {
			var prms []types.Object
			for _, f := range ed.Type.Params.List {
				for _, id := range f.Names {
					prms = append(prms, info.ObjectOf(id))
				}
			}
			ast.Inspect(ed.Body, func(n ast.Node) bool {
				var x ast.Expr
				switch l := n.(type) {
				case *ast.RangeStmt:
					x = l.X
				case *ast.CallExpr:
					if id, ok := l.Fun.(*ast.Ident); ok && id.Name == "len" && len(l.Args) == 1 {
						x = l.Args[0]
					}
				}
				if x != nil && core.FieldOf(info, x) == rngF {
					if sel, ok := ast.Unparen(x).(*ast.SelectorExpr); ok {
						if id, ok := ast.Unparen(sel.X).(*ast.Ident); ok {
							for k, po := range prms {
								if info.ObjectOf(id) == po {
									enumIdx = k
								}
							}
						}
					}
				}
				return true
			})
		}
		// a predicate method that includes "no subtraction" (isEnumerable: !HasSubtraction() && no categories)
		impliesNoSub := func(fn *types.Func) bool {
			d, _ := p.DeclOf(fn)
			if d == nil || d.Body == nil || len(d.Body.List) != 1 {
				return false
			}
			rs, ok := d.Body.List[0].(*ast.ReturnStmt)
			if !ok || len(rs.Results) != 1 {
				return false
			}
			for _, cj := range conjuncts(rs.Results[0]) {
				if u, ok := ast.Unparen(cj).(*ast.UnaryExpr); ok && u.Op == token.NOT {
					if hc, ok := ast.Unparen(u.X).(*ast.CallExpr); ok && core.IsCallTo(info, hc, hasSub) {
						return true
					}
				}
			}
			return false
		}
		for _, fd := range p.FuncDecls(syn) {
			for i, call := range core.CallsIn(info, fd.Body, enumFn) {
				g := core.NewGraph(info, fd.Body)
				if enumIdx >= len(call.Args) {
					continue
				}
				arg := types.ExprString(call.Args[enumIdx])
				ok := false
				if b, _ := g.BlockOf(call); b != nil {
					for _, f := range g.FactsAt(b) {
						for _, pe := range conjunctsOrNegDisjuncts(f) {
							e := pe.e
							val := pe.val
							if u, isU := e.(*ast.UnaryExpr); isU && u.Op == token.NOT {
								e, val = ast.Unparen(u.X), !val
							}
							if hc, isC := e.(*ast.CallExpr); isC && core.IsCallTo(info, hc, hasSub) && !val {
								if types.ExprString(hc.Fun.(*ast.SelectorExpr).X) == arg {
									ok = true
								}
							}
							if hc, isC := e.(*ast.CallExpr); isC && val {
								if fn := core.Callee(info, hc); fn != nil && impliesNoSub(fn) {
									if sel, isS := hc.Fun.(*ast.SelectorExpr); isS && types.ExprString(sel.X) == arg {
										ok = true
									}
								}
							}
						}
					}
				}
				c.Check(ok, fmt.Sprintf("%s / mayOverlapByEnumeration #%d enumerates a set without subtraction", core.DeclName(syn, fd), i+1), call.Pos(), "the enumerated set (%s) is walked through its ranges only", arg)
			}
		}
	}
}

// R-CASERECUR: every recursive scanCharSet call passes the caseInsensitive flag through.
func RCaseRecur(c *core.Ctx) {
	c.Rule("R-CASERECUR", "every recursive call of scanCharSet (parsing a class subtraction) passes the caseInsensitive parameter through unchanged, so a subtraction is case-folded exactly like the class it is subtracted from", 2)
	p := c.P
	fn := p.SSAFunc(p.LookupFunc("syntax", "parser.scanCharSet"))
	if fn == nil {
		c.Anchor("parser.scanCharSet")
		return
	}
	c.Visit(core.SSAName(fn))
	idx := -1
	for i, prm := range fn.Params {
		if prm.Name() == "caseInsensitive" {
			idx = i
		}
	}
	if idx < 0 {
		c.Anchor("parameter caseInsensitive of scanCharSet")
		return
	}
	n := 0
	// the recursion may run through helpers (scanSubtraction(cc, caseInsensitive, scanOnly)): a helper that is
	// called from scanCharSet and calls scanCharSet must hand the flag on from its own parameter, and must itself
	// be given scanCharSet's flag
	targets := map[*ssa.Function]int{fn: idx} // function -> index of the parameter that carries the flag
	reachFromSCS := p.Reachable([]*ssa.Function{fn})
	for changed := true; changed; {
		changed = false
		for _, f := range p.ModuleFuncs() {
			if f != fn && !reachFromSCS[f] {
				continue
			}
			for _, b := range f.Blocks {
				for _, ins := range b.Instrs {
					call, ok := ins.(*ssa.Call)
					if !ok {
						continue
					}
					ti, isT := targets[call.Call.StaticCallee()]
					if !isT || ti >= len(call.Call.Args) {
						continue
					}
					if _, known := targets[f]; known {
						continue
					}
					if prm, ok := call.Call.Args[ti].(*ssa.Parameter); ok && prm.Parent() == f {
						for j, fp := range f.Params {
							if fp == prm {
								targets[f] = j
								changed = true
							}
						}
					}
				}
			}
		}
	}
	for _, f := range p.ModuleFuncs() {
		if f != fn && !reachFromSCS[f] {
			continue
		}
		for _, b := range f.Blocks {
			for _, ins := range b.Instrs {
				call, ok := ins.(*ssa.Call)
				if !ok {
					continue
				}
				ti, isT := targets[call.Call.StaticCallee()]
				if !isT || ti >= len(call.Call.Args) {
					continue
				}
				n++
				own, has := targets[f]
				okPass := has && call.Call.Args[ti] == ssa.Value(f.Params[own])
				c.Check(okPass, fmt.Sprintf("%s / call #%d of %s on the subtraction path passes caseInsensitive through", core.SSAName(f), n, core.BaseName(call.Call.StaticCallee())), call.Pos(), "argument %s", call.Call.Args[ti].String())
			}
		}
	}
	if n == 0 {
		c.Anchor("recursive scanCharSet calls")
	}
}

// R-BITMAP: the ASCII fast path is the slow path, tabulated, and stays valid.
func RBitmap(c *core.Ctx) {
	c.Rule("R-BITMAP", "the ASCII bitmap is filled only in prepareASCIIBitmap, from charInSlow (the function the general path uses), for every rune 0..127; CharIn consults it only for 0 <= ch < 128; Copy does not carry it over; in compile no class mutator runs after PrepareCharSetASCIIBitmaps", 6)
	p := c.P
	ascii := p.LookupField("syntax", "CharSet", "ascii")
	bits := p.LookupField("syntax", "asciiBitmap", "bits")
	prep := p.SSAFunc(p.LookupFunc("syntax", "CharSet.prepareASCIIBitmap"))
	slow := p.SSAFunc(p.LookupFunc("syntax", "CharSet.charInSlow"))
	charIn := p.SSAFunc(p.LookupFunc("syntax", "CharSet.CharIn"))
	if ascii == nil || bits == nil || prep == nil || slow == nil || charIn == nil {
		c.Anchor("CharSet.ascii / asciiBitmap.bits / prepareASCIIBitmap / charInSlow / CharIn")
		return
	}
	// who writes .ascii and .bits
	nBitWrites := 0
	for _, fn := range p.ModuleFuncs() {
		name := core.SSAName(fn)
		for _, b := range fn.Blocks {
			for _, ins := range b.Instrs {
				st, ok := ins.(*ssa.Store)
				if !ok {
					continue
				}
				f := core.FieldVarOfAddr(st.Addr)
				if f == ascii {
					c.Check(fn == prep, name+" / writes CharSet.ascii", st.Pos(), "only prepareASCIIBitmap may install the table")
				}
				if ia, ok := st.Addr.(*ssa.IndexAddr); ok && core.FieldVarOfAddr(ia.X) == bits {
					c.Check(fn == prep, name+" / writes asciiBitmap.bits", st.Pos(), "only prepareASCIIBitmap may fill the table")
					if fn == prep {
						// every bit that is set is set because charInSlow said so: the write sits on the true edge of a call of charInSlow
						under := false
						for _, f := range core.FactsAtBlock(st.Block()) {
							if call, ok := f.Cond.(*ssa.Call); ok && f.Val && call.Call.StaticCallee() == slow {
								under = true
							}
						}
						nBitWrites++
						c.Check(under, fmt.Sprintf("prepareASCIIBitmap / write to the table #%d is under charInSlow(rune)", nBitWrites), st.Pos(), "the table is written outside the `if c.charInSlow(i)` branch: a second way of deciding membership (filled from the ranges, negated or subtracted afterwards) has to repeat charInSlow's order of negation and subtraction and is not compared with it")
					}
				}
			}
		}
	}
	c.Visit(core.SSAName(prep))
	// prepare: loop bound 128, membership from charInSlow
	usesSlow, bound128 := false, false
	for _, b := range prep.Blocks {
		for _, ins := range b.Instrs {
			switch x := ins.(type) {
			case *ssa.Call:
				if x.Call.StaticCallee() == slow {
					usesSlow = true
				}
			case *ssa.BinOp:
				if x.Op == token.LSS || x.Op == token.LEQ {
					if k, ok := core.IntConst(x.Y); ok && ((x.Op == token.LSS && k == 128) || (x.Op == token.LEQ && k == 127)) {
						bound128 = true
					}
				}
			}
		}
	}
	c.Check(usesSlow, "prepareASCIIBitmap / fills the table from charInSlow", prep.Pos(), "fast path and general path must be the same function of the rune")
	c.Check(bound128, "prepareASCIIBitmap / tabulates every rune 0..127", prep.Pos(), "CharIn sends every rune below 128 to the table, so the loop must cover exactly 0..127")
	// CharIn guard: the table index is dominated by ch < 128 and ch >= 0
	c.Visit(core.SSAName(charIn))
	guardOK := false
	for _, b := range charIn.Blocks {
		for _, ins := range b.Instrs {
			ia, ok := ins.(*ssa.IndexAddr)
			if !ok || core.FieldVarOfAddr(ia.X) != bits {
				continue
			}
			lo, hi := false, false
			for _, f := range core.FactsAtBlock(b) {
				x, y, op, ok := core.CmpNorm(f)
				if !ok {
					continue
				}
				if k, isC := core.IntConst(y); isC && (op == token.LSS && k <= 128 || op == token.LEQ && k <= 127) && x == charIn.Params[1] {
					hi = true
				}
				if k, isC := core.IntConst(x); isC && (op == token.LEQ && k >= 0 || op == token.LSS && k >= -1) && y == charIn.Params[1] {
					lo = true
				}
			}
			guardOK = lo && hi
		}
	}
	c.Check(guardOK, "CharIn / table lookup guarded by 0 <= ch < 128", charIn.Pos(), "the bitmap has 128 bits")
	// Copy does not copy ascii
	cp := p.SSAFunc(p.LookupFunc("syntax", "CharSet.Copy"))
	if cp != nil {
		copies := false
		for _, b := range cp.Blocks {
			for _, ins := range b.Instrs {
				if fa, ok := ins.(*ssa.FieldAddr); ok && core.FieldVarOfAddr(fa) == ascii {
					for _, r := range core.Referrers(fa) {
						if _, isSt := r.(*ssa.Store); isSt {
							copies = true
						}
					}
				}
			}
		}
		c.Check(!copies, "CharSet.Copy / does not carry the bitmap over", cp.Pos(), "a copy is made to be mutated (case equivalences); a stale table would answer for the unmutated class")
	}
	// compile: nothing after PrepareCharSetASCIIBitmaps mutates classes: the call is followed only by struct construction
	compile := p.SSAFunc(p.LookupFunc("", "compile"))
	prepAll := p.SSAFunc(p.LookupFunc("syntax", "Code.PrepareCharSetASCIIBitmaps"))
	if compile == nil || prepAll == nil {
		c.Anchor("regexp2.compile / Code.PrepareCharSetASCIIBitmaps")
		return
	}
	c.Visit(core.SSAName(compile))
	var prepBlock *ssa.BasicBlock
	prepIdx := -1
	for _, b := range compile.Blocks {
		for i, ins := range b.Instrs {
			if call, ok := ins.(*ssa.Call); ok && call.Call.StaticCallee() == prepAll {
				prepBlock, prepIdx = b, i
			}
		}
	}
	if prepBlock == nil {
		c.Bad("compile / prepares the ASCII bitmaps", compile.Pos(), "compile no longer calls PrepareCharSetASCIIBitmaps")
		return
	}
	// calls reachable after the prepare call, into package syntax
	allowedAfter := map[string]bool{"makeQuickCode": true, "newStringPrefixFilter": true, "initCaches": true}
	seen := map[*ssa.BasicBlock]bool{}
	var bad []string
	var walk func(b *ssa.BasicBlock, from int)
	walk = func(b *ssa.BasicBlock, from int) {
		for i := from; i < len(b.Instrs); i++ {
			if call, ok := b.Instrs[i].(ssa.CallInstruction); ok {
				if cal := call.Common().StaticCallee(); cal != nil && core.InModule(cal) && !allowedAfter[cal.Name()] && cal != prepAll {
					bad = append(bad, cal.Name())
				}
			}
		}
		for _, s := range b.Succs {
			if !seen[s] {
				seen[s] = true
				walk(s, 0)
			}
		}
	}
	walk(prepBlock, prepIdx+1)
	c.Check(len(bad) == 0, "compile / nothing touches the classes after the bitmaps are built", prepBlock.Instrs[prepIdx].Pos(), "module calls after PrepareCharSetASCIIBitmaps: %v (allowed: makeQuickCode, newStringPrefixFilter, initCaches — none of them writes a CharSet, see R-FX)", bad)
}

// R-CATTABLE: a category name is accepted only if there is a table for it.
func RCatTable(c *core.Ctx) {
	c.Rule("R-CATTABLE", "canonicalUnicodeCatName reports success only for a name it has just looked up in unicodeCategories (every `return name, true` is dominated by a successful `unicodeCategories[name]` lookup): an accepted name without a table makes unicode.Is dereference nil while the class is compiled", 2)
	p := c.P
	fn := p.SSAFunc(p.LookupFunc("syntax", "canonicalUnicodeCatName"))
	table, _ := p.LookupObj("syntax", "unicodeCategories").(*types.Var)
	if fn == nil || table == nil {
		c.Anchor("canonicalUnicodeCatName / unicodeCategories")
		return
	}
	c.Visit(core.SSAName(fn))
	n := 0
	for _, b := range fn.Blocks {
		ret, ok := b.Instrs[len(b.Instrs)-1].(*ssa.Return)
		if !ok || len(ret.Results) != 2 {
			continue
		}
		k, isC := ret.Results[1].(*ssa.Const)
		if !isC || k.Value == nil || k.Value.String() != "true" {
			continue
		}
		n++
		name := ret.Results[0]
		okLookup := false
		for _, f := range core.FactsAtBlock(b) {
			ex, isEx := f.Cond.(*ssa.Extract)
			if !isEx || !f.Val || ex.Index != 1 {
				continue
			}
			lk, isLk := ex.Tuple.(*ssa.Lookup)
			if !isLk || lk.Index != name {
				continue
			}
			if ld, isLd := lk.X.(*ssa.UnOp); isLd {
				if g, isG := ld.X.(*ssa.Global); isG && g.Object() == table {
					okLookup = true
				}
			}
		}
		c.Check(okLookup, fmt.Sprintf("canonicalUnicodeCatName / success return #%d is backed by a table", n), ret.Pos(), "returned name %s", name.String())
	}
	if n == 0 {
		c.Anchor("success returns of canonicalUnicodeCatName")
	}
}

// ---------------------------------------------------------------------------
// R-SUBFIRST: no early exit before the subtraction is dealt with.
//
// A CharSet function that handles the subtraction somewhere (tests c.sub,
// recurses into it, serialises it) must do so on every path: a return that
// can be reached without having looked at c.sub answers / transforms /
// serialises base-only for a class that has a subtraction.  (Returns guarded
// by a nil receiver, and returns whose own expression mentions c.sub, are
// fine.)
// ---------------------------------------------------------------------------

func RSubFirst(c *core.Ctx) {
	c.Rule("R-SUBFIRST", "in every function of package syntax that takes a CharSet X and propagates to its subtraction (calls a method on X.sub or passes X.sub on: membership, copying, serialisation, case folding, bitmap preparation), every exit — each return and the end of the body — is reached only after X.sub has been looked at (or under X == nil): an early exit on the base class alone (`if c.anything { return }`) skips the subtraction", 8)
	p := c.P
	syn := p.Pkg("syntax")
	info := syn.TypesInfo
	sub := p.LookupField("syntax", "CharSet", "sub")
	if sub == nil {
		c.Anchor("syntax.CharSet.sub")
		return
	}
	isCharSet := func(t types.Type) bool {
		if pt, ok := t.(*types.Pointer); ok {
			t = pt.Elem()
		}
		return core.IsNamed(t, syn.Types.Path(), "CharSet")
	}
	n := 0
	for _, fd := range p.FuncDecls(syn) {
		if fd.Body == nil || p.IsTestFile(fd.Pos()) {
			continue
		}
		// candidate set variables: receiver and parameters of CharSet type
		var vars []types.Object
		collect := func(fl *ast.FieldList) {
			if fl == nil {
				return
			}
			for _, f := range fl.List {
				for _, nm := range f.Names {
					if obj := info.Defs[nm]; obj != nil && isCharSet(obj.Type()) {
						vars = append(vars, obj)
					}
				}
			}
		}
		collect(fd.Recv)
		collect(fd.Type.Params)
		name := core.DeclName(syn, fd)
		for _, v := range vars {
			mentions := func(nd ast.Node) bool {
				found := false
				ast.Inspect(nd, func(x ast.Node) bool {
					if se, ok := x.(*ast.SelectorExpr); ok && info.ObjectOf(se.Sel) == sub {
						if id, ok := ast.Unparen(se.X).(*ast.Ident); ok && info.ObjectOf(id) == v {
							found = true
						}
					}
					// delegation: a call that passes the set on (method call on v or v as argument)
					if call, ok := x.(*ast.CallExpr); ok {
						if se, ok := call.Fun.(*ast.SelectorExpr); ok {
							if id, ok := ast.Unparen(se.X).(*ast.Ident); ok && info.ObjectOf(id) == v {
								if cal := core.Callee(info, call); cal != nil && subAware[cal.Name()] {
									found = true
								}
							}
						}
					}
					return !found
				})
				return found
			}
			if !mentions(fd.Body) {
				continue
			}
			// the function PROPAGATES to the subtraction: it calls a method on X.sub or passes X.sub on
			// (functions that merely test X.sub == nil to give a conservative answer are not concerned)
			direct := false
			isSubOfV := func(e ast.Expr) bool {
				e = ast.Unparen(e)
				if st, ok := e.(*ast.StarExpr); ok {
					e = ast.Unparen(st.X)
				}
				se, ok := e.(*ast.SelectorExpr)
				if !ok || info.ObjectOf(se.Sel) != sub {
					return false
				}
				id, ok := ast.Unparen(se.X).(*ast.Ident)
				return ok && info.ObjectOf(id) == v
			}
			ast.Inspect(fd.Body, func(x ast.Node) bool {
				if call, ok := x.(*ast.CallExpr); ok {
					if se, ok := call.Fun.(*ast.SelectorExpr); ok && isSubOfV(se.X) {
						direct = true
					}
					for _, a := range call.Args {
						if isSubOfV(a) {
							direct = true
						}
					}
				}
				return !direct
			})
			if !direct {
				continue
			}
			g := core.NewGraph(info, fd.Body)
			nilGuard := func(nd ast.Node) bool {
				// `v == nil` test (its true branch is the only way to a nil-receiver return)
				found := false
				ast.Inspect(nd, func(x ast.Node) bool {
					if be, ok := x.(*ast.BinaryExpr); ok && (be.Op == token.EQL || be.Op == token.NEQ) {
						if id, ok := ast.Unparen(be.X).(*ast.Ident); ok && info.ObjectOf(id) == v {
							if tv, ok := info.Types[be.Y]; ok && tv.IsNil() {
								found = true
							}
						}
					}
					return !found
				})
				return found
			}
			pred := func(nd ast.Node) bool { return mentions(nd) || nilGuard(nd) }
			cnt := 0
			checkExit := func(b *cfgBlock, i int, pos token.Pos, what string, self ast.Node) {
				cnt++
				n++
				c.Visit(name)
				ok := (self != nil && mentions(self)) || g.MustPassBefore(b, i, pred)
				c.Check(ok, fmt.Sprintf("%s / exit #%d (%s) is reached only after %s.sub was looked at", name, cnt, what, v.Name()), pos,
					"this exit can be reached on a path that never examines %s.sub: for a class with a subtraction the function stops after handling the base class only", v.Name())
			}
			for _, b := range g.Blocks {
				if !g.Reachable(b) {
					continue
				}
				for i, nd := range b.Nodes {
					if rs, ok := nd.(*ast.ReturnStmt); ok {
						checkExit(b, i, rs.Pos(), "return", rs)
					}
				}
				// falling off the end of a function without results
				if len(b.Succs) == 0 && fd.Type.Results == nil {
					if len(b.Nodes) == 0 || !core.IsReturn(b.Nodes[len(b.Nodes)-1]) {
						checkExit(b, len(b.Nodes), fd.Body.Rbrace, "end of body", nil)
					}
				}
			}
		}
	}
	if n == 0 {
		c.Anchor("CharSet functions that mention .sub")
	}
}

// methods that themselves take the subtraction into account (delegating to one counts as looking at it)
var subAware = map[string]bool{"CharIn": true, "charInSlow": true, "HasSubtraction": true, "IsMergeable": true, "Equals": true, "equals": true, "IsSingleton": true, "IsSingletonInverse": true, "Copy": true, "mapHashFill": true, "addCaseEquivalences": true, "String": true, "IsEmpty": true}

// ---------------------------------------------------------------------------
// R-RANGEFLUSH: a pending range start is consumed when it is flushed.
//
// While parsing `[a-…` scanCharSet holds the range start in chPrev with
// inRange == true.  When what follows is not a range end (a shorthand such as
// \d in ECMAScript mode, a subtraction …) the start and the '-' are added as
// plain members.  From then on nothing is pending, so inRange has to be reset
// in the same statement list; otherwise the next ordinary member is taken as
// the end of a range that starts at the stale chPrev.
// ---------------------------------------------------------------------------

func RRangeFlush(c *core.Ctx) {
	c.Rule("R-RANGEFLUSH", "in scanCharSet every statement list that adds the pending range start to the class (a call of an adding method with chPrev as argument) also resets inRange to false afterwards in the same list, so a flushed start is never reused as the start of a later range", 4)
	p := c.P
	syn := p.Pkg("syntax")
	info := syn.TypesInfo
	fd, _ := p.DeclOf(p.LookupFunc("syntax", "parser.scanCharSet"))
	if fd == nil {
		c.Anchor("syntax.parser.scanCharSet")
		return
	}
	c.Visit("syntax.(*parser).scanCharSet")
	var inRange, chPrev types.Object
	ast.Inspect(fd.Body, func(n ast.Node) bool {
		if id, ok := n.(*ast.Ident); ok {
			if obj := info.Defs[id]; obj != nil {
				switch id.Name {
				case "inRange":
					inRange = obj
				case "chPrev":
					chPrev = obj
				}
			}
		}
		return true
	})
	if inRange == nil || chPrev == nil {
		c.Anchor("locals inRange / chPrev of scanCharSet")
		return
	}
	n := 0
	// all constant assignments to inRange, and the `if inRange {…}` branches
	type asg struct {
		pos token.Pos
		val bool
	}
	var assigns []asg
	var guards []*ast.IfStmt
	ast.Inspect(fd.Body, func(x ast.Node) bool {
		switch y := x.(type) {
		case *ast.AssignStmt:
			if len(y.Lhs) == 1 && len(y.Rhs) == 1 {
				if id, ok := y.Lhs[0].(*ast.Ident); ok && info.ObjectOf(id) == inRange {
					if tv, ok := info.Types[y.Rhs[0]]; ok && tv.Value != nil {
						assigns = append(assigns, asg{y.Pos(), tv.Value.String() == "true"})
					} else {
						assigns = append(assigns, asg{y.Pos(), true}) // unknown value: treat as possibly true
					}
				}
			}
		case *ast.IfStmt:
			if id, ok := ast.Unparen(y.Cond).(*ast.Ident); ok && info.ObjectOf(id) == inRange {
				guards = append(guards, y)
			}
		}
		return true
	})
	var visit func(list []ast.Stmt, tails [][]ast.Stmt)
	isReset := func(st ast.Stmt) bool {
		if as, ok := st.(*ast.AssignStmt); ok && len(as.Lhs) == 1 && len(as.Rhs) == 1 {
			if id, ok := as.Lhs[0].(*ast.Ident); ok && info.ObjectOf(id) == inRange {
				if tv, ok := info.Types[as.Rhs[0]]; ok && tv.Value != nil && tv.Value.String() == "false" {
					return true
				}
			}
		}
		return false
	}
	check := func(list []ast.Stmt, tails [][]ast.Stmt) {
		flushAt := -1
		for i, st := range list {
			es, ok := st.(*ast.ExprStmt)
			if !ok {
				continue
			}
			call, ok := es.X.(*ast.CallExpr)
			if !ok {
				continue
			}
			for _, a := range call.Args {
				if id, ok := ast.Unparen(a).(*ast.Ident); ok && info.ObjectOf(id) == chPrev {
					if flushAt < 0 {
						flushAt = i
					}
				}
			}
		}
		if flushAt < 0 {
			return
		}
		n++
		reset := false
		for _, st := range list[flushAt+1:] {
			if as, ok := st.(*ast.AssignStmt); ok && len(as.Lhs) == 1 && len(as.Rhs) == 1 {
				if id, ok := as.Lhs[0].(*ast.Ident); ok && info.ObjectOf(id) == inRange {
					if tv, ok := info.Types[as.Rhs[0]]; ok && tv.Value != nil && tv.Value.String() == "false" {
						reset = true
					}
				}
			}
		}
		if !reset {
			// ... or unconditionally right after the statement the flush is nested in
			// (`if !scanOnly { …flush… }; inRange = false`): what follows an enclosing
			// statement in its own list runs on every path that leaves the flush
			for _, tail := range tails {
				for _, st := range tail {
					if isReset(st) {
						reset = true
					}
				}
			}
		}
		if !reset {
			// the other idiom: `if inRange { inRange = false; … flush … }` — reset first, inside the same guarded branch
			fp := list[flushAt].Pos()
			for _, g := range guards {
				if g.Body.Pos() <= fp && fp < g.Body.End() {
					lastFalse, lastTrue := token.NoPos, token.NoPos
					for _, a := range assigns {
						if a.pos > g.Body.Pos() && a.pos < fp {
							if a.val {
								lastTrue = a.pos
							} else {
								lastFalse = a.pos
							}
						}
					}
					if lastFalse != token.NoPos && lastFalse > lastTrue {
						reset = true
					}
				}
			}
		}
		c.Check(reset, fmt.Sprintf("scanCharSet / flush #%d of the pending range start resets inRange", n), list[flushAt].Pos(),
			"chPrev is added to the class here but inRange stays true: the next plain member is read as the end of a range starting at the stale chPrev")
	}
	visit = func(list []ast.Stmt, tails [][]ast.Stmt) {
		check(list, tails)
		for i, st := range list {
			// statements after st in this list, as long as st is a plain `if` without an else that
			// could skip them (an if/else or a switch still falls through to what follows it)
			inner := tails
			switch st.(type) {
			case *ast.IfStmt, *ast.BlockStmt, *ast.SwitchStmt:
				inner = append(append([][]ast.Stmt(nil), tails...), list[i+1:])
			case *ast.ForStmt, *ast.RangeStmt:
				inner = nil // a new iteration: what follows the loop is not "right after"
			}
			ast.Inspect(st, func(x ast.Node) bool {
				switch b := x.(type) {
				case *ast.BlockStmt:
					visit(b.List, inner)
					return false
				case *ast.CaseClause:
					visit(b.Body, inner)
					return false
				}
				return true
			})
		}
	}
	visit(fd.Body.List, nil)
	if n == 0 {
		c.Anchor("statement lists that flush chPrev")
	}
}

// ---------------------------------------------------------------------------
// R-WORDSIB: \b and \w of one mode talk about the same characters.
// The interpreter decides \b with a predicate (IsWordChar / IsECMAWordChar);
// \w of the same mode is a class (WordClass / ECMAWordClass).  A boundary is
// "word character on one side only", so the two must be one definition: a
// class given by explicit ranges (the ECMAScript one: [0-9A-Z_a-z]) goes with
// a predicate made of range comparisons (or CharIn on that class), a class
// given by Unicode categories goes with a predicate over categories.
// ---------------------------------------------------------------------------

func RWordSib(c *core.Ctx) {
	c.Rule("R-WORDSIB", "for each mode, the word-character predicate used for \\b (IsWordChar, IsECMAWordChar) and the class used for \\w (WordClass, ECMAWordClass) are defined the same way: a class initialised from explicit ranges (getCharSetFromOldString) is paired with a predicate without Unicode-category lookups, a class initialised from category names with a predicate over categories", 2)
	p := c.P
	syn := p.Pkg("syntax")
	info := syn.TypesInfo
	pairs := [][2]string{{"IsWordChar", "WordClass"}, {"IsECMAWordChar", "ECMAWordClass"}}
	// class kinds from the package-level var initialisers
	classKind := map[string]string{}
	for _, f := range syn.Syntax {
		for _, d := range f.Decls {
			gd, ok := d.(*ast.GenDecl)
			if !ok || gd.Tok != token.VAR {
				continue
			}
			for _, sp := range gd.Specs {
				vs := sp.(*ast.ValueSpec)
				for i, nm := range vs.Names {
					if i >= len(vs.Values) {
						continue
					}
					call, ok := vs.Values[i].(*ast.CallExpr)
					if !ok {
						continue
					}
					if id, ok := call.Fun.(*ast.Ident); ok {
						switch id.Name {
						case "getCharSetFromOldString":
							classKind[nm.Name] = "ranges"
						case "getCharSetFromCategoryString":
							classKind[nm.Name] = "categories"
						}
					}
				}
			}
		}
	}
	for _, pr := range pairs {
		fd, _ := p.DeclOf(p.LookupFunc("syntax", pr[0]))
		ck, ok := classKind[pr[1]]
		if fd == nil || !ok {
			c.Anchor("syntax." + pr[0] + " / syntax." + pr[1])
			continue
		}
		c.Visit("syntax." + pr[0])
		pk := "ranges"
		ast.Inspect(fd.Body, func(x ast.Node) bool {
			if call, ok := x.(*ast.CallExpr); ok {
				if cal := core.Callee(info, call); cal != nil && cal.Pkg() != nil && cal.Pkg().Path() == "unicode" {
					pk = "categories"
				}
			}
			return true
		})
		c.Check(pk == ck, fmt.Sprintf("%s and %s are defined the same way", pr[0], pr[1]), fd.Pos(),
			"%s is built from %s but %s decides by %s: a character can be a word character for \\b and not for \\w (or the reverse), e.g. 'é' in ECMAScript mode: `a\\b` does not match \"aé\" although é is not in \\w", pr[1], ck, pr[0], pk)
	}
}

// ---------------------------------------------------------------------------
// R-UNIONRET: membership in a list of categories is a union.
// charInCategories answers "is ch in ANY of these (possibly negated)
// categories".  Inside the loop over the categories the only sound early exit
// is `return true` (a member was found); an exit that can be false — "ch is in
// this category but the category is negated" — ignores the categories that
// follow and makes the class depend on the order in which it was written
// ([\W\d] vs [\d\W]).
// ---------------------------------------------------------------------------

func RUnionRet(c *core.Ctx) {
	c.Rule("R-UNIONRET", "inside the loop over c.categories in charInCategories every return statement returns the constant true; the negative answer is given only after all categories were examined", 1)
	p := c.P
	syn := p.Pkg("syntax")
	info := syn.TypesInfo
	fd, _ := p.DeclOf(p.LookupFunc("syntax", "CharSet.charInCategories"))
	cats := p.LookupField("syntax", "CharSet", "categories")
	if fd == nil || cats == nil {
		c.Anchor("syntax.CharSet.charInCategories / CharSet.categories")
		return
	}
	c.Visit("syntax.(*CharSet).charInCategories")
	n := 0
	ast.Inspect(fd.Body, func(x ast.Node) bool {
		rs, ok := x.(*ast.RangeStmt)
		if !ok || core.FieldOf(info, rs.X) != cats {
			return true
		}
		ast.Inspect(rs.Body, func(y ast.Node) bool {
			if _, isLit := y.(*ast.FuncLit); isLit {
				return false
			}
			ret, ok := y.(*ast.ReturnStmt)
			if !ok || len(ret.Results) != 1 {
				return true
			}
			n++
			tv, isConst := info.Types[ret.Results[0]]
			c.Check(isConst && tv.Value != nil && tv.Value.String() == "true", fmt.Sprintf("charInCategories / early exit #%d from the category loop is `return true`", n), ret.Pos(),
				"`return %s` can answer false before the remaining categories were looked at: [\\W\\d] does not match \"5\" (5 is in the negated \\W, so the loop stops) while [\\d\\W] does", types.ExprString(ret.Results[0]))
			return true
		})
		return false
	})
	if n == 0 {
		c.Anchor("returns inside the category loop of charInCategories")
	}
}

// ---------------------------------------------------------------------------
// R-CATSTOO: a class is ranges AND categories.
// A function that hands out, or answers from, the ranges of a class must have
// looked at its categories: [a-z\d] has one range and one category, and
// "its only range is a-z" is not a description of it.
// ---------------------------------------------------------------------------

var catsTooExempt = map[string]string{
	"syntax.(CharSet).SingletonChar": "documented precondition: the caller checked IsSingleton / IsSingletonInverse, which test the categories",
}

func RCatsToo(c *core.Ctx) {
	c.Rule("R-CATSTOO", "every method of CharSet whose result is taken from the receiver's ranges (a return statement mentions c.ranges) also consults the receiver's categories somewhere (len(c.categories), charInCategories, …), unless listed with a reason: otherwise a class like [a-z\\d] is described by its range alone", 4)
	p := c.P
	syn := p.Pkg("syntax")
	info := syn.TypesInfo
	rng := p.LookupField("syntax", "CharSet", "ranges")
	cats := p.LookupField("syntax", "CharSet", "categories")
	if rng == nil || cats == nil {
		c.Anchor("CharSet.ranges / categories")
		return
	}
	n := 0
	for _, fd := range p.FuncDecls(syn) {
		if fd.Body == nil || fd.Recv == nil || p.IsTestFile(fd.Pos()) || fd.Type.Results == nil {
			continue
		}
		recvT := info.TypeOf(fd.Recv.List[0].Type)
		if _, nm := core.NamedOf(recvT); nm != "CharSet" || len(fd.Recv.List[0].Names) == 0 {
			continue
		}
		recv := info.Defs[fd.Recv.List[0].Names[0]]
		mentionsField := func(n ast.Node, f *types.Var) bool {
			found := false
			ast.Inspect(n, func(x ast.Node) bool {
				if se, ok := x.(*ast.SelectorExpr); ok && info.ObjectOf(se.Sel) == f {
					if id, ok := ast.Unparen(se.X).(*ast.Ident); ok && info.ObjectOf(id) == recv {
						found = true
					}
				}
				return !found
			})
			return found
		}
		fromRanges := false
		ast.Inspect(fd.Body, func(x ast.Node) bool {
			if ret, ok := x.(*ast.ReturnStmt); ok && mentionsField(ret, rng) {
				fromRanges = true
			}
			return true
		})
		if !fromRanges {
			continue
		}
		name := core.DeclName(syn, fd)
		n++
		c.Visit(name)
		if why, ok := catsTooExempt[name]; ok {
			c.OK(name+" / a result taken from the ranges also accounts for the categories", fd.Pos(), "exempt: %s", why)
			continue
		}
		consults := mentionsField(fd.Body, cats)
		if !consults {
			// delegation to a method that does
			ast.Inspect(fd.Body, func(x ast.Node) bool {
				if call, ok := x.(*ast.CallExpr); ok {
					if cal := core.Callee(info, call); cal != nil && (core.BaseName(cal) == "charInCategories" || core.BaseName(cal) == "IsSingleton" || core.BaseName(cal) == "IsSingletonInverse") {
						consults = true
					}
				}
				return true
			})
		}
		c.Check(consults, name+" / a result taken from the ranges also accounts for the categories", fd.Pos(),
			"the function returns data from c.ranges without ever looking at c.categories: for a class with a category ([a-z\\d]) the answer describes only part of the class, and what is published from it (a fixed-distance range) is false for matches that enter through the category")
	}
	if n == 0 {
		c.Anchor("CharSet methods whose result comes from c.ranges")
	}
}
