package rules

import (
	"fmt"
	"go/ast"
	"go/token"
	"go/types"

	"regexlint/internal/core"
)

// ---------------------------------------------------------------------------
// R-NONNEGLEN: a capture is recorded with a non-negative length.
//
// Match.addMatch(cap, start, length) stores (start, length) pairs; negative
// "lengths" are reserved for the balancing markers that Match itself writes
// (balanceMatch) and that tidy() later resolves.  The interpreter's own calls
// pass `end - start`, so on every path `start <= end` has to follow from the
// comparisons made on that path.  A small path-sensitive difference-bound
// analysis over the function's if/else structure decides it: values are
// symbols, `x <= y` facts come from branch conditions (and their negations),
// and `a + matchLength(…)` is known to be >= a.
// ---------------------------------------------------------------------------

type dbState struct {
	env map[types.Object]int
	le  map[[2]int]bool
	n   *int
}

func (s *dbState) clone() *dbState {
	c := &dbState{env: map[types.Object]int{}, le: map[[2]int]bool{}, n: s.n}
	for k, v := range s.env {
		c.env[k] = v
	}
	for k := range s.le {
		c.le[k] = true
	}
	return c
}

func (s *dbState) fresh() int { *s.n++; return *s.n }

func (s *dbState) entails(a, b int) bool {
	if a == b {
		return true
	}
	seen := map[int]bool{a: true}
	work := []int{a}
	for len(work) > 0 {
		x := work[0]
		work = work[1:]
		for k := range s.le {
			if k[0] == x && !seen[k[1]] {
				if k[1] == b {
					return true
				}
				seen[k[1]] = true
				work = append(work, k[1])
			}
		}
	}
	return false
}

type dbInterp struct {
	info   *types.Info
	nonneg map[*types.Func]bool
	target *types.Func
	// results
	checked int
	failed  []string
	pos     func(token.Pos) string
}

func (di *dbInterp) sym(s *dbState, e ast.Expr) (int, bool) {
	e = ast.Unparen(e)
	if id, ok := e.(*ast.Ident); ok {
		if obj := di.info.ObjectOf(id); obj != nil {
			if v, ok := s.env[obj]; ok {
				return v, true
			}
			// parameters and anything first seen: give it a symbol
			v := s.fresh()
			s.env[obj] = v
			return v, true
		}
	}
	return 0, false
}

func (di *dbInterp) assign(s *dbState, lhs ast.Expr, rhs ast.Expr) {
	id, ok := ast.Unparen(lhs).(*ast.Ident)
	if !ok {
		return
	}
	obj := di.info.ObjectOf(id)
	if obj == nil {
		return
	}
	if rhs == nil {
		s.env[obj] = s.fresh()
		return
	}
	if v, ok := di.sym(s, rhs); ok {
		s.env[obj] = v
		return
	}
	nv := s.fresh()
	// a + nonneg(...)  or  nonneg(...) + a
	if be, ok := ast.Unparen(rhs).(*ast.BinaryExpr); ok && be.Op == token.ADD {
		for _, pair := range [][2]ast.Expr{{be.X, be.Y}, {be.Y, be.X}} {
			if base, ok := di.sym(s, pair[0]); ok {
				if call, ok := ast.Unparen(pair[1]).(*ast.CallExpr); ok && di.nonneg[core.Callee(di.info, call)] {
					s.le[[2]int{base, nv}] = true
				}
			}
		}
	}
	s.env[obj] = nv
}

// cond adds the constraint of `e` being val to s (only comparisons of two tracked idents)
func (di *dbInterp) cond(s *dbState, e ast.Expr, val bool) {
	be, ok := ast.Unparen(e).(*ast.BinaryExpr)
	if !ok {
		return
	}
	a, ok1 := di.sym(s, be.X)
	b, ok2 := di.sym(s, be.Y)
	if !ok1 || !ok2 {
		return
	}
	op := be.Op
	if !val {
		switch op {
		case token.LSS:
			op = token.GEQ
		case token.LEQ:
			op = token.GTR
		case token.GTR:
			op = token.LEQ
		case token.GEQ:
			op = token.LSS
		default:
			return
		}
	}
	switch op {
	case token.LSS, token.LEQ:
		s.le[[2]int{a, b}] = true
	case token.GTR, token.GEQ:
		s.le[[2]int{b, a}] = true
	}
}

func (di *dbInterp) calls(s *dbState, n ast.Node) {
	ast.Inspect(n, func(x ast.Node) bool {
		call, ok := x.(*ast.CallExpr)
		if !ok || core.Callee(di.info, call) != di.target || len(call.Args) != 3 {
			return true
		}
		di.checked++
		be, ok := ast.Unparen(call.Args[2]).(*ast.BinaryExpr)
		if !ok || be.Op != token.SUB {
			di.failed = append(di.failed, fmt.Sprintf("%s: length argument %s is not of the form end - start", di.pos(call.Pos()), types.ExprString(call.Args[2])))
			return true
		}
		hi, ok1 := di.sym(s, be.X)
		lo, ok2 := di.sym(s, be.Y)
		if !ok1 || !ok2 || !s.entails(lo, hi) {
			di.failed = append(di.failed, fmt.Sprintf("%s: on some path nothing establishes %s <= %s", di.pos(call.Pos()), types.ExprString(be.Y), types.ExprString(be.X)))
		}
		return true
	})
}

func (di *dbInterp) run(stmts []ast.Stmt, states []*dbState) []*dbState {
	for _, st := range stmts {
		var next []*dbState
		for _, s := range states {
			next = append(next, di.stmt(st, s)...)
		}
		states = next
		if len(states) > 512 {
			di.failed = append(di.failed, "too many paths")
			return nil
		}
	}
	return states
}

func (di *dbInterp) stmt(st ast.Stmt, s *dbState) []*dbState {
	switch x := st.(type) {
	case *ast.DeclStmt:
		if gd, ok := x.Decl.(*ast.GenDecl); ok {
			for _, sp := range gd.Specs {
				if vs, ok := sp.(*ast.ValueSpec); ok {
					for i, nm := range vs.Names {
						var rhs ast.Expr
						if i < len(vs.Values) {
							rhs = vs.Values[i]
						}
						di.assign(s, nm, rhs)
					}
				}
			}
		}
	case *ast.AssignStmt:
		if len(x.Lhs) == len(x.Rhs) && (x.Tok == token.ASSIGN || x.Tok == token.DEFINE) {
			// evaluate all right-hand sides first (parallel assignment)
			tmp := s.clone()
			for i := range x.Lhs {
				di.assign(tmp, x.Lhs[i], x.Rhs[i])
			}
			if len(x.Lhs) == 1 {
				di.assign(s, x.Lhs[0], x.Rhs[0])
			} else {
				for i := range x.Lhs {
					if id, ok := x.Lhs[i].(*ast.Ident); ok {
						s.env[di.info.ObjectOf(id)] = tmp.env[di.info.ObjectOf(id)]
					}
				}
			}
		} else {
			for _, l := range x.Lhs {
				di.assign(s, l, nil)
			}
		}
	case *ast.ExprStmt:
		di.calls(s, x)
	case *ast.IfStmt:
		t, f := s.clone(), s.clone()
		di.cond(t, x.Cond, true)
		di.cond(f, x.Cond, false)
		out := di.run(x.Body.List, []*dbState{t})
		switch e := x.Else.(type) {
		case nil:
			out = append(out, f)
		case *ast.BlockStmt:
			out = append(out, di.run(e.List, []*dbState{f})...)
		default:
			out = append(out, di.stmt(e.(ast.Stmt), f)...)
		}
		return out
	case *ast.BlockStmt:
		return di.run(x.List, []*dbState{s})
	case *ast.ReturnStmt:
		return nil
	default:
		di.calls(s, st)
	}
	return []*dbState{s}
}

func RNonNegLen(c *core.Ctx) {
	c.Rule("R-NONNEGLEN", "every call of Match.addMatch made by the interpreter (Runner methods) passes a length of the form end - start where start <= end follows, on every path through the function, from the comparisons made on that path (with start2 + matchLength(…) >= start2): a negative length would be read as a balancing marker and the capture silently dropped", 2)
	p := c.P
	info := p.Pkg("").TypesInfo
	add := p.LookupFunc("", "Match.addMatch")
	ml := p.LookupFunc("", "Match.matchLength")
	if add == nil || ml == nil {
		c.Anchor("Match.addMatch / Match.matchLength")
		return
	}
	n := 0
	for _, fd := range p.FuncDecls(p.Pkg("")) {
		if fd.Body == nil || fd.Recv == nil || p.IsTestFile(fd.Pos()) {
			continue
		}
		if len(core.CallsIn(info, fd.Body, add)) == 0 {
			continue
		}
		name := core.DeclName(p.Pkg(""), fd)
		if name == "regexp2.(*Match).balanceMatch" || name == "regexp2.(*Match).addMatch" {
			continue // Match's own marker bookkeeping
		}
		cnt := 0
		di := &dbInterp{info: info, nonneg: map[*types.Func]bool{ml: true}, target: add, pos: p.Pos}
		st := &dbState{env: map[types.Object]int{}, le: map[[2]int]bool{}, n: &cnt}
		di.run(fd.Body.List, []*dbState{st})
		n++
		c.Visit(name)
		detail := ""
		if len(di.failed) > 0 {
			detail = di.failed[0]
		}
		c.Check(len(di.failed) == 0 && di.checked > 0, name+" / addMatch is given a non-negative length on every path", fd.Pos(), "%d call(s) on enumerated paths; %s", di.checked, detail)
	}
	if n == 0 {
		c.Anchor("interpreter functions calling Match.addMatch")
	}
}
