package rules

import (
	"fmt"
	"go/ast"
	"go/token"
	"go/types"
	"sort"
	"strings"

	"golang.org/x/tools/go/ssa"

	"regexlint/internal/core"
)

// ---------------------------------------------------------------------------
// C09: Replace and Split
// ---------------------------------------------------------------------------

func RRepConst(c *core.Ctx) {
	c.Rule("R-REPCONST", "the replacement-rule encoding is the same map on both sides: the special-token constants have equal values in package syntax (encoder) and package regexp2 (decoder), and the encoder `-replaceSpecials-1-slot` and the decoders `-replaceSpecials-1-r` are the same affine function", 6)
	p := c.P
	names := []string{"replaceSpecials", "replaceLeftPortion", "replaceRightPortion", "replaceLastGroup", "replaceWholeString"}
	for _, n := range names {
		a, ok1 := constInScope(p.Pkg("syntax").Types, n)
		b, ok2 := constInScope(p.Pkg("").Types, n)
		if !ok1 || !ok2 {
			c.Anchor("constant " + n + " in both packages")
			continue
		}
		c.Check(a == b, "constant "+n+" agrees between syntax and regexp2", token.NoPos, "syntax: %d, regexp2: %d", a, b)
	}
	// encoder
	nrd := p.SSAFunc(p.LookupFunc("syntax", "NewReplacerData"))
	if nrd == nil {
		c.Anchor("syntax.NewReplacerData")
		return
	}
	type aff struct{ a, b int64 }
	var enc []aff
	for _, b := range nrd.Blocks {
		for _, ins := range b.Instrs {
			call, ok := ins.(*ssa.Call)
			if !ok {
				continue
			}
			if bi, ok := call.Call.Value.(*ssa.Builtin); !ok || bi.Name() != "append" {
				continue
			}
			// append(rules, <expr>) where expr is arithmetic on a phi (slot)
			if sl, ok := call.Call.Args[1].(*ssa.Slice); ok {
				if al, ok := sl.X.(*ssa.Alloc); ok {
					for _, r := range core.Referrers(al) {
						if ia, ok := r.(*ssa.IndexAddr); ok {
							for _, rr := range core.Referrers(ia) {
								if st, ok := rr.(*ssa.Store); ok {
									if bin, ok := st.Val.(*ssa.BinOp); ok {
										// find the non-constant leaf
										var leaf ssa.Value
										var walk func(v ssa.Value)
										walk = func(v ssa.Value) {
											if bb, ok := v.(*ssa.BinOp); ok {
												walk(bb.X)
												walk(bb.Y)
											} else if _, isC := v.(*ssa.Const); !isC {
												leaf = v
											}
										}
										walk(bin)
										if leaf != nil {
											if a, b2, ok := affine(bin, leaf, 0); ok && a != 0 {
												enc = append(enc, aff{a, b2})
											}
										}
									}
								}
							}
						}
					}
				}
			}
		}
	}
	var dec []aff
	for _, name := range []string{"replacementImpl", "replacementImplRTL"} {
		fn := p.SSAFunc(p.LookupFunc("", name))
		if fn == nil {
			c.Anchor("regexp2." + name)
			continue
		}
		c.Visit(core.SSAName(fn))
		seen := map[aff]bool{}
		// the decoding arithmetic: in the function itself or in the small helpers of the package it calls
		units := []*ssa.Function{fn}
		for _, b := range fn.Blocks {
			for _, ins := range b.Instrs {
				if call, ok := ins.(*ssa.Call); ok {
					if cal := call.Call.StaticCallee(); cal != nil && core.InModule(cal) && core.FnPkgPath(cal) == core.PkgRoot && len(cal.Blocks) <= 3 {
						units = append(units, cal)
					}
				}
			}
		}
		for _, u := range units {
			for _, b := range u.Blocks {
				for _, ins := range b.Instrs {
					bin, ok := ins.(*ssa.BinOp)
					if !ok || bin.Op != token.SUB {
						continue
					}
					// outermost SUB chains only: value used as call argument or switch tag
					var leaf ssa.Value
					var walk func(v ssa.Value)
					walk = func(v ssa.Value) {
						if bb, ok := v.(*ssa.BinOp); ok {
							walk(bb.X)
							walk(bb.Y)
						} else if _, isC := v.(*ssa.Const); !isC {
							leaf = v
						}
					}
					walk(bin)
					if leaf == nil {
						continue
					}
					used := false
					for _, r := range core.Referrers(bin) {
						if _, isBin := r.(*ssa.BinOp); isBin {
							if rb := r.(*ssa.BinOp); rb.Op == token.SUB || rb.Op == token.ADD {
								continue
							}
						}
						used = true
					}
					if !used {
						continue
					}
					if a, b2, ok := affine(bin, leaf, 0); ok && a == -1 && !seen[aff{a, b2}] {
						seen[aff{a, b2}] = true
						dec = append(dec, aff{a, b2})
					}
				}
			}
		}
	}
	okMap := len(enc) > 0 && len(dec) > 0
	for _, e := range enc {
		for _, d := range dec {
			if e != d {
				okMap = false
			}
		}
	}
	c.Check(okMap, "rule encoding / encoder and decoders are the same affine map", nrd.Pos(), "encoder forms %v, decoder forms %v (value = a*x + b)", enc, dec)
}

func RRepCases(c *core.Ctx) {
	c.Rule("R-REPCASES", "every special token scanDollar can produce ($` $' $+ $_) has an arm in both replacementImpl and replacementImplRTL, and the two have the same arm set; replacementImplRTL, whose output list the caller writes back to front, walks the rules from last to first", 4)
	p := c.P
	syn := p.Pkg("syntax")
	sd, _ := p.DeclOf(p.LookupFunc("syntax", "parser.scanDollar"))
	if sd == nil {
		c.Anchor("parser.scanDollar")
		return
	}
	produced := map[int64]string{}
	// the special-token constants scanDollar mentions — assigned, returned or compared — in its
	// own body or in a helper of the package it hands the symbol to
	seenSD := map[*ast.FuncDecl]bool{}
	var collectSD func(d *ast.FuncDecl, depth int)
	collectSD = func(d *ast.FuncDecl, depth int) {
		if d == nil || d.Body == nil || seenSD[d] || depth > 2 {
			return
		}
		seenSD[d] = true
		ast.Inspect(d.Body, func(n ast.Node) bool {
			switch x := n.(type) {
			case *ast.Ident:
				if k, ok := syn.TypesInfo.ObjectOf(x).(*types.Const); ok && k.Pkg() == syn.Types && strings.HasPrefix(core.BaseName(k), "replace") {
					if v, ok := core.ConstInt(syn.TypesInfo, x); ok && v < 0 {
						produced[v] = core.BaseName(k)
					}
				}
			case *ast.CallExpr:
				if fn := core.Callee(syn.TypesInfo, x); fn != nil && fn.Pkg() == syn.Types && depth < 2 {
					// only small leaf helpers: functions without a parser receiver
					if sig, ok := fn.Type().(*types.Signature); ok && sig.Recv() == nil {
						cd, _ := p.DeclOf(fn)
						collectSD(cd, depth+1)
					}
				}
			}
			return true
		})
	}
	collectSD(sd, 0)
	if len(produced) == 0 {
		c.Anchor("special tokens assigned in scanDollar")
		return
	}
	arms := map[string]map[int64]bool{}
	root := p.Pkg("")
	for _, name := range []string{"replacementImpl", "replacementImplRTL"} {
		fd, _ := p.DeclOf(p.LookupFunc("", name))
		if fd == nil {
			c.Anchor("regexp2." + name)
			return
		}
		arms[name] = map[int64]bool{}
		// constants the function distinguishes: case labels and ==/!= comparisons,
		// in its own body and in the helpers of the package it hands the work to
		// (an arm factored out into a shared function is still an arm)
		seen := map[*ast.FuncDecl]bool{}
		var collect func(d *ast.FuncDecl, depth int)
		collect = func(d *ast.FuncDecl, depth int) {
			if d == nil || d.Body == nil || seen[d] || depth > 3 {
				return
			}
			seen[d] = true
			ast.Inspect(d.Body, func(n ast.Node) bool {
				switch x := n.(type) {
				case *ast.SwitchStmt:
					for _, st := range x.Body.List {
						for _, e := range st.(*ast.CaseClause).List {
							if v, ok := core.ConstInt(root.TypesInfo, e); ok {
								arms[name][v] = true
							}
						}
					}
				case *ast.BinaryExpr:
					if x.Op == token.EQL || x.Op == token.NEQ {
						for _, e := range []ast.Expr{x.X, x.Y} {
							if v, ok := core.ConstInt(root.TypesInfo, e); ok && v < 0 {
								arms[name][v] = true
							}
						}
					}
				case *ast.CallExpr:
					if fn := core.Callee(root.TypesInfo, x); fn != nil && fn.Pkg() == root.Types {
						cd, _ := p.DeclOf(fn)
						collect(cd, depth+1)
					}
				}
				return true
			})
		}
		collect(fd, 0)
		var vals []int64
		for v := range produced {
			vals = append(vals, v)
		}
		sort.Slice(vals, func(i, j int) bool { return vals[i] > vals[j] })
		for _, v := range vals {
			c.Check(arms[name][v], fmt.Sprintf("%s / arm for %s", name, produced[v]), fd.Pos(), "scanDollar produces %s (%d)", produced[v], v)
		}
	}
	same := len(arms["replacementImpl"]) == len(arms["replacementImplRTL"])
	for v := range arms["replacementImpl"] {
		if !arms["replacementImplRTL"][v] {
			same = false
		}
	}
	c.Check(same, "replacementImpl / replacementImplRTL have the same arm set", token.NoPos, "%d vs %d arms", len(arms["replacementImpl"]), len(arms["replacementImplRTL"]))
	// RTL walks rules descending
	rtl, _ := p.DeclOf(p.LookupFunc("", "replacementImplRTL"))
	rulesField := p.LookupField("syntax", "ReplacerData", "Rules")
	desc := false
	ast.Inspect(rtl.Body, func(n ast.Node) bool {
		fs, ok := n.(*ast.ForStmt)
		if !ok || fs.Post == nil {
			return true
		}
		if inc, ok := fs.Post.(*ast.IncDecStmt); ok && inc.Tok == token.DEC {
			// body indexes data.Rules[i]
			ast.Inspect(fs.Body, func(m ast.Node) bool {
				if ie, ok := m.(*ast.IndexExpr); ok && core.FieldOf(root.TypesInfo, ie.X) == rulesField {
					desc = true
				}
				return true
			})
		}
		return true
	})
	c.Check(desc, "replacementImplRTL / walks the rules from last to first", rtl.Pos(), "its caller emits the collected pieces back to front, so one replacement's pieces must be collected in reverse")
}

func RCompact(c *core.Ctx) {
	c.Rule("R-COMPACT", "in the pattern-replacement drivers every expansion of a (runner-owned, reused) match is preceded, for that same match value, by the balancing-group compaction test `if m.balancing { compactBalancedMatches(m) }`; each of the three replace loops leaves at count == 0 before asking for the next match", 5)
	p := c.P
	balancing := p.LookupField("", "Match", "balancing")
	scan := p.SSAFunc(p.LookupFunc("", "Runner.scan"))
	next := p.SSAFunc(p.LookupFunc("", "Regexp.FindNextMatch"))
	if balancing == nil || scan == nil || next == nil {
		c.Anchor("Match.balancing / scan / FindNextMatch")
		return
	}
	for _, name := range []string{"replaceRunnerLTR", "replaceRunnerRTL"} {
		fn := p.SSAFunc(p.LookupFunc("", name))
		if fn == nil {
			c.Anchor("regexp2." + name)
			continue
		}
		c.Visit(core.SSAName(fn))
		n := 0
		for _, b := range fn.Blocks {
			for _, ins := range b.Instrs {
				call, ok := ins.(*ssa.Call)
				if !ok || call.Call.StaticCallee() == nil || !strings.HasPrefix(call.Call.StaticCallee().Name(), "replacementImpl") {
					continue
				}
				n++
				m := call.Call.Args[len(call.Call.Args)-1]
				// a dominating block must test load(m.balancing) for this very m
				tested := false
				for d := b; d != nil; d = d.Idom() {
					if ifi, ok := d.Instrs[len(d.Instrs)-1].(*ssa.If); ok {
						if fa, ok := core.LoadOfField(ifi.Cond, balancing); ok && fa.X == m {
							tested = true
						}
					}
				}
				c.Check(tested, fmt.Sprintf("regexp2.%s / expansion #%d is preceded by the compaction test on the same match", name, n), call.Pos(), "the runner refills the same Match on every scan; each refill may leave balancing markers that must be compacted before groups are read")
			}
		}
		if n == 0 {
			c.Anchor("replacementImpl* call in " + name)
		}
	}
	// count discipline
	for _, name := range []string{"replace", "replaceRunnerLTR", "replaceRunnerRTL"} {
		fn := p.SSAFunc(p.LookupFunc("", name))
		if fn == nil {
			c.Anchor("regexp2." + name)
			continue
		}
		n := 0
		for _, b := range fn.Blocks {
			if !inLoop(b) {
				continue
			}
			for _, ins := range b.Instrs {
				call, ok := ins.(*ssa.Call)
				if !ok || (call.Call.StaticCallee() != scan && call.Call.StaticCallee() != next) {
					continue
				}
				n++
				okCount := false
				for _, f := range core.FactsAtBlock(b) {
					bin, ok := f.Cond.(*ssa.BinOp)
					if !ok || bin.Op != token.EQL || f.Val {
						continue
					}
					if k, ok := core.IntConst(bin.Y); ok && k == 0 {
						if dec, ok := bin.X.(*ssa.BinOp); ok && dec.Op == token.SUB {
							if one, ok := core.IntConst(dec.Y); ok && one == 1 {
								okCount = true
							}
						}
					}
				}
				c.Check(okCount, fmt.Sprintf("regexp2.%s / next match #%d requested only while count-1 != 0", name, n), call.Pos(), "the loop must decrement count once per replaced match and stop at zero before searching again")
			}
		}
	}
}

var _ = types.Typ

// R-REPID: with nothing to replace, Replace is the identity.
func RRepID(c *core.Ctx) {
	c.Rule("R-REPID", "no function of the Replace family (replace, replaceRunnerLTR, replaceRunnerRTL) returns a constant string together with a nil error: when there is nothing to substitute (count 0, no match) the result is the input itself, otherwise it is built from the input's text", 3)
	p := c.P
	n := 0
	for _, fname := range []string{"replace", "replaceRunnerLTR", "replaceRunnerRTL"} {
		fn := p.SSAFunc(p.LookupFunc("", fname))
		if fn == nil {
			c.Anchor("regexp2." + fname)
			continue
		}
		name := core.SSAName(fn)
		c.Visit(name)
		cnt := 0
		for _, b := range fn.Blocks {
			ret, ok := b.Instrs[len(b.Instrs)-1].(*ssa.Return)
			if !ok || len(ret.Results) != 2 || !core.IsNilConst(ret.Results[1]) {
				continue
			}
			cnt++
			n++
			k, isConst := ret.Results[0].(*ssa.Const)
			c.Check(!isConst, fmt.Sprintf("%s / successful return #%d hands back the input or text built from it", name, cnt), ret.Pos(),
				"returns the constant %s with a nil error: replacing zero matches must give the input back unchanged", func() string {
					if isConst {
						return k.String()
					}
					return ""
				}())
		}
	}
	if n == 0 {
		c.Anchor("successful returns of the Replace family")
	}
}

// ---------------------------------------------------------------------------
// R-COMMITPOS: longest-valid-prefix scanning commits number and position
// together.  ECMAScript `$nn` reads digits as long as they still name a group:
// each time the longer number is accepted (`if p.isCaptureSlot(n) { cap = n }`)
// the position after it has to be remembered as well, because the scanner
// rewinds to the remembered position afterwards.  Accepting the number without
// the position makes the accepted digits appear a second time as literal text.
// ---------------------------------------------------------------------------

func RCommitPos(c *core.Ctx) {
	c.Rule("R-COMMITPOS", "in package syntax every block guarded by `p.isCaptureSlot(X)` that commits the candidate (assigns X to another variable) also records the scan position (an assignment from p.textpos()) whenever the function later rewinds with p.textto(<that variable>): number and end position are committed together", 2)
	p := c.P
	syn := p.Pkg("syntax")
	info := syn.TypesInfo
	isSlot := p.LookupFunc("syntax", "parser.isCaptureSlot")
	textpos := p.LookupFunc("syntax", "parser.textpos")
	textto := p.LookupFunc("syntax", "parser.textto")
	if isSlot == nil || textpos == nil || textto == nil {
		c.Anchor("parser.isCaptureSlot / textpos / textto")
		return
	}
	n := 0
	for _, fd := range p.FuncDecls(syn) {
		if fd.Body == nil || p.IsTestFile(fd.Pos()) {
			continue
		}
		// variables the function rewinds to
		rewind := map[types.Object]bool{}
		for _, call := range core.CallsIn(info, fd.Body, textto) {
			if id, ok := ast.Unparen(call.Args[0]).(*ast.Ident); ok {
				rewind[info.ObjectOf(id)] = true
			}
		}
		if len(rewind) == 0 {
			continue
		}
		name := core.DeclName(syn, fd)
		cnt := 0
		ast.Inspect(fd.Body, func(x ast.Node) bool {
			ifs, ok := x.(*ast.IfStmt)
			if !ok {
				return true
			}
			call, ok := ast.Unparen(ifs.Cond).(*ast.CallExpr)
			if !ok || core.Callee(info, call) != isSlot || len(call.Args) != 1 {
				return true
			}
			cand, ok := ast.Unparen(call.Args[0]).(*ast.Ident)
			if !ok {
				return true
			}
			commits, records := false, false
			for _, st := range ifs.Body.List {
				as, ok := st.(*ast.AssignStmt)
				if !ok || len(as.Lhs) != 1 || len(as.Rhs) != 1 {
					continue
				}
				if id, ok := ast.Unparen(as.Rhs[0]).(*ast.Ident); ok && info.ObjectOf(id) == info.ObjectOf(cand) {
					commits = true
				}
				if c2, ok := ast.Unparen(as.Rhs[0]).(*ast.CallExpr); ok && core.Callee(info, c2) == textpos {
					if id, ok := as.Lhs[0].(*ast.Ident); ok && rewind[info.ObjectOf(id)] {
						records = true
					}
				}
			}
			if !commits && !records {
				return true
			}
			cnt++
			n++
			c.Visit(name)
			if !commits {
				c.Bad(fmt.Sprintf("%s / commit #%d of a longer group number also records the position", name, cnt), ifs.Pos(),
					"the position after %s is saved but the number itself is not taken over: the digits are consumed while the reference still names the shorter group", cand.Name)
				return true
			}
			c.Check(records, fmt.Sprintf("%s / commit #%d of a longer group number also records the position", name, cnt), ifs.Pos(),
				"%s is accepted as the group number but the position after it is not saved; the function rewinds with textto() to the last saved position, so the digits just accepted are scanned again as literal text", cand.Name)
			return true
		})
	}
	if n == 0 {
		c.Anchor("blocks that commit a candidate group number under isCaptureSlot")
	}
}
