package rules

import (
	"fmt"
	"go/token"
	"go/types"
	"sort"
	"strings"

	"golang.org/x/tools/go/ssa"

	"regexlint/internal/core"
)

// ---------------------------------------------------------------------------
// R-LOCK: lockset discipline for the shared structures that ARE written at
// match time.
// ---------------------------------------------------------------------------

type guardSpec struct {
	// resource: either (type, field) of a struct or a global name
	typ, field, global string
	// lock: sibling field name (same base object) or global name
	lockField, lockGlobal string
}

var lockTable = []guardSpec{
	{typ: "replacerDataCache", field: "ll", lockField: "mu"},
	{typ: "replacerDataCache", field: "cache", lockField: "mu"},
	{typ: "fastclock", field: "start", lockField: "mu"},
	{typ: "fastclock", field: "running", lockField: "mu"},
	{global: "engines", lockGlobal: "enginesMu"},
}

// external methods that mutate their receiver
var listMutators = map[string]bool{
	"MoveToFront": true, "MoveToBack": true, "MoveBefore": true, "MoveAfter": true, "PushFront": true, "PushBack": true,
	"PushFrontList": true, "PushBackList": true, "InsertBefore": true, "InsertAfter": true, "Remove": true, "Init": true,
}

func addrKey(v ssa.Value, fn *ssa.Function, depth int) (string, bool) {
	if depth > 8 {
		return "", false
	}
	switch x := v.(type) {
	case *ssa.Global:
		return x.Name(), true
	case *ssa.Parameter:
		for i, p := range fn.Params {
			if p == x {
				return fmt.Sprintf("p%d", i), true
			}
		}
	case *ssa.FieldAddr:
		b, ok := addrKey(x.X, fn, depth+1)
		if !ok {
			return "", false
		}
		f := core.FieldVarOfAddr(x)
		return b + "." + f.Name(), true
	case *ssa.Alloc:
		return "fresh:" + x.Name(), true
	case *ssa.FreeVar:
		return "free:" + x.Name(), true
	}
	return "", false
}

type lockState map[string]int // lock key -> 0 none, 1 read, 2 write

func (s lockState) clone() lockState {
	n := lockState{}
	for k, v := range s {
		n[k] = v
	}
	return n
}

func lockMeet(a, b lockState) lockState {
	if a == nil {
		return b.clone()
	}
	n := lockState{}
	for k, v := range a {
		if w := b[k]; w > 0 {
			n[k] = min(v, w)
		}
	}
	return n
}

func lockEq(a, b lockState) bool {
	if (a == nil) != (b == nil) || len(a) != len(b) {
		return false
	}
	for k, v := range a {
		if b[k] != v {
			return false
		}
	}
	return true
}

func mutexOp(ci ssa.CallInstruction) (op string, recv ssa.Value) {
	cal := ci.Common().StaticCallee()
	if cal == nil || len(ci.Common().Args) == 0 {
		return "", nil
	}
	switch cal.String() {
	case "(*sync.Mutex).Lock", "(*sync.RWMutex).Lock":
		return "lock", ci.Common().Args[0]
	case "(*sync.Mutex).Unlock", "(*sync.RWMutex).Unlock":
		return "unlock", ci.Common().Args[0]
	case "(*sync.RWMutex).RLock":
		return "rlock", ci.Common().Args[0]
	case "(*sync.RWMutex).RUnlock":
		return "runlock", ci.Common().Args[0]
	}
	return "", nil
}

func RLock(c *core.Ctx) {
	c.Rule("R-LOCK", "every access to a lock-guarded structure (replacerDataCache.ll/cache, fast.start/running, engines) happens with its mutex held — exclusively for writes, including writes through values loaded from it (map update/delete, list mutators, element stores); atomicTime.v is touched only through sync/atomic", 20)
	p := c.P
	root := p.Pkg("")
	ord := map[string]int{}
	nAccess := 0
	for _, fn := range p.ModuleFuncs() {
		if core.FnPkgPath(fn) != core.PkgRoot {
			continue
		}
		name := core.SSAName(fn)
		// resources touched in this function
		type access struct {
			ins   ssa.Instruction
			lock  string
			write bool
			what  string
		}
		derived := map[ssa.Value]string{} // value -> lock key required
		resWhat := map[ssa.Value]string{}
		resourceOf := func(addr ssa.Value) (lock, what string, ok bool) {
			switch x := addr.(type) {
			case *ssa.FieldAddr:
				f := core.FieldVarOfAddr(x)
				base, okb := addrKey(x.X, fn, 0)
				if !okb || f == nil {
					return "", "", false
				}
				bt := x.X.Type()
				if pt, okp := bt.Underlying().(*types.Pointer); okp {
					bt = pt.Elem()
				}
				_, tn := core.NamedOf(bt)
				for _, g := range lockTable {
					if g.typ == tn && g.field == f.Name() {
						if strings.HasPrefix(base, "fresh:") {
							return "", "", false // object under construction, not yet shared
						}
						return base + "." + g.lockField, tn + "." + f.Name(), true
					}
				}
			case *ssa.Global:
				for _, g := range lockTable {
					if g.global != "" && g.global == x.Name() && x.Pkg.Pkg == root.Types {
						return g.lockGlobal, x.Name(), true
					}
				}
			}
			return "", "", false
		}
		var accesses []access
		// first pass: derive taint (flow-insensitive within the function)
		for changed := true; changed; {
			changed = false
			for _, b := range fn.Blocks {
				for _, ins := range b.Instrs {
					v, ok := ins.(ssa.Value)
					if !ok || derived[v] != "" {
						continue
					}
					var from ssa.Value
					switch x := ins.(type) {
					case *ssa.UnOp:
						if x.Op == token.MUL {
							if lk, wh, ok := resourceOf(x.X); ok {
								derived[v], resWhat[v] = lk, wh
								changed = true
								continue
							}
							from = x.X
						}
					case *ssa.FieldAddr:
						from = x.X
					case *ssa.IndexAddr:
						from = x.X
					case *ssa.Lookup:
						from = x.X
					case *ssa.Extract:
						from = x.Tuple
					case *ssa.TypeAssert:
						from = x.X
					case *ssa.Phi:
						for _, e := range x.Edges {
							if derived[e] != "" {
								from = e
							}
						}
					case *ssa.Call:
						// results of methods on derived receivers (list.Back(), Front()) and field loads
						if len(x.Call.Args) > 0 && derived[x.Call.Args[0]] != "" && x.Call.StaticCallee() != nil && !core.InModule(x.Call.StaticCallee()) {
							from = x.Call.Args[0]
						}
					}
					if from != nil && derived[from] != "" && pointerLike(v.Type()) {
						derived[v], resWhat[v] = derived[from], resWhat[from]
						changed = true
					}
				}
			}
		}
		for _, b := range fn.Blocks {
			for _, ins := range b.Instrs {
				switch x := ins.(type) {
				case *ssa.UnOp:
					if x.Op == token.MUL {
						if lk, wh, ok := resourceOf(x.X); ok {
							accesses = append(accesses, access{ins, lk, false, "read " + wh})
						} else if lk := derived[x.X]; lk != "" {
							accesses = append(accesses, access{ins, lk, false, "read through " + resWhat[x.X]})
						}
					}
				case *ssa.Store:
					if lk, wh, ok := resourceOf(x.Addr); ok {
						accesses = append(accesses, access{ins, lk, true, "write " + wh})
					} else if lk := derived[x.Addr]; lk != "" {
						accesses = append(accesses, access{ins, lk, true, "write through " + resWhat[x.Addr]})
					}
				case *ssa.MapUpdate:
					if lk := derived[x.Map]; lk != "" {
						accesses = append(accesses, access{ins, lk, true, "map update of " + resWhat[x.Map]})
					}
				case *ssa.Lookup:
					if lk := derived[x.X]; lk != "" {
						accesses = append(accesses, access{ins, lk, false, "map lookup in " + resWhat[x.X]})
					}
				case ssa.CallInstruction:
					cc := x.Common()
					if bi, ok := cc.Value.(*ssa.Builtin); ok {
						if (bi.Name() == "delete" || bi.Name() == "clear") && len(cc.Args) > 0 && derived[cc.Args[0]] != "" {
							accesses = append(accesses, access{ins, derived[cc.Args[0]], true, bi.Name() + " on " + resWhat[cc.Args[0]]})
						}
						continue
					}
					cal := cc.StaticCallee()
					if cal == nil || core.InModule(cal) || len(cc.Args) == 0 {
						continue
					}
					if lk := derived[cc.Args[0]]; lk != "" {
						accesses = append(accesses, access{ins, lk, listMutators[cal.Name()], cal.Name() + " on " + resWhat[cc.Args[0]]})
					}
				}
			}
		}
		if len(accesses) == 0 {
			continue
		}
		c.Visit(name)
		// lock-state dataflow
		in := make([]lockState, len(fn.Blocks))
		in[0] = lockState{}
		at := map[ssa.Instruction]lockState{}
		transfer := func(b *ssa.BasicBlock, s lockState, record bool) lockState {
			cur := s.clone()
			for _, ins := range b.Instrs {
				if record {
					at[ins] = cur.clone()
				}
				ci, ok := ins.(ssa.CallInstruction)
				if !ok {
					continue
				}
				if _, isDefer := ins.(*ssa.Defer); isDefer {
					continue // deferred unlock: held until exit
				}
				op, recv := mutexOp(ci)
				if op == "" {
					continue
				}
				k, ok := addrKey(recv, fn, 0)
				if !ok {
					continue
				}
				switch op {
				case "lock":
					cur[k] = 2
				case "rlock":
					cur[k] = 1
				case "unlock", "runlock":
					delete(cur, k)
				}
			}
			return cur
		}
		work := []int{0}
		for iter := 0; len(work) > 0 && iter < 10000; iter++ {
			bi := work[0]
			work = work[1:]
			out := transfer(fn.Blocks[bi], in[bi], false)
			for _, s := range fn.Blocks[bi].Succs {
				n := lockMeet(in[s.Index], out)
				if !lockEq(n, in[s.Index]) {
					in[s.Index] = n
					work = append(work, s.Index)
				}
			}
		}
		for bi, b := range fn.Blocks {
			if in[bi] != nil {
				transfer(b, in[bi], true)
			}
		}
		sort.SliceStable(accesses, func(i, j int) bool { return accesses[i].ins.Pos() < accesses[j].ins.Pos() })
		for _, ac := range accesses {
			nAccess++
			need := 1
			if ac.write {
				need = 2
			}
			held := at[ac.ins][ac.lock]
			k := name + " / " + ac.what
			ord[k]++
			c.Check(held >= need, fmt.Sprintf("%s #%d", k, ord[k]), ac.ins.Pos(), "needs %s held %s; held mode at this point: %d (0 none, 1 read, 2 write)", ac.lock, map[int]string{1: "at least for reading", 2: "exclusively"}[need], held)
		}
	}
	if nAccess == 0 {
		c.Anchor("accesses to lock-guarded structures")
	}
	// atomicTime.v
	av := p.LookupField("", "atomicTime", "v")
	if av == nil {
		c.Anchor("regexp2.atomicTime.v")
	} else {
		n := 0
		for _, fn := range p.ModuleFuncs() {
			for _, b := range fn.Blocks {
				for _, ins := range b.Instrs {
					fa, ok := ins.(*ssa.FieldAddr)
					if !ok || core.FieldVarOfAddr(fa) != av {
						continue
					}
					n++
					okUse := true
					for _, r := range core.Referrers(fa) {
						ci, isCall := r.(ssa.CallInstruction)
						if !isCall || ci.Common().StaticCallee() == nil || !strings.HasPrefix(ci.Common().StaticCallee().String(), "sync/atomic.") {
							if _, isDbg := r.(*ssa.DebugRef); !isDbg {
								okUse = false
							}
						}
					}
					c.Check(okUse, fmt.Sprintf("%s / atomicTime.v access #%d", core.SSAName(fn), n), fa.Pos(), "the clock word is read and written by several goroutines; only sync/atomic may touch it")
				}
			}
		}
	}
}

// R-CLOCKEND: the clock's end time is only ever raised (except by the stop
// function), under the clock mutex.
func RClockEnd(c *core.Ctx) {
	c.Rule("R-CLOCKEND", "every write of fast.clockEnd outside stopClock happens with fast.mu held and is dominated by a test that the new value is greater than the current one: concurrent deadlines can only extend the clock, never shorten it", 1)
	p := c.P
	write := p.SSAFunc(p.LookupFunc("", "atomicTime.write"))
	read := p.SSAFunc(p.LookupFunc("", "atomicTime.read"))
	clockEnd := p.LookupField("", "fastclock", "clockEnd")
	if write == nil || read == nil || clockEnd == nil {
		c.Anchor("atomicTime.write / atomicTime.read / fastclock.clockEnd")
		return
	}
	n := 0
	for _, fn := range p.ModuleFuncs() {
		name := core.SSAName(fn)
		for _, b := range fn.Blocks {
			for _, ins := range b.Instrs {
				call, ok := ins.(*ssa.Call)
				if !ok || call.Call.StaticCallee() != write {
					continue
				}
				fa, ok := call.Call.Args[0].(*ssa.FieldAddr)
				if !ok || core.FieldVarOfAddr(fa) != clockEnd {
					continue
				}
				n++
				c.Visit(name)
				v := call.Call.Args[1]
				if name == "regexp2.stopClock" {
					k, isC := core.IntConst(v)
					if cv, ok := v.(*ssa.Convert); ok {
						k, isC = core.IntConst(cv.X)
					}
					c.Check(isC && k == 0, name+" / clockEnd.write (stop)", call.Pos(), "the stop function may only zero the end time")
					continue
				}
				raised := false
				for _, f := range core.FactsAtBlock(b) {
					x, y, op, ok := core.CmpNorm(f)
					if !ok || op != token.LSS {
						continue
					}
					// x < y  with y == v and x == read(&fast.clockEnd)
					if y != v {
						continue
					}
					if rc, ok := x.(*ssa.Call); ok && rc.Call.StaticCallee() == read {
						if rfa, ok := rc.Call.Args[0].(*ssa.FieldAddr); ok && core.FieldVarOfAddr(rfa) == clockEnd {
							raised = true
						}
					}
				}
				c.Check(raised, name+" / clockEnd.write only raises", call.Pos(), "the write must be dominated by `new > fast.clockEnd.read()` (a concurrent shorter deadline must not pull the clock's end below a longer one)")
			}
		}
	}
	if n == 0 {
		c.Anchor("writes of fast.clockEnd")
	}
}

// R-OWN: pooled objects have one owner and do not leak.
func ROwn(c *core.Ctx) {
	c.Rule("R-OWN", "every function that takes a Runner from the pool returns it through a deferred putRunner; a rune buffer taken from the global pool is given back in a deferred call and reaches scan only with quick=true (so no Match that leaves the package refers to it); putRunner drops the runner's references to the input text", 8)
	p := c.P
	getRunner := p.SSAFunc(p.LookupFunc("", "Regexp.getRunner"))
	putRunner := p.SSAFunc(p.LookupFunc("", "Regexp.putRunner"))
	scan := p.SSAFunc(p.LookupFunc("", "Runner.scan"))
	dec1 := p.SSAFunc(p.LookupFunc("", "Runner.decodeString"))
	dec2 := p.SSAFunc(p.LookupFunc("", "Runner.decodeStringWithStart"))
	runtext := p.LookupField("", "Runner", "Runtext")
	capText := p.LookupField("", "Capture", "text")
	if getRunner == nil || putRunner == nil || scan == nil || dec1 == nil || dec2 == nil || runtext == nil || capText == nil {
		c.Anchor("getRunner / putRunner / scan / decodeString / decodeStringWithStart / Runner.Runtext / Capture.text")
		return
	}
	var poolPut *ssa.Function
	for _, fn := range p.ModuleFuncs() {
		if strings.HasSuffix(fn.String(), "pooledSliceBuffers[rune]).put") {
			poolPut = fn
		}
	}
	quickIdx := -1
	for i, prm := range scan.Params {
		if prm.Name() == "quick" {
			quickIdx = i
		}
	}
	if quickIdx < 0 {
		c.Anchor("parameter quick of scan")
		return
	}
	for _, fn := range p.ModuleFuncs() {
		name := core.SSAName(fn)
		if fn == getRunner || fn == putRunner {
			continue
		}
		var pooled []ssa.Value
		for _, b := range fn.Blocks {
			for _, ins := range b.Instrs {
				call, ok := ins.(*ssa.Call)
				if !ok {
					continue
				}
				switch call.Call.StaticCallee() {
				case getRunner:
					c.Visit(name)
					c.Check(defersCall(fn, putRunner), name+" / runner returned to the pool by a deferred putRunner", call.Pos(), "a Runner taken with getRunner must go back on every exit, including error returns and panics")
				case dec1, dec2:
					c.Visit(name)
					pooled = append(pooled, call)
					gaveBack := poolPut != nil && defersReach(fn, func(f *ssa.Function) bool {
						return f == poolPut || (f.Origin() != nil && f.Origin() == poolPut.Origin())
					})
					c.Check(gaveBack, name+" / pooled rune buffer given back in a deferred call", call.Pos(), "decodeString* hands out a buffer from the global pool")
					// ... and only there: a second, explicit put on some path hands the same buffer to two later borrowers
					direct := token.NoPos
					for _, bb := range fn.Blocks {
						for _, i2 := range bb.Instrs {
							if c2, ok := i2.(*ssa.Call); ok && poolPut != nil {
								if cal := c2.Call.StaticCallee(); cal != nil && (cal == poolPut || cal.Origin() == poolPut.Origin() && cal.Origin() != nil) {
									direct = c2.Pos()
								}
							}
						}
					}
					if gaveBack {
						c.Check(direct == token.NoPos, name+" / pooled rune buffer is released exactly once", call.Pos(), "besides the deferred release there is an explicit put at %s: on that path the buffer enters the pool twice and two later callers share it", p.Pos(direct))
					}
				}
			}
		}
		if len(pooled) == 0 {
			continue
		}
		// values derived from the pooled decode result
		der := map[ssa.Value]bool{}
		for _, v := range pooled {
			der[v] = true
		}
		for changed := true; changed; {
			changed = false
			for _, b := range fn.Blocks {
				for _, ins := range b.Instrs {
					v, ok := ins.(ssa.Value)
					if !ok || der[v] {
						continue
					}
					switch x := ins.(type) {
					case *ssa.Extract:
						if der[x.Tuple] && x.Index == 0 {
							der[v] = true
							changed = true
						}
					case *ssa.Phi:
						for _, e := range x.Edges {
							if der[e] {
								der[v] = true
								changed = true
							}
						}
					case *ssa.Slice:
						if der[x.X] {
							der[v] = true
							changed = true
						}
					case *ssa.Call:
						// newStringMatchText(input, text): the text info refers to the buffer
						for _, a := range x.Call.Args {
							if der[a] && x.Call.StaticCallee() != nil && core.BaseName(x.Call.StaticCallee()) == "newStringMatchText" {
								der[v] = true
								changed = true
							}
						}
					}
				}
			}
		}
		n := 0
		for _, b := range fn.Blocks {
			for _, ins := range b.Instrs {
				call, ok := ins.(*ssa.Call)
				if !ok {
					continue
				}
				usesPooled := false
				for _, a := range call.Call.Args {
					if der[a] {
						usesPooled = true
					}
				}
				if !usesPooled {
					continue
				}
				cal := call.Call.StaticCallee()
				switch {
				case cal == scan:
					n++
					q, isC := call.Call.Args[quickIdx].(*ssa.Const)
					c.Check(isC && q.Value != nil && q.Value.String() == "true", fmt.Sprintf("%s / scan #%d over a pooled buffer is quick", name, n), call.Pos(), "a non-quick scan would hand out a Match whose text is a buffer that goes back to the pool")
				case cal != nil && (core.BaseName(cal) == "newStringMatchText" || core.BaseName(cal) == "writeRunes" || core.BaseName(cal) == "findAllRunesIndex"):
					// text info for quick scans / local reads / the find-all driver (which scans quick: checked on its own call)
				case cal == nil:
					if _, isBuiltin := call.Call.Value.(*ssa.Builtin); !isBuiltin {
						c.Bad(fmt.Sprintf("%s / pooled buffer passed to a dynamic call", name), call.Pos(), "a callback could retain the pooled buffer")
					}
				default:
					c.Bad(fmt.Sprintf("%s / pooled buffer passed to %s", name, cal.Name()), call.Pos(), "unclassified consumer of a pooled buffer")
				}
			}
			if ret, ok := b.Instrs[len(b.Instrs)-1].(*ssa.Return); ok {
				for _, r := range ret.Results {
					if der[r] {
						c.Bad(name+" / pooled buffer returned", ret.Pos(), "the buffer goes back to the pool when this function returns")
					}
				}
			}
		}
	}
	// findAllRunesIndex scans quick
	fa := p.SSAFunc(p.LookupFunc("", "Regexp.findAllRunesIndex"))
	if fa == nil {
		c.Anchor("Regexp.findAllRunesIndex")
	} else {
		for _, b := range fa.Blocks {
			for _, ins := range b.Instrs {
				if call, ok := ins.(*ssa.Call); ok && call.Call.StaticCallee() == scan {
					q, isC := call.Call.Args[quickIdx].(*ssa.Const)
					c.Check(isC && q.Value.String() == "true", "regexp2.(*Regexp).findAllRunesIndex / scans quick", call.Pos(), "its input may be a pooled buffer")
				}
			}
		}
	}
	// putRunner drops text references
	dropsRuntext, dropsMatchText := false, false
	for _, b := range putRunner.Blocks {
		for _, ins := range b.Instrs {
			if st, ok := ins.(*ssa.Store); ok && core.IsNilConst(st.Val) {
				f := core.FieldVarOfAddr(st.Addr)
				if f == runtext && b.Dominates(exitBlockOf(putRunner)) {
					dropsRuntext = true
				}
				if f == capText {
					dropsMatchText = true
				}
			}
		}
	}
	c.Check(dropsRuntext && dropsMatchText, "regexp2.(*Regexp).putRunner / drops Runtext and runmatch.text", putRunner.Pos(), "a pooled Runner must not keep the (possibly pooled) input alive or visible to the next user")
}

// ---------------------------------------------------------------------------
// R-UNLOCK: every acquisition is paired with a release on every path.
// A mutex left locked on one return path does not show in any single call —
// the function returns its normal value — but freezes every later caller (and,
// for fast.mu, the clock goroutine: no timeout fires again in the process).
// ---------------------------------------------------------------------------

func RUnlock(c *core.Ctx) {
	c.Rule("R-UNLOCK", "for every Lock/RLock call in the module: every path from it to a return of the function passes the matching Unlock/RUnlock of the same mutex (or the function defers it), and no path reaches a second acquisition of the same mutex first", 8)
	p := c.P
	n := 0
	for _, fn := range p.ModuleFuncs() {
		name := core.SSAName(fn)
		deferred := map[string]bool{}
		type site struct {
			b    *ssa.BasicBlock
			i    int
			key  string
			want string
			pos  token.Pos
		}
		var sites []site
		for _, b := range fn.Blocks {
			for i, ins := range b.Instrs {
				ci, ok := ins.(ssa.CallInstruction)
				if !ok {
					continue
				}
				op, recv := mutexOp(ci)
				if op == "" {
					continue
				}
				k, ok := addrKey(recv, fn, 0)
				if !ok {
					c.Unknown(fmt.Sprintf("%s / mutex operand", name), ins.Pos(), "the mutex operated on is not a global, parameter field or captured variable")
					continue
				}
				if _, isDefer := ins.(*ssa.Defer); isDefer {
					deferred[op+" "+k] = true
					continue
				}
				switch op {
				case "lock":
					sites = append(sites, site{b, i, k, "unlock", ins.Pos()})
				case "rlock":
					sites = append(sites, site{b, i, k, "runlock", ins.Pos()})
				}
			}
		}
		cnt := 0
		for _, s := range sites {
			cnt++
			n++
			c.Visit(name)
			key := fmt.Sprintf("%s / acquisition #%d of %s is released on every path", name, cnt, s.key)
			if deferred[s.want+" "+s.key] {
				c.Check(true, key, s.pos, "")
				continue
			}
			// forward search from the instruction after the acquisition
			bad := ""
			var badPos token.Pos
			seen := map[*ssa.BasicBlock]bool{}
			var walk func(b *ssa.BasicBlock, from int)
			walk = func(b *ssa.BasicBlock, from int) {
				if bad != "" {
					return
				}
				for _, ins := range b.Instrs[from:] {
					if ci, ok := ins.(ssa.CallInstruction); ok {
						if _, isDefer := ins.(*ssa.Defer); !isDefer {
							if op, recv := mutexOp(ci); op != "" {
								if k, ok := addrKey(recv, fn, 0); ok && k == s.key {
									if op == s.want {
										return // released on this path
									}
									if op == "lock" || (op == "rlock" && s.want == "unlock") {
										bad, badPos = "a second acquisition of the same mutex is reached while it is still held", ins.Pos()
										return
									}
								}
							}
						}
					}
					if _, ok := ins.(*ssa.Return); ok {
						bad, badPos = "a return is reached with the mutex still held", ins.Pos()
						return
					}
				}
				for _, nx := range b.Succs {
					if !seen[nx] {
						seen[nx] = true
						walk(nx, 0)
					}
				}
			}
			walk(s.b, s.i+1)
			msg := ""
			if bad != "" {
				msg = fmt.Sprintf("%s (at %s): every later caller of this mutex blocks for ever", bad, p.Fset.Position(badPos))
			}
			c.Check(bad == "", key, s.pos, "%s", msg)
		}
	}
	if n == 0 {
		c.Anchor("mutex acquisitions")
	}
}
