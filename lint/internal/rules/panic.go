package rules

import (
	"fmt"
	"go/ast"
	"go/constant"
	"go/token"
	"go/types"
	"sort"
	"strings"

	"golang.org/x/tools/go/ssa"

	"regexlint/internal/core"
)

// ---------------------------------------------------------------------------
// R-PANIC: every explicit panic site is classified and its reason discharged.
// ---------------------------------------------------------------------------

type panicClass struct {
	fn     string // core.FuncName of the enclosing function
	class  string
	reason string
}

var panicTable = []panicClass{
	{"regexp2.MustCompile", "documented", "MustCompile panics with the parse error by contract"},
	{"compat.must", "documented", "the adapter has no error results; it panics with the match-time error (timeout / stack limit) by contract"},
	{"syntax.Fuzz", "build-tagged", "go-fuzz entry point, only built with -tags gofuzz"},
	{"syntax.getCharSetFromCategoryString", "init-constant", "called only with constant flags that are not both true"},
	{"syntax.(*regexFcd).calculateFC", "fatal-default", "default arm of a NodeType switch; R-FATAL shows the switch is exhaustive"},
	{"syntax.opcodeSize", "fatal-default", "default arm of an opcode switch; R-OP1 (C01) shows every emitted/handled opcode is sized"},
	{"syntax.NewReplacerData", "producer-consumer", "the replacement parser constructs only the node kinds the consumer switch lists"},
	{"syntax.(*CharSet).addCategory", "validated-argument", "both call sites pass the first result of parseProperty under a nil error; parseProperty returns only names accepted by canonicalUnicodeCatName"},
	{"helpers.IndexOfAnyExceptInSet", "unreachable", "unimplemented stub; must not be reachable from the regexp2/compat/syntax API"},
	{"helpers.NewAsciiSearchValues", "unreachable", "constructor for the code generator's output; must not be reachable from the regexp2/compat/syntax API"},
	{"helpers.(AsciiSearchValues).LastIndexOfAny", "unreachable", "unimplemented stub"},
	{"helpers.(AsciiSearchValues).LastIndexOfAnyExcept", "unreachable", "unimplemented stub"},
	{"helpers.(RuneSearchValues).LastIndexOfAny", "unreachable", "unimplemented stub"},
	{"helpers.(RuneSearchValues).LastIndexOfAnyExcept", "unreachable", "unimplemented stub"},
	{"helpers.(StringSearchValues).StartsWith", "unreachable", "unimplemented stub"},
	{"helpers.(StringSearchValues).StartsWithIgnoreCase", "unreachable", "unimplemented stub"},
}

func isBuiltinPanic(info *types.Info, call *ast.CallExpr) bool {
	id, ok := ast.Unparen(call.Fun).(*ast.Ident)
	if !ok {
		return false
	}
	b, ok := info.Uses[id].(*types.Builtin)
	return ok && b.Name() == "panic"
}

func RPanic(c *core.Ctx) {
	c.Rule("R-PANIC", "every explicit panic( in non-test code is in the classification table, and the reason of its class is checked: documented; init-time constant; fatal default of an exhaustive switch; unreachable from the exported API of regexp2/compat/syntax in the call graph; producer/consumer agreement; validated argument", 14)
	p := c.P
	type site struct {
		fn   *types.Func
		name string
		pos  token.Pos
	}
	var sites []site
	for _, pk := range p.ModulePkgs() {
		for _, fd := range p.FuncDecls(pk) {
			fn, _ := pk.TypesInfo.Defs[fd.Name].(*types.Func)
			name := core.DeclName(pk, fd)
			ast.Inspect(fd.Body, func(n ast.Node) bool {
				if call, ok := n.(*ast.CallExpr); ok && isBuiltinPanic(pk.TypesInfo, call) {
					sites = append(sites, site{fn, name, call.Pos()})
				}
				return true
			})
		}
		// panics in package-level initialisers
		for _, f := range pk.Syntax {
			if p.IsTestFile(f.Pos()) {
				continue
			}
			for _, d := range f.Decls {
				if gd, ok := d.(*ast.GenDecl); ok {
					ast.Inspect(gd, func(n ast.Node) bool {
						if call, ok := n.(*ast.CallExpr); ok && isBuiltinPanic(pk.TypesInfo, call) {
							sites = append(sites, site{nil, pk.Name + ".<package initialiser>", call.Pos()})
						}
						return true
					})
				}
			}
		}
	}
	// reachability from the exported API
	var roots []*ssa.Function
	prog := p.SSA()
	for _, short := range []string{"", "compat", "syntax"} {
		pk := p.Pkg(short)
		sp := p.SSAPkg(short)
		for _, name := range pk.Types.Scope().Names() {
			obj := pk.Types.Scope().Lookup(name)
			if !obj.Exported() {
				continue
			}
			switch o := obj.(type) {
			case *types.Func:
				if f := sp.Func(name); f != nil && !p.IsTestFile(o.Pos()) {
					roots = append(roots, f)
				}
			case *types.TypeName:
				for _, t := range []types.Type{o.Type(), types.NewPointer(o.Type())} {
					ms := prog.MethodSets.MethodSet(t)
					for i := 0; i < ms.Len(); i++ {
						if ms.At(i).Obj().Exported() {
							if f := prog.MethodValue(ms.At(i)); f != nil {
								roots = append(roots, f)
							}
						}
					}
				}
			}
		}
	}
	reach := p.Reachable(roots)
	c.Note("R-PANIC reachability: %d exported roots in regexp2/compat/syntax, %d module functions reachable (VTA call graph)", len(roots), len(reach))

	ord := map[string]int{}
	for _, s := range sites {
		ord[s.name]++
		key := fmt.Sprintf("%s / panic #%d", s.name, ord[s.name])
		var cls *panicClass
		for i := range panicTable {
			if panicTable[i].fn == s.name {
				cls = &panicTable[i]
			}
		}
		if cls == nil {
			c.Bad(key, s.pos, "unclassified panic: a new panic( site must be shown unreachable for user-supplied patterns/inputs or documented")
			continue
		}
		switch cls.class {
		case "documented", "build-tagged":
			c.OK(key, s.pos, "%s: %s", cls.class, cls.reason)
		case "unreachable":
			f := p.SSAFunc(s.fn)
			if f == nil {
				c.Unknown(key, s.pos, "no SSA function for %s", s.name)
				continue
			}
			c.Check(!reach[f], key, s.pos, "%s (%s) must be unreachable from the exported API of regexp2/compat/syntax", s.name, cls.reason)
		case "init-constant":
			okAll := true
			n := 0
			for _, pk := range p.ModulePkgs() {
				for _, f := range pk.Syntax {
					if p.IsTestFile(f.Pos()) {
						continue
					}
					ast.Inspect(f, func(x ast.Node) bool {
						call, ok := x.(*ast.CallExpr)
						if !ok || core.Callee(pk.TypesInfo, call) != s.fn || len(call.Args) < 2 {
							return true
						}
						n++
						a, ok1 := pk.TypesInfo.Types[call.Args[0]]
						b, ok2 := pk.TypesInfo.Types[call.Args[1]]
						if !ok1 || !ok2 || a.Value == nil || b.Value == nil || (constant.BoolVal(a.Value) && constant.BoolVal(b.Value)) {
							okAll = false
						}
						return true
					})
				}
			}
			c.Check(okAll && n > 0, key, s.pos, "%d call sites, each with constant flags that are not both true", n)
		case "fatal-default":
			c.OK(key, s.pos, "%s", cls.reason)
		case "producer-consumer":
			checkReplacementKinds(c, key, s.pos)
		case "validated-argument":
			checkAddCategoryArgs(c, key, s.pos)
		}
	}
}

// checkReplacementKinds: node kinds constructed by the replacement parser ⊆
// kinds NewReplacerData's switch lists; reduce() is the identity on them.
func checkReplacementKinds(c *core.Ctx, key string, pos token.Pos) {
	p := c.P
	syn := p.Pkg("syntax")
	info := syn.TypesInfo
	nodeType, _ := syn.Types.Scope().Lookup("NodeType").(*types.TypeName)
	produced := map[int64]string{}
	for _, name := range []string{"parser.scanReplacement", "parser.scanDollar", "parser.addToConcatenate"} {
		fd, _ := p.DeclOf(p.LookupFunc("syntax", name))
		if fd == nil {
			c.Anchor("syntax." + name)
			return
		}
		ast.Inspect(fd.Body, func(x ast.Node) bool {
			call, ok := x.(*ast.CallExpr)
			if !ok {
				return true
			}
			fn := core.Callee(info, call)
			if fn == nil || fn.Pkg() != syn.Types {
				return true
			}
			sig := fn.Type().(*types.Signature)
			for i := 0; i < sig.Params().Len() && i < len(call.Args); i++ {
				if types.Identical(sig.Params().At(i).Type(), nodeType.Type()) {
					if v, ok := core.ConstInt(info, call.Args[i]); ok {
						produced[v] = types.ExprString(call.Args[i])
					} else {
						produced[-999] = "non-constant " + types.ExprString(call.Args[i])
					}
				}
			}
			return true
		})
	}
	consumed := map[int64]bool{}
	fd, _ := p.DeclOf(p.LookupFunc("syntax", "NewReplacerData"))
	tField := p.LookupField("syntax", "RegexNode", "T")
	if fd == nil {
		c.Anchor("syntax.NewReplacerData")
		return
	}
	concatOK := false
	ast.Inspect(fd.Body, func(x ast.Node) bool {
		switch n := x.(type) {
		case *ast.SwitchStmt:
			if n.Tag != nil && core.FieldOf(info, n.Tag) == tField {
				for _, st := range n.Body.List {
					for _, e := range st.(*ast.CaseClause).List {
						if v, ok := core.ConstInt(info, e); ok {
							consumed[v] = true
						}
					}
				}
			}
		case *ast.BinaryExpr:
			if n.Op == token.NEQ && core.FieldOf(info, n.X) == tField {
				if v, ok := core.ConstInt(info, n.Y); ok {
					consumed[v] = true
					concatOK = true
				}
			}
		}
		return true
	})
	// reduce() must not rewrite the produced leaf kinds
	reduceFd, _ := p.DeclOf(p.LookupFunc("syntax", "RegexNode.reduce"))
	rewritten := map[int64]bool{}
	if reduceFd != nil {
		ast.Inspect(reduceFd.Body, func(x ast.Node) bool {
			if sw, ok := x.(*ast.SwitchStmt); ok && sw.Tag != nil && core.FieldOf(info, sw.Tag) == tField {
				for _, st := range sw.Body.List {
					for _, e := range st.(*ast.CaseClause).List {
						if v, ok := core.ConstInt(info, e); ok {
							rewritten[v] = true
						}
					}
				}
			}
			return true
		})
	} else {
		c.Anchor("syntax.RegexNode.reduce")
	}
	concat, _ := constInScope(syn.Types, "NtConcatenate")
	var bad []string
	for v, s := range produced {
		if v == concat {
			continue
		}
		if !consumed[v] {
			bad = append(bad, s+" not handled by NewReplacerData")
		}
		if rewritten[v] {
			bad = append(bad, s+" is rewritten by reduce()")
		}
	}
	sort.Strings(bad)
	c.Check(len(bad) == 0 && concatOK && len(produced) >= 3, key, pos, "replacement parser constructs %d node kinds; consumer lists %d; %s", len(produced), len(consumed), strings.Join(bad, "; "))
}

// checkAddCategoryArgs: every call of addCategory passes a variable that was
// assigned from parseProperty's first result and is used under err == nil; and
// every non-error return of parseProperty returns the first result of
// canonicalUnicodeCatName under its ok result.
func checkAddCategoryArgs(c *core.Ctx, key string, pos token.Pos) {
	p := c.P
	syn := p.Pkg("syntax")
	info := syn.TypesInfo
	addCat := p.LookupFunc("syntax", "CharSet.addCategory")
	parseProp := p.LookupFunc("syntax", "parser.parseProperty")
	canon := p.LookupFunc("syntax", "canonicalUnicodeCatName")
	if addCat == nil || parseProp == nil || canon == nil {
		c.Anchor("syntax addCategory / parseProperty / canonicalUnicodeCatName")
		return
	}
	nCalls, okCalls := 0, 0
	for _, fd := range p.FuncDecls(syn) {
		calls := core.CallsIn(info, fd.Body, addCat)
		if len(calls) == 0 {
			continue
		}
		g := core.NewGraph(info, fd.Body)
		for _, call := range calls {
			nCalls++
			arg, _ := info.ObjectOf(identOf(call.Args[0])).(*types.Var)
			if arg == nil {
				continue
			}
			// find `arg, err := p.parseProperty()` and `if err != nil { return }`
			var errVar *types.Var
			ast.Inspect(fd.Body, func(x ast.Node) bool {
				as, ok := x.(*ast.AssignStmt)
				if !ok || len(as.Lhs) != 2 || len(as.Rhs) != 1 {
					return true
				}
				rc, ok := as.Rhs[0].(*ast.CallExpr)
				if !ok || core.Callee(info, rc) != parseProp {
					return true
				}
				if v, _ := info.ObjectOf(identOf(as.Lhs[0])).(*types.Var); v == arg && as.Pos() < call.Pos() {
					errVar, _ = info.ObjectOf(identOf(as.Lhs[1])).(*types.Var)
				}
				return true
			})
			if errVar == nil {
				continue
			}
			b, _ := g.BlockOf(call)
			if b == nil {
				continue
			}
			for _, f := range g.FactsAt(b) {
				for _, cj := range conjunctsOrNegDisjuncts(f) {
					if be, ok := cj.e.(*ast.BinaryExpr); ok {
						if v, _ := info.ObjectOf(identOf(be.X)).(*types.Var); v == errVar && isNilIdent(info, be.Y) {
							if (be.Op == token.NEQ && !cj.val) || (be.Op == token.EQL && cj.val) {
								okCalls++
								return
							}
						}
					}
				}
			}
		}
	}
	// parseProperty returns
	retOK := true
	fd, _ := p.DeclOf(parseProp)
	nRet := 0
	if fd == nil {
		retOK = false
	} else {
		canonVars := map[*types.Var]bool{}
		ast.Inspect(fd.Body, func(x ast.Node) bool {
			if as, ok := x.(*ast.AssignStmt); ok && len(as.Rhs) == 1 {
				if rc, ok := as.Rhs[0].(*ast.CallExpr); ok && core.Callee(info, rc) == canon && len(as.Lhs) == 2 {
					if v, _ := info.ObjectOf(identOf(as.Lhs[0])).(*types.Var); v != nil {
						canonVars[v] = true
					}
				}
			}
			return true
		})
		ast.Inspect(fd.Body, func(x ast.Node) bool {
			r, ok := x.(*ast.ReturnStmt)
			if !ok || len(r.Results) != 2 {
				return true
			}
			if isNilIdent(info, r.Results[1]) {
				nRet++
				v, _ := info.ObjectOf(identOf(r.Results[0])).(*types.Var)
				if v == nil || !canonVars[v] {
					retOK = false
				}
			}
			return true
		})
	}
	c.Check(nCalls > 0 && okCalls == nCalls && retOK && nRet > 0, key, pos, "%d addCategory call sites, %d under a nil-error test of parseProperty; %d success returns of parseProperty all return canonicalUnicodeCatName's result (idempotence of canonicalUnicodeCatName itself is a value property and is not decided)", nCalls, okCalls, nRet)
}

type polExpr struct {
	e   ast.Expr
	val bool
}

// conjunctsOrNegDisjuncts splits a fact into atomic facts: (a && b)=true gives
// a=true,b=true; (a || b)=false gives a=false,b=false.
func conjunctsOrNegDisjuncts(f core.EdgeFact) []polExpr {
	e := ast.Unparen(f.Cond)
	if u, ok := e.(*ast.UnaryExpr); ok && u.Op == token.NOT {
		return conjunctsOrNegDisjuncts(core.EdgeFact{Cond: u.X, Value: !f.Value})
	}
	if be, ok := e.(*ast.BinaryExpr); ok {
		if (be.Op == token.LAND && f.Value) || (be.Op == token.LOR && !f.Value) {
			return append(conjunctsOrNegDisjuncts(core.EdgeFact{Cond: be.X, Value: f.Value}), conjunctsOrNegDisjuncts(core.EdgeFact{Cond: be.Y, Value: f.Value})...)
		}
	}
	return []polExpr{{e, f.Value}}
}

func identOf(e ast.Expr) *ast.Ident {
	id, _ := ast.Unparen(e).(*ast.Ident)
	if id == nil {
		return &ast.Ident{Name: "_"}
	}
	return id
}

func isNilIdent(info *types.Info, e ast.Expr) bool {
	id, ok := ast.Unparen(e).(*ast.Ident)
	if !ok {
		return false
	}
	_, isNil := info.Uses[id].(*types.Nil)
	return isNil
}

// ---------------------------------------------------------------------------
// R-FATAL: tree walkers whose default arm is fatal list every node kind.
// ---------------------------------------------------------------------------

func RFatal(c *core.Ctx) {
	c.Rule("R-FATAL", "a tree walker whose default arm panics or returns an internal error (calculateFC, emitFragment) lists every declared NodeType, as a leaf label or as both |BeforeChild and |AfterChild", 60)
	p := c.P
	syn := p.Pkg("syntax")
	info := syn.TypesInfo
	m := buildOpModel(c)
	for _, w := range []string{"regexFcd.calculateFC", "writer.emitFragment"} {
		fn := p.LookupFunc("syntax", w)
		fd, _ := p.DeclOf(fn)
		if fd == nil {
			c.Anchor("syntax." + w)
			continue
		}
		c.Visit(core.FuncName(fn))
		var ntParam types.Object
		if len(fd.Type.Params.List) > 0 && len(fd.Type.Params.List[0].Names) > 0 {
			ntParam = info.Defs[fd.Type.Params.List[0].Names[0]]
		}
		labels := map[int64]bool{}
		found := false
		ast.Inspect(fd.Body, func(x ast.Node) bool {
			sw, ok := x.(*ast.SwitchStmt)
			if !ok || sw.Tag == nil || found {
				return true
			}
			if id, ok := ast.Unparen(sw.Tag).(*ast.Ident); !ok || info.ObjectOf(id) != ntParam {
				return true
			}
			found = true
			for _, st := range sw.Body.List {
				for _, e := range st.(*ast.CaseClause).List {
					if v, ok := core.ConstInt(info, e); ok {
						labels[v] = true
					}
				}
			}
			return false
		})
		if !found {
			c.Anchor("switch on the node-type parameter of syntax." + w)
			continue
		}
		var nts []int64
		for v := range m.ntName {
			nts = append(nts, v)
		}
		sort.Slice(nts, func(i, j int) bool { return nts[i] < nts[j] })
		for _, v := range nts {
			name := m.ntName[v]
			if v < 0 {
				continue // NtUnknown: sentinel, never stored in a tree that reaches a walker
			}
			leaf := labels[v]
			interior := labels[v|m.before] && labels[v|m.after]
			c.Check(leaf || interior, fmt.Sprintf("%s / covers %s", core.FuncName(fn), name), fd.Pos(),
				"node kind %s must be listed as a leaf or as both |BeforeChild and |AfterChild (leaf=%v before=%v after=%v); otherwise the default arm is fatal for a parsed pattern", name, leaf, labels[v|m.before], labels[v|m.after])
		}
	}
}

// ---------------------------------------------------------------------------
// R-NILMATCH: a *Match obtained from a call is nil-tested before it is used.
// ---------------------------------------------------------------------------

func RNilMatch(c *core.Ctx) {
	c.Rule("R-NILMATCH", "in packages regexp2 and compat, a *Match that is the result of a call (no match => nil) is dereferenced, or passed to a function that dereferences it unconditionally, only where a dominating branch has compared that same SSA value with nil", 25)
	p := c.P
	matchT, _ := p.Pkg("").Types.Scope().Lookup("Match").(*types.TypeName)
	if matchT == nil {
		c.Anchor("regexp2.Match")
		return
	}
	isMatchPtr := func(t types.Type) bool {
		pt, ok := t.(*types.Pointer)
		if !ok {
			return false
		}
		n, ok := types.Unalias(pt.Elem()).(*types.Named)
		return ok && n.Obj() == matchT
	}
	funcs := p.ModuleFuncs()
	// pass 1: which *Match parameters are nil-safe (every deref dominated by a nil test)
	derefUses := func(v ssa.Value) []ssa.Instruction {
		var out []ssa.Instruction
		for _, r := range core.Referrers(v) {
			switch i := r.(type) {
			case *ssa.FieldAddr:
				if i.X == v {
					out = append(out, i)
				}
			case *ssa.Field:
				out = append(out, i)
			case *ssa.UnOp:
				if i.Op == token.MUL && i.X == v {
					out = append(out, i)
				}
			case ssa.CallInstruction:
				cc := i.Common()
				if !cc.IsInvoke() && cc.Signature().Recv() != nil && len(cc.Args) > 0 && cc.Args[0] == v {
					out = append(out, i) // method call with v as receiver
				}
			}
		}
		return out
	}
	unsafeParam := map[*ssa.Parameter]bool{}
	for iter := 0; iter < 4; iter++ {
		changed := false
		for _, fn := range funcs {
			for _, prm := range fn.Params {
				if !isMatchPtr(prm.Type()) || unsafeParam[prm] {
					continue
				}
				bad := false
				for _, u := range derefUses(prm) {
					// a method call on v is only a deref if the callee derefs its receiver
					if ci, ok := u.(ssa.CallInstruction); ok {
						if cal := ci.Common().StaticCallee(); cal != nil && len(cal.Params) > 0 && !unsafeParam[cal.Params[0]] && cal.Blocks != nil {
							continue
						}
					}
					if !core.NonNilAt(prm, u) {
						bad = true
					}
				}
				// passing on to an unsafe parameter
				for _, r := range core.Referrers(prm) {
					if ci, ok := r.(ssa.CallInstruction); ok {
						cal := ci.Common().StaticCallee()
						for ai, a := range ci.Common().Args {
							if a != prm {
								continue
							}
							if cal == nil || cal.Blocks == nil || ai >= len(cal.Params) {
								continue
							}
							if unsafeParam[cal.Params[ai]] && !core.NonNilAt(prm, ci) {
								bad = true
							}
						}
					}
				}
				if bad {
					unsafeParam[prm] = true
					changed = true
				}
			}
		}
		if !changed {
			break
		}
	}
	// pass 2: call results
	for _, fn := range funcs {
		path := core.FnPkgPath(fn)
		if path != core.PkgRoot && path != core.PkgCompat {
			continue
		}
		fname := core.SSAName(fn)
		var sources []ssa.Value
		for _, b := range fn.Blocks {
			for _, ins := range b.Instrs {
				switch v := ins.(type) {
				case *ssa.Call:
					if isMatchPtr(v.Type()) {
						sources = append(sources, v)
					}
				case *ssa.Extract:
					if _, ok := v.Tuple.(*ssa.Call); ok && isMatchPtr(v.Type()) {
						sources = append(sources, v)
					}
				}
			}
		}
		if len(sources) == 0 {
			continue
		}
		c.Visit(fname)
		// close over phis
		vals := map[ssa.Value]bool{}
		var work []ssa.Value
		for _, s := range sources {
			// constructor results are never nil
			if call, ok := s.(*ssa.Call); ok {
				if cal := call.Call.StaticCallee(); cal != nil && (core.BaseName(cal) == "newMatch" || core.BaseName(cal) == "newMatchSparse") {
					continue
				}
			}
			vals[s] = true
			work = append(work, s)
		}
		for len(work) > 0 {
			v := work[len(work)-1]
			work = work[:len(work)-1]
			for _, r := range core.Referrers(v) {
				if phi, ok := r.(*ssa.Phi); ok && !vals[phi] {
					vals[phi] = true
					work = append(work, phi)
				}
			}
		}
		ord := 0
		var ordered []ssa.Value
		for v := range vals {
			ordered = append(ordered, v)
		}
		sort.Slice(ordered, func(i, j int) bool {
			return ordered[i].Pos() < ordered[j].Pos() || (ordered[i].Pos() == ordered[j].Pos() && ordered[i].Name() < ordered[j].Name())
		})
		for _, v := range ordered {
			var uses []ssa.Instruction
			for _, u := range derefUses(v) {
				if ci, ok := u.(ssa.CallInstruction); ok {
					if cal := ci.Common().StaticCallee(); cal != nil && cal.Blocks != nil && len(cal.Params) > 0 && !unsafeParam[cal.Params[0]] {
						continue // receiver is nil-tested inside
					}
				}
				uses = append(uses, u)
			}
			for _, r := range core.Referrers(v) {
				ci, ok := r.(ssa.CallInstruction)
				if !ok {
					continue
				}
				cal := ci.Common().StaticCallee()
				for ai, a := range ci.Common().Args {
					if a != v {
						continue
					}
					if ci.Common().Signature().Recv() != nil && ai == 0 && !ci.Common().IsInvoke() {
						continue // handled as receiver above
					}
					if cal == nil || cal.Blocks == nil {
						// dynamic call (callback) or external: requires non-nil
						if cal == nil {
							uses = append(uses, ci)
						}
						continue
					}
					if ai < len(cal.Params) && unsafeParam[cal.Params[ai]] {
						uses = append(uses, ci)
					}
				}
			}
			sort.Slice(uses, func(i, j int) bool { return uses[i].Pos() < uses[j].Pos() })
			for _, u := range uses {
				ord++
				c.Check(core.NonNilAt(v, u), fmt.Sprintf("%s / use #%d of a *Match call result", fname, ord), u.Pos(),
					"use of %s (%s) must be dominated by a nil test of that value", v.Name(), strings.TrimSpace(u.String()))
			}
		}
	}
}
