package rules

import (
	"fmt"
	"go/ast"
	"go/token"
	"go/types"
	"strings"

	"golang.org/x/tools/go/ssa"

	"regexlint/internal/core"
)

// ---------------------------------------------------------------------------
// C04: compile-time facts
// ---------------------------------------------------------------------------

var accFuncs = []string{"tryFindPrefix", "findPrefixesCore", "tryFindRawFixedSets"}

// R-ACC: the accumulate-until-stop protocol of the prefix / fixed-set analyses.
// The bool result means "the caller may keep appending for the nodes that
// follow".  For every recursive call that passes the function's OWN accumulator
// parameter(s): on every path on which the result is false — or is discarded —
// the function returns false before it makes another recursive call on that
// accumulator.
func RAcc(c *core.Ctx) {
	c.Rule("R-ACC", "in tryFindPrefix / findPrefixesCore / tryFindRawFixedSets, after a recursive call on the function's own accumulator returns false (or its result is discarded) the function returns false without another recursive call on that accumulator: a child that said 'stop' ends the accumulation", 9)
	p := c.P
	for _, name := range accFuncs {
		fn := p.SSAFunc(p.LookupFunc("syntax", name))
		if fn == nil {
			c.Anchor("syntax." + name)
			continue
		}
		c.Visit(core.SSAName(fn))
		// accumulator parameters: pointer-typed parameters other than the node
		acc := map[ssa.Value]bool{}
		for i, prm := range fn.Params {
			if i == 0 {
				continue
			}
			if _, ok := prm.Type().Underlying().(*types.Pointer); ok {
				acc[prm] = true
			}
		}
		isOwnRec := func(ins ssa.Instruction) (*ssa.Call, bool) {
			call, ok := ins.(*ssa.Call)
			if !ok || call.Call.StaticCallee() != fn {
				return nil, false
			}
			for _, a := range call.Call.Args {
				if acc[a] {
					return call, true
				}
			}
			return nil, false
		}
		n := 0
		for _, b := range fn.Blocks {
			for idx, ins := range b.Instrs {
				call, ok := isOwnRec(ins)
				if !ok {
					continue
				}
				n++
				key := fmt.Sprintf("%s / recursive call #%d on the own accumulator", core.SSAName(fn), n)
				// classify the use of the result
				var starts []*ssa.BasicBlock // blocks entered when the result is false / ignored
				startIdx := -1
				returned := false
				var ifUses []*ssa.If
				var negated []bool
				for _, r := range core.Referrers(call) {
					switch x := r.(type) {
					case *ssa.If:
						ifUses, negated = append(ifUses, x), append(negated, false)
					case *ssa.UnOp:
						if x.Op == token.NOT {
							for _, rr := range core.Referrers(x) {
								if ifi, ok := rr.(*ssa.If); ok {
									ifUses, negated = append(ifUses, ifi), append(negated, true)
								}
							}
						}
					case *ssa.Return:
						returned = true
					case *ssa.Phi:
						// `a && rec(...)` style: the phi merges false with the result; treated as returned/propagated
						returned = true
					}
				}
				switch {
				case len(ifUses) > 0:
					for i, ifi := range ifUses {
						falseSucc := ifi.Block().Succs[1]
						if negated[i] {
							falseSucc = ifi.Block().Succs[0]
						}
						starts = append(starts, falseSucc)
					}
				case returned:
					c.OK(key, call.Pos(), "result is returned / propagated")
					continue
				default:
					// discarded: continue from the instruction after the call
					starts = []*ssa.BasicBlock{b}
					startIdx = idx + 1
				}
				// search: from starts, can we reach another own-accumulator recursive call, or a return of non-false?
				bad := ""
				seen := map[*ssa.BasicBlock]bool{}
				type item struct {
					b *ssa.BasicBlock
					i int
				}
				var work []item
				for _, s := range starts {
					if startIdx >= 0 {
						work = append(work, item{s, startIdx})
					} else {
						work = append(work, item{s, 0})
					}
				}
				for len(work) > 0 && bad == "" {
					it := work[len(work)-1]
					work = work[:len(work)-1]
					if it.i == 0 {
						if seen[it.b] {
							continue
						}
						seen[it.b] = true
					}
					stop := false
					for k := it.i; k < len(it.b.Instrs); k++ {
						in2 := it.b.Instrs[k]
						if c2, ok := isOwnRec(in2); ok && c2 != call {
							bad = "another recursive call on the same accumulator at " + p.Pos(c2.Pos())
							stop = true
							break
						}
						if c2, ok := isOwnRec(in2); ok && c2 == call {
							bad = "the same call is made again (loop continues) at " + p.Pos(c2.Pos())
							stop = true
							break
						}
						if ret, ok := in2.(*ssa.Return); ok {
							stop = true
							if len(ret.Results) == 1 {
								if k, ok := ret.Results[0].(*ssa.Const); !ok || k.Value == nil || k.Value.String() != "false" {
									// returning a computed value: acceptable only if it cannot be true here — conservative: flag
									if !ok {
										bad = "returns a non-constant value after the child said stop, at " + p.Pos(ret.Pos())
									} else {
										bad = "returns true after the child said stop, at " + p.Pos(ret.Pos())
									}
								}
							}
							break
						}
					}
					if stop {
						continue
					}
					for _, s := range it.b.Succs {
						work = append(work, item{s, 0})
					}
				}
				c.Check(bad == "", key, call.Pos(), "when the child returns false%s the accumulation must end: %s", map[bool]string{true: " (result discarded)", false: ""}[startIdx >= 0], bad)
			}
		}
		if n == 0 {
			c.Anchor("recursive calls on the own accumulator in " + name)
		}
	}
}

// R-ACCCAP: a capped expansion reports "fully processed" only through the cap.
func RAccCap(c *core.Ctx) {
	c.Rule("R-ACCCAP", "where an analysis caps how many repetitions of a loop it expands (`V := K; if X.M < V { V = X.M }` or `V := min(K, X.M)`), every later `return e` of that arm is `false` or compares V (or a loop index bounded by V) with the loop's MAXIMUM X.N: 'the rest of the pattern follows at a known offset' may only be claimed when the loop cannot run longer than what was expanded — equality with the minimum X.M says nothing about that", 8)
	p := c.P
	syn := p.Pkg("syntax")
	info := syn.TypesInfo
	mField := p.LookupField("syntax", "RegexNode", "M")
	nField := p.LookupField("syntax", "RegexNode", "N")
	if mField == nil || nField == nil {
		c.Anchor("RegexNode.M / RegexNode.N")
		return
	}
	for _, fd := range p.FuncDecls(syn) {
		if fd.Body == nil {
			continue
		}
		name := core.DeclName(syn, fd)
		// scopes: each case clause body, or the function body
		var scopes [][]ast.Stmt
		ast.Inspect(fd.Body, func(n ast.Node) bool {
			if cc, ok := n.(*ast.CaseClause); ok {
				scopes = append(scopes, cc.Body)
			}
			return true
		})
		scopes = append(scopes, fd.Body.List)
		done := map[token.Pos]bool{}
		analyseCap := func(blk *ast.BlockStmt, V types.Object, vname string, after token.Pos) {
			// loop indexes bounded by V
			bounded := map[types.Object]bool{V: true}
			ast.Inspect(blk, func(m ast.Node) bool {
				if fs, ok := m.(*ast.ForStmt); ok && fs.Cond != nil {
					for _, cj := range conjuncts(fs.Cond) {
						if cmp, ok := cj.(*ast.BinaryExpr); ok && cmp.Op == token.LSS {
							if rid, ok := ast.Unparen(cmp.Y).(*ast.Ident); ok && info.ObjectOf(rid) == V {
								if iid, ok := ast.Unparen(cmp.X).(*ast.Ident); ok {
									bounded[info.ObjectOf(iid)] = true
								}
							}
						}
					}
				}
				return true
			})
			c.Visit(name)
			k := 0
			ast.Inspect(blk, func(m ast.Node) bool {
				ret, ok := m.(*ast.ReturnStmt)
				if !ok || ret.Pos() < after || len(ret.Results) == 0 {
					return true
				}
				res := ret.Results[len(ret.Results)-1]
				if !isBoolExpr(info, res) {
					return true
				}
				k++
				okRet := false
				if id, isId := ast.Unparen(res).(*ast.Ident); isId && id.Name == "false" {
					okRet = true
				}
				mentions := false
				ast.Inspect(res, func(z ast.Node) bool {
					if id, ok := z.(*ast.Ident); ok && bounded[info.ObjectOf(id)] {
						mentions = true
					}
					// V == X.N  /  X.N == V
					if be, ok := z.(*ast.BinaryExpr); ok && be.Op == token.EQL {
						for _, pr := range [][2]ast.Expr{{be.X, be.Y}, {be.Y, be.X}} {
							if id, ok := ast.Unparen(pr[0]).(*ast.Ident); ok && bounded[info.ObjectOf(id)] && core.FieldOf(info, pr[1]) == nField {
								okRet = true
							}
						}
					}
					return true
				})
				why := "does not depend on the capped count " + vname + ": a loop longer than the cap would be reported as fully expanded"
				if mentions && !okRet {
					why = "mentions " + vname + " but does not compare it with the loop's maximum .N: `" + vname + " == X.M` holds whenever the minimum is below the cap and says nothing about further iterations"
				}
				c.Check(okRet, fmt.Sprintf("%s / return #%d after the cap %s", name, k, vname), ret.Pos(), "`%s` %s", types.ExprString(res), why)
				return true
			})
		}
		for _, sc := range scopes {
			blk := &ast.BlockStmt{List: sc}
			ast.Inspect(blk, func(n ast.Node) bool {
				switch x := n.(type) {
				case *ast.IfStmt:
					if done[x.Pos()] {
						return true
					}
					be, ok := ast.Unparen(x.Cond).(*ast.BinaryExpr)
					if !ok || be.Op != token.LSS || core.FieldOf(info, be.X) != mField {
						return true
					}
					vid, ok := ast.Unparen(be.Y).(*ast.Ident)
					if !ok || len(x.Body.List) != 1 {
						return true
					}
					as, ok := x.Body.List[0].(*ast.AssignStmt)
					if !ok || len(as.Lhs) != 1 || len(as.Rhs) != 1 {
						return true
					}
					lid, ok := as.Lhs[0].(*ast.Ident)
					if !ok || info.ObjectOf(lid) != info.ObjectOf(vid) || core.FieldOf(info, as.Rhs[0]) != mField {
						return true
					}
					done[x.Pos()] = true
					analyseCap(blk, info.ObjectOf(vid), vid.Name, x.End())
				case *ast.AssignStmt:
					// the same cap written with min(): V := min(K, X.M)
					if done[x.Pos()] || len(x.Lhs) != 1 || len(x.Rhs) != 1 {
						return true
					}
					call, ok := ast.Unparen(x.Rhs[0]).(*ast.CallExpr)
					if !ok {
						return true
					}
					kind, args := core.MinMaxCall(p, info, call)
					if kind != "min" {
						return true
					}
					hasM := false
					for _, a := range args {
						if core.FieldOf(info, a) == mField {
							hasM = true
						}
					}
					vid, ok := x.Lhs[0].(*ast.Ident)
					if !hasM || !ok {
						return true
					}
					done[x.Pos()] = true
					analyseCap(blk, info.ObjectOf(vid), vid.Name, x.End())
				}
				return true
			})
		}
	}
}

// R-NARROW: a common-prefix length narrowed over the branches of an
// alternation is computed from its own previous value.
func RNarrow(c *core.Ctx) {
	c.Rule("R-NARROW", "a length narrowed in a loop by commonPrefixLen (the prefix shared by all branches of an alternation) is computed from its own previous value, so it can only shrink: `v = commonPrefixLen(x[:v], …)`", 1)
	p := c.P
	syn := p.Pkg("syntax")
	info := syn.TypesInfo
	cpl := p.LookupFunc("syntax", "commonPrefixLen")
	if cpl == nil {
		c.Anchor("syntax.commonPrefixLen")
		return
	}
	n := 0
	for _, fd := range p.FuncDecls(syn) {
		name := core.DeclName(syn, fd)
		ast.Inspect(fd.Body, func(x ast.Node) bool {
			fs, ok := x.(*ast.ForStmt)
			if !ok {
				return true
			}
			ast.Inspect(fs.Body, func(y ast.Node) bool {
				as, ok := y.(*ast.AssignStmt)
				if !ok || as.Tok != token.ASSIGN || len(as.Lhs) != 1 || len(as.Rhs) != 1 {
					return true
				}
				call, ok := ast.Unparen(as.Rhs[0]).(*ast.CallExpr)
				if !ok || core.Callee(info, call) != cpl {
					return true
				}
				lid, ok := as.Lhs[0].(*ast.Ident)
				if !ok {
					return true
				}
				n++
				c.Visit(name)
				v := info.ObjectOf(lid)
				feeds := false
				for _, a := range call.Args {
					ast.Inspect(a, func(z ast.Node) bool {
						if id, ok := z.(*ast.Ident); ok && info.ObjectOf(id) == v {
							feeds = true
						}
						return true
					})
				}
				c.Check(feeds, fmt.Sprintf("%s / %s narrowed monotonically", name, lid.Name), as.Pos(),
					"`%s` recomputes the shared length against the full first-branch prefix; a later branch that shares more than an earlier one makes it grow back", types.ExprString(as.Rhs[0]))
				return true
			})
			return true
		})
	}
	if n == 0 {
		c.Anchor("loop narrowing a length with commonPrefixLen")
	}
}

// R-ALTMERGE: a per-offset branch counter is incremented only where that
// branch's set was merged in.
func RAltMerge(c *core.Ctx) {
	c.Rule("R-ALTMERGE", "in the alternation arm of tryFindRawFixedSets the per-offset branch counter (Count) is incremented only in the branch that merged the branch's set into the combined set (addSet): an offset is published as common to all branches only if every branch contributed", 1)
	p := c.P
	syn := p.Pkg("syntax")
	info := syn.TypesInfo
	addSet := p.LookupFunc("syntax", "CharSet.addSet")
	fd, _ := p.DeclOf(p.LookupFunc("syntax", "tryFindRawFixedSets"))
	if addSet == nil || fd == nil {
		c.Anchor("CharSet.addSet / tryFindRawFixedSets")
		return
	}
	c.Visit("syntax.tryFindRawFixedSets")
	n := 0
	var stack []ast.Node
	ast.Inspect(fd.Body, func(x ast.Node) bool {
		if x == nil {
			stack = stack[:len(stack)-1]
			return true
		}
		stack = append(stack, x)
		inc, ok := x.(*ast.IncDecStmt)
		if !ok || inc.Tok != token.INC {
			return true
		}
		sel, ok := inc.X.(*ast.SelectorExpr)
		if !ok || sel.Sel.Name != "Count" {
			return true
		}
		n++
		// innermost enclosing block must contain an addSet call
		okMerge := false
		for i := len(stack) - 2; i >= 0; i-- {
			if blk, ok := stack[i].(*ast.BlockStmt); ok {
				// the merge must be a statement of this very block, not of a nested branch
				for _, st := range blk.List {
					if es, ok := st.(*ast.ExprStmt); ok {
						if call, ok := es.X.(*ast.CallExpr); ok && core.IsCallTo(info, call, addSet) {
							okMerge = true
						}
					}
				}
				break
			}
		}
		c.Check(okMerge, fmt.Sprintf("tryFindRawFixedSets / %s incremented with the merge #%d", types.ExprString(inc.X), n), inc.Pos(), "the increment must sit in the block that performs addSet")
		return true
	})
	if n == 0 {
		c.Anchor("Count++ in tryFindRawFixedSets")
	}
}

// R-DEFAULT: conservative default of the analyses.
var defaultTable = []struct{ fn, want, why string }{
	{"tryFindPrefix", "false", "unknown node: stop accumulating"},
	{"findPrefixesCore", "false", "unknown node: stop accumulating"},
	{"tryFindRawFixedSets", "false", "unknown node: distance no longer trusted"},
	{"RegexNode.ComputeMinLength", "0", "unknown node: no minimum claimed"},
	{"RegexNode.computeMaxLength", "-1", "unknown node: no maximum claimed"},
}

func RDefault(c *core.Ctx) {
	c.Rule("R-DEFAULT", "each fact-deriving analysis that switches on the node kind ends in its 'know nothing' value for kinds it does not list (false / 0 / -1)", 5)
	p := c.P
	syn := p.Pkg("syntax")
	for _, d := range defaultTable {
		fn := p.LookupFunc("syntax", d.fn)
		fd, _ := p.DeclOf(fn)
		if fd == nil {
			c.Anchor("syntax." + d.fn)
			continue
		}
		c.Visit(core.FuncName(fn))
		// the last statement of the body (possibly inside a trailing `for { switch … ; return X }`)
		var last ast.Stmt
		list := fd.Body.List
		for len(list) > 0 {
			last = list[len(list)-1]
			if fs, ok := last.(*ast.ForStmt); ok && fs.Cond == nil {
				list = fs.Body.List
				continue
			}
			break
		}
		ret, ok := last.(*ast.ReturnStmt)
		got := ""
		if ok && len(ret.Results) == 1 {
			got = strings.ReplaceAll(types.ExprString(ret.Results[0]), " ", "")
		}
		c.Check(got == d.want, core.FuncName(fn)+" / falls through to the conservative default", fd.End(), "final return is %q, want %q (%s)", got, d.want, d.why)
		_ = syn
	}
}

// ---------------------------------------------------------------------------
// R-BYTERUNE / R-RUNECUT: prefixes are collected as UTF-8 bytes.
//
// The prefix analyses build their strings in byte buffers.  Two operations
// must respect rune boundaries:
//  * taking "the first character" of such a string: `rune(s[0])` is the first
//    BYTE; for a non-ASCII first character it is a different character
//    (0xC3 = 'Ã' for 'é'), which is then tested against sets and published as
//    the literal to search for;
//  * cutting a string at the length of a byte-wise common prefix: two branches
//    that share the first byte of a multi-byte character give a cut inside the
//    character.  The cut has to be moved back to a rune boundary.
// ---------------------------------------------------------------------------

func RByteRune(c *core.Ctx) {
	c.Rule("R-BYTERUNE", "in package syntax no byte obtained by indexing a string (s[i]) is converted to a rune and used as a character, unless a dominating test shows it to be ASCII (< utf8.RuneSelf / < 0x80): the first character of a UTF-8 string is obtained by decoding", 1)
	p := c.P
	n := 0
	for _, fn := range p.ModuleFuncs() {
		if core.FnPkgPath(fn) != core.PkgSyntax {
			continue
		}
		name := core.SSAName(fn)
		cnt := 0
		for _, b := range fn.Blocks {
			for _, ins := range b.Instrs {
				cv, ok := ins.(*ssa.Convert)
				if !ok {
					continue
				}
				bt, ok := cv.Type().Underlying().(*types.Basic)
				if !ok || bt.Kind() != types.Int32 { // rune
					continue
				}
				var lk ssa.Value
				var strX ssa.Value
				switch y := cv.X.(type) {
				case *ssa.Lookup:
					lk, strX = y, y.X
				case *ssa.Index:
					lk, strX = y, y.X
				default:
					continue
				}
				if st, ok := strX.Type().Underlying().(*types.Basic); !ok || st.Info()&types.IsString == 0 {
					continue
				}
				cnt++
				n++
				c.Visit(name)
				ascii := false
				for _, f := range core.FactsAtBlock(b) {
					x, y, op, ok := core.CmpNorm(f)
					if !ok {
						continue
					}
					if k, isC := core.IntConst(y); isC && (op == token.LSS && k <= 128 || op == token.LEQ && k <= 127) {
						if x == lk || core.SameValue(x, lk) {
							ascii = true
						}
						if cx, ok := x.(*ssa.Convert); ok && core.SameValue(cx.X, lk) {
							ascii = true
						}
					}
				}
				c.Check(ascii, fmt.Sprintf("%s / byte-to-rune conversion #%d is of an ASCII byte", name, cnt), cv.Pos(),
					"rune(%s[…]) takes one BYTE of a UTF-8 string as a character: for a non-ASCII first character this is a different character (0xC3 'Ã' for 'é'), which is then tested against sets / published as the literal to search for", strX.Name())
			}
		}
	}
	if n == 0 {
		c.Note("R-BYTERUNE: no string-byte to rune conversion in package syntax")
		c.OK("syntax / no string byte is used as a character", token.NoPos, "no rune(s[i]) on a string in package syntax")
	}
}

func RRuneCut(c *core.Ctx) {
	c.Rule("R-RUNECUT", "every function of package syntax that shortens a byte buffer to a length computed by the byte-wise commonPrefixLen moves that length back to a rune boundary (utf8.RuneStart / a decode of the last rune) before cutting", 1)
	p := c.P
	cpl := p.SSAFunc(p.LookupFunc("syntax", "commonPrefixLen"))
	if cpl == nil {
		c.Anchor("syntax.commonPrefixLen")
		return
	}
	n := 0
	for _, fn := range p.ModuleFuncs() {
		if core.FnPkgPath(fn) != core.PkgSyntax || fn == cpl {
			continue
		}
		uses, aligns := false, false
		var pos token.Pos
		for _, b := range fn.Blocks {
			for _, ins := range b.Instrs {
				call, ok := ins.(*ssa.Call)
				if !ok {
					continue
				}
				cal := call.Call.StaticCallee()
				if cal == nil {
					continue
				}
				if cal == cpl {
					uses, pos = true, call.Pos()
				}
				if cal.Pkg != nil && cal.Pkg.Pkg.Path() == "unicode/utf8" && (core.BaseName(cal) == "RuneStart" || strings.HasPrefix(core.BaseName(cal), "DecodeLastRune") || core.BaseName(cal) == "Valid" || core.BaseName(cal) == "ValidString") {
					aligns = true
				}
				if core.InModule(cal) && cal != cpl {
					// a helper of the package that aligns
					for _, b2 := range cal.Blocks {
						for _, i2 := range b2.Instrs {
							if c2, ok := i2.(*ssa.Call); ok {
								if k := c2.Call.StaticCallee(); k != nil && k.Pkg != nil && k.Pkg.Pkg.Path() == "unicode/utf8" && core.BaseName(k) == "RuneStart" {
									aligns = true
								}
							}
						}
					}
				}
			}
		}
		if !uses {
			continue
		}
		n++
		name := core.SSAName(fn)
		c.Visit(name)
		c.Check(aligns, name+" / the byte-wise common prefix length is aligned to a rune boundary", pos,
			"branches whose first characters share a leading UTF-8 byte (é / è: 0xC3) give a common prefix that ends inside a character; the cut string is invalid UTF-8 and its first byte is later taken for a character")
	}
	if n == 0 {
		c.Anchor("callers of commonPrefixLen")
	}
}

// ---------------------------------------------------------------------------
// R-FAILFIRST: in the tri-state protocol of tryFindFirstCharClass (1 = done,
// 0 = failed: the collected set cannot be trusted, -1 = nullable: keep looking)
// failure dominates.  Where the results of two branches are combined, "one of
// them is 0" has to be tested before "one of them is -1": a branch whose
// characters could not be merged into the set makes the whole set unusable
// even if the other branch is nullable.
// ---------------------------------------------------------------------------

func RFailFirst(c *core.Ctx) {
	c.Rule("R-FAILFIRST", "in tryFindFirstCharClass, wherever two recursive results a and b are combined by a chain of if statements, the statement testing `a == 0 || b == 0` (failure) comes before the one testing `a == -1 || b == -1` (nullable)", 1)
	p := c.P
	syn := p.Pkg("syntax")
	info := syn.TypesInfo
	fn := p.LookupFunc("syntax", "tryFindFirstCharClass")
	fd, _ := p.DeclOf(fn)
	if fd == nil {
		c.Anchor("syntax.tryFindFirstCharClass")
		return
	}
	c.Visit("syntax.tryFindFirstCharClass")
	n := 0
	var visit func(list []ast.Stmt)
	visit = func(list []ast.Stmt) {
		// locals assigned from recursive calls in this list
		rec := map[types.Object]bool{}
		for _, st := range list {
			if as, ok := st.(*ast.AssignStmt); ok && len(as.Lhs) == 1 && len(as.Rhs) == 1 {
				if call, ok := as.Rhs[0].(*ast.CallExpr); ok && core.Callee(info, call) == fn {
					if id, ok := as.Lhs[0].(*ast.Ident); ok {
						rec[info.ObjectOf(id)] = true
					}
				}
			}
		}
		if len(rec) >= 2 {
			posOf := func(k int64) token.Pos {
				for _, st := range list {
					ifs, ok := st.(*ast.IfStmt)
					if !ok {
						continue
					}
					cnt := 0
					ast.Inspect(ifs.Cond, func(x ast.Node) bool {
						if be, ok := x.(*ast.BinaryExpr); ok && be.Op == token.EQL {
							if id, ok := ast.Unparen(be.X).(*ast.Ident); ok && rec[info.ObjectOf(id)] {
								if v, ok := core.ConstInt(info, be.Y); ok && v == k {
									cnt++
								}
							}
						}
						return true
					})
					if cnt >= 2 {
						return ifs.Pos()
					}
				}
				return token.NoPos
			}
			fail, null := posOf(0), posOf(-1)
			if fail != token.NoPos || null != token.NoPos {
				n++
				c.Check(fail != token.NoPos && null != token.NoPos && fail < null, fmt.Sprintf("tryFindFirstCharClass / combination #%d of two branch results tests failure before nullable", n), list[0].Pos(),
					"the nullable test (== -1) precedes the failure test (== 0): a branch whose characters could not be added to the set is hidden by a nullable sibling, and the published first-character set lacks that branch's characters (a?(?(?=.)[^bd]|)c does not match \"xc\")")
			}
		}
		for _, st := range list {
			ast.Inspect(st, func(x ast.Node) bool {
				switch b := x.(type) {
				case *ast.BlockStmt:
					visit(b.List)
					return false
				case *ast.CaseClause:
					visit(b.Body)
					return false
				}
				return true
			})
		}
	}
	visit(fd.Body.List)
	if n == 0 {
		c.Anchor("combinations of two branch results in tryFindFirstCharClass")
	}
}
