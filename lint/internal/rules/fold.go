package rules

import (
	"fmt"
	"go/ast"
	"go/constant"
	"go/token"
	"go/types"
	"strings"
	"unicode"

	"golang.org/x/tools/go/ssa"

	"regexlint/internal/core"
)

// ---------------------------------------------------------------------------
// C20: case-insensitive matching
// ---------------------------------------------------------------------------

// R-ASCIIFOLD: the ASCII-only case-insensitive search helpers are used only on
// needles that were tested to be ASCII.
func RAsciiFold(c *core.Ctx) {
	c.Rule("R-ASCIIFOLD", "every use of an ASCII-only ignore-case search helper (helpers.IndexStringIgnoreCaseASCII, IndexOfIgnoreCaseAscii, EqualStringIgnoreCaseASCII) sits in a function that tests its needle with isASCIIString/isASCIIRunes, or in a closure / helper whose constructing function (every static caller, transitively) performs that test: ASCII folding of a non-ASCII needle misses Unicode case pairs", 5)
	p := c.P
	asciiOnly := map[string]bool{"IndexStringIgnoreCaseASCII": true, "IndexOfIgnoreCaseAscii": true, "EqualStringIgnoreCaseASCII": true}
	isBaseTest := func(fn *ssa.Function) bool {
		return fn != nil && (core.BaseName(fn) == "isASCIIString" || core.BaseName(fn) == "isASCIIRunes")
	}
	// the test itself, or a boolean helper of the module built on it (allASCIIStrings(prefixes))
	isTest := func(fn *ssa.Function) bool {
		if isBaseTest(fn) {
			return true
		}
		if fn == nil || !core.InModule(fn) || fn.Signature.Results().Len() != 1 {
			return false
		}
		if bt, ok := fn.Signature.Results().At(0).Type().Underlying().(*types.Basic); !ok || bt.Kind() != types.Bool {
			return false
		}
		for _, b := range fn.Blocks {
			for _, ins := range b.Instrs {
				if ci, ok := ins.(ssa.CallInstruction); ok && isBaseTest(ci.Common().StaticCallee()) {
					return true
				}
			}
		}
		return false
	}
	funcs := p.ModuleFuncs()
	hasTest := map[*ssa.Function]bool{}
	callers := map[*ssa.Function][]*ssa.Function{}
	for _, fn := range funcs {
		for _, b := range fn.Blocks {
			for _, ins := range b.Instrs {
				switch x := ins.(type) {
				case ssa.CallInstruction:
					cal := x.Common().StaticCallee()
					if isTest(cal) {
						hasTest[fn] = true
					}
					if cal != nil && core.InModule(cal) {
						callers[cal] = append(callers[cal], fn)
					}
				case *ssa.MakeClosure:
					if cl, ok := x.Fn.(*ssa.Function); ok {
						callers[cl] = append(callers[cl], fn)
					}
				}
				// method value / function value references (filter.index used as a func value)
				if mc, ok := ins.(*ssa.MakeClosure); ok {
					_ = mc
				}
			}
		}
	}
	var checked func(fn *ssa.Function, depth int, seen map[*ssa.Function]bool) bool
	checked = func(fn *ssa.Function, depth int, seen map[*ssa.Function]bool) bool {
		if hasTest[fn] {
			return true
		}
		if depth > 6 || seen[fn] {
			return false
		}
		seen[fn] = true
		cs := callers[fn]
		if fn.Parent() != nil {
			cs = append(cs, fn.Parent())
		}
		if len(cs) == 0 {
			return false
		}
		for _, cal := range cs {
			if !checked(cal, depth+1, seen) {
				return false
			}
		}
		return true
	}
	n := 0
	for _, fn := range funcs {
		if core.FnPkgPath(fn) == core.PkgHelpers {
			continue
		}
		for _, b := range fn.Blocks {
			for _, ins := range b.Instrs {
				call, ok := ins.(*ssa.Call)
				if !ok {
					continue
				}
				cal := call.Call.StaticCallee()
				if cal == nil || core.FnPkgPath(cal) != core.PkgHelpers || !asciiOnly[cal.Name()] {
					continue
				}
				n++
				name := core.SSAName(fn)
				c.Visit(name)
				c.Check(checked(fn, 0, map[*ssa.Function]bool{}), fmt.Sprintf("%s / call #%d of helpers.%s on an ASCII-tested needle", name, n, cal.Name()), call.Pos(),
					"neither this function nor every function that constructs/calls it tests the needle with isASCIIString / isASCIIRunes")
			}
		}
	}
	if n == 0 {
		c.Anchor("calls of the ASCII-only ignore-case helpers")
	}
}

// R-CIREF: only backreferences keep the IgnoreCase bit, and they fold both sides alike.
func RCiRef(c *core.Ctx) {
	c.Rule("R-CIREF", "reduce() clears IgnoreCase on every node except backreferences before anything else (so Ref is the only opcode that can carry the Ci bit and every other construct must have been case-expanded at parse time), and refmatch's case-insensitive comparison folds both sides with the same function", 2)
	p := c.P
	reduce := p.SSAFunc(p.LookupFunc("syntax", "RegexNode.reduce"))
	optField := p.LookupField("syntax", "RegexNode", "Options")
	tField := p.LookupField("syntax", "RegexNode", "T")
	ntRef, ok1 := constInScope(p.Pkg("syntax").Types, "NtRef")
	ic, ok2 := constInScope(p.Pkg("syntax").Types, "IgnoreCase")
	if reduce == nil || optField == nil || tField == nil || !ok1 || !ok2 {
		c.Anchor("RegexNode.reduce / Options / T / NtRef / IgnoreCase")
		return
	}
	c.Visit(core.SSAName(reduce))
	okClear := false
	entry := reduce.Blocks[0]
	if ifi, ok := entry.Instrs[len(entry.Instrs)-1].(*ssa.If); ok {
		if bin, ok := ifi.Cond.(*ssa.BinOp); ok && (bin.Op == token.NEQ || bin.Op == token.EQL) {
			_, isT := core.LoadOfField(bin.X, tField)
			k, isC := core.IntConst(bin.Y)
			if isT && isC && k == ntRef {
				clearBlk := entry.Succs[0]
				if bin.Op == token.EQL {
					clearBlk = entry.Succs[1]
				}
				for _, ins := range clearBlk.Instrs {
					if st, ok := ins.(*ssa.Store); ok && core.FieldVarOfAddr(st.Addr) == optField {
						if b2, ok := st.Val.(*ssa.BinOp); ok {
							if m, ok := core.IntConst(b2.Y); ok {
								if (b2.Op == token.AND_NOT && m == ic) || (b2.Op == token.AND && m&ic == 0 && ^m&ic != 0) {
									okClear = true
								}
							}
						}
					}
				}
			}
		}
	}
	c.Check(okClear, "syntax.(*RegexNode).reduce / clears IgnoreCase on every non-Ref node first", reduce.Pos(), "`if n.T != NtRef { n.Options &= ^IgnoreCase }` in the entry block")
	refmatch := p.SSAFunc(p.LookupFunc("", "Runner.refmatch"))
	ciField := p.LookupField("", "Runner", "caseInsensitive")
	if refmatch == nil || ciField == nil {
		c.Anchor("Runner.refmatch / Runner.caseInsensitive")
		return
	}
	c.Visit(core.SSAName(refmatch))
	okFold, nCmp := true, 0
	for _, b := range refmatch.Blocks {
		ci := false
		for _, f := range core.FactsAtBlock(b) {
			cond, val := f.Cond, f.Val
			if u, ok := cond.(*ssa.UnOp); ok && u.Op == token.NOT {
				cond, val = u.X, !val
			}
			if _, ok := core.LoadOfField(cond, ciField); ok && val {
				ci = true
			}
		}
		if !ci {
			continue
		}
		for _, ins := range b.Instrs {
			bin, ok := ins.(*ssa.BinOp)
			if !ok || (bin.Op != token.NEQ && bin.Op != token.EQL) {
				continue
			}
			cx, okx := bin.X.(*ssa.Call)
			cy, oky := bin.Y.(*ssa.Call)
			if !okx && !oky {
				continue
			}
			nCmp++
			if !okx || !oky || cx.Call.StaticCallee() == nil || cx.Call.StaticCallee() != cy.Call.StaticCallee() ||
				!strings.HasPrefix(cx.Call.StaticCallee().String(), "unicode.") {
				okFold = false
			}
		}
	}
	c.Check(okFold && nCmp > 0, "regexp2.(*Runner).refmatch / both sides folded with the same function", refmatch.Pos(), "%d case-insensitive comparison(s)", nCmp)
}

// ---------------------------------------------------------------------------
// storesRangeElem: fn overwrites an element of some CharSet's ranges in place.
func storesRangeElem(fn *ssa.Function, rng *types.Var) bool {
	for _, b := range fn.Blocks {
		for _, ins := range b.Instrs {
			st, ok := ins.(*ssa.Store)
			if !ok {
				continue
			}
			addr := st.Addr
			if fa, ok := addr.(*ssa.FieldAddr); ok {
				addr = fa.X
			}
			if ia, ok := addr.(*ssa.IndexAddr); ok {
				if ld, ok := ia.X.(*ssa.UnOp); ok && core.FieldVarOfAddr(ld.X) == rng {
					return true
				}
			}
		}
	}
	return false
}

// touchesField: fn reads or writes field f of anything.
func touchesField(fn *ssa.Function, f *types.Var) bool {
	for _, b := range fn.Blocks {
		for _, ins := range b.Instrs {
			if fa, ok := ins.(*ssa.FieldAddr); ok && core.FieldVarOfAddr(fa) == f {
				return true
			}
		}
	}
	return false
}

// storesNegField: fn stores the negate flag — directly, or in a method it calls on its own
// receiver that does not touch ranges at all: a flag update factored out into a helper
// (calling canonicalize or unflip does not make the caller a re-normalisation).
func storesNegField(f *ssa.Function, neg, rng *types.Var, depth int) bool {
	for _, b := range f.Blocks {
		for _, ins := range b.Instrs {
			if st, ok := ins.(*ssa.Store); ok && core.FieldVarOfAddr(st.Addr) == neg {
				return true
			}
			if call, ok := ins.(*ssa.Call); ok && depth > 0 && len(f.Params) > 0 {
				if cal := call.Call.StaticCallee(); cal != nil && core.InModule(cal) && cal.Signature.Recv() != nil &&
					len(call.Call.Args) > 0 && call.Call.Args[0] == ssa.Value(f.Params[0]) && !touchesField(cal, rng) && storesNegField(cal, neg, rng, depth-1) {
					return true
				}
			}
		}
	}
	return false
}

// R-ADDMONO: "add…" methods of CharSet only add.
// A method that makes a class case-insensitive has to keep every member the
// class already has (a character always matches itself) and may only add the
// variants.  Overwriting a range entry in place (c.ranges[i] = …) replaces a
// member: `(?i)[İ]` loses İ when it is overwritten by its lowercase i.
// Only canonicalize, which merges overlapping entries, may rewrite entries.
// ---------------------------------------------------------------------------

func RAddMono(c *core.Ctx) {
	c.Rule("R-ADDMONO", "no CharSet method other than canonicalize (merging) and the un-flip routine stores into an element of the receiver's ranges (c.ranges[i] = …): methods that add members, lowercase forms or case equivalents never replace an existing member", 1)
	p := c.P
	rng := p.LookupField("syntax", "CharSet", "ranges")
	neg := p.LookupField("syntax", "CharSet", "negate")
	if rng == nil || neg == nil {
		c.Anchor("syntax.CharSet.ranges / negate")
		return
	}
	n := 0
	for _, fn := range p.ModuleFuncs() {
		recv := fn.Signature.Recv()
		if recv == nil {
			continue
		}
		if _, nm := core.NamedOf(recv.Type()); nm != "CharSet" {
			continue
		}
		name := core.SSAName(fn)
		// canonicalize-like: writes negate (it re-normalises the representation as a whole)
		renorm := storesNegField(fn, neg, rng, 2)
		cnt := 0
		for _, b := range fn.Blocks {
			for _, ins := range b.Instrs {
				st, ok := ins.(*ssa.Store)
				if !ok {
					continue
				}
				// store to (part of) an element: IndexAddr, or FieldAddr of an IndexAddr
				addr := st.Addr
				if fa, ok := addr.(*ssa.FieldAddr); ok {
					addr = fa.X
				}
				ia, ok := addr.(*ssa.IndexAddr)
				if !ok {
					continue
				}
				ld, ok := ia.X.(*ssa.UnOp)
				if !ok || core.FieldVarOfAddr(ld.X) != rng {
					continue
				}
				if fa, ok := ld.X.(*ssa.FieldAddr); !ok || len(fn.Params) == 0 || fa.X != fn.Params[0] {
					continue
				}
				cnt++
				n++
				c.Visit(name)
				c.Check(renorm, fmt.Sprintf("%s / in-place store #%d into c.ranges is part of a re-normalisation", name, cnt), st.Pos(),
					"an existing range entry is overwritten by a method that is supposed to add to the class: the member that was there is no longer matched")
			}
		}
	}
	if n == 0 {
		c.Anchor("in-place stores into CharSet.ranges elements")
	}
	// the same for the slice as a whole: a method that adds members may replace c.ranges only by
	// something grown from c.ranges (append(c.ranges, …), a re-slice of it); assigning a freshly
	// computed list throws away the members collected so far ([a[:^alpha:]] loses the a)
	m := 0
	for _, fn := range p.ModuleFuncs() {
		recv := fn.Signature.Recv()
		if recv == nil || len(fn.Params) == 0 {
			continue
		}
		if _, nm := core.NamedOf(recv.Type()); nm != "CharSet" {
			continue
		}
		if _, isPtr := recv.Type().(*types.Pointer); !isPtr {
			continue
		}
		name := core.SSAName(fn)
		renorm := storesNegField(fn, neg, rng, 2)
		// a method that declares the class to be "anything" replaces the list by the full range: a superset of whatever was there
		if anyF := p.LookupField("syntax", "CharSet", "anything"); anyF != nil {
			for _, b := range fn.Blocks {
				for _, ins := range b.Instrs {
					if st, ok := ins.(*ssa.Store); ok && core.FieldVarOfAddr(st.Addr) == anyF {
						if k, ok := st.Val.(*ssa.Const); ok && k.Value != nil && k.Value.String() == "true" {
							renorm = true
						}
					}
				}
			}
		}
		var fromOld func(v ssa.Value, depth int) bool
		// grownFrom: v is base, or base re-sliced / appended to / passed through a helper that returns its argument grown
		var grownFrom func(v ssa.Value, isBase func(ssa.Value) bool, depth int) bool
		phiBusy := map[*ssa.Phi]bool{}
		grownFrom = func(v ssa.Value, isBase func(ssa.Value) bool, depth int) bool {
			if depth > 8 {
				return false
			}
			if isBase(v) {
				return true
			}
			// result #idx of a module helper every return of which is one of its slice parameters grown
			helperGrown := func(call *ssa.Call, idx int) bool {
				cal := call.Call.StaticCallee()
				if cal == nil || !core.InModule(cal) || len(cal.Blocks) == 0 {
					return false
				}
				for k, prm := range cal.Params {
					if k >= len(call.Call.Args) {
						break
					}
					if _, isSl := prm.Type().Underlying().(*types.Slice); !isSl {
						continue
					}
					all, some := true, false
					for _, b := range cal.Blocks {
						if r, ok := b.Instrs[len(b.Instrs)-1].(*ssa.Return); ok && idx < len(r.Results) {
							some = true
							pp := prm
							if !grownFrom(r.Results[idx], func(w ssa.Value) bool { return w == ssa.Value(pp) }, depth+1) {
								all = false
							}
						}
					}
					if all && some && grownFrom(call.Call.Args[k], isBase, depth+1) {
						return true
					}
				}
				return false
			}
			switch x := v.(type) {
			case *ssa.Slice:
				return grownFrom(x.X, isBase, depth+1)
			case *ssa.Phi:
				if phiBusy[x] {
					return true // loop-carried: `dst = append(dst, …)` (coinductive)
				}
				phiBusy[x] = true
				defer delete(phiBusy, x)
				for _, e := range x.Edges {
					if !grownFrom(e, isBase, depth+1) {
						return false
					}
				}
				return len(x.Edges) > 0
			case *ssa.Extract:
				if call, ok := x.Tuple.(*ssa.Call); ok {
					return helperGrown(call, x.Index)
				}
			case *ssa.Call:
				if bi, ok := x.Call.Value.(*ssa.Builtin); ok && bi.Name() == "append" && len(x.Call.Args) > 0 {
					return grownFrom(x.Call.Args[0], isBase, depth+1)
				}
				if helperGrown(x, 0) {
					return true
				}
				cal := x.Call.StaticCallee()
				if cal != nil && cal.Pkg != nil && cal.Pkg.Pkg.Path() == "slices" && len(x.Call.Args) > 0 {
					return grownFrom(x.Call.Args[0], isBase, depth+1)
				}
				if cal != nil && core.InModule(cal) && len(cal.Blocks) > 0 {
					// a helper every return of which is one of its parameters grown: the result is that argument grown
					for k, prm := range cal.Params {
						if k >= len(x.Call.Args) {
							break
						}
						if _, isSl := prm.Type().Underlying().(*types.Slice); !isSl {
							continue
						}
						all, some := true, false
						for _, b := range cal.Blocks {
							if r, ok := b.Instrs[len(b.Instrs)-1].(*ssa.Return); ok && len(r.Results) == 1 {
								some = true
								pp := prm
								if !grownFrom(r.Results[0], func(w ssa.Value) bool { return w == ssa.Value(pp) }, depth+1) {
									all = false
								}
							}
						}
						if all && some && grownFrom(x.Call.Args[k], isBase, depth+1) {
							return true
						}
					}
				}
			}
			return false
		}
		isOldRanges := func(v ssa.Value) bool {
			x, ok := v.(*ssa.UnOp)
			if !ok || x.Op != token.MUL || core.FieldVarOfAddr(x.X) != rng {
				return false
			}
			fa, ok := x.X.(*ssa.FieldAddr)
			return ok && fa.X == ssa.Value(fn.Params[0])
		}
		fromOld = func(v ssa.Value, depth int) bool {
			if grownFrom(v, isOldRanges, depth) {
				return true
			}
			if depth > 6 {
				return false
			}
			switch x := v.(type) {
			case *ssa.UnOp:
				if x.Op == token.MUL && core.FieldVarOfAddr(x.X) == rng {
					if fa, ok := x.X.(*ssa.FieldAddr); ok && fa.X == ssa.Value(fn.Params[0]) {
						return true
					}
				}
			case *ssa.Slice:
				return fromOld(x.X, depth+1)
			case *ssa.Phi:
				for _, e := range x.Edges {
					if !fromOld(e, depth+1) {
						return false
					}
				}
				return len(x.Edges) > 0
			case *ssa.Call:
				if bi, ok := x.Call.Value.(*ssa.Builtin); ok && bi.Name() == "append" && len(x.Call.Args) > 0 {
					return fromOld(x.Call.Args[0], depth+1)
				}
				if cal := x.Call.StaticCallee(); cal != nil && cal.Pkg != nil && cal.Pkg.Pkg.Path() == "slices" && len(x.Call.Args) > 0 {
					return fromOld(x.Call.Args[0], depth+1) // slices.Insert / Grow / Clip …
				}
			}
			return false
		}
		cnt := 0
		for _, b := range fn.Blocks {
			for _, ins := range b.Instrs {
				st, ok := ins.(*ssa.Store)
				if !ok || core.FieldVarOfAddr(st.Addr) != rng {
					continue
				}
				if fa, ok := st.Addr.(*ssa.FieldAddr); !ok || fa.X != ssa.Value(fn.Params[0]) {
					continue
				}
				cnt++
				m++
				c.Visit(name)
				c.Check(renorm || fromOld(st.Val, 0), fmt.Sprintf("%s / assignment #%d to c.ranges keeps what was collected", name, cnt), st.Pos(),
					"c.ranges is replaced by a value that is not grown from c.ranges in a method that adds to the class (it does not re-normalise: it never sets negate): the members added before this call are lost")
			}
		}
	}
	if m == 0 {
		c.Anchor("assignments to CharSet.ranges in CharSet methods")
	}
}

// ---------------------------------------------------------------------------
// R-FOLDSIB: who decides that a bare character has case variants.
// Under IgnoreCase a class gets its variants from the SimpleFold orbit
// (addCaseEquivalences / tryFindCaseEquivalences).  The decision whether a
// bare character needs to become such a class must use the same relation:
// a general-category test (IsLower / IsUpper / IsLetter) is narrower — title
// case letters (ǅ), enclosed letters (Ⓐ ⓐ), Roman numerals (Ⅰ ⅰ), U+0345
// have fold partners without being Lu or Ll — and the literal would then match
// case-sensitively while the same character in brackets does not.
// ---------------------------------------------------------------------------

func RFoldSib(c *core.Ctx) {
	c.Rule("R-FOLDSIB", "in package syntax every conditional call of addCaseEquivalences (turning a bare character into a case-insensitive class) is guarded by the fold relation itself (unicode.SimpleFold / tryFindCaseEquivalences), never by a general-category predicate (unicode.IsLower, IsUpper, IsLetter, IsTitle): characters with fold partners outside Lu/Ll would keep matching case-sensitively", 1)
	p := c.P
	syn := p.Pkg("syntax")
	info := syn.TypesInfo
	ace := p.LookupFunc("syntax", "CharSet.addCaseEquivalences")
	if ace == nil {
		c.Anchor("syntax.CharSet.addCaseEquivalences")
		return
	}
	catPred := map[string]bool{"IsLower": true, "IsUpper": true, "IsLetter": true, "IsTitle": true}
	n := 0
	for _, fd := range p.FuncDecls(syn) {
		if fd.Body == nil || p.IsTestFile(fd.Pos()) {
			continue
		}
		name := core.DeclName(syn, fd)
		var stack []ast.Node
		cnt := 0
		ast.Inspect(fd.Body, func(x ast.Node) bool {
			if x == nil {
				stack = stack[:len(stack)-1]
				return true
			}
			stack = append(stack, x)
			call, ok := x.(*ast.CallExpr)
			if !ok || core.Callee(info, call) != ace {
				return true
			}
			// enclosing if conditions (then-branches) inside this function
			var bad []string
			guarded := false
			for i := len(stack) - 2; i >= 0; i-- {
				ifs, ok := stack[i].(*ast.IfStmt)
				if !ok || !(ifs.Body.Pos() <= call.Pos() && call.End() <= ifs.Body.End()) {
					continue
				}
				guarded = true
				check := func(e ast.Node) {
					ast.Inspect(e, func(y ast.Node) bool {
						if c2, ok := y.(*ast.CallExpr); ok {
							if cal := core.Callee(info, c2); cal != nil && cal.Pkg() != nil && cal.Pkg().Path() == "unicode" && catPred[cal.Name()] {
								bad = append(bad, "unicode."+cal.Name())
							}
						}
						return true
					})
				}
				check(ifs.Cond)
				if ifs.Init != nil {
					check(ifs.Init)
				}
			}
			if !guarded {
				return true
			}
			cnt++
			n++
			c.Visit(name)
			c.Check(len(bad) == 0, fmt.Sprintf("%s / conditional addCaseEquivalences #%d is decided by the fold relation", name, cnt), call.Pos(),
				"the decision to build a case-insensitive class uses %v: a character with fold partners that is neither Lu nor Ll (ǅ, Ⓐ, Ⅰ, U+0345) is left as a case-sensitive literal", bad)
			return true
		})
	}
	if n == 0 {
		c.Anchor("conditional calls of addCaseEquivalences")
	}
}

// ---------------------------------------------------------------------------
// R-LETTERRANGE: a range test that starts at 'A', 'a' or '0' ends at 'Z', 'z'
// or '9'.  Interval abstraction of the guard:
//   L <= x && x <= H   (any orientation, strict or not)      -> [L, H]
//   x < L || x > H                                           -> complement of [L, H]
//   uint32(x-L) < K  /  <= K    (the single-compare idiom)   -> [L, L+K-1] / [L, L+K]
// An ASCII case fold whose range stops at 'Y' leaves 'Z' unfolded.
// ---------------------------------------------------------------------------

func RLetterRange(c *core.Ctx) {
	c.Rule("R-LETTERRANGE", "every range test in the module whose lower end is the constant 'A', 'a' or '0' (conjunction or negated disjunction of two comparisons on the same expression, or the unsigned single-compare idiom uint(x-L) < K) has the inclusive upper end 'Z', 'z' or '9' (or '7': octal digits) respectively", 3)
	p := c.P
	want := map[int64]int64{'A': 'Z', 'a': 'z', '0': '9'}
	also := map[int64]int64{'0': '7'} // octal digits
	n := 0
	for _, pk := range p.ModulePkgs() {
		info := pk.TypesInfo
		for _, fd := range p.FuncDecls(pk) {
			if fd.Body == nil || p.IsTestFile(fd.Pos()) {
				continue
			}
			name := core.DeclName(pk, fd)
			cnt := 0
			// bound(e): (exprText, lowInclusive?, value, isLower) for one comparison against a constant
			type bnd struct {
				x     string
				lower bool
				v     int64
			}
			one := func(e ast.Expr, negate bool) (bnd, bool) {
				be, ok := ast.Unparen(e).(*ast.BinaryExpr)
				if !ok {
					return bnd{}, false
				}
				l, r, op := be.X, be.Y, be.Op
				if _, isC := core.ConstInt(info, l); isC {
					l, r = r, l
					switch op {
					case token.LSS:
						op = token.GTR
					case token.GTR:
						op = token.LSS
					case token.LEQ:
						op = token.GEQ
					case token.GEQ:
						op = token.LEQ
					}
				}
				k, isC := core.ConstInt(info, r)
				if !isC {
					return bnd{}, false
				}
				if negate {
					switch op {
					case token.LSS:
						op = token.GEQ
					case token.GTR:
						op = token.LEQ
					case token.LEQ:
						op = token.GTR
					case token.GEQ:
						op = token.LSS
					default:
						return bnd{}, false
					}
				}
				x := types.ExprString(ast.Unparen(l))
				switch op {
				case token.GEQ:
					return bnd{x, true, k}, true
				case token.GTR:
					return bnd{x, true, k + 1}, true
				case token.LEQ:
					return bnd{x, false, k}, true
				case token.LSS:
					return bnd{x, false, k - 1}, true
				}
				return bnd{}, false
			}
			report := func(pos token.Pos, lo, hi int64, how string) {
				w, ok := want[lo]
				if !ok {
					return
				}
				cnt++
				n++
				c.Visit(name)
				c.Check(hi == w || (also[lo] != 0 && hi == also[lo]), fmt.Sprintf("%s / range test #%d starting at %q ends at %q", name, cnt, rune(lo), rune(w)), pos,
					"the test (%s) covers %q..%q: %q is left out / an extra character is let in", how, rune(lo), rune(hi), rune(w))
			}
			ast.Inspect(fd.Body, func(x ast.Node) bool {
				be, ok := x.(*ast.BinaryExpr)
				if !ok {
					return true
				}
				switch be.Op {
				case token.LAND, token.LOR:
					a, ok1 := one(be.X, be.Op == token.LOR)
					b, ok2 := one(be.Y, be.Op == token.LOR)
					if ok1 && ok2 && a.x == b.x && a.lower != b.lower {
						lo, hi := a.v, b.v
						if !a.lower {
							lo, hi = b.v, a.v
						}
						how := "conjunction"
						if be.Op == token.LOR {
							how = "negated disjunction"
						}
						report(be.Pos(), lo, hi, how)
					}
				case token.LSS, token.LEQ:
					// uintN(x - L) < K
					call, ok := ast.Unparen(be.X).(*ast.CallExpr)
					if !ok || len(call.Args) != 1 {
						return true
					}
					if tv, ok := info.Types[call.Fun]; !ok || !tv.IsType() {
						return true
					}
					if bt, ok := info.TypeOf(call).Underlying().(*types.Basic); !ok || bt.Info()&types.IsUnsigned == 0 {
						return true
					}
					sub, ok := ast.Unparen(call.Args[0]).(*ast.BinaryExpr)
					if !ok || sub.Op != token.SUB {
						return true
					}
					l, ok1 := core.ConstInt(info, sub.Y)
					k, ok2 := core.ConstInt(info, be.Y)
					if !ok1 || !ok2 {
						return true
					}
					hi := l + k
					if be.Op == token.LSS {
						hi--
					}
					report(be.Pos(), l, hi, "unsigned single compare")
				}
				return true
			})
		}
	}
	if n == 0 {
		c.Anchor("range tests starting at 'A', 'a' or '0'")
	}
}

// ---------------------------------------------------------------------------
// R-OR20: `(a|0x20) == (b|0x20)` means "same letter up to case" only for
// letters: '@' and '`', '[' and '{', '\\' and '|' … also differ in bit 5 only.
// The comparison therefore has to be conjoined with a letter test of both.
// ---------------------------------------------------------------------------

func ROr20(c *core.Ctx) {
	c.Rule("R-OR20", "every equality test between two values that are both OR-ed with 0x20 (the ASCII 'same letter up to case' idiom) stands in a conjunction that also tests both operands for being letters (unicode.IsLetter or a letter range test): bit 5 is the only difference for non-letter pairs such as '@' / '`' or '[' / '{' too", 1)
	p := c.P
	n := 0
	for _, pk := range p.ModulePkgs() {
		info := pk.TypesInfo
		for _, fd := range p.FuncDecls(pk) {
			if fd.Body == nil || p.IsTestFile(fd.Pos()) {
				continue
			}
			name := core.DeclName(pk, fd)
			var stack []ast.Node
			cnt := 0
			ast.Inspect(fd.Body, func(x ast.Node) bool {
				if x == nil {
					stack = stack[:len(stack)-1]
					return true
				}
				stack = append(stack, x)
				be, ok := x.(*ast.BinaryExpr)
				if !ok || be.Op != token.EQL {
					return true
				}
				or20 := func(e ast.Expr) (string, bool) {
					o, ok := ast.Unparen(e).(*ast.BinaryExpr)
					if !ok || o.Op != token.OR {
						return "", false
					}
					if k, ok := core.ConstInt(info, o.Y); ok && k == 0x20 {
						return types.ExprString(ast.Unparen(o.X)), true
					}
					if k, ok := core.ConstInt(info, o.X); ok && k == 0x20 {
						return types.ExprString(ast.Unparen(o.Y)), true
					}
					return "", false
				}
				a, ok1 := or20(be.X)
				b, ok2 := or20(be.Y)
				if !ok1 || !ok2 {
					return true
				}
				cnt++
				n++
				c.Visit(name)
				// the outermost enclosing && chain
				var top ast.Expr = be
				for i := len(stack) - 2; i >= 0; i-- {
					if pe, ok := stack[i].(*ast.ParenExpr); ok {
						top = pe
						continue
					}
					if pb, ok := stack[i].(*ast.BinaryExpr); ok && pb.Op == token.LAND {
						top = pb
						continue
					}
					break
				}
				letter := map[string]bool{}
				for _, cj := range conjuncts(top) {
					ast.Inspect(cj, func(y ast.Node) bool {
						if call, ok := y.(*ast.CallExpr); ok && len(call.Args) == 1 {
							if cal := core.Callee(info, call); cal != nil && cal.Pkg() != nil && cal.Pkg().Path() == "unicode" && (core.BaseName(cal) == "IsLetter" || core.BaseName(cal) == "IsLower" || core.BaseName(cal) == "IsUpper") {
								letter[types.ExprString(ast.Unparen(call.Args[0]))] = true
							}
						}
						return true
					})
				}
				c.Check(letter[a] && letter[b], fmt.Sprintf("%s / bit-5 equality #%d is restricted to letters", name, cnt), be.Pos(),
					"(%s|0x20) == (%s|0x20) without a letter test of both operands in the same conjunction: non-letter pairs that differ only in bit 5 ('@' and '`', '[' and '{') are taken for the two cases of one letter", a, b)
				return true
			})
		}
	}
	if n == 0 {
		c.Anchor("an equality of two values OR-ed with 0x20")
	}
}

// ---------------------------------------------------------------------------
// R-CATIDENT: a decision about "which Unicode category is this" is made on the
// table, not on the spelling.  unicodeCategories registers every alias of
// unicode.CategoryAliases (Lowercase_Letter, Uppercase_Letter, …) as a key of
// its own pointing at the same table, and canonicalUnicodeCatName returns such
// a key unchanged.  Comparing the name with "Ll" / "Lu" / "Lt" therefore
// misses the long spellings: (?i)\p{Lowercase_Letter} is not broadened to the
// other cases although (?i)\p{Ll} is.
// ---------------------------------------------------------------------------

func RCatIdent(c *core.Ctx) {
	c.Rule("R-CATIDENT", "in package syntax no string comparison of a Unicode category name with a literal that has aliases in unicode.CategoryAliases (Ll, Lu, Lt, …) decides behaviour: the same table is reachable under several keys, so the test is made on the table (unicodeCategories[name] == unicode.X)", 1)
	p := c.P
	syn := p.Pkg("syntax")
	info := syn.TypesInfo
	aliased := map[string]bool{}
	for _, v := range unicode.CategoryAliases {
		aliased[v] = true
	}
	n, examined := 0, 0
	for _, fd := range p.FuncDecls(syn) {
		if fd.Body == nil || p.IsTestFile(fd.Pos()) {
			continue
		}
		name := core.DeclName(syn, fd)
		ast.Inspect(fd.Body, func(x ast.Node) bool {
			be, ok := x.(*ast.BinaryExpr)
			if !ok || (be.Op != token.EQL && be.Op != token.NEQ) {
				return true
			}
			for _, pair := range [][2]ast.Expr{{be.X, be.Y}, {be.Y, be.X}} {
				tv, ok := info.Types[pair[1]]
				if !ok || tv.Value == nil || tv.Value.Kind() != constant.String {
					continue
				}
				lit := constant.StringVal(tv.Value)
				if !aliased[lit] {
					continue
				}
				if _, isLit := ast.Unparen(pair[0]).(*ast.BasicLit); isLit {
					continue
				}
				examined++
				n++
				c.Visit(name)
				c.Bad(fmt.Sprintf("%s / category decision #%d is made on the table, not on the name %q", name, n, lit), be.Pos(),
					"`%s`: the category %q is also registered under its long alias, which canonicalUnicodeCatName returns unchanged; the test fails for that spelling and the two spellings behave differently", types.ExprString(be), lit)
			}
			return true
		})
	}
	if n == 0 {
		c.OK("syntax / no category decision by spelling", token.NoPos, "no comparison of a name with an aliased category literal")
	}
}
