package rules

import (
	"fmt"
	"go/ast"
	"go/constant"
	"go/token"
	"go/types"

	"golang.org/x/tools/go/ssa"

	"regexlint/internal/core"
)

// Rules added for the seventh wave of seeded changes.

// ---------------------------------------------------------------------------
// R-DOLLARLIT: a $-form whose name does not scan is literal text.
// The replacement grammar has no syntax errors: `$x`, `${`, `${1x}`, `${no}`
// are all copied through.  scanDollar may therefore hand back an error only
// from the decimal scanner (a number that does not fit an int); an error of
// the NAME scanner means "this is not a group reference" and the form is
// literalised like every other unrecognised one (D61: under ECMAScript `\`
// may start a name, and `${\x}` made Replace fail).
// ---------------------------------------------------------------------------

func RDollarLit(c *core.Ctx) {
	c.Rule("R-DOLLARLIT", "in the replacement parser's scanDollar no error obtained from the group-name scanner (scanCapname) is returned: a name that does not scan makes the $-form an unrecognised one, which is literalised", 1)
	p := c.P
	syn := p.Pkg("syntax")
	info := syn.TypesInfo
	fn := p.LookupFunc("syntax", "parser.scanDollar")
	capname := p.LookupFunc("syntax", "parser.scanCapname")
	fd, _ := p.DeclOf(fn)
	if fd == nil || capname == nil {
		c.Anchor("syntax.parser.scanDollar / scanCapname")
		return
	}
	c.Visit("syntax.(*parser).scanDollar")
	n := 0
	var stack []ast.Node
	ast.Inspect(fd.Body, func(x ast.Node) bool {
		if x == nil {
			stack = stack[:len(stack)-1]
			return true
		}
		stack = append(stack, x)
		as, ok := x.(*ast.AssignStmt)
		if !ok || len(as.Rhs) != 1 {
			return true
		}
		call, ok := ast.Unparen(as.Rhs[0]).(*ast.CallExpr)
		if !ok || core.Callee(info, call) != capname {
			return true
		}
		n++
		key := fmt.Sprintf("scanDollar / error of name scan #%d is not returned", n)
		// the error variable: the last LHS of error type
		var errObj types.Object
		for _, l := range as.Lhs {
			if id, ok := l.(*ast.Ident); ok && id.Name != "_" {
				if o := info.ObjectOf(id); o != nil && types.Identical(o.Type(), types.Universe.Lookup("error").Type()) {
					errObj = o
				}
			}
		}
		if errObj == nil {
			c.OK(key, as.Pos(), "the error of `%s` is discarded: the form falls through to the literalising exit", types.ExprString(call))
			return true
		}
		// scope of the check: the innermost enclosing block
		var blk *ast.BlockStmt
		for i := len(stack) - 2; i >= 0 && blk == nil; i-- {
			if b, ok := stack[i].(*ast.BlockStmt); ok {
				blk = b
			}
		}
		if blk == nil {
			c.Unknown(key, as.Pos(), "no enclosing block")
			return true
		}
		var bad token.Pos
		reassigned := false
		ast.Inspect(blk, func(y ast.Node) bool {
			if y == nil || y.Pos() < as.End() || bad.IsValid() || reassigned {
				return !bad.IsValid()
			}
			switch s := y.(type) {
			case *ast.AssignStmt:
				for _, l := range s.Lhs {
					if id, ok := l.(*ast.Ident); ok && info.ObjectOf(id) == errObj && s != as {
						reassigned = true
					}
				}
			case *ast.ReturnStmt:
				for _, r := range s.Results {
					ast.Inspect(r, func(z ast.Node) bool {
						if id, ok := z.(*ast.Ident); ok && info.ObjectOf(id) == errObj {
							bad = s.Pos()
						}
						return true
					})
				}
			}
			return true
		})
		if bad.IsValid() {
			c.Bad(key, bad, "the error of `%s` is returned: a replacement like `${\\x}` (ECMAScript, where `\\` may start a name) makes Replace fail instead of copying the text through", types.ExprString(call))
		} else {
			c.OK(key, as.Pos(), "no return statement hands back the error of `%s`", types.ExprString(call))
		}
		return true
	})
	if n == 0 {
		c.Unknown("scanDollar / name scan", fd.Pos(), "no call of scanCapname found in scanDollar")
	}
}

// ---------------------------------------------------------------------------
// R-NOWRAP: a caller's Duration is not enlarged before it is scaled down.
// MatchTimeout may be anything up to math.MaxInt64 - 1 nanoseconds (MaxInt64
// itself is the "no timeout" sentinel).  The deadline code therefore never
// adds to, multiplies or left-shifts a value that still is the caller's
// duration in nanoseconds — it first scales it down (>>, /) — unless the
// operation stands behind an explicit overflow test against math.MaxInt64
// (the saturating addDuration).
// ---------------------------------------------------------------------------

func RNoWrap(c *core.Ctx) {
	c.Rule("R-NOWRAP", "in every function of package regexp2 that has a time.Duration parameter, no +, * or << is applied to a value that still is that parameter in nanoseconds (the parameter itself, a conversion or phi of it) except behind a branch on a comparison with math.MaxInt64 (minus something): such a sum wraps negative for a timeout near the top of the range and the deadline lies in the past", 2)
	p := c.P
	isDur := func(t types.Type) bool {
		n, ok := t.(*types.Named)
		return ok && n.Obj().Pkg() != nil && n.Obj().Pkg().Path() == "time" && n.Obj().Name() == "Duration"
	}
	nFn := 0
	for _, fn := range p.ModuleFuncs() {
		if core.FnPkgPath(fn) != core.PkgRoot || len(fn.Blocks) == 0 {
			continue
		}
		raw := map[ssa.Value]bool{}
		for _, prm := range fn.Params {
			if isDur(prm.Type()) {
				raw[prm] = true
			}
		}
		if len(raw) == 0 {
			continue
		}
		nFn++
		name := core.SSAName(fn)
		c.Visit(name)
		for changed := true; changed; {
			changed = false
			for _, b := range fn.Blocks {
				for _, ins := range b.Instrs {
					v, ok := ins.(ssa.Value)
					if !ok || raw[v] {
						continue
					}
					switch x := ins.(type) {
					case *ssa.ChangeType:
						if raw[x.X] {
							raw[v], changed = true, true
						}
					case *ssa.Convert:
						if raw[x.X] {
							raw[v], changed = true, true
						}
					case *ssa.Phi:
						for _, e := range x.Edges {
							if raw[e] {
								raw[v], changed = true, true
							}
						}
					case *ssa.BinOp:
						// a sum / product of a raw value is still in nanoseconds
						switch x.Op {
						case token.ADD, token.SUB, token.MUL, token.SHL:
							if raw[x.X] || raw[x.Y] {
								raw[v], changed = true, true
							}
						}
					}
				}
			}
		}
		isMax := func(v ssa.Value) bool {
			var has func(v ssa.Value, d int) bool
			has = func(v ssa.Value, d int) bool {
				if d > 3 {
					return false
				}
				switch x := v.(type) {
				case *ssa.Const:
					if x.Value != nil && x.Value.Kind() == constant.Int {
						if i, ok := constant.Int64Val(x.Value); ok && i == 1<<63-1 {
							return true
						}
					}
				case *ssa.BinOp:
					return has(x.X, d+1) || has(x.Y, d+1)
				case *ssa.Convert:
					return has(x.X, d+1)
				case *ssa.ChangeType:
					return has(x.X, d+1)
				}
				return false
			}
			return has(v, 0)
		}
		guarded := func(b *ssa.BasicBlock) bool {
			// some block ends in a branch on a comparison with math.MaxInt64 and sends one
			// of its outcomes somewhere else: b is reachable from one successor only
			reach := func(from, to *ssa.BasicBlock) bool {
				seen := map[*ssa.BasicBlock]bool{}
				var dfs func(x *ssa.BasicBlock) bool
				dfs = func(x *ssa.BasicBlock) bool {
					if x == to {
						return true
					}
					if seen[x] {
						return false
					}
					seen[x] = true
					for _, sc := range x.Succs {
						if dfs(sc) {
							return true
						}
					}
					return false
				}
				return dfs(from)
			}
			for _, d := range fn.Blocks {
				if len(d.Instrs) == 0 || len(d.Succs) != 2 {
					continue
				}
				ifi, ok := d.Instrs[len(d.Instrs)-1].(*ssa.If)
				if !ok {
					continue
				}
				cmp, ok := ifi.Cond.(*ssa.BinOp)
				if !ok || !(isMax(cmp.X) || isMax(cmp.Y)) {
					continue
				}
				r0, r1 := reach(d.Succs[0], b), reach(d.Succs[1], b)
				if r0 != r1 {
					return true
				}
			}
			return false
		}
		n := 0
		var bad []string
		var badPos token.Pos
		for _, b := range fn.Blocks {
			for _, ins := range b.Instrs {
				x, ok := ins.(*ssa.BinOp)
				if !ok {
					continue
				}
				switch x.Op {
				case token.ADD, token.MUL, token.SHL:
					if !(raw[x.X] || raw[x.Y]) {
						continue
					}
					n++
					if !guarded(b) {
						bad = append(bad, x.String())
						if !badPos.IsValid() {
							badPos = x.Pos()
						}
					}
				}
			}
		}
		if len(bad) > 0 {
			c.Bad(name+" / the caller's duration is not enlarged before it is scaled down", badPos, "`%s` is computed on the duration in nanoseconds without an overflow test: for a timeout just below math.MaxInt64 it wraps negative", bad[0])
		} else {
			c.OK(name+" / the caller's duration is not enlarged before it is scaled down", fn.Pos(), "%d enlarging operations on the raw duration, all behind a test against math.MaxInt64", n)
		}
	}
	if nFn == 0 {
		c.Anchor("functions of package regexp2 with a time.Duration parameter")
	}
}
