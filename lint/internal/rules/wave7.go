package rules

import (
	"fmt"
	"go/ast"
	"go/constant"
	"go/token"
	"go/types"

	"golang.org/x/tools/go/ssa"

	"regexlint/internal/core"
)

// Rules added for the seventh wave of seeded changes.

// ---------------------------------------------------------------------------
// R-DOLLARLIT: a $-form whose name does not scan is literal text.
// The replacement grammar has no syntax errors: `$x`, `${`, `${1x}`, `${no}`
// are all copied through.  scanDollar may therefore hand back an error only
// from the decimal scanner (a number that does not fit an int); an error of
// the NAME scanner means "this is not a group reference" and the form is
// literalised like every other unrecognised one (D61: under ECMAScript `\`
// may start a name, and `${\x}` made Replace fail).
// ---------------------------------------------------------------------------

func RDollarLit(c *core.Ctx) {
	c.Rule("R-DOLLARLIT", "in the replacement parser's scanDollar no error obtained from the group-name scanner (scanCapname) is returned: a name that does not scan makes the $-form an unrecognised one, which is literalised", 1)
	p := c.P
	syn := p.Pkg("syntax")
	info := syn.TypesInfo
	fn := p.LookupFunc("syntax", "parser.scanDollar")
	capname := p.LookupFunc("syntax", "parser.scanCapname")
	fd, _ := p.DeclOf(fn)
	if fd == nil || capname == nil {
		c.Anchor("syntax.parser.scanDollar / scanCapname")
		return
	}
	c.Visit("syntax.(*parser).scanDollar")
	n := 0
	var stack []ast.Node
	ast.Inspect(fd.Body, func(x ast.Node) bool {
		if x == nil {
			stack = stack[:len(stack)-1]
			return true
		}
		stack = append(stack, x)
		as, ok := x.(*ast.AssignStmt)
		if !ok || len(as.Rhs) != 1 {
			return true
		}
		call, ok := ast.Unparen(as.Rhs[0]).(*ast.CallExpr)
		if !ok || core.Callee(info, call) != capname {
			return true
		}
		n++
		key := fmt.Sprintf("scanDollar / error of name scan #%d is not returned", n)
		// the error variable: the last LHS of error type
		var errObj types.Object
		for _, l := range as.Lhs {
			if id, ok := l.(*ast.Ident); ok && id.Name != "_" {
				if o := info.ObjectOf(id); o != nil && types.Identical(o.Type(), types.Universe.Lookup("error").Type()) {
					errObj = o
				}
			}
		}
		if errObj == nil {
			c.OK(key, as.Pos(), "the error of `%s` is discarded: the form falls through to the literalising exit", types.ExprString(call))
			return true
		}
		// scope of the check: the innermost enclosing block
		var blk *ast.BlockStmt
		for i := len(stack) - 2; i >= 0 && blk == nil; i-- {
			if b, ok := stack[i].(*ast.BlockStmt); ok {
				blk = b
			}
		}
		if blk == nil {
			c.Unknown(key, as.Pos(), "no enclosing block")
			return true
		}
		var bad token.Pos
		reassigned := false
		ast.Inspect(blk, func(y ast.Node) bool {
			if y == nil || y.Pos() < as.End() || bad.IsValid() || reassigned {
				return !bad.IsValid()
			}
			switch s := y.(type) {
			case *ast.AssignStmt:
				for _, l := range s.Lhs {
					if id, ok := l.(*ast.Ident); ok && info.ObjectOf(id) == errObj && s != as {
						reassigned = true
					}
				}
			case *ast.ReturnStmt:
				for _, r := range s.Results {
					ast.Inspect(r, func(z ast.Node) bool {
						if id, ok := z.(*ast.Ident); ok && info.ObjectOf(id) == errObj {
							bad = s.Pos()
						}
						return true
					})
				}
			}
			return true
		})
		if bad.IsValid() {
			c.Bad(key, bad, "the error of `%s` is returned: a replacement like `${\\x}` (ECMAScript, where `\\` may start a name) makes Replace fail instead of copying the text through", types.ExprString(call))
		} else {
			c.OK(key, as.Pos(), "no return statement hands back the error of `%s`", types.ExprString(call))
		}
		return true
	})
	if n == 0 {
		c.Unknown("scanDollar / name scan", fd.Pos(), "no call of scanCapname found in scanDollar")
	}
}

// ---------------------------------------------------------------------------
// R-NOWRAP: a caller's Duration is not enlarged before it is scaled down.
// MatchTimeout may be anything up to math.MaxInt64 - 1 nanoseconds (MaxInt64
// itself is the "no timeout" sentinel).  The deadline code therefore never
// adds to, multiplies or left-shifts a value that still is the caller's
// duration in nanoseconds — it first scales it down (>>, /) — unless the
// operation stands behind an explicit overflow test against math.MaxInt64
// (the saturating addDuration).
// ---------------------------------------------------------------------------

func RNoWrap(c *core.Ctx) {
	c.Rule("R-NOWRAP", "in every function of package regexp2 that has a time.Duration parameter, no +, * or << is applied to a value that still is that parameter in nanoseconds (the parameter itself, a conversion or phi of it) except behind a branch on a comparison with math.MaxInt64 (minus something): such a sum wraps negative for a timeout near the top of the range and the deadline lies in the past", 2)
	p := c.P
	isDur := func(t types.Type) bool {
		n, ok := t.(*types.Named)
		return ok && n.Obj().Pkg() != nil && n.Obj().Pkg().Path() == "time" && n.Obj().Name() == "Duration"
	}
	nFn := 0
	for _, fn := range p.ModuleFuncs() {
		if core.FnPkgPath(fn) != core.PkgRoot || len(fn.Blocks) == 0 {
			continue
		}
		raw := map[ssa.Value]bool{}
		for _, prm := range fn.Params {
			if isDur(prm.Type()) {
				raw[prm] = true
			}
		}
		if len(raw) == 0 {
			continue
		}
		nFn++
		name := core.SSAName(fn)
		c.Visit(name)
		for changed := true; changed; {
			changed = false
			for _, b := range fn.Blocks {
				for _, ins := range b.Instrs {
					v, ok := ins.(ssa.Value)
					if !ok || raw[v] {
						continue
					}
					switch x := ins.(type) {
					case *ssa.ChangeType:
						if raw[x.X] {
							raw[v], changed = true, true
						}
					case *ssa.Convert:
						if raw[x.X] {
							raw[v], changed = true, true
						}
					case *ssa.Phi:
						for _, e := range x.Edges {
							if raw[e] {
								raw[v], changed = true, true
							}
						}
					case *ssa.BinOp:
						// a sum / product of a raw value is still in nanoseconds
						switch x.Op {
						case token.ADD, token.SUB, token.MUL, token.SHL:
							if raw[x.X] || raw[x.Y] {
								raw[v], changed = true, true
							}
						}
					}
				}
			}
		}
		isMax := func(v ssa.Value) bool {
			var has func(v ssa.Value, d int) bool
			has = func(v ssa.Value, d int) bool {
				if d > 3 {
					return false
				}
				switch x := v.(type) {
				case *ssa.Const:
					if x.Value != nil && x.Value.Kind() == constant.Int {
						if i, ok := constant.Int64Val(x.Value); ok && i == 1<<63-1 {
							return true
						}
					}
				case *ssa.BinOp:
					return has(x.X, d+1) || has(x.Y, d+1)
				case *ssa.Convert:
					return has(x.X, d+1)
				case *ssa.ChangeType:
					return has(x.X, d+1)
				}
				return false
			}
			return has(v, 0)
		}
		guarded := func(b *ssa.BasicBlock) bool {
			// some block ends in a branch on a comparison with math.MaxInt64 and sends one
			// of its outcomes somewhere else: b is reachable from one successor only
			reach := func(from, to *ssa.BasicBlock) bool {
				seen := map[*ssa.BasicBlock]bool{}
				var dfs func(x *ssa.BasicBlock) bool
				dfs = func(x *ssa.BasicBlock) bool {
					if x == to {
						return true
					}
					if seen[x] {
						return false
					}
					seen[x] = true
					for _, sc := range x.Succs {
						if dfs(sc) {
							return true
						}
					}
					return false
				}
				return dfs(from)
			}
			for _, d := range fn.Blocks {
				if len(d.Instrs) == 0 || len(d.Succs) != 2 {
					continue
				}
				ifi, ok := d.Instrs[len(d.Instrs)-1].(*ssa.If)
				if !ok {
					continue
				}
				cmp, ok := ifi.Cond.(*ssa.BinOp)
				if !ok || !(isMax(cmp.X) || isMax(cmp.Y)) {
					continue
				}
				r0, r1 := reach(d.Succs[0], b), reach(d.Succs[1], b)
				if r0 != r1 {
					return true
				}
			}
			return false
		}
		n := 0
		var bad []string
		var badPos token.Pos
		for _, b := range fn.Blocks {
			for _, ins := range b.Instrs {
				x, ok := ins.(*ssa.BinOp)
				if !ok {
					continue
				}
				switch x.Op {
				case token.ADD, token.MUL, token.SHL:
					if !(raw[x.X] || raw[x.Y]) {
						continue
					}
					n++
					if !guarded(b) {
						bad = append(bad, x.String())
						if !badPos.IsValid() {
							badPos = x.Pos()
						}
					}
				}
			}
		}
		if len(bad) > 0 {
			c.Bad(name+" / the caller's duration is not enlarged before it is scaled down", badPos, "`%s` is computed on the duration in nanoseconds without an overflow test: for a timeout just below math.MaxInt64 it wraps negative", bad[0])
		} else {
			c.OK(name+" / the caller's duration is not enlarged before it is scaled down", fn.Pos(), "%d enlarging operations on the raw duration, all behind a test against math.MaxInt64", n)
		}
	}
	if nFn == 0 {
		c.Anchor("functions of package regexp2 with a time.Duration parameter")
	}
}

// ---------------------------------------------------------------------------
// R-KEEPLOOK: only what consumes no text can stand between the match start
// and a "leading" lookahead.
// findLeadingPositiveLookahead answers (lookahead, keepLooking).  keepLooking
// tells the Concatenate arm to go on to the next sibling; it may be true only
// for a node that cannot consume a character — an optional group CAN, and a
// lookahead found behind it does not describe the text at the match start.
// ---------------------------------------------------------------------------

func RKeepLook(c *core.Ctx) {
	c.Rule("R-KEEPLOOK", "in findLeadingPositiveLookahead the second result (keep looking at the next sibling) is the constant true only in switch arms whose node kinds consume no text (anchors, assertions, Empty), and in the Concatenate arm after all children were examined: the prefilter built from the lookahead is applied at the candidate start, so nothing that can match characters — an optional loop included — may lie in front of it", 2)
	p := c.P
	syn := p.Pkg("syntax")
	info := syn.TypesInfo
	fn := p.LookupFunc("syntax", "findLeadingPositiveLookahead")
	fd, _ := p.DeclOf(fn)
	if fd == nil {
		c.Anchor("syntax.findLeadingPositiveLookahead")
		return
	}
	c.Visit("syntax.findLeadingPositiveLookahead")
	n := 0
	mayBeTrue := func(e ast.Expr) bool {
		tv, ok := info.Types[e]
		return !ok || tv.Value == nil || tv.Value.String() != "false"
	}
	ast.Inspect(fd.Body, func(x ast.Node) bool {
		cc, ok := x.(*ast.CaseClause)
		if !ok {
			return true
		}
		var kinds []string
		for _, e := range cc.List {
			if id, ok := ast.Unparen(e).(*ast.Ident); ok {
				if k, ok := info.ObjectOf(id).(*types.Const); ok {
					kinds = append(kinds, core.BaseName(k))
				}
			}
		}
		label := "default"
		if cc.List != nil {
			label = fmt.Sprint(kinds)
		}
		// the returns of this arm (not of nested function literals)
		var rets []*ast.ReturnStmt
		hasChildLoop := false
		for _, st := range cc.Body {
			ast.Inspect(st, func(y ast.Node) bool {
				switch z := y.(type) {
				case *ast.FuncLit:
					return false
				case *ast.ReturnStmt:
					rets = append(rets, z)
				case *ast.ForStmt, *ast.RangeStmt:
					ast.Inspect(z, func(w ast.Node) bool {
						if call, ok := w.(*ast.CallExpr); ok && core.Callee(info, call) == fn {
							hasChildLoop = true
						}
						return true
					})
				}
				return true
			})
		}
		for _, rs := range rets {
			if len(rs.Results) != 2 || !mayBeTrue(rs.Results[1]) {
				continue
			}
			n++
			key := fmt.Sprintf("findLeadingPositiveLookahead / arm %s may answer keep-looking #%d", label, n)
			bad := ""
			for _, k := range kinds {
				if k == "NtConcatenate" {
					if !hasChildLoop {
						bad = "the Concatenate arm answers keep-looking without a loop that examines its children"
					}
					continue
				}
				if _, ok := zeroWidthKinds[k]; !ok {
					bad = k + " can consume characters (an optional loop too: its minimum of 0 does not stop it from matching)"
				}
			}
			if cc.List == nil {
				bad = "the default arm covers every kind that consumes text"
			}
			if bad != "" {
				c.Bad(key, rs.Pos(), "%s: a lookahead found behind it is not at the match start, and the candidate search, prefix and minimum length derived from it skip real matches", bad)
			} else {
				c.OK(key, rs.Pos(), "kinds %s consume no text", label)
			}
		}
		return true
	})
	if n == 0 {
		c.Anchor("arms of findLeadingPositiveLookahead that answer keep-looking")
	}
}

// ---------------------------------------------------------------------------
// R-ENUMPOS: the range list of a negated class is what the class does NOT
// match.  A helper that walks the `ranges` of a class argument without looking
// at its negation (mayOverlapByEnumeration) enumerates the members only of a
// class that is not negated; MayOverlap calls it only where both classes are
// known to be positive.
// ---------------------------------------------------------------------------

func REnumPos(c *core.Ctx) {
	c.Rule("R-ENUMPOS", "in CharSet.MayOverlap every call of a helper that walks the raw range list of one of its class arguments without consulting that argument's negation passes, in that position, a class known not to be negated on every path to the call (early returns on IsNegated / on the two negations differing): the raw ranges of a negated class are the characters it excludes, and testing those for membership in the other class answers the opposite question", 2)
	p := c.P
	syn := p.Pkg("syntax")
	info := syn.TypesInfo
	mo := p.LookupFunc("syntax", "CharSet.MayOverlap")
	fd, _ := p.DeclOf(mo)
	ranges := p.LookupField("syntax", "CharSet", "ranges")
	negate := p.LookupField("syntax", "CharSet", "negate")
	isNeg := p.LookupFunc("syntax", "CharSet.IsNegated")
	if fd == nil || ranges == nil || negate == nil || isNeg == nil {
		c.Anchor("syntax.CharSet.MayOverlap / ranges / negate / IsNegated")
		return
	}
	c.Visit("syntax.(*CharSet).MayOverlap")
	// which parameters of a callee are walked raw?
	rawParams := func(fn *types.Func) []int {
		d, _ := p.DeclOf(fn)
		if d == nil || d.Body == nil {
			return nil
		}
		var params []types.Object
		if d.Recv != nil {
			for _, f := range d.Recv.List {
				for _, id := range f.Names {
					params = append(params, info.ObjectOf(id))
				}
			}
		}
		nRecv := len(params)
		for _, f := range d.Type.Params.List {
			for _, id := range f.Names {
				params = append(params, info.ObjectOf(id))
			}
		}
		var out []int
		for i, prm := range params {
			if prm == nil {
				continue
			}
			readsRanges, looksNeg := false, false
			ast.Inspect(d.Body, func(x ast.Node) bool {
				switch y := x.(type) {
				case *ast.SelectorExpr:
					if id, ok := ast.Unparen(y.X).(*ast.Ident); ok && info.ObjectOf(id) == prm {
						switch core.FieldOf(info, y) {
						case ranges:
							readsRanges = true
						case negate:
							looksNeg = true
						}
						if sel := info.Selections[y]; sel != nil && sel.Kind() == types.MethodVal {
							// any method of the class other than plain accessors may consult the negation
							if f, ok := sel.Obj().(*types.Func); ok && f != nil && f.Origin() != nil {
								looksNeg = true
							}
						}
					}
				case *ast.CallExpr:
					// the parameter handed on whole to something else
					for _, a := range y.Args {
						if id, ok := ast.Unparen(a).(*ast.Ident); ok && info.ObjectOf(id) == prm {
							looksNeg = true
						}
					}
				}
				return true
			})
			if readsRanges && !looksNeg {
				out = append(out, i-nRecv) // index among the call's arguments (-1: receiver)
			}
		}
		return out
	}
	// path facts about "is negated" booleans
	type facts struct {
		isFalse map[types.Object]bool            // class object known not negated
		eq      map[[2]types.Object]bool         // the two classes have the same negation
	}
	clone := func(f facts) facts {
		g := facts{isFalse: map[types.Object]bool{}, eq: map[[2]types.Object]bool{}}
		for k := range f.isFalse {
			g.isFalse[k] = true
		}
		for k := range f.eq {
			g.eq[k] = true
		}
		return g
	}
	negLocal := map[types.Object]types.Object{} // bool local -> class object
	classOf := func(e ast.Expr) types.Object {
		e = ast.Unparen(e)
		if id, ok := e.(*ast.Ident); ok {
			if o, ok := negLocal[info.ObjectOf(id)]; ok {
				return o
			}
		}
		if call, ok := e.(*ast.CallExpr); ok && core.Callee(info, call) == isNeg {
			if sel, ok := ast.Unparen(call.Fun).(*ast.SelectorExpr); ok {
				if id, ok := ast.Unparen(sel.X).(*ast.Ident); ok {
					return info.ObjectOf(id)
				}
			}
		}
		return nil
	}
	// assume cond has the truth value val
	var assume func(f facts, cond ast.Expr, val bool)
	assume = func(f facts, cond ast.Expr, val bool) {
		cond = ast.Unparen(cond)
		switch x := cond.(type) {
		case *ast.UnaryExpr:
			if x.Op == token.NOT {
				assume(f, x.X, !val)
			}
			return
		case *ast.BinaryExpr:
			switch x.Op {
			case token.LAND:
				if val {
					assume(f, x.X, true)
					assume(f, x.Y, true)
				}
			case token.LOR:
				if !val {
					assume(f, x.X, false)
					assume(f, x.Y, false)
				}
			case token.EQL, token.NEQ:
				a, b := classOf(x.X), classOf(x.Y)
				if a != nil && b != nil && (x.Op == token.EQL) == val {
					f.eq[[2]types.Object{a, b}] = true
					f.eq[[2]types.Object{b, a}] = true
				}
			}
			return
		}
		if o := classOf(cond); o != nil && !val {
			f.isFalse[o] = true
		}
	}
	known := func(f facts, o types.Object) bool {
		if f.isFalse[o] {
			return true
		}
		for k := range f.eq {
			if k[0] == o && f.isFalse[k[1]] {
				return true
			}
		}
		return false
	}
	endsInReturn := func(b *ast.BlockStmt) bool {
		if b == nil || len(b.List) == 0 {
			return false
		}
		_, ok := b.List[len(b.List)-1].(*ast.ReturnStmt)
		return ok
	}
	n := 0
	checkCalls := func(node ast.Node, f facts) {
		ast.Inspect(node, func(x ast.Node) bool {
			if _, ok := x.(*ast.BlockStmt); ok && x != node {
				return false // nested blocks are walked with their own facts
			}
			call, ok := x.(*ast.CallExpr)
			if !ok {
				return true
			}
			cal := core.Callee(info, call)
			if cal == nil || cal.Pkg() != syn.Types || cal == mo {
				return true
			}
			for _, idx := range rawParams(cal) {
				var arg ast.Expr
				if idx < 0 {
					if sel, ok := ast.Unparen(call.Fun).(*ast.SelectorExpr); ok {
						arg = sel.X
					}
				} else if idx < len(call.Args) {
					arg = call.Args[idx]
				}
				id, ok := ast.Unparen(arg).(*ast.Ident)
				if !ok {
					continue
				}
				n++
				key := fmt.Sprintf("MayOverlap / call #%d of %s walks the ranges of a class known to be positive", n, core.BaseName(cal))
				if known(f, info.ObjectOf(id)) {
					c.OK(key, call.Pos(), "`%s`: %s is not negated on every path to the call", types.ExprString(call), id.Name)
				} else {
					c.Bad(key, call.Pos(), "`%s` walks %s.ranges although %s may be a negated class here: its ranges are the characters it does NOT match, so `[a-c]+[^xy]` looks disjoint and the loop in front loses its backtracking", types.ExprString(call), id.Name, id.Name)
				}
			}
			return true
		})
	}
	var walk func(list []ast.Stmt, f facts)
	walk = func(list []ast.Stmt, f facts) {
		for _, st := range list {
			switch s := st.(type) {
			case *ast.AssignStmt:
				if len(s.Lhs) == 1 && len(s.Rhs) == 1 {
					if id, ok := s.Lhs[0].(*ast.Ident); ok {
						if call, ok := ast.Unparen(s.Rhs[0]).(*ast.CallExpr); ok && core.Callee(info, call) == isNeg {
							if o := classOf(call); o != nil {
								negLocal[info.ObjectOf(id)] = o
							}
						}
					}
				}
				checkCalls(s, f)
			case *ast.IfStmt:
				checkCalls(s.Cond, f)
				then := clone(f)
				assume(then, s.Cond, true)
				walk(s.Body.List, then)
				els := clone(f)
				assume(els, s.Cond, false)
				switch e := s.Else.(type) {
				case *ast.BlockStmt:
					walk(e.List, els)
				case *ast.IfStmt:
					walk([]ast.Stmt{e}, els)
				}
				if endsInReturn(s.Body) {
					// only the else outcome continues
					for k := range els.isFalse {
						f.isFalse[k] = true
					}
					for k := range els.eq {
						f.eq[k] = true
					}
				}
			case *ast.BlockStmt:
				walk(s.List, f)
			default:
				checkCalls(st, f)
			}
		}
	}
	walk(fd.Body.List, facts{isFalse: map[types.Object]bool{}, eq: map[[2]types.Object]bool{}})
	if n == 0 {
		c.Anchor("calls in MayOverlap of helpers that walk a class argument's raw ranges")
	}
}

// ---------------------------------------------------------------------------
// R-OFFTABLE: byte positions of text that was handed over as runes come from
// the offset table that was built while decoding.
// readRunes / bytesToRunesAndOffsets return the runes AND the byte offset of
// every rune as the source delivered it (a reader may report sizes that are
// not the UTF-8 width: invalid bytes, other encodings).  An adapter method that
// answers with byte indexes uses that table; Capture.ByteRange of a rune-input
// match assumes every rune is a well-formed UTF-8 sequence.
// ---------------------------------------------------------------------------

func ROffTable(c *core.Ctx) {
	c.Rule("R-OFFTABLE", "in package compat every function that answers with byte indexes ([]int, [][]int) and decodes its input through a helper returning (runes, offsets, …) uses the offsets result: it is never discarded in favour of positions recomputed from the runes", 2)
	p := c.P
	isSliceOf := func(t types.Type, kind types.BasicKind) bool {
		sl, ok := t.Underlying().(*types.Slice)
		if !ok {
			return false
		}
		b, ok := sl.Elem().Underlying().(*types.Basic)
		return ok && b.Kind() == kind
	}
	answersIndexes := func(fn *ssa.Function) bool {
		res := fn.Signature.Results()
		for i := 0; i < res.Len(); i++ {
			t := res.At(i).Type()
			if isSliceOf(t, types.Int) {
				return true
			}
			if sl, ok := t.Underlying().(*types.Slice); ok && isSliceOf(sl.Elem(), types.Int) {
				return true
			}
		}
		return false
	}
	n := 0
	for _, fn := range compatFuncs(p) {
		if !answersIndexes(fn) {
			continue
		}
		name := core.SSAName(fn)
		ord := 0
		for _, b := range fn.Blocks {
			for _, ins := range b.Instrs {
				call, ok := ins.(*ssa.Call)
				if !ok {
					continue
				}
				cal := call.Call.StaticCallee()
				if cal == nil || core.FnPkgPath(cal) != core.PkgCompat {
					continue
				}
				res := cal.Signature.Results()
				if res.Len() < 2 || !isSliceOf(res.At(0).Type(), types.Int32) || !isSliceOf(res.At(1).Type(), types.Int) {
					continue
				}
				n++
				ord++
				c.Visit(name)
				used := false
				for _, r := range core.Referrers(call) {
					if ex, ok := r.(*ssa.Extract); ok && ex.Index == 1 && len(core.Referrers(ex)) > 0 {
						used = true
					}
				}
				key := fmt.Sprintf("%s / the offset table of %s call #%d is used", name, core.BaseName(cal), ord)
				if used {
					c.OK(key, call.Pos(), "the []int result of %s is read", core.BaseName(cal))
				} else {
					c.Bad(key, call.Pos(), "the offset table returned by %s is discarded although the function answers with byte indexes: positions recomputed from the runes (ByteRange) are right only when every rune arrived as its own well-formed UTF-8 sequence (a reader delivering an invalid byte reports size 1 for U+FFFD)", core.BaseName(cal))
				}
			}
		}
	}
	if n == 0 {
		c.Anchor("compat functions answering byte indexes that decode through a (runes, offsets) helper")
	}
}

// ---------------------------------------------------------------------------
// R-MAPOK: a missing entry of a group table does not read as group 0.
// Regexp.caps (number -> slot) and Regexp.capnames (name -> number) are
// sparse: ECMAScript leaves unnamed groups without a name, explicit numbers
// leave holes.  m[k] on a missing key is 0, which is a valid group; every read
// of these tables in package regexp2 therefore uses the comma-ok form.
// ---------------------------------------------------------------------------

func RMapOK(c *core.Ctx) {
	c.Rule("R-MAPOK", "in package regexp2 every read of the map fields Regexp.caps and Regexp.capnames is a comma-ok lookup (or a range over the map): a key that is not in the table must not silently read as 0, which is the number of the whole-match group", 2)
	p := c.P
	pk := p.Pkg("")
	info := pk.TypesInfo
	fields := map[*types.Var]string{}
	for _, nm := range []string{"caps", "capnames"} {
		if f := p.LookupField("", "Regexp", nm); f != nil {
			if _, ok := f.Type().Underlying().(*types.Map); ok {
				fields[f] = nm
			}
		}
	}
	if len(fields) != 2 {
		c.Anchor("regexp2.Regexp.caps / capnames (map fields)")
		return
	}
	n := 0
	for _, fd := range p.FuncDecls(pk) {
		if fd.Body == nil || p.IsTestFile(fd.Pos()) {
			continue
		}
		name := core.DeclName(pk, fd)
		ord := 0
		// index expressions that are the target of an assignment are writes
		writes := map[ast.Expr]bool{}
		ast.Inspect(fd.Body, func(x ast.Node) bool {
			if as, ok := x.(*ast.AssignStmt); ok {
				for _, l := range as.Lhs {
					writes[ast.Unparen(l)] = true
				}
			}
			return true
		})
		ast.Inspect(fd.Body, func(x ast.Node) bool {
			ix, ok := x.(*ast.IndexExpr)
			if !ok || writes[ix] {
				return true
			}
			f := core.FieldOf(info, ix.X)
			nm, ok := fields[f]
			if !ok {
				return true
			}
			n++
			ord++
			c.Visit(name)
			key := fmt.Sprintf("%s / read #%d of Regexp.%s is a comma-ok lookup", name, ord, nm)
			tv := info.Types[ix]
			if _, isTuple := tv.Type.(*types.Tuple); isTuple {
				c.OK(key, ix.Pos(), "`%s` in comma-ok form", types.ExprString(ix))
			} else {
				c.Bad(key, ix.Pos(), "`%s` reads 0 for a key that is not in the table, and 0 is the number of group 0: a nameless (ECMAScript) or unknown group is reported as the whole match", types.ExprString(ix))
			}
			return true
		})
	}
	if n == 0 {
		c.Anchor("reads of Regexp.caps / Regexp.capnames")
	}
}

// ---------------------------------------------------------------------------
// R-DIGITNAME: a group is addressed by number only through a string of
// decimal digits.  GetGroupNames lists "0", "1", … for unnamed groups;
// GroupNumberFromName must accept exactly those spellings.  strconv.Atoi /
// ParseInt also accept a sign ("+1", "-0"), names the pattern never defined.
// ---------------------------------------------------------------------------

func RDigitName(c *core.Ctx) {
	c.Rule("R-DIGITNAME", "GroupNumberFromName reads a name as a number only when it consists of decimal digits: the bytes of the name are compared with '0' and '9' (or parsed by an unsigned parser); no signed parser (strconv.Atoi, strconv.ParseInt) is applied to the name", 1)
	p := c.P
	fn := p.SSAFunc(p.LookupFunc("", "Regexp.GroupNumberFromName"))
	if fn == nil || len(fn.Params) < 2 {
		c.Anchor("regexp2.Regexp.GroupNumberFromName")
		return
	}
	c.Visit(core.SSAName(fn))
	nameP := fn.Params[1]
	fromName := func(v ssa.Value) bool {
		for d := 0; d < 4 && v != nil; d++ {
			switch x := v.(type) {
			case *ssa.Parameter:
				return x == nameP
			case *ssa.Lookup:
				v = x.X
			case *ssa.Index:
				v = x.X
			case *ssa.Convert:
				v = x.X
			case *ssa.ChangeType:
				v = x.X
			case *ssa.Slice:
				v = x.X
			case *ssa.Extract:
				if nx, ok := x.Tuple.(*ssa.Next); ok {
					if rg, ok := nx.Iter.(*ssa.Range); ok {
						v = rg.X
						continue
					}
				}
				return false
			default:
				return false
			}
		}
		return false
	}
	var signed token.Pos
	signedWhat := ""
	lo, hi, unsignedParse := false, false, false
	for _, b := range fn.Blocks {
		for _, ins := range b.Instrs {
			switch x := ins.(type) {
			case *ssa.Call:
				if cal := x.Call.StaticCallee(); cal != nil && cal.Pkg != nil && cal.Pkg.Pkg.Path() == "strconv" && len(x.Call.Args) > 0 && fromName(x.Call.Args[0]) {
					switch cal.Name() {
					case "Atoi", "ParseInt":
						signed, signedWhat = x.Pos(), "strconv."+cal.Name()
					case "ParseUint":
						unsignedParse = true
					}
				}
			case *ssa.BinOp:
				switch x.Op {
				case token.LSS, token.LEQ, token.GTR, token.GEQ:
					for _, pr := range [][2]ssa.Value{{x.X, x.Y}, {x.Y, x.X}} {
						if k, ok := pr[1].(*ssa.Const); ok && k.Value != nil && k.Value.Kind() == constant.Int && fromName(pr[0]) {
							if i, ok := constant.Int64Val(k.Value); ok {
								if i == '0' {
									lo = true
								}
								if i == '9' {
									hi = true
								}
							}
						}
					}
				}
			}
		}
	}
	key := "GroupNumberFromName / a name is a number only if it is all decimal digits"
	switch {
	case signed.IsValid() && !(lo && hi):
		c.Bad(key, signed, "%s is applied to the name: it accepts a sign, so \"+1\" and \"-0\" address groups although GetGroupNames never lists such names and GroupNameFromNumber never returns them", signedWhat)
	case (lo && hi) || unsignedParse:
		c.OK(key, fn.Pos(), "the bytes of the name are tested against '0' and '9' (or parsed unsigned)")
	default:
		c.Unknown(key, fn.Pos(), "no digit test and no numeric parse of the name found")
	}
}
