package rules

import (
	"fmt"
	"go/ast"
	"go/token"
	"go/types"

	"regexlint/internal/core"
)

// Rules added for the seventh wave of seeded changes.

// ---------------------------------------------------------------------------
// R-DOLLARLIT: a $-form whose name does not scan is literal text.
// The replacement grammar has no syntax errors: `$x`, `${`, `${1x}`, `${no}`
// are all copied through.  scanDollar may therefore hand back an error only
// from the decimal scanner (a number that does not fit an int); an error of
// the NAME scanner means "this is not a group reference" and the form is
// literalised like every other unrecognised one (D61: under ECMAScript `\`
// may start a name, and `${\x}` made Replace fail).
// ---------------------------------------------------------------------------

func RDollarLit(c *core.Ctx) {
	c.Rule("R-DOLLARLIT", "in the replacement parser's scanDollar no error obtained from the group-name scanner (scanCapname) is returned: a name that does not scan makes the $-form an unrecognised one, which is literalised", 1)
	p := c.P
	syn := p.Pkg("syntax")
	info := syn.TypesInfo
	fn := p.LookupFunc("syntax", "parser.scanDollar")
	capname := p.LookupFunc("syntax", "parser.scanCapname")
	fd, _ := p.DeclOf(fn)
	if fd == nil || capname == nil {
		c.Anchor("syntax.parser.scanDollar / scanCapname")
		return
	}
	c.Visit("syntax.(*parser).scanDollar")
	n := 0
	var stack []ast.Node
	ast.Inspect(fd.Body, func(x ast.Node) bool {
		if x == nil {
			stack = stack[:len(stack)-1]
			return true
		}
		stack = append(stack, x)
		as, ok := x.(*ast.AssignStmt)
		if !ok || len(as.Rhs) != 1 {
			return true
		}
		call, ok := ast.Unparen(as.Rhs[0]).(*ast.CallExpr)
		if !ok || core.Callee(info, call) != capname {
			return true
		}
		n++
		key := fmt.Sprintf("scanDollar / error of name scan #%d is not returned", n)
		// the error variable: the last LHS of error type
		var errObj types.Object
		for _, l := range as.Lhs {
			if id, ok := l.(*ast.Ident); ok && id.Name != "_" {
				if o := info.ObjectOf(id); o != nil && types.Identical(o.Type(), types.Universe.Lookup("error").Type()) {
					errObj = o
				}
			}
		}
		if errObj == nil {
			c.OK(key, as.Pos(), "the error of `%s` is discarded: the form falls through to the literalising exit", types.ExprString(call))
			return true
		}
		// scope of the check: the innermost enclosing block
		var blk *ast.BlockStmt
		for i := len(stack) - 2; i >= 0 && blk == nil; i-- {
			if b, ok := stack[i].(*ast.BlockStmt); ok {
				blk = b
			}
		}
		if blk == nil {
			c.Unknown(key, as.Pos(), "no enclosing block")
			return true
		}
		var bad token.Pos
		reassigned := false
		ast.Inspect(blk, func(y ast.Node) bool {
			if y == nil || y.Pos() < as.End() || bad.IsValid() || reassigned {
				return !bad.IsValid()
			}
			switch s := y.(type) {
			case *ast.AssignStmt:
				for _, l := range s.Lhs {
					if id, ok := l.(*ast.Ident); ok && info.ObjectOf(id) == errObj && s != as {
						reassigned = true
					}
				}
			case *ast.ReturnStmt:
				for _, r := range s.Results {
					ast.Inspect(r, func(z ast.Node) bool {
						if id, ok := z.(*ast.Ident); ok && info.ObjectOf(id) == errObj {
							bad = s.Pos()
						}
						return true
					})
				}
			}
			return true
		})
		if bad.IsValid() {
			c.Bad(key, bad, "the error of `%s` is returned: a replacement like `${\\x}` (ECMAScript, where `\\` may start a name) makes Replace fail instead of copying the text through", types.ExprString(call))
		} else {
			c.OK(key, as.Pos(), "no return statement hands back the error of `%s`", types.ExprString(call))
		}
		return true
	})
	if n == 0 {
		c.Unknown("scanDollar / name scan", fd.Pos(), "no call of scanCapname found in scanDollar")
	}
}
