package rules

import (
	"fmt"
	"go/ast"
	"go/constant"
	"go/token"
	"go/types"
	"sort"
	"strings"

	"golang.org/x/tools/go/ssa"

	"regexlint/internal/core"
)

// Rules added for the seventh wave of seeded changes.

// ---------------------------------------------------------------------------
// R-DOLLARLIT: a $-form whose name does not scan is literal text.
// The replacement grammar has no syntax errors: `$x`, `${`, `${1x}`, `${no}`
// are all copied through.  scanDollar may therefore hand back an error only
// from the decimal scanner (a number that does not fit an int); an error of
// the NAME scanner means "this is not a group reference" and the form is
// literalised like every other unrecognised one (D61: under ECMAScript `\`
// may start a name, and `${\x}` made Replace fail).
// ---------------------------------------------------------------------------

func RDollarLit(c *core.Ctx) {
	c.Rule("R-DOLLARLIT", "in the replacement parser's scanDollar no error obtained from the group-name scanner (scanCapname) is returned: a name that does not scan makes the $-form an unrecognised one, which is literalised", 1)
	p := c.P
	syn := p.Pkg("syntax")
	info := syn.TypesInfo
	fn := p.LookupFunc("syntax", "parser.scanDollar")
	capname := p.LookupFunc("syntax", "parser.scanCapname")
	fd, _ := p.DeclOf(fn)
	if fd == nil || capname == nil {
		c.Anchor("syntax.parser.scanDollar / scanCapname")
		return
	}
	c.Visit("syntax.(*parser).scanDollar")
	n := 0
	var stack []ast.Node
	ast.Inspect(fd.Body, func(x ast.Node) bool {
		if x == nil {
			stack = stack[:len(stack)-1]
			return true
		}
		stack = append(stack, x)
		as, ok := x.(*ast.AssignStmt)
		if !ok || len(as.Rhs) != 1 {
			return true
		}
		call, ok := ast.Unparen(as.Rhs[0]).(*ast.CallExpr)
		if !ok || core.Callee(info, call) != capname {
			return true
		}
		n++
		key := fmt.Sprintf("scanDollar / error of name scan #%d is not returned", n)
		// the error variable: the last LHS of error type
		var errObj types.Object
		for _, l := range as.Lhs {
			if id, ok := l.(*ast.Ident); ok && id.Name != "_" {
				if o := info.ObjectOf(id); o != nil && types.Identical(o.Type(), types.Universe.Lookup("error").Type()) {
					errObj = o
				}
			}
		}
		if errObj == nil {
			c.OK(key, as.Pos(), "the error of `%s` is discarded: the form falls through to the literalising exit", types.ExprString(call))
			return true
		}
		// scope of the check: the innermost enclosing block
		var blk *ast.BlockStmt
		for i := len(stack) - 2; i >= 0 && blk == nil; i-- {
			if b, ok := stack[i].(*ast.BlockStmt); ok {
				blk = b
			}
		}
		if blk == nil {
			c.Unknown(key, as.Pos(), "no enclosing block")
			return true
		}
		var bad token.Pos
		reassigned := false
		ast.Inspect(blk, func(y ast.Node) bool {
			if y == nil || y.Pos() < as.End() || bad.IsValid() || reassigned {
				return !bad.IsValid()
			}
			switch s := y.(type) {
			case *ast.AssignStmt:
				for _, l := range s.Lhs {
					if id, ok := l.(*ast.Ident); ok && info.ObjectOf(id) == errObj && s != as {
						reassigned = true
					}
				}
			case *ast.ReturnStmt:
				for _, r := range s.Results {
					ast.Inspect(r, func(z ast.Node) bool {
						if id, ok := z.(*ast.Ident); ok && info.ObjectOf(id) == errObj {
							bad = s.Pos()
						}
						return true
					})
				}
			}
			return true
		})
		if bad.IsValid() {
			c.Bad(key, bad, "the error of `%s` is returned: a replacement like `${\\x}` (ECMAScript, where `\\` may start a name) makes Replace fail instead of copying the text through", types.ExprString(call))
		} else {
			c.OK(key, as.Pos(), "no return statement hands back the error of `%s`", types.ExprString(call))
		}
		return true
	})
	if n == 0 {
		c.Unknown("scanDollar / name scan", fd.Pos(), "no call of scanCapname found in scanDollar")
	}
}

// ---------------------------------------------------------------------------
// R-NOWRAP: a caller's Duration is not enlarged before it is scaled down.
// MatchTimeout may be anything up to math.MaxInt64 - 1 nanoseconds (MaxInt64
// itself is the "no timeout" sentinel).  The deadline code therefore never
// adds to, multiplies or left-shifts a value that still is the caller's
// duration in nanoseconds — it first scales it down (>>, /) — unless the
// operation stands behind an explicit overflow test against math.MaxInt64
// (the saturating addDuration).
// ---------------------------------------------------------------------------

func RNoWrap(c *core.Ctx) {
	c.Rule("R-NOWRAP", "in every function of package regexp2 that has a time.Duration parameter, no +, * or << is applied to a value that still is that parameter in nanoseconds (the parameter itself, a conversion or phi of it) except behind a branch on a comparison with math.MaxInt64 (minus something): such a sum wraps negative for a timeout near the top of the range and the deadline lies in the past", 2)
	p := c.P
	isDur := func(t types.Type) bool {
		n, ok := t.(*types.Named)
		return ok && n.Obj().Pkg() != nil && n.Obj().Pkg().Path() == "time" && n.Obj().Name() == "Duration"
	}
	nFn := 0
	for _, fn := range p.ModuleFuncs() {
		if core.FnPkgPath(fn) != core.PkgRoot || len(fn.Blocks) == 0 {
			continue
		}
		raw := map[ssa.Value]bool{}
		for _, prm := range fn.Params {
			if isDur(prm.Type()) {
				raw[prm] = true
			}
		}
		if len(raw) == 0 {
			continue
		}
		nFn++
		name := core.SSAName(fn)
		c.Visit(name)
		for changed := true; changed; {
			changed = false
			for _, b := range fn.Blocks {
				for _, ins := range b.Instrs {
					v, ok := ins.(ssa.Value)
					if !ok || raw[v] {
						continue
					}
					switch x := ins.(type) {
					case *ssa.ChangeType:
						if raw[x.X] {
							raw[v], changed = true, true
						}
					case *ssa.Convert:
						if raw[x.X] {
							raw[v], changed = true, true
						}
					case *ssa.Phi:
						for _, e := range x.Edges {
							if raw[e] {
								raw[v], changed = true, true
							}
						}
					case *ssa.BinOp:
						// a sum / product of a raw value is still in nanoseconds
						switch x.Op {
						case token.ADD, token.SUB, token.MUL, token.SHL:
							if raw[x.X] || raw[x.Y] {
								raw[v], changed = true, true
							}
						}
					}
				}
			}
		}
		isMax := func(v ssa.Value) bool {
			var has func(v ssa.Value, d int) bool
			has = func(v ssa.Value, d int) bool {
				if d > 3 {
					return false
				}
				switch x := v.(type) {
				case *ssa.Const:
					if x.Value != nil && x.Value.Kind() == constant.Int {
						if i, ok := constant.Int64Val(x.Value); ok && i == 1<<63-1 {
							return true
						}
					}
				case *ssa.BinOp:
					return has(x.X, d+1) || has(x.Y, d+1)
				case *ssa.Convert:
					return has(x.X, d+1)
				case *ssa.ChangeType:
					return has(x.X, d+1)
				}
				return false
			}
			return has(v, 0)
		}
		guarded := func(b *ssa.BasicBlock) bool {
			// some block ends in a branch on a comparison with math.MaxInt64 and sends one
			// of its outcomes somewhere else: b is reachable from one successor only
			reach := func(from, to *ssa.BasicBlock) bool {
				seen := map[*ssa.BasicBlock]bool{}
				var dfs func(x *ssa.BasicBlock) bool
				dfs = func(x *ssa.BasicBlock) bool {
					if x == to {
						return true
					}
					if seen[x] {
						return false
					}
					seen[x] = true
					for _, sc := range x.Succs {
						if dfs(sc) {
							return true
						}
					}
					return false
				}
				return dfs(from)
			}
			for _, d := range fn.Blocks {
				if len(d.Instrs) == 0 || len(d.Succs) != 2 {
					continue
				}
				ifi, ok := d.Instrs[len(d.Instrs)-1].(*ssa.If)
				if !ok {
					continue
				}
				cmp, ok := ifi.Cond.(*ssa.BinOp)
				if !ok || !(isMax(cmp.X) || isMax(cmp.Y)) {
					continue
				}
				r0, r1 := reach(d.Succs[0], b), reach(d.Succs[1], b)
				if r0 != r1 {
					return true
				}
			}
			return false
		}
		n := 0
		var bad []string
		var badPos token.Pos
		for _, b := range fn.Blocks {
			for _, ins := range b.Instrs {
				x, ok := ins.(*ssa.BinOp)
				if !ok {
					continue
				}
				switch x.Op {
				case token.ADD, token.MUL, token.SHL:
					if !(raw[x.X] || raw[x.Y]) {
						continue
					}
					n++
					if !guarded(b) {
						bad = append(bad, x.String())
						if !badPos.IsValid() {
							badPos = x.Pos()
						}
					}
				}
			}
		}
		if len(bad) > 0 {
			c.Bad(name+" / the caller's duration is not enlarged before it is scaled down", badPos, "`%s` is computed on the duration in nanoseconds without an overflow test: for a timeout just below math.MaxInt64 it wraps negative", bad[0])
		} else {
			c.OK(name+" / the caller's duration is not enlarged before it is scaled down", fn.Pos(), "%d enlarging operations on the raw duration, all behind a test against math.MaxInt64", n)
		}
	}
	if nFn == 0 {
		c.Anchor("functions of package regexp2 with a time.Duration parameter")
	}
}

// ---------------------------------------------------------------------------
// R-KEEPLOOK: only what consumes no text can stand between the match start
// and a "leading" lookahead.
// findLeadingPositiveLookahead answers (lookahead, keepLooking).  keepLooking
// tells the Concatenate arm to go on to the next sibling; it may be true only
// for a node that cannot consume a character — an optional group CAN, and a
// lookahead found behind it does not describe the text at the match start.
// ---------------------------------------------------------------------------

func RKeepLook(c *core.Ctx) {
	c.Rule("R-KEEPLOOK", "in findLeadingPositiveLookahead the second result (keep looking at the next sibling) is the constant true only in switch arms whose node kinds consume no text (anchors, assertions, Empty), and in the Concatenate arm after all children were examined: the prefilter built from the lookahead is applied at the candidate start, so nothing that can match characters — an optional loop included — may lie in front of it", 2)
	p := c.P
	syn := p.Pkg("syntax")
	info := syn.TypesInfo
	fn := p.LookupFunc("syntax", "findLeadingPositiveLookahead")
	fd, _ := p.DeclOf(fn)
	if fd == nil {
		c.Anchor("syntax.findLeadingPositiveLookahead")
		return
	}
	c.Visit("syntax.findLeadingPositiveLookahead")
	n := 0
	mayBeTrue := func(e ast.Expr) bool {
		tv, ok := info.Types[e]
		return !ok || tv.Value == nil || tv.Value.String() != "false"
	}
	ast.Inspect(fd.Body, func(x ast.Node) bool {
		cc, ok := x.(*ast.CaseClause)
		if !ok {
			return true
		}
		var kinds []string
		for _, e := range cc.List {
			if id, ok := ast.Unparen(e).(*ast.Ident); ok {
				if k, ok := info.ObjectOf(id).(*types.Const); ok {
					kinds = append(kinds, core.BaseName(k))
				}
			}
		}
		label := "default"
		if cc.List != nil {
			label = fmt.Sprint(kinds)
		}
		// the returns of this arm (not of nested function literals)
		var rets []*ast.ReturnStmt
		hasChildLoop := false
		for _, st := range cc.Body {
			ast.Inspect(st, func(y ast.Node) bool {
				switch z := y.(type) {
				case *ast.FuncLit:
					return false
				case *ast.ReturnStmt:
					rets = append(rets, z)
				case *ast.ForStmt, *ast.RangeStmt:
					ast.Inspect(z, func(w ast.Node) bool {
						if call, ok := w.(*ast.CallExpr); ok && core.Callee(info, call) == fn {
							hasChildLoop = true
						}
						return true
					})
				}
				return true
			})
		}
		for _, rs := range rets {
			if len(rs.Results) != 2 || !mayBeTrue(rs.Results[1]) {
				continue
			}
			n++
			key := fmt.Sprintf("findLeadingPositiveLookahead / arm %s may answer keep-looking #%d", label, n)
			bad := ""
			for _, k := range kinds {
				if k == "NtConcatenate" {
					if !hasChildLoop {
						bad = "the Concatenate arm answers keep-looking without a loop that examines its children"
					}
					continue
				}
				if _, ok := zeroWidthKinds[k]; !ok {
					bad = k + " can consume characters (an optional loop too: its minimum of 0 does not stop it from matching)"
				}
			}
			if cc.List == nil {
				bad = "the default arm covers every kind that consumes text"
			}
			if bad != "" {
				c.Bad(key, rs.Pos(), "%s: a lookahead found behind it is not at the match start, and the candidate search, prefix and minimum length derived from it skip real matches", bad)
			} else {
				c.OK(key, rs.Pos(), "kinds %s consume no text", label)
			}
		}
		return true
	})
	if n == 0 {
		c.Anchor("arms of findLeadingPositiveLookahead that answer keep-looking")
	}
}

// ---------------------------------------------------------------------------
// R-ENUMPOS: the range list of a negated class is what the class does NOT
// match.  A helper that walks the `ranges` of a class argument without looking
// at its negation (mayOverlapByEnumeration) enumerates the members only of a
// class that is not negated; MayOverlap calls it only where both classes are
// known to be positive.
// ---------------------------------------------------------------------------

func REnumPos(c *core.Ctx) {
	c.Rule("R-ENUMPOS", "in CharSet.MayOverlap every call of a helper that reads the raw range or category list of one of its class arguments without consulting that argument's negation passes, in that position, a class known not to be negated on every path to the call (early returns on IsNegated / on the two negations differing): the raw ranges of a negated class are the characters it excludes, and testing those for membership in the other class answers the opposite question", 2)
	p := c.P
	syn := p.Pkg("syntax")
	info := syn.TypesInfo
	mo := p.LookupFunc("syntax", "CharSet.MayOverlap")
	fd, _ := p.DeclOf(mo)
	ranges := p.LookupField("syntax", "CharSet", "ranges")
	negate := p.LookupField("syntax", "CharSet", "negate")
	isNeg := p.LookupFunc("syntax", "CharSet.IsNegated")
	if fd == nil || ranges == nil || negate == nil || isNeg == nil {
		c.Anchor("syntax.CharSet.MayOverlap / ranges / negate / IsNegated")
		return
	}
	c.Visit("syntax.(*CharSet).MayOverlap")
	cats := p.LookupField("syntax", "CharSet", "categories")
	negMemo := map[*types.Func]bool{}
	var consultsNeg func(f *types.Func, depth int) bool
	consultsNeg = func(f *types.Func, depth int) bool {
		if f == nil || f.Pkg() != syn.Types {
			return true // unknown code: assume it may
		}
		if f == isNeg {
			return true
		}
		if v, ok := negMemo[f]; ok {
			return v
		}
		negMemo[f] = false
		d, _ := p.DeclOf(f)
		if d == nil || d.Body == nil || depth > 3 {
			return false
		}
		res := false
		ast.Inspect(d.Body, func(x ast.Node) bool {
			switch y := x.(type) {
			case *ast.SelectorExpr:
				if core.FieldOf(info, y) == negate {
					res = true
				}
			case *ast.CallExpr:
				if cal := core.Callee(info, y); cal != nil && cal != f && cal.Pkg() == syn.Types {
					if sig, ok := cal.Type().(*types.Signature); ok && sig.Recv() != nil && consultsNeg(cal, depth+1) {
						res = true
					}
				}
			}
			return !res
		})
		negMemo[f] = res
		return res
	}
	// which parameters of a callee are walked raw?
	rawParams := func(fn *types.Func) []int {
		d, _ := p.DeclOf(fn)
		if d == nil || d.Body == nil {
			return nil
		}
		var params []types.Object
		if d.Recv != nil {
			for _, f := range d.Recv.List {
				for _, id := range f.Names {
					params = append(params, info.ObjectOf(id))
				}
			}
		}
		nRecv := len(params)
		for _, f := range d.Type.Params.List {
			for _, id := range f.Names {
				params = append(params, info.ObjectOf(id))
			}
		}
		var out []int
		for i, prm := range params {
			if prm == nil {
				continue
			}
			readsRanges, looksNeg := false, false
			ast.Inspect(d.Body, func(x ast.Node) bool {
				switch y := x.(type) {
				case *ast.SelectorExpr:
					if id, ok := ast.Unparen(y.X).(*ast.Ident); ok && info.ObjectOf(id) == prm {
						switch core.FieldOf(info, y) {
						case ranges, cats:
							readsRanges = true
						case negate:
							looksNeg = true
						}
						if sel := info.Selections[y]; sel != nil && sel.Kind() == types.MethodVal {
							// a method of the class that (itself or through other methods) consults the negation
							if f, ok := sel.Obj().(*types.Func); ok && f != nil && consultsNeg(f.Origin(), 0) {
								looksNeg = true
							}
						}
					}
				case *ast.CallExpr:
					// the parameter handed on whole to something else
					for _, a := range y.Args {
						if id, ok := ast.Unparen(a).(*ast.Ident); ok && info.ObjectOf(id) == prm {
							looksNeg = true
						}
					}
				}
				return true
			})
			if readsRanges && !looksNeg {
				out = append(out, i-nRecv) // index among the call's arguments (-1: receiver)
			}
		}
		return out
	}
	// path facts about "is negated" booleans
	type facts struct {
		isFalse map[types.Object]bool    // class object known not negated
		eq      map[[2]types.Object]bool // the two classes have the same negation
	}
	clone := func(f facts) facts {
		g := facts{isFalse: map[types.Object]bool{}, eq: map[[2]types.Object]bool{}}
		for k := range f.isFalse {
			g.isFalse[k] = true
		}
		for k := range f.eq {
			g.eq[k] = true
		}
		return g
	}
	negLocal := map[types.Object]types.Object{} // bool local -> class object
	classOf := func(e ast.Expr) types.Object {
		e = ast.Unparen(e)
		if id, ok := e.(*ast.Ident); ok {
			if o, ok := negLocal[info.ObjectOf(id)]; ok {
				return o
			}
		}
		if call, ok := e.(*ast.CallExpr); ok && core.Callee(info, call) == isNeg {
			if sel, ok := ast.Unparen(call.Fun).(*ast.SelectorExpr); ok {
				if id, ok := ast.Unparen(sel.X).(*ast.Ident); ok {
					return info.ObjectOf(id)
				}
			}
		}
		return nil
	}
	// assume cond has the truth value val
	var assume func(f facts, cond ast.Expr, val bool)
	assume = func(f facts, cond ast.Expr, val bool) {
		cond = ast.Unparen(cond)
		switch x := cond.(type) {
		case *ast.UnaryExpr:
			if x.Op == token.NOT {
				assume(f, x.X, !val)
			}
			return
		case *ast.BinaryExpr:
			switch x.Op {
			case token.LAND:
				if val {
					assume(f, x.X, true)
					assume(f, x.Y, true)
				}
			case token.LOR:
				if !val {
					assume(f, x.X, false)
					assume(f, x.Y, false)
				}
			case token.EQL, token.NEQ:
				a, b := classOf(x.X), classOf(x.Y)
				if a != nil && b != nil && (x.Op == token.EQL) == val {
					f.eq[[2]types.Object{a, b}] = true
					f.eq[[2]types.Object{b, a}] = true
				}
			}
			return
		}
		if o := classOf(cond); o != nil && !val {
			f.isFalse[o] = true
		}
	}
	known := func(f facts, o types.Object) bool {
		if f.isFalse[o] {
			return true
		}
		for k := range f.eq {
			if k[0] == o && f.isFalse[k[1]] {
				return true
			}
		}
		return false
	}
	endsInReturn := func(b *ast.BlockStmt) bool {
		if b == nil || len(b.List) == 0 {
			return false
		}
		_, ok := b.List[len(b.List)-1].(*ast.ReturnStmt)
		return ok
	}
	n := 0
	checkCalls := func(node ast.Node, f facts) {
		ast.Inspect(node, func(x ast.Node) bool {
			if _, ok := x.(*ast.BlockStmt); ok && x != node {
				return false // nested blocks are walked with their own facts
			}
			call, ok := x.(*ast.CallExpr)
			if !ok {
				return true
			}
			cal := core.Callee(info, call)
			if cal == nil || cal.Pkg() != syn.Types || cal == mo {
				return true
			}
			for _, idx := range rawParams(cal) {
				var arg ast.Expr
				if idx < 0 {
					if sel, ok := ast.Unparen(call.Fun).(*ast.SelectorExpr); ok {
						arg = sel.X
					}
				} else if idx < len(call.Args) {
					arg = call.Args[idx]
				}
				id, ok := ast.Unparen(arg).(*ast.Ident)
				if !ok {
					continue
				}
				n++
				key := fmt.Sprintf("MayOverlap / call #%d of %s walks the ranges of a class known to be positive", n, core.BaseName(cal))
				if known(f, info.ObjectOf(id)) {
					c.OK(key, call.Pos(), "`%s`: %s is not negated on every path to the call", types.ExprString(call), id.Name)
				} else {
					c.Bad(key, call.Pos(), "`%s` walks %s.ranges although %s may be a negated class here: its ranges are the characters it does NOT match, so `[a-c]+[^xy]` looks disjoint and the loop in front loses its backtracking", types.ExprString(call), id.Name, id.Name)
				}
			}
			return true
		})
	}
	var walk func(list []ast.Stmt, f facts)
	walk = func(list []ast.Stmt, f facts) {
		for _, st := range list {
			switch s := st.(type) {
			case *ast.AssignStmt:
				if len(s.Lhs) == 1 && len(s.Rhs) == 1 {
					if id, ok := s.Lhs[0].(*ast.Ident); ok {
						if call, ok := ast.Unparen(s.Rhs[0]).(*ast.CallExpr); ok && core.Callee(info, call) == isNeg {
							if o := classOf(call); o != nil {
								negLocal[info.ObjectOf(id)] = o
							}
						}
					}
				}
				checkCalls(s, f)
			case *ast.IfStmt:
				checkCalls(s.Cond, f)
				then := clone(f)
				assume(then, s.Cond, true)
				walk(s.Body.List, then)
				els := clone(f)
				assume(els, s.Cond, false)
				switch e := s.Else.(type) {
				case *ast.BlockStmt:
					walk(e.List, els)
				case *ast.IfStmt:
					walk([]ast.Stmt{e}, els)
				}
				if endsInReturn(s.Body) {
					// only the else outcome continues
					for k := range els.isFalse {
						f.isFalse[k] = true
					}
					for k := range els.eq {
						f.eq[k] = true
					}
				}
			case *ast.BlockStmt:
				walk(s.List, f)
			default:
				checkCalls(st, f)
			}
		}
	}
	walk(fd.Body.List, facts{isFalse: map[types.Object]bool{}, eq: map[[2]types.Object]bool{}})
	if n == 0 {
		c.Anchor("calls in MayOverlap of helpers that walk a class argument's raw ranges")
	}
}

// ---------------------------------------------------------------------------
// R-OFFTABLE: byte positions of text that was handed over as runes come from
// the offset table that was built while decoding.
// readRunes / bytesToRunesAndOffsets return the runes AND the byte offset of
// every rune as the source delivered it (a reader may report sizes that are
// not the UTF-8 width: invalid bytes, other encodings).  An adapter method that
// answers with byte indexes uses that table; Capture.ByteRange of a rune-input
// match assumes every rune is a well-formed UTF-8 sequence.
// ---------------------------------------------------------------------------

func ROffTable(c *core.Ctx) {
	c.Rule("R-OFFTABLE", "in package compat every function that answers with byte indexes ([]int, [][]int) and decodes its input through a helper returning (runes, offsets, …) uses the offsets result: it is never discarded in favour of positions recomputed from the runes", 2)
	p := c.P
	isSliceOf := func(t types.Type, kind types.BasicKind) bool {
		sl, ok := t.Underlying().(*types.Slice)
		if !ok {
			return false
		}
		b, ok := sl.Elem().Underlying().(*types.Basic)
		return ok && b.Kind() == kind
	}
	answersIndexes := func(fn *ssa.Function) bool {
		res := fn.Signature.Results()
		for i := 0; i < res.Len(); i++ {
			t := res.At(i).Type()
			if isSliceOf(t, types.Int) {
				return true
			}
			if sl, ok := t.Underlying().(*types.Slice); ok && isSliceOf(sl.Elem(), types.Int) {
				return true
			}
		}
		return false
	}
	n := 0
	for _, fn := range compatFuncs(p) {
		if !answersIndexes(fn) {
			continue
		}
		name := core.SSAName(fn)
		ord := 0
		for _, b := range fn.Blocks {
			for _, ins := range b.Instrs {
				call, ok := ins.(*ssa.Call)
				if !ok {
					continue
				}
				cal := call.Call.StaticCallee()
				if cal == nil || core.FnPkgPath(cal) != core.PkgCompat {
					continue
				}
				res := cal.Signature.Results()
				if res.Len() < 2 || !isSliceOf(res.At(0).Type(), types.Int32) || !isSliceOf(res.At(1).Type(), types.Int) {
					continue
				}
				n++
				ord++
				c.Visit(name)
				used := false
				for _, r := range core.Referrers(call) {
					if ex, ok := r.(*ssa.Extract); ok && ex.Index == 1 && len(core.Referrers(ex)) > 0 {
						used = true
					}
				}
				key := fmt.Sprintf("%s / the offset table of %s call #%d is used", name, core.BaseName(cal), ord)
				if used {
					c.OK(key, call.Pos(), "the []int result of %s is read", core.BaseName(cal))
				} else {
					c.Bad(key, call.Pos(), "the offset table returned by %s is discarded although the function answers with byte indexes: positions recomputed from the runes (ByteRange) are right only when every rune arrived as its own well-formed UTF-8 sequence (a reader delivering an invalid byte reports size 1 for U+FFFD)", core.BaseName(cal))
				}
			}
		}
	}
	if n == 0 {
		c.Anchor("compat functions answering byte indexes that decode through a (runes, offsets) helper")
	}
	// the byte width of a rune that came from a reader is what the reader said it was
	nr := 0
	for _, fn := range compatFuncs(p) {
		name := core.SSAName(fn)
		for _, b := range fn.Blocks {
			for _, ins := range b.Instrs {
				call, ok := ins.(*ssa.Call)
				if !ok || !call.Call.IsInvoke() || call.Call.Method == nil || call.Call.Method.Name() != "ReadRune" {
					continue
				}
				nr++
				c.Visit(name)
				used := false
				for _, r := range core.Referrers(call) {
					if ex, ok := r.(*ssa.Extract); ok && ex.Index == 1 && len(core.Referrers(ex)) > 0 {
						used = true
					}
				}
				c.Check(used, fmt.Sprintf("%s / the size reported by ReadRune call #%d is used", name, nr), call.Pos(), "the size result of ReadRune is discarded: byte positions of reader input are then recomputed from the runes (utf8.RuneLen), which is wrong for every rune the reader delivered from bytes that are not its UTF-8 encoding (an invalid byte arrives as U+FFFD with size 1)")
			}
		}
	}
	if nr == 0 {
		c.Anchor("ReadRune calls in package compat")
	}
}

// ---------------------------------------------------------------------------
// R-MAPOK: a missing entry of a group table does not read as group 0.
// Regexp.caps (number -> slot) and Regexp.capnames (name -> number) are
// sparse: ECMAScript leaves unnamed groups without a name, explicit numbers
// leave holes.  m[k] on a missing key is 0, which is a valid group; every read
// of these tables in package regexp2 therefore uses the comma-ok form.
// ---------------------------------------------------------------------------

func RMapOK(c *core.Ctx) {
	c.Rule("R-MAPOK", "in package regexp2 every read of the map fields Regexp.caps and Regexp.capnames is a comma-ok lookup (or a range over the map): a key that is not in the table must not silently read as 0, which is the number of the whole-match group", 2)
	p := c.P
	pk := p.Pkg("")
	info := pk.TypesInfo
	fields := map[*types.Var]string{}
	for _, nm := range []string{"caps", "capnames"} {
		if f := p.LookupField("", "Regexp", nm); f != nil {
			if _, ok := f.Type().Underlying().(*types.Map); ok {
				fields[f] = nm
			}
		}
	}
	if len(fields) != 2 {
		c.Anchor("regexp2.Regexp.caps / capnames (map fields)")
		return
	}
	n := 0
	for _, fd := range p.FuncDecls(pk) {
		if fd.Body == nil || p.IsTestFile(fd.Pos()) {
			continue
		}
		name := core.DeclName(pk, fd)
		ord := 0
		// index expressions that are the target of an assignment are writes
		writes := map[ast.Expr]bool{}
		ast.Inspect(fd.Body, func(x ast.Node) bool {
			if as, ok := x.(*ast.AssignStmt); ok {
				for _, l := range as.Lhs {
					writes[ast.Unparen(l)] = true
				}
			}
			return true
		})
		ast.Inspect(fd.Body, func(x ast.Node) bool {
			ix, ok := x.(*ast.IndexExpr)
			if !ok || writes[ix] {
				return true
			}
			f := core.FieldOf(info, ix.X)
			nm, ok := fields[f]
			if !ok {
				return true
			}
			n++
			ord++
			c.Visit(name)
			key := fmt.Sprintf("%s / read #%d of Regexp.%s is a comma-ok lookup", name, ord, nm)
			tv := info.Types[ix]
			if _, isTuple := tv.Type.(*types.Tuple); isTuple {
				c.OK(key, ix.Pos(), "`%s` in comma-ok form", types.ExprString(ix))
			} else {
				c.Bad(key, ix.Pos(), "`%s` reads 0 for a key that is not in the table, and 0 is the number of group 0: a nameless (ECMAScript) or unknown group is reported as the whole match", types.ExprString(ix))
			}
			return true
		})
	}
	if n == 0 {
		c.Anchor("reads of Regexp.caps / Regexp.capnames")
	}
}

// ---------------------------------------------------------------------------
// R-DIGITNAME: a group is addressed by number only through a string of
// decimal digits.  GetGroupNames lists "0", "1", … for unnamed groups;
// GroupNumberFromName must accept exactly those spellings.  strconv.Atoi /
// ParseInt also accept a sign ("+1", "-0"), names the pattern never defined.
// ---------------------------------------------------------------------------

func RDigitName(c *core.Ctx) {
	c.Rule("R-DIGITNAME", "GroupNumberFromName reads a name as a number only when it consists of decimal digits: the bytes of the name are compared with '0' and '9' (or parsed by an unsigned parser); no signed parser (strconv.Atoi, strconv.ParseInt) is applied to the name", 1)
	p := c.P
	fn := p.SSAFunc(p.LookupFunc("", "Regexp.GroupNumberFromName"))
	if fn == nil || len(fn.Params) < 2 {
		c.Anchor("regexp2.Regexp.GroupNumberFromName")
		return
	}
	c.Visit(core.SSAName(fn))
	nameP := fn.Params[1]
	fromName := func(v ssa.Value) bool {
		for d := 0; d < 4 && v != nil; d++ {
			switch x := v.(type) {
			case *ssa.Parameter:
				return x == nameP
			case *ssa.Lookup:
				v = x.X
			case *ssa.Index:
				v = x.X
			case *ssa.Convert:
				v = x.X
			case *ssa.ChangeType:
				v = x.X
			case *ssa.Slice:
				v = x.X
			case *ssa.Extract:
				if nx, ok := x.Tuple.(*ssa.Next); ok {
					if rg, ok := nx.Iter.(*ssa.Range); ok {
						v = rg.X
						continue
					}
				}
				return false
			default:
				return false
			}
		}
		return false
	}
	var signed token.Pos
	signedWhat := ""
	lo, hi, unsignedParse := false, false, false
	for _, b := range fn.Blocks {
		for _, ins := range b.Instrs {
			switch x := ins.(type) {
			case *ssa.Call:
				if cal := x.Call.StaticCallee(); cal != nil && cal.Pkg != nil && cal.Pkg.Pkg.Path() == "strconv" && len(x.Call.Args) > 0 && fromName(x.Call.Args[0]) {
					switch cal.Name() {
					case "Atoi", "ParseInt":
						signed, signedWhat = x.Pos(), "strconv."+cal.Name()
					case "ParseUint":
						unsignedParse = true
					}
				}
			case *ssa.BinOp:
				switch x.Op {
				case token.LSS, token.LEQ, token.GTR, token.GEQ:
					for _, pr := range [][2]ssa.Value{{x.X, x.Y}, {x.Y, x.X}} {
						if k, ok := pr[1].(*ssa.Const); ok && k.Value != nil && k.Value.Kind() == constant.Int && fromName(pr[0]) {
							if i, ok := constant.Int64Val(k.Value); ok {
								if i == '0' {
									lo = true
								}
								if i == '9' {
									hi = true
								}
							}
						}
					}
				}
			}
		}
	}
	key := "GroupNumberFromName / a name is a number only if it is all decimal digits"
	switch {
	case signed.IsValid() && !(lo && hi):
		c.Bad(key, signed, "%s is applied to the name: it accepts a sign, so \"+1\" and \"-0\" address groups although GetGroupNames never lists such names and GroupNameFromNumber never returns them", signedWhat)
	case (lo && hi) || unsignedParse:
		c.OK(key, fn.Pos(), "the bytes of the name are tested against '0' and '9' (or parsed unsigned)")
	default:
		c.Unknown(key, fn.Pos(), "no digit test and no numeric parse of the name found")
	}
}

// ---------------------------------------------------------------------------
// R-STARTSENT: only a negative start offset means "no start given".
// The public entry points take a start offset; -1 selects the default start,
// which for a RightToLeft pattern is the END of the text.  0 is an ordinary
// offset (a right-to-left search from 0 looks at nothing to its left).  Any
// branch on the caller's offset that goes on to consult RightToLeft() for the
// default must therefore not be taken for 0.
// ---------------------------------------------------------------------------

var startSentExempt = map[string]string{
	"regexp2.(*Regexp).matchStringAt": "its only non-negative argument is a candidate of the string prefix filter, which MatchString consults for left-to-right patterns only (R-RTLFILTER); for those the default start and offset 0 coincide",
}

func RStartSent(c *core.Ctx) {
	c.Rule("R-STARTSENT", "wherever a start offset handed in through FindStringMatchStartingAt / FindRunesMatchStartingAt / Replace / ReplaceFunc (followed through the calls that pass it on unchanged) is compared with a constant and the branch taken goes on to ask RightToLeft() for the default start (or calls an entry point that searches from the default start), the comparison is false for offset 0: only a negative offset stands for \"no start given\"", 2)
	p := c.P
	rtl := p.SSAFunc(p.LookupFunc("", "Regexp.RightToLeft"))
	if rtl == nil {
		c.Anchor("regexp2.Regexp.RightToLeft")
		return
	}
	// The offset as a set of SSA values: the entry parameters, phis over them, the
	// parameters of callees that receive them, and the results of callees that hand
	// them back (findStringMatchStart returns the offset, or a filter candidate).
	tainted := map[ssa.Value]bool{}
	resTaint := map[*ssa.Function]map[int]bool{}
	for _, ent := range []struct {
		name string
		idx  int
	}{{"Regexp.FindStringMatchStartingAt", 2}, {"Regexp.FindRunesMatchStartingAt", 2}, {"Regexp.Replace", 3}, {"Regexp.ReplaceFunc", 3}} {
		f := p.SSAFunc(p.LookupFunc("", ent.name))
		if f == nil || len(f.Params) <= ent.idx {
			c.Anchor("regexp2." + ent.name)
			continue
		}
		tainted[f.Params[ent.idx]] = true
	}
	var rootFns []*ssa.Function
	for _, fn := range p.ModuleFuncs() {
		if core.FnPkgPath(fn) == core.PkgRoot && len(fn.Blocks) > 0 {
			rootFns = append(rootFns, fn)
		}
	}
	for changed := true; changed; {
		changed = false
		mark := func(v ssa.Value) {
			if v != nil && !tainted[v] {
				tainted[v] = true
				changed = true
			}
		}
		for _, fn := range rootFns {
			for _, b := range fn.Blocks {
				for _, ins := range b.Instrs {
					switch x := ins.(type) {
					case *ssa.Phi:
						for _, e := range x.Edges {
							if tainted[e] {
								mark(x)
							}
						}
					case *ssa.Extract:
						if call, ok := x.Tuple.(*ssa.Call); ok {
							if cal := call.Call.StaticCallee(); cal != nil && resTaint[cal][x.Index] {
								mark(x)
							}
						}
					case *ssa.Call:
						cal := x.Call.StaticCallee()
						if cal == nil {
							continue
						}
						if resTaint[cal][0] && cal.Signature.Results().Len() == 1 {
							mark(x)
						}
						if core.FnPkgPath(cal) == core.PkgRoot && len(cal.Blocks) > 0 {
							for i, a := range x.Call.Args {
								if tainted[a] && i < len(cal.Params) {
									mark(cal.Params[i])
								}
							}
						}
					case *ssa.Return:
						for i, r := range x.Results {
							if tainted[r] && !resTaint[fn][i] {
								if resTaint[fn] == nil {
									resTaint[fn] = map[int]bool{}
								}
								resTaint[fn][i] = true
								changed = true
							}
						}
					}
				}
			}
		}
	}
	n := 0
	seenFn := map[*ssa.Function]bool{}
	for v := range tainted {
		if prm, ok := v.(*ssa.Parameter); ok {
			seenFn[prm.Parent()] = true
		}
	}
	var fns []*ssa.Function
	for fn := range seenFn {
		fns = append(fns, fn)
	}
	// entry points that search from the DEFAULT start: they hand a negative constant to a
	// parameter that carries the caller's offset elsewhere (FindStringMatch, FindRunesMatch)
	defaultEntry := map[*ssa.Function]bool{}
	for _, fn := range rootFns {
		for _, b := range fn.Blocks {
			for _, ins := range b.Instrs {
				call, ok := ins.(ssa.CallInstruction)
				if !ok {
					continue
				}
				cal := call.Common().StaticCallee()
				if cal == nil || core.FnPkgPath(cal) != core.PkgRoot {
					continue
				}
				for i, a := range call.Common().Args {
					if k, ok := a.(*ssa.Const); ok && i < len(cal.Params) && tainted[cal.Params[i]] && k.Value != nil && k.Value.Kind() == constant.Int {
						if v, _ := constant.Int64Val(k.Value); v < 0 {
							defaultEntry[fn] = true
						}
					}
				}
			}
		}
	}
	sort.Slice(fns, func(i, j int) bool { return core.SSAName(fns[i]) < core.SSAName(fns[j]) })
	for _, fn := range fns {
		name := core.SSAName(fn)
		ord := 0
		for _, b := range fn.Blocks {
			if len(b.Instrs) == 0 || len(b.Succs) != 2 {
				continue
			}
			ifi, ok := b.Instrs[len(b.Instrs)-1].(*ssa.If)
			if !ok {
				continue
			}
			cmp, ok := ifi.Cond.(*ssa.BinOp)
			if !ok {
				continue
			}
			k, isK := cmp.Y.(*ssa.Const)
			if !isK || !tainted[cmp.X] || k.Value == nil || k.Value.Kind() != constant.Int {
				continue
			}
			kv, _ := constant.Int64Val(k.Value)
			var at0 bool
			switch cmp.Op {
			case token.LSS:
				at0 = 0 < kv
			case token.LEQ:
				at0 = 0 <= kv
			case token.GTR:
				at0 = 0 > kv
			case token.GEQ:
				at0 = 0 >= kv
			case token.EQL:
				at0 = 0 == kv
			case token.NEQ:
				at0 = 0 != kv
			default:
				continue
			}
			// the branch taken for offset 0
			taken := b.Succs[0]
			other := b.Succs[1]
			if !at0 {
				taken, other = other, taken
			}
			// does the other branch (not taken for 0) consult RightToLeft for a default? then fine.
			// does the branch taken for 0 — and only it — consult RightToLeft()?
			consults := func(root, stop *ssa.BasicBlock) bool {
				seen := map[*ssa.BasicBlock]bool{}
				var dfs func(x *ssa.BasicBlock) bool
				dfs = func(x *ssa.BasicBlock) bool {
					if seen[x] || !root.Dominates(x) {
						return false
					}
					seen[x] = true
					for _, ins := range x.Instrs {
						if call, ok := ins.(ssa.CallInstruction); ok {
							if cal := call.Common().StaticCallee(); cal != nil && (cal == rtl || defaultEntry[cal]) {
								return true
							}
						}
					}
					for _, sc := range x.Succs {
						if dfs(sc) {
							return true
						}
					}
					return false
				}
				return dfs(root)
			}
			takenAsks := len(taken.Preds) == 1 && consults(taken, nil)
			otherAsks := len(other.Preds) == 1 && consults(other, nil)
			if !takenAsks && !otherAsks {
				continue
			}
			n++
			ord++
			c.Visit(name)
			key := fmt.Sprintf("%s / default-start branch #%d is not taken for offset 0", name, ord)
			if !takenAsks {
				c.OK(key, cmp.Pos(), "`%s` is false for offset 0; the RightToLeft default is chosen on the other branch only", cmp.String())
				continue
			}
			if why, ok := startSentExempt[name]; ok {
				c.OK(key, cmp.Pos(), "exempt: %s", why)
				continue
			}
			c.Bad(key, cmp.Pos(), "`%s` holds for an explicit start offset of 0, and the branch then takes the RightToLeft default (the end of the text): FindStringMatchStartingAt(s, 0) on a right-to-left pattern scans from the end instead of looking at nothing", cmp.String())
		}
	}
	c.Note("R-STARTSENT: %d functions receive the caller's start offset unchanged", len(fns))
	if n == 0 {
		c.Anchor("branches on the caller's start offset that choose the RightToLeft default")
	}
}

// ---------------------------------------------------------------------------
// R-BOUNDDEC: where the runes of an input string begin is decided by decoding.
// The engine decodes input with `range` / DecodeRune: an invalid byte is one
// rune (U+FFFD) of width 1, a stray continuation byte included.  The rune
// boundaries the string entry points accept as start offsets must be exactly
// the positions that decoding yields; utf8.RuneStart classifies the byte
// instead and calls every continuation byte "not a boundary".
// ---------------------------------------------------------------------------

func RBoundDec(c *core.Ctx) {
	c.Rule("R-BOUNDDEC", "in packages regexp2 and compat no rune boundary of input text is derived from utf8.RuneStart: the boundaries are the byte positions that decoding the string yields (range over the string, DecodeRune*), under which every invalid byte — a stray continuation byte too — starts a rune", 1)
	p := c.P
	n, examined := 0, 0
	for _, fn := range p.ModuleFuncs() {
		pk := core.FnPkgPath(fn)
		if pk != core.PkgRoot && pk != core.PkgCompat {
			continue
		}
		examined++
		for _, b := range fn.Blocks {
			for _, ins := range b.Instrs {
				call, ok := ins.(ssa.CallInstruction)
				if !ok {
					continue
				}
				cal := call.Common().StaticCallee()
				if cal == nil || cal.Pkg == nil || cal.Pkg.Pkg.Path() != "unicode/utf8" || cal.Name() != "RuneStart" {
					continue
				}
				n++
				c.Visit(core.SSAName(fn))
				c.Bad(fmt.Sprintf("%s / rune boundary by byte class #%d", core.SSAName(fn), n), call.Pos(), "utf8.RuneStart answers false for a continuation byte, but the decoder makes a stray continuation byte a rune of its own: a start offset that FindRunesMatchStartingAt accepts at the same rune index is rejected (or a position inside a rune accepted) by the string entry point")
			}
		}
	}
	if n == 0 {
		c.OK("packages regexp2, compat / rune boundaries come from decoding", token.NoPos, "%d functions examined, no call of utf8.RuneStart", examined)
	}
}

// ---------------------------------------------------------------------------
// R-NEGCLEAR: a class method takes back only the negation canonicalize put
// there.  canonicalize may rewrite "everything but one range" as a negated
// class and marks that with `flipped`; un-flipping restores the positive form.
// The user's own negation ([^…]) carries no such mark and is never cleared:
// `[^\s\S]` stays the empty class even after its members grew to "anything".
// ---------------------------------------------------------------------------

func RNegClear(c *core.Ctx) {
	c.Rule("R-NEGCLEAR", "in package syntax every store of the constant false into the negate field of an existing class (a parameter or receiver, not a class built in the same function) stands under a test that the class's flipped mark is set: only the negation introduced by canonicalize is ever taken back, never the one the pattern wrote", 1)
	p := c.P
	neg := p.LookupField("syntax", "CharSet", "negate")
	flp := p.LookupField("syntax", "CharSet", "flipped")
	if neg == nil || flp == nil {
		c.Anchor("syntax.CharSet.negate / flipped")
		return
	}
	n := 0
	baseOf := func(v ssa.Value) ssa.Value {
		if fa, ok := v.(*ssa.FieldAddr); ok {
			return fa.X
		}
		return nil
	}
	for _, fn := range p.ModuleFuncs() {
		if core.FnPkgPath(fn) != core.PkgSyntax {
			continue
		}
		name := core.SSAName(fn)
		ord := 0
		for _, b := range fn.Blocks {
			for _, ins := range b.Instrs {
				st, ok := ins.(*ssa.Store)
				if !ok || core.FieldVarOfAddr(st.Addr) != neg {
					continue
				}
				k, ok := st.Val.(*ssa.Const)
				if !ok || k.Value == nil || k.Value.Kind() != constant.Bool || constant.BoolVal(k.Value) {
					continue
				}
				base := baseOf(st.Addr)
				if _, isParam := base.(*ssa.Parameter); !isParam {
					continue // a class under construction in this function
				}
				n++
				ord++
				c.Visit(name)
				key := fmt.Sprintf("%s / clearing of negate #%d is for a flipped class", name, ord)
				guarded := false
				for d := b; d != nil && !guarded; d = d.Idom() {
					idom := d.Idom()
					if idom == nil || len(idom.Instrs) == 0 || len(idom.Succs) != 2 {
						continue
					}
					ifi, ok := idom.Instrs[len(idom.Instrs)-1].(*ssa.If)
					if !ok {
						continue
					}
					ld, ok := ifi.Cond.(*ssa.UnOp)
					if !ok || ld.Op != token.MUL || core.FieldVarOfAddr(ld.X) != flp || baseOf(ld.X) != base {
						continue
					}
					// d must hang under the true edge
					if idom.Succs[0] == d || (idom.Succs[0].Dominates(d) && len(idom.Succs[0].Preds) == 1) {
						guarded = true
					}
				}
				if guarded {
					c.OK(key, st.Pos(), "the store is reached only when flipped is set")
				} else {
					c.Bad(key, st.Pos(), "negate is set to false without a test of flipped: a negation the pattern wrote ([^…]) is thrown away — `[^\\s\\S]`, whose members grow to \"anything\", then matches every character instead of none")
				}
			}
		}
	}
	if n == 0 {
		c.Anchor("stores of false into CharSet.negate of an existing class")
	}
}

// ---------------------------------------------------------------------------
// R-DIRCOUNT: how many characters are left is asked in the direction of
// travel.  rightchars() / leftchars() are absolute (towards the end / the
// beginning of the text) and belong to the anchors, which test a fixed side;
// every opcode that consumes text runs in the program's direction and counts
// with forwardchars().
// ---------------------------------------------------------------------------

var anchorOpcodes = map[string]bool{
	"Bol": true, "Eol": true, "Boundary": true, "Nonboundary": true, "ECMABoundary": true, "NonECMABoundary": true,
	"Beginning": true, "Start": true, "EndZ": true, "End": true,
}

func RDirCount(c *core.Ctx) {
	c.Rule("R-DIRCOUNT", "in the interpreter switch (executeDefault) the absolute accessors rightchars() / leftchars() are called only in arms whose opcodes are all anchors (Bol, Eol, Beginning, Start, EndZ, End, the boundaries): an arm of a text-consuming opcode bounds its count by forwardchars(), the characters left in the direction the program runs", 4)
	p := c.P
	pk := p.Pkg("")
	info := pk.TypesInfo
	fd, _ := p.DeclOf(p.LookupFunc("", "executeDefault"))
	abs := map[*types.Func]string{}
	for _, nm := range []string{"rightchars", "leftchars"} {
		if f := p.LookupFunc("", "Runner."+nm); f != nil {
			abs[f] = nm
		}
	}
	if fd == nil || len(abs) != 2 {
		c.Anchor("regexp2.executeDefault / Runner.rightchars / Runner.leftchars")
		return
	}
	c.Visit("regexp2.executeDefault")
	n := 0
	ast.Inspect(fd.Body, func(x ast.Node) bool {
		cc, ok := x.(*ast.CaseClause)
		if !ok {
			return true
		}
		var calls []*ast.CallExpr
		for _, st := range cc.Body {
			ast.Inspect(st, func(y ast.Node) bool {
				if _, ok := y.(*ast.CaseClause); ok {
					return false
				}
				if call, ok := y.(*ast.CallExpr); ok {
					if _, ok := abs[core.Callee(info, call)]; ok {
						calls = append(calls, call)
					}
				}
				return true
			})
		}
		if len(calls) == 0 {
			return true
		}
		allAnchors := cc.List != nil
		label := ""
		for _, e := range cc.List {
			nm := ""
			if sel, ok := ast.Unparen(e).(*ast.SelectorExpr); ok {
				if k, ok := info.ObjectOf(sel.Sel).(*types.Const); ok {
					nm = core.BaseName(k)
				}
			} else if id, ok := ast.Unparen(e).(*ast.Ident); ok {
				if k, ok := info.ObjectOf(id).(*types.Const); ok {
					nm = core.BaseName(k)
				}
			}
			if label != "" {
				label += ","
			}
			label += types.ExprString(e)
			if !anchorOpcodes[nm] {
				allAnchors = false
			}
		}
		for _, call := range calls {
			n++
			key := fmt.Sprintf("executeDefault / absolute character count #%d stands in an anchor arm", n)
			if allAnchors {
				c.OK(key, call.Pos(), "`%s` in the arm of %s", types.ExprString(call), label)
			} else {
				c.Bad(key, call.Pos(), "`%s` in the arm of %s: the opcode also runs right-to-left, where the characters it can take lie to the LEFT of the position; bounding the count by the absolute side makes a right-to-left lazy loop stop short (or read before the start of the text)", types.ExprString(call), label)
			}
		}
		return true
	})
	if n == 0 {
		c.Anchor("calls of rightchars / leftchars in executeDefault")
	}
}

// ---------------------------------------------------------------------------
// R-STACKREL: a saved stack position is a depth, not an index.
// The three runner stacks grow at the FRONT: grow* allocates a larger slice,
// copies the content to its end and shifts the position by the difference.  A
// position that is remembered across other operations (Setjump saves the track
// position on the grouping stack, Backjump restores it) is therefore stored as
// the distance from the end, len(stack) - pos, which growing does not change.
// ---------------------------------------------------------------------------

func RStackRel(c *core.Ctx) {
	c.Rule("R-STACKREL", "for each runner stack (runtrack/Runtrackpos, runstack/Runstackpos, runcrawl/runcrawlpos): a function that hands its position out (returns it, or passes it to another function) hands out len(stack) - pos, and a function that installs a position it was given stores len(stack) - given; the raw index never leaves or enters, because growing the stack moves its content to the end of a larger slice and shifts every index", 4)
	p := c.P
	type stk struct{ pos, sl *types.Var }
	var stacks []stk
	for _, pr := range [][2]string{{"Runtrackpos", "runtrack"}, {"Runstackpos", "runstack"}, {"runcrawlpos", "runcrawl"}} {
		a, b := p.LookupField("", "Runner", pr[0]), p.LookupField("", "Runner", pr[1])
		if a == nil || b == nil {
			c.Anchor("Runner." + pr[0] + " / Runner." + pr[1])
			continue
		}
		stacks = append(stacks, stk{a, b})
	}
	if len(stacks) == 0 {
		return
	}
	posOf := func(v ssa.Value) *types.Var {
		if ld, ok := v.(*ssa.UnOp); ok && ld.Op == token.MUL {
			f := core.FieldVarOfAddr(ld.X)
			for _, s := range stacks {
				if s.pos == f {
					return f
				}
			}
		}
		return nil
	}
	lenOf := func(v ssa.Value) *types.Var {
		call, ok := v.(*ssa.Call)
		if !ok {
			return nil
		}
		if bi, ok := call.Call.Value.(*ssa.Builtin); !ok || bi.Name() != "len" || len(call.Call.Args) != 1 {
			return nil
		}
		if ld, ok := call.Call.Args[0].(*ssa.UnOp); ok && ld.Op == token.MUL {
			return core.FieldVarOfAddr(ld.X)
		}
		return nil
	}
	slOf := func(pos *types.Var) *types.Var {
		for _, s := range stacks {
			if s.pos == pos {
				return s.sl
			}
		}
		return nil
	}
	pushesParam := func(cal *ssa.Function) bool {
		for _, b := range cal.Blocks {
			for _, ins := range b.Instrs {
				st, ok := ins.(*ssa.Store)
				if !ok {
					continue
				}
				if _, isP := st.Val.(*ssa.Parameter); !isP {
					continue
				}
				if ia, ok := st.Addr.(*ssa.IndexAddr); ok {
					if ld, ok := ia.X.(*ssa.UnOp); ok && ld.Op == token.MUL {
						f := core.FieldVarOfAddr(ld.X)
						for _, s := range stacks {
							if s.sl == f {
								return true
							}
						}
					}
				}
			}
		}
		return false
	}
	n := 0
	for _, fn := range p.ModuleFuncs() {
		if core.FnPkgPath(fn) != core.PkgRoot {
			continue
		}
		name := core.SSAName(fn)
		ord := 0
		report := func(ok bool, pos token.Pos, what, detail string) {
			n++
			ord++
			c.Visit(name)
			key := fmt.Sprintf("%s / stack position #%d (%s) is relative to the end of the stack", name, ord, what)
			if ok {
				c.OK(key, pos, "%s", detail)
			} else {
				c.Bad(key, pos, "%s: when the stack grows in between (a loop inside a look-around or atomic group pushes past the current capacity) the content moves and the remembered index points into the wrong frame — a wrong \"no match\" or an index out of range on the first call only", detail)
			}
		}
		for _, b := range fn.Blocks {
			for _, ins := range b.Instrs {
				switch x := ins.(type) {
				case *ssa.Return:
					for _, r := range x.Results {
						if f := posOf(r); f != nil {
							report(false, x.Pos(), "returned", "the raw index "+f.Name()+" is returned")
						} else if bin, ok := r.(*ssa.BinOp); ok && bin.Op == token.SUB {
							if f := posOf(bin.Y); f != nil {
								report(lenOf(bin.X) == slOf(f), x.Pos(), "returned", "len("+slOf(f).Name()+") - "+f.Name())
							}
						}
					}
				case *ssa.Store:
					f := core.FieldVarOfAddr(x.Addr)
					if slOf(f) == nil {
						continue
					}
					if _, isP := x.Val.(*ssa.Parameter); isP {
						report(false, x.Pos(), "installed", "a position handed in by the caller is stored into "+f.Name()+" as it is")
					} else if bin, ok := x.Val.(*ssa.BinOp); ok && bin.Op == token.SUB {
						if _, isP := bin.Y.(*ssa.Parameter); isP {
							report(lenOf(bin.X) == slOf(f), x.Pos(), "installed", f.Name()+" = len("+slOf(f).Name()+") - given")
						}
					}
				case ssa.CallInstruction:
					for _, a := range x.Common().Args {
						if f := posOf(a); f != nil {
							// handing the index to a function that writes it onto a stack is remembering it
							if cal := x.Common().StaticCallee(); cal != nil && core.InModule(cal) && pushesParam(cal) {
								report(false, x.Pos(), "passed on", "the raw index "+f.Name()+" is pushed by "+core.BaseName(cal))
							}
						}
					}
				}
			}
		}
	}
	if n == 0 {
		c.Anchor("functions that hand out or install a stack position")
	}
}

// ---------------------------------------------------------------------------
// R-ERRIDENT: an error keeps its identity on the way out.
// Callers tell a stack-limit stop from a timeout with errors.Is / == against
// the exported sentinels.  An error received from the matcher is therefore
// returned as it is, or wrapped with %w; formatting it with %v / %s (or
// errors.New(err.Error())) produces a new error the sentinel no longer
// matches.
// ---------------------------------------------------------------------------

func RErrIdent(c *core.Ctx) {
	c.Rule("R-ERRIDENT", "in packages regexp2 and compat no value of type error is formatted into a new error: every fmt.Errorf that takes an error argument has a %w verb for it, and errors.New is never applied to the text of another error — ErrBacktrackingStackLimit and the timeout error stay recognisable (errors.Is) through every entry point", 1)
	p := c.P
	errT := types.Universe.Lookup("error").Type()
	n, examined := 0, 0
	for _, pkn := range []string{"", "compat"} {
		pk := p.Pkg(pkn)
		if pk == nil {
			continue
		}
		info := pk.TypesInfo
		for _, fd := range p.FuncDecls(pk) {
			if fd.Body == nil || p.IsTestFile(fd.Pos()) {
				continue
			}
			name := core.DeclName(pk, fd)
			ast.Inspect(fd.Body, func(x ast.Node) bool {
				call, ok := x.(*ast.CallExpr)
				if !ok {
					return true
				}
				cal := core.Callee(info, call)
				if cal == nil || cal.Pkg() == nil {
					return true
				}
				full := cal.Pkg().Path() + "." + cal.Name()
				switch full {
				case "fmt.Errorf":
					examined++
					nErr := 0
					for _, a := range call.Args[1:] {
						if t := info.TypeOf(a); t != nil && types.Implements(t, errT.Underlying().(*types.Interface)) {
							if _, isIface := t.Underlying().(*types.Interface); isIface || types.Identical(t, errT) {
								nErr++
							}
						}
					}
					if nErr == 0 {
						return true
					}
					wraps := 0
					if tv, ok := info.Types[call.Args[0]]; ok && tv.Value != nil && tv.Value.Kind() == constant.String {
						wraps = strings.Count(constant.StringVal(tv.Value), "%w")
					}
					if wraps < nErr {
						n++
						c.Visit(name)
						c.Bad(fmt.Sprintf("%s / error formatted into a new error #%d", name, n), call.Pos(), "`%s` formats an error with a verb other than %%w: the result no longer matches ErrBacktrackingStackLimit / the timeout error under errors.Is or ==", types.ExprString(call))
					}
				case "errors.New":
					examined++
					bad := false
					ast.Inspect(call.Args[0], func(y ast.Node) bool {
						if c2, ok := y.(*ast.CallExpr); ok {
							if sel, ok := ast.Unparen(c2.Fun).(*ast.SelectorExpr); ok && sel.Sel.Name == "Error" {
								if t := info.TypeOf(sel.X); t != nil && types.Implements(t, errT.Underlying().(*types.Interface)) {
									bad = true
								}
							}
						}
						return true
					})
					if bad {
						n++
						c.Visit(name)
						c.Bad(fmt.Sprintf("%s / error formatted into a new error #%d", name, n), call.Pos(), "`%s` builds a new error from the text of another one: the sentinel's identity is lost", types.ExprString(call))
					}
				}
				return true
			})
		}
	}
	if n == 0 {
		c.OK("packages regexp2, compat / errors keep their identity", token.NoPos, "%d fmt.Errorf / errors.New calls examined, none re-formats an error", examined)
	}
}

// ---------------------------------------------------------------------------
// R-STARTSET: elapsed time is measured from a start that has been set.
// fast.start is the zero Time until the first deadline is made.
// time.Since(zero) saturates at the largest Duration: written into
// fast.current it puts the first deadline of the process centuries ahead, and
// that one call never times out.
// ---------------------------------------------------------------------------

func RStartSet(c *core.Ctx) {
	c.Rule("R-STARTSET", "every time.Since(fast.start) (or Sub from it) is computed where fast.start is known to be set: behind a !fast.start.IsZero() test in the same function, or in the clock goroutine, which is spawned only behind extendClock's zero test that sets it", 2)
	p := c.P
	start := p.LookupField("", "fastclock", "start")
	if start == nil {
		c.Anchor("fastclock.start")
		return
	}
	isStartLoad := func(v ssa.Value) bool {
		ld, ok := v.(*ssa.UnOp)
		return ok && ld.Op == token.MUL && core.FieldVarOfAddr(ld.X) == start
	}
	isZeroCall := func(v ssa.Value) bool {
		call, ok := v.(*ssa.Call)
		if !ok {
			return false
		}
		cal := call.Call.StaticCallee()
		if cal == nil || cal.Name() != "IsZero" || cal.Pkg == nil || cal.Pkg.Pkg.Path() != "time" || len(call.Call.Args) != 1 {
			return false
		}
		return isStartLoad(call.Call.Args[0])
	}
	// blocks reached only when start is not zero: under the false edge of an IsZero branch
	// (looking through && / || phis: a condition that IMPLIES !IsZero on its true edge)
	var impliesSet func(cond ssa.Value, val bool, depth int) bool
	impliesSet = func(cond ssa.Value, val bool, depth int) bool {
		if depth > 4 {
			return false
		}
		if isZeroCall(cond) {
			return !val
		}
		switch x := cond.(type) {
		case *ssa.UnOp:
			if x.Op == token.NOT {
				return impliesSet(x.X, !val, depth+1)
			}
		case *ssa.Phi:
			// a && b, true edge: every edge value that can be true must imply it. Edges that are the
			// constant !val cannot produce val.
			for _, e := range x.Edges {
				if k, ok := e.(*ssa.Const); ok && k.Value != nil && k.Value.Kind() == constant.Bool && constant.BoolVal(k.Value) != val {
					continue
				}
				if !impliesSet(e, val, depth+1) {
					// for a && b the left operand being true is needed as well: it is established by the
					// branch that leads into the block computing b — accept when ANY operand implies it
					// only for the conjunction shape (val == true and the other edges are constant false)
					return false
				}
			}
			return true
		}
		return false
	}
	guarded := func(b *ssa.BasicBlock) bool {
		for d := b; d != nil; d = d.Idom() {
			idom := d.Idom()
			if idom == nil || len(idom.Instrs) == 0 || len(idom.Succs) != 2 {
				continue
			}
			ifi, ok := idom.Instrs[len(idom.Instrs)-1].(*ssa.If)
			if !ok {
				continue
			}
			for k := 0; k < 2; k++ {
				sc := idom.Succs[k]
				if (sc == d || sc.Dominates(d)) && len(sc.Preds) == 1 && impliesSet(ifi.Cond, k == 0, 0) {
					return true
				}
			}
		}
		return false
	}
	// functions started as goroutines only behind a zero test that sets start
	spawnedSafe := func(fn *ssa.Function) bool {
		found, all := false, true
		for _, g := range p.ModuleFuncs() {
			for _, b := range g.Blocks {
				for _, ins := range b.Instrs {
					goi, ok := ins.(*ssa.Go)
					if !ok || goi.Call.StaticCallee() != fn {
						continue
					}
					found = true
					// some block that dominates the go statement tests IsZero and its true branch stores start
					ok2 := false
					for d := b; d != nil; d = d.Idom() {
						if len(d.Instrs) == 0 || len(d.Succs) != 2 {
							continue
						}
						if ifi, ok := d.Instrs[len(d.Instrs)-1].(*ssa.If); ok && isZeroCall(ifi.Cond) {
							for _, in2 := range d.Succs[0].Instrs {
								if st, ok := in2.(*ssa.Store); ok && core.FieldVarOfAddr(st.Addr) == start {
									ok2 = true
								}
							}
						}
					}
					if !ok2 {
						all = false
					}
				}
			}
		}
		// and nobody calls it directly
		if node := p.CallGraph().Nodes[fn]; node != nil {
			for _, e := range node.In {
				if _, isGo := e.Site.(*ssa.Go); !isGo {
					all = false
				}
			}
		}
		return found && all
	}
	n := 0
	for _, fn := range p.ModuleFuncs() {
		if core.FnPkgPath(fn) != core.PkgRoot {
			continue
		}
		name := core.SSAName(fn)
		ord := 0
		for _, b := range fn.Blocks {
			for _, ins := range b.Instrs {
				call, ok := ins.(*ssa.Call)
				if !ok {
					continue
				}
				cal := call.Call.StaticCallee()
				if cal == nil || cal.Pkg == nil || cal.Pkg.Pkg.Path() != "time" {
					continue
				}
				uses := false
				switch cal.Name() {
				case "Since":
					uses = len(call.Call.Args) == 1 && isStartLoad(call.Call.Args[0])
				case "Sub":
					uses = len(call.Call.Args) == 2 && isStartLoad(call.Call.Args[1])
				}
				if !uses {
					continue
				}
				n++
				ord++
				c.Visit(name)
				key := fmt.Sprintf("%s / elapsed time #%d is measured from a start that is set", name, ord)
				switch {
				case guarded(b):
					c.OK(key, call.Pos(), "behind a test that fast.start is not zero")
				case spawnedSafe(fn):
					c.OK(key, call.Pos(), "%s only runs as the goroutine spawned behind extendClock's zero test, which sets fast.start", core.BaseName(fn))
				default:
					c.Bad(key, call.Pos(), "time.Since(fast.start) can be evaluated while fast.start is still the zero Time: the difference saturates, current jumps to the far future and the deadline computed from it is never reached — the first timed match of the process cannot time out")
				}
			}
		}
	}
	if n == 0 {
		c.Anchor("time.Since(fast.start)")
	}
}

// ---------------------------------------------------------------------------
// R-EQSUB: two classes are equal only if their subtractions are.
// CharSet.equals decides whether alternation branches may share one class
// (prefix factoring) and whether a class and its successor are inverses; it
// answers the constant true only for two nil classes, and otherwise ends in
// the comparison of the subtractions, which (nil against non-nil) is false.
// ---------------------------------------------------------------------------

func REqSub(c *core.Ctx) {
	c.Rule("R-EQSUB", "CharSet.equals returns the constant true only under a test that both classes are nil; every other true comes from the recursive comparison of the two subtractions, which is not skipped when only one side has one: [a-z-[aeiou]] and [a-z] are different classes", 2)
	p := c.P
	syn := p.Pkg("syntax")
	info := syn.TypesInfo
	eq := p.LookupFunc("syntax", "CharSet.equals")
	fd, _ := p.DeclOf(eq)
	sub := p.LookupField("syntax", "CharSet", "sub")
	if fd == nil || sub == nil {
		c.Anchor("syntax.CharSet.equals / CharSet.sub")
		return
	}
	c.Visit("syntax.(*CharSet).equals")
	isNilTest := func(e ast.Expr) int { // number of `x == nil` comparisons in a conjunction
		cnt := 0
		ast.Inspect(e, func(y ast.Node) bool {
			if be, ok := y.(*ast.BinaryExpr); ok && be.Op == token.EQL {
				if id, ok := ast.Unparen(be.Y).(*ast.Ident); ok && id.Name == "nil" {
					if _, isSel := ast.Unparen(be.X).(*ast.SelectorExpr); !isSel {
						cnt++
					}
				}
			}
			return true
		})
		return cnt
	}
	n := 0
	recursion := false
	var stack []ast.Node
	ast.Inspect(fd.Body, func(x ast.Node) bool {
		if x == nil {
			stack = stack[:len(stack)-1]
			return true
		}
		stack = append(stack, x)
		rs, ok := x.(*ast.ReturnStmt)
		if !ok || len(rs.Results) != 1 {
			return true
		}
		res := ast.Unparen(rs.Results[0])
		if tv, ok := info.Types[res]; ok && tv.Value != nil && tv.Value.String() == "true" {
			n++
			key := fmt.Sprintf("equals / constant true #%d is for two nil classes", n)
			okNil := false
			for i := len(stack) - 2; i >= 0; i-- {
				if ifs, ok := stack[i].(*ast.IfStmt); ok && isNilTest(ifs.Cond) >= 2 {
					okNil = true
				}
			}
			c.Check(okNil, key, rs.Pos(), "`return true` is reached for two classes that were compared field by field but whose subtractions were not: a class with a subtraction equals the same class without one, and prefix factoring of `[a-z-[aeiou]]1|[a-z]2` keeps only the first branch's class")
			return true
		}
		if call, ok := res.(*ast.CallExpr); ok && core.Callee(info, call) == eq {
			if sel, ok := ast.Unparen(call.Fun).(*ast.SelectorExpr); ok && core.FieldOf(info, sel.X) == sub && len(call.Args) >= 1 && core.FieldOf(info, call.Args[0]) == sub {
				recursion = true
				n++
				// not under a condition on the subtraction fields
				cond := false
				for i := len(stack) - 2; i >= 0; i-- {
					if ifs, ok := stack[i].(*ast.IfStmt); ok {
						ast.Inspect(ifs.Cond, func(y ast.Node) bool {
							if e, ok := y.(ast.Expr); ok && core.FieldOf(info, e) == sub {
								cond = true
							}
							return true
						})
					}
				}
				c.Check(!cond, "equals / the subtractions are compared unconditionally", rs.Pos(), "the recursive comparison of the subtractions stands under a condition on the subtraction fields: the case where only one class has a subtraction is decided elsewhere")
			}
		}
		return true
	})
	if !recursion {
		c.Bad("equals / the subtractions are compared unconditionally", fd.Pos(), "no `return c.sub.equals(c2.sub, …)` found: the subtraction does not take part in the comparison")
	}
}

// ---------------------------------------------------------------------------
// R-SETCOMPLETE: a set published as "every match starts with one of these" is
// collected from ALL alternatives.
// The helpers of the find-optimizations that turn a list of prefixes into a
// derived list (first runes, rune forms) feed candidate searches that skip
// every position not in the set.  Their collecting loop over the parameter
// runs to completion; the only early way out is giving up altogether
// (returning nil / an empty result), which switches the optimisation off.
// ---------------------------------------------------------------------------

func RSetComplete(c *core.Ctx) {
	c.Rule("R-SETCOMPLETE", "in syntax/optimizations.go every function that builds its slice result by appending inside a range over a slice parameter finishes that loop: no break leaves it, and a return inside it hands back nil or an empty literal — a partial set would make the candidate search skip the positions of the alternatives that were not looked at", 1)
	p := c.P
	syn := p.Pkg("syntax")
	info := syn.TypesInfo
	n := 0
	for _, fd := range p.FuncDecls(syn) {
		if fd.Body == nil || p.IsTestFile(fd.Pos()) || !strings.HasSuffix(p.Fset.Position(fd.Pos()).Filename, "optimizations.go") {
			continue
		}
		if fd.Type.Results == nil || len(fd.Type.Results.List) != 1 {
			continue
		}
		if _, ok := info.TypeOf(fd.Type.Results.List[0].Type).Underlying().(*types.Slice); !ok {
			continue
		}
		params := map[types.Object]bool{}
		for _, f := range fd.Type.Params.List {
			for _, id := range f.Names {
				if _, ok := info.TypeOf(f.Type).Underlying().(*types.Slice); ok {
					params[info.ObjectOf(id)] = true
				}
			}
		}
		name := core.DeclName(syn, fd)
		ast.Inspect(fd.Body, func(x ast.Node) bool {
			rg, ok := x.(*ast.RangeStmt)
			if !ok {
				return true
			}
			id, ok := ast.Unparen(rg.X).(*ast.Ident)
			if !ok || !params[info.ObjectOf(id)] {
				return true
			}
			// does the loop append to something that is returned?
			appends := false
			ast.Inspect(rg.Body, func(y ast.Node) bool {
				if call, ok := y.(*ast.CallExpr); ok {
					if fid, ok := ast.Unparen(call.Fun).(*ast.Ident); ok && fid.Name == "append" {
						if _, isB := info.ObjectOf(fid).(*types.Builtin); isB {
							appends = true
						}
					}
				}
				return true
			})
			if !appends {
				return true
			}
			n++
			c.Visit(name)
			key := fmt.Sprintf("%s / the collecting loop over %s runs to completion", name, id.Name)
			var bad token.Pos
			why := ""
			var walk func(node ast.Node, inner bool)
			walk = func(node ast.Node, inner bool) {
				ast.Inspect(node, func(y ast.Node) bool {
					if y == nil || bad.IsValid() {
						return false
					}
					switch s := y.(type) {
					case *ast.FuncLit:
						return false
					case *ast.ForStmt:
						if y != node {
							walk(s.Body, true)
							return false
						}
					case *ast.RangeStmt:
						if y != node {
							walk(s.Body, true)
							return false
						}
					case *ast.SwitchStmt, *ast.TypeSwitchStmt, *ast.SelectStmt:
						if y != node {
							walk(y.(interface{ Pos() token.Pos }).(ast.Node), true)
							return false
						}
					case *ast.BranchStmt:
						if s.Tok == token.BREAK && (!inner || s.Label != nil) {
							bad, why = s.Pos(), "a break leaves the loop before every element was looked at"
						}
					case *ast.ReturnStmt:
						for _, r := range s.Results {
							r = ast.Unparen(r)
							if rid, ok := r.(*ast.Ident); ok && rid.Name == "nil" {
								continue
							}
							if cl, ok := r.(*ast.CompositeLit); ok && len(cl.Elts) == 0 {
								continue
							}
							bad, why = s.Pos(), "a return inside the loop hands back what was collected so far"
						}
					}
					return true
				})
			}
			walk(rg.Body, false)
			if bad.IsValid() {
				c.Bad(key, bad, "%s: the set is published as complete (a candidate search skips every position whose character is not in it), so matches that begin with one of the remaining alternatives are lost", why)
			} else {
				c.OK(key, rg.Pos(), "no break, no partial return")
			}
			return true
		})
	}
	if n == 0 {
		c.Anchor("collecting loops in syntax/optimizations.go")
	}
}

// ---------------------------------------------------------------------------
// R-ENDZLATEST: under \Z a candidate is given up only behind the LATEST start.
// \Z (and $ without Multiline) holds at the end of the text and in front of a
// final newline.  A fixed-length pattern that ends in it can therefore start
// at end-len or, when the text ends in '\n', at end-len-1.  A finder for such
// a mode may move the position FORWARD to the earlier of the two, but it may
// answer "no candidate left" only when the position is behind end-len: the
// last character of the pattern can be the newline itself (`\d\s$` on
// "x1\n").
// ---------------------------------------------------------------------------

func REndZLatest(c *core.Ctx) {
	c.Rule("R-ENDZLATEST", "every candidate finder that the optimized dispatcher calls for a find mode named …_EndZ compares the current position, wherever the outcome of the comparison is to give up (return false), with Runtextend minus the fixed length and nothing less: a bound that has the final newline already taken off rejects the start position at which the pattern's last character matches that newline", 1)
	p := c.P
	pk := p.Pkg("")
	info := pk.TypesInfo
	textend := p.LookupField("", "Runner", "Runtextend")
	textpos := p.LookupField("", "Runner", "Runtextpos")
	if textend == nil || textpos == nil {
		c.Anchor("Runner.Runtextend / Runner.Runtextpos")
		return
	}
	// handlers: functions called in a switch arm that lists an _EndZ find mode
	handlers := map[*ssa.Function]string{}
	arms := 0
	for _, fd := range p.FuncDecls(pk) {
		if fd.Body == nil || p.IsTestFile(fd.Pos()) {
			continue
		}
		ast.Inspect(fd.Body, func(x ast.Node) bool {
			cc, ok := x.(*ast.CaseClause)
			if !ok {
				return true
			}
			mode := ""
			for _, e := range cc.List {
				var obj types.Object
				switch y := ast.Unparen(e).(type) {
				case *ast.SelectorExpr:
					obj = info.ObjectOf(y.Sel)
				case *ast.Ident:
					obj = info.ObjectOf(y)
				}
				if k, ok := obj.(*types.Const); ok && strings.HasSuffix(core.BaseName(k), "_EndZ") {
					mode = core.BaseName(k)
				}
			}
			if mode == "" {
				return true
			}
			arms++
			for _, st := range cc.Body {
				ast.Inspect(st, func(y ast.Node) bool {
					if call, ok := y.(*ast.CallExpr); ok {
						if cal := core.Callee(info, call); cal != nil && cal.Pkg() == pk.Types {
							if f := p.SSAFunc(cal); f != nil && len(f.Blocks) > 0 && len(cc.List) == 1 {
								handlers[f] = mode
							}
						}
					}
					return true
				})
			}
			return true
		})
	}
	if p.LookupObj("syntax", "TrailingAnchor_FixedLength_LeftToRight_EndZ") == nil {
		c.Anchor("syntax.TrailingAnchor_FixedLength_LeftToRight_EndZ")
		return
	}
	if len(handlers) == 0 {
		c.OK("regexp2 / no optimized finder is dispatched for an …_EndZ mode", token.NoPos, "%d switch arms list such a mode, none calls a finder of its own: the default finder handles \\Z", arms)
		return
	}
	type form struct {
		end    bool
		minusL bool
		off    int64
	}
	for h, mode := range handlers {
		name := core.SSAName(h)
		c.Visit(name)
		// closure of module callees
		closure := map[*ssa.Function]bool{h: true}
		for changed := true; changed; {
			changed = false
			for f := range closure {
				for _, b := range f.Blocks {
					for _, ins := range b.Instrs {
						if call, ok := ins.(ssa.CallInstruction); ok {
							if cal := call.Common().StaticCallee(); cal != nil && core.FnPkgPath(cal) == core.PkgRoot && len(cal.Blocks) > 0 && !closure[cal] && len(closure) < 12 {
								closure[cal] = true
								changed = true
							}
						}
					}
				}
			}
		}
		var eval func(v ssa.Value, depth int) []form
		eval = func(v ssa.Value, depth int) []form {
			if depth > 8 {
				return nil
			}
			switch x := v.(type) {
			case *ssa.UnOp:
				if x.Op == token.MUL && core.FieldVarOfAddr(x.X) == textend {
					return []form{{end: true}}
				}
			case *ssa.Phi:
				var out []form
				for _, e := range x.Edges {
					out = append(out, eval(e, depth+1)...)
				}
				return out
			case *ssa.Parameter:
				var out []form
				idx := -1
				for i, prm := range x.Parent().Params {
					if prm == x {
						idx = i
					}
				}
				for f := range closure {
					for _, b := range f.Blocks {
						for _, ins := range b.Instrs {
							if call, ok := ins.(ssa.CallInstruction); ok && call.Common().StaticCallee() == x.Parent() && idx >= 0 && idx < len(call.Common().Args) {
								out = append(out, eval(call.Common().Args[idx], depth+1)...)
							}
						}
					}
				}
				return out
			case *ssa.BinOp:
				if x.Op != token.SUB && x.Op != token.ADD {
					return nil
				}
				l := eval(x.X, depth+1)
				if len(l) == 0 {
					return nil
				}
				if k, ok := x.Y.(*ssa.Const); ok && k.Value != nil && k.Value.Kind() == constant.Int {
					kv, _ := constant.Int64Val(k.Value)
					if x.Op == token.SUB {
						kv = -kv
					}
					var out []form
					for _, f := range l {
						f.off += kv
						out = append(out, f)
					}
					return out
				}
				if x.Op == token.SUB && len(eval(x.Y, depth+1)) == 0 {
					// end - <a length>
					var out []form
					for _, f := range l {
						f.minusL = true
						out = append(out, f)
					}
					return out
				}
			}
			return nil
		}
		isPosLoad := func(v ssa.Value) bool {
			ld, ok := v.(*ssa.UnOp)
			return ok && ld.Op == token.MUL && core.FieldVarOfAddr(ld.X) == textpos
		}
		givesUp := func(b *ssa.BasicBlock) bool {
			// the block (or its single successor chain, 2 deep) returns the constant false
			for d := 0; d < 3 && b != nil; d++ {
				for _, ins := range b.Instrs {
					if ret, ok := ins.(*ssa.Return); ok {
						for _, r := range ret.Results {
							if k, ok := r.(*ssa.Const); ok && k.Value != nil && k.Value.Kind() == constant.Bool && !constant.BoolVal(k.Value) {
								return true
							}
						}
						return false
					}
				}
				if len(b.Succs) != 1 {
					return false
				}
				b = b.Succs[0]
			}
			return false
		}
		n := 0
		for f := range closure {
			for _, b := range f.Blocks {
				if len(b.Instrs) == 0 || len(b.Succs) != 2 {
					continue
				}
				ifi, ok := b.Instrs[len(b.Instrs)-1].(*ssa.If)
				if !ok {
					continue
				}
				cmp, ok := ifi.Cond.(*ssa.BinOp)
				if !ok {
					continue
				}
				var bound ssa.Value
				switch {
				case isPosLoad(cmp.X):
					bound = cmp.Y
				case isPosLoad(cmp.Y):
					bound = cmp.X
				default:
					continue
				}
				forms := eval(bound, 0)
				if len(forms) == 0 || !(givesUp(b.Succs[0]) || givesUp(b.Succs[1])) {
					continue
				}
				n++
				key := fmt.Sprintf("%s (%s) / give-up comparison #%d in %s uses the latest start", name, mode, n, core.BaseName(f))
				worst := int64(0)
				for _, fm := range forms {
					if fm.end && fm.off < worst {
						worst = fm.off
					}
				}
				if worst < 0 {
					c.Bad(key, cmp.Pos(), "`%s` decides to give up, and its bound can be Runtextend%+d minus the length (the final newline already taken off): the start at Runtextend minus the length, where the pattern's last character matches that newline, is never tried — `\\d\\s$` on \"x1\\n\" finds nothing", cmp.String(), worst)
				} else {
					c.OK(key, cmp.Pos(), "`%s`: the bound is Runtextend minus the length on every path", cmp.String())
				}
			}
		}
		if n == 0 {
			c.OK(name+" ("+mode+") / the finder never gives up on a comparison with the end of the text", h.Pos(), "no comparison of Runtextpos with a bound derived from Runtextend leads to `return false`")
		}
	}
}

// ---------------------------------------------------------------------------
// R-PRESCANSTATE: the pre-scan keeps the same scanner state as the main parse.
// A parser method with a scan-only mode walks the same text in both modes
// (R-PRESCANSIB).  What it does next also depends on its local state — in
// scanCharSet whether a range is open decides if the next `[` starts a
// subtraction.  A local that the scan-only pass reads must therefore not be
// updated under `!scanOnly` only.
// ---------------------------------------------------------------------------

func RPrescanState(c *core.Ctx) {
	c.Rule("R-PRESCANSTATE", "in every parser method with a scan-only mode parameter, no local variable that a condition outside the main-parse-only regions reads (so: one that steers the scan-only pass too) is assigned inside such a region (`if !scanOnly { … }`): scanner state that steers what is consumed next evolves identically in both passes", 1)
	p := c.P
	syn := p.Pkg("syntax")
	info := syn.TypesInfo
	errT := types.Universe.Lookup("error").Type()
	n := 0
	for _, fd := range p.FuncDecls(syn) {
		if fd.Body == nil || fd.Recv == nil || p.IsTestFile(fd.Pos()) || fd.Type.Params == nil {
			continue
		}
		var mode types.Object
		for _, f := range fd.Type.Params.List {
			for _, id := range f.Names {
				if strings.EqualFold(id.Name, "scanOnly") {
					mode = info.ObjectOf(id)
				}
			}
		}
		if mode == nil {
			continue
		}
		name := core.DeclName(syn, fd)
		c.Visit(name)
		// main-parse-only regions
		var regions []ast.Node
		ast.Inspect(fd.Body, func(x ast.Node) bool {
			ifs, ok := x.(*ast.IfStmt)
			if !ok {
				return true
			}
			switch modeTest(info, ifs.Cond, mode) {
			case -1:
				regions = append(regions, ifs.Body)
			case 1:
				if ifs.Else != nil {
					regions = append(regions, ifs.Else)
				}
			}
			return true
		})
		inRegion := func(pos token.Pos) ast.Node {
			for _, r := range regions {
				if r.Pos() <= pos && pos < r.End() {
					return r
				}
			}
			return nil
		}
		// locals read outside the regions
		readOutside := map[types.Object]bool{}
		lhs := map[*ast.Ident]bool{}
		ast.Inspect(fd.Body, func(x ast.Node) bool {
			if as, ok := x.(*ast.AssignStmt); ok && (as.Tok == token.ASSIGN || as.Tok == token.DEFINE) {
				for _, l := range as.Lhs {
					if id, ok := l.(*ast.Ident); ok {
						lhs[id] = true
					}
				}
			}
			return true
		})
		// "read" here means: read by a condition (if / for / switch), i.e. steering the scan
		noteCond := func(e ast.Expr) {
			if e == nil {
				return
			}
			ast.Inspect(e, func(y ast.Node) bool {
				if id, ok := y.(*ast.Ident); ok && !lhs[id] && inRegion(id.Pos()) == nil {
					if o := info.Uses[id]; o != nil {
						readOutside[o] = true
					}
				}
				return true
			})
		}
		ast.Inspect(fd.Body, func(x ast.Node) bool {
			switch s := x.(type) {
			case *ast.IfStmt:
				noteCond(s.Cond)
			case *ast.ForStmt:
				noteCond(s.Cond)
			case *ast.SwitchStmt:
				noteCond(s.Tag)
			case *ast.CaseClause:
				for _, e := range s.List {
					noteCond(e)
				}
			}
			return true
		})
		ord := 0
		examined := 0
		for _, r := range regions {
			ast.Inspect(r, func(x ast.Node) bool {
				var targets []ast.Expr
				var at token.Pos
				switch s := x.(type) {
				case *ast.AssignStmt:
					if s.Tok == token.DEFINE {
						// only re-assignments of outer variables matter
						for _, l := range s.Lhs {
							if id, ok := l.(*ast.Ident); ok && info.Defs[id] == nil {
								targets = append(targets, id)
							}
						}
					} else {
						targets = s.Lhs
					}
					at = s.Pos()
				case *ast.IncDecStmt:
					targets = []ast.Expr{s.X}
					at = s.Pos()
				default:
					return true
				}
				for _, t := range targets {
					id, ok := ast.Unparen(t).(*ast.Ident)
					if !ok || id.Name == "_" {
						continue
					}
					o := info.ObjectOf(id)
					v, isVar := o.(*types.Var)
					if !isVar || v.IsField() || o.Pkg() == nil || o.Parent() == o.Pkg().Scope() {
						continue
					}
					if r.Pos() <= o.Pos() && o.Pos() < r.End() {
						continue // declared inside the region
					}
					if types.Identical(o.Type(), errT) {
						continue
					}
					examined++
					if !readOutside[o] {
						continue
					}
					n++
					ord++
					c.Bad(fmt.Sprintf("%s / main-parse-only update #%d of %s", name, ord, id.Name), at, "`%s` is assigned under `!%s` only, but it is also read where the scan-only pass runs: after this point the two passes are in different states and take different branches over the same text — in scanCharSet an open range that only the main parse closes makes the pre-scan read the next `[` as a subtraction and miss every group behind the class", id.Name, mode.Name())
				}
				return true
			})
		}
		if ord == 0 {
			n++
			c.OK(name+" / no shared scanner state is updated in the main parse only", fd.Pos(), "%d main-parse-only regions, %d assignments to outer locals in them, none to a variable the scan-only pass reads", len(regions), examined)
		}
	}
	if n == 0 {
		c.Anchor("parser methods with a scanOnly parameter")
	}
}
