package rules

import (
	"fmt"
	"go/ast"
	"go/token"
	"go/types"
	"sort"
	"strings"

	"golang.org/x/tools/go/packages"
	"golang.org/x/tools/go/ssa"

	"regexlint/internal/core"
)

// ---------------------------------------------------------------------------
// R-COPYALL: a copy carries every field.
// CharSet.Copy builds the copy field by field.  A field that is left out keeps
// its zero value in the copy; for state flags (negate, anything, flipped) that
// silently changes what the class means as soon as the copy is modified —
// nodeWithCaseConversion copies a class and adds case equivalents to the copy.
// Derived caches that are rebuilt on demand are listed as exempt.
// ---------------------------------------------------------------------------

var copyExempt = map[string]string{
	"CharSet.ascii": "derived lookup table: prepareASCIIBitmap rebuilds it from the class, and a copy that is going to be modified must not inherit it (R-BITMAP checks it is never copied)",
}

func RCopyAll(c *core.Ctx) {
	c.Rule("R-COPYALL", "every Copy / clone method of a struct type in the module mentions each field of that struct (as a key of the composite literal it builds or as the target of an assignment on the result), except derived caches listed with a reason: a field added to the struct later must be carried by the copy too", 5)
	p := c.P
	n := 0
	for _, pk := range p.ModulePkgs() {
		info := pk.TypesInfo
		for _, fd := range p.FuncDecls(pk) {
			if fd.Body == nil || fd.Recv == nil || p.IsTestFile(fd.Pos()) {
				continue
			}
			if fd.Name.Name != "Copy" && fd.Name.Name != "clone" && fd.Name.Name != "Clone" {
				continue
			}
			recvT := info.TypeOf(fd.Recv.List[0].Type)
			if pt, ok := recvT.(*types.Pointer); ok {
				recvT = pt.Elem()
			}
			named, ok := recvT.(*types.Named)
			if !ok {
				continue
			}
			st, ok := named.Underlying().(*types.Struct)
			if !ok {
				continue
			}
			name := core.DeclName(pk, fd)
			c.Visit(name)
			mentioned := map[*types.Var]bool{}
			whole := false
			ast.Inspect(fd.Body, func(x ast.Node) bool {
				switch y := x.(type) {
				case *ast.KeyValueExpr:
					if id, ok := y.Key.(*ast.Ident); ok {
						if v, ok := info.ObjectOf(id).(*types.Var); ok && v.IsField() {
							mentioned[v] = true
						}
					}
				case *ast.AssignStmt:
					for _, l := range y.Lhs {
						if se, ok := ast.Unparen(l).(*ast.SelectorExpr); ok {
							if v, ok := info.ObjectOf(se.Sel).(*types.Var); ok && v.IsField() {
								mentioned[v] = true
							}
						}
					}
					// ret := *c  /  ret := c  copies everything
					if len(y.Rhs) == 1 {
						if t := info.TypeOf(y.Rhs[0]); t != nil && types.Identical(t, named) {
							switch r := ast.Unparen(y.Rhs[0]).(type) {
							case *ast.StarExpr, *ast.Ident:
								_ = r
								whole = true
							}
						}
					}
				}
				return true
			})
			for i := 0; i < st.NumFields(); i++ {
				f := st.Field(i)
				n++
				key := fmt.Sprintf("%s / field %s is carried by the copy", name, f.Name())
				if why, ok := copyExempt[named.Obj().Name()+"."+f.Name()]; ok {
					c.OK(key, fd.Pos(), "exempt: %s", why)
					continue
				}
				c.Check(whole || mentioned[f], key, fd.Pos(), "the copy is built field by field and %s.%s is not among them: the copy starts with its zero value", named.Obj().Name(), f.Name())
			}
		}
	}
	if n == 0 {
		c.Anchor("Copy / clone methods of struct types")
	}
}

// ---------------------------------------------------------------------------
// R-SELFRUN: a Regexp method searches with its own receiver.
// FindNextMatch(m) continues a search; settings that belong to the Regexp the
// caller holds (MatchTimeout, options set after UnmarshalText copied the value)
// apply only if the search runs on the receiver, not on the Regexp pointer
// stored in the match or the runner.
// ---------------------------------------------------------------------------

func RSelfRun(c *core.Ctx) {
	c.Rule("R-SELFRUN", "inside every method of *Regexp each call of Regexp.run / getRunner / putRunner is made on the method's own receiver: the caller's Regexp value (its MatchTimeout in particular) governs the search, not a Regexp pointer reached through the match or runner", 8)
	p := c.P
	targets := map[*ssa.Function]string{}
	for _, nm := range []string{"run", "getRunner", "putRunner"} {
		if f := p.SSAFunc(p.LookupFunc("", "Regexp."+nm)); f != nil {
			targets[f] = nm
		} else {
			c.Anchor("regexp2.Regexp." + nm)
		}
	}
	n := 0
	for _, fn := range p.ModuleFuncs() {
		recv := fn.Signature.Recv()
		if recv == nil || core.FnPkgPath(fn) != core.PkgRoot {
			continue
		}
		if _, nm := core.NamedOf(recv.Type()); nm != "Regexp" {
			continue
		}
		name := core.SSAName(fn)
		cnt := 0
		for _, b := range fn.Blocks {
			for _, ins := range b.Instrs {
				call, ok := ins.(ssa.CallInstruction)
				if !ok {
					continue
				}
				cal := call.Common().StaticCallee()
				if cal == nil || targets[cal] == "" || len(call.Common().Args) == 0 {
					continue
				}
				cnt++
				n++
				c.Visit(name)
				self := call.Common().Args[0] == ssa.Value(fn.Params[0])
				if ld, ok := call.Common().Args[0].(*ssa.UnOp); ok && !self {
					// the receiver spilled to a local because a closure / defer captures it
					if al, ok := ld.X.(*ssa.Alloc); ok {
						only := true
						stores := 0
						for _, r := range core.Referrers(al) {
							if st, ok := r.(*ssa.Store); ok && st.Addr == ssa.Value(al) {
								stores++
								if st.Val != ssa.Value(fn.Params[0]) {
									only = false
								}
							}
						}
						self = only && stores > 0
					}
					if fv, ok := ld.X.(*ssa.FreeVar); ok {
						_ = fv
					}
				}
				c.Check(self, fmt.Sprintf("%s / call #%d of %s is made on the receiver", name, cnt, targets[cal]), ins.Pos(),
					"%s is called on %s, not on the method's receiver: a Regexp value copied by UnmarshalText (or by the caller) has its own MatchTimeout and options, which this call ignores", targets[cal], call.Common().Args[0].Name())
			}
		}
	}
	if n == 0 {
		c.Anchor("calls of run / getRunner / putRunner inside Regexp methods")
	}
}

// ---------------------------------------------------------------------------
// R-QUICKSAME: the quick program is the full program minus instructions.
// One pooled Runner serves both programs and caches what it derived from the
// first one it ran (stack reserve from TrackCount, tables).  makeQuickCode may
// therefore change nothing but the instruction stream.
// ---------------------------------------------------------------------------

func RQuickSame(c *core.Ctx) {
	c.Rule("R-QUICKSAME", "makeQuickCode derives the quick Code from a copy of the full Code and assigns only the instruction-stream fields (Codes, QuickCodes) on it: TrackCount, tables, anchors and find data stay those of the full program, which the pooled Runner may have cached from an earlier call", 2)
	p := c.P
	fn := p.SSAFunc(p.LookupFunc("", "makeQuickCode"))
	if fn == nil {
		c.Anchor("regexp2.makeQuickCode")
		return
	}
	c.Visit(core.SSAName(fn))
	allowed := map[string]bool{"Codes": true, "QuickCodes": true}
	n := 0
	var fields []string
	seen := map[string]token.Pos{}
	for _, b := range fn.Blocks {
		for _, ins := range b.Instrs {
			st, ok := ins.(*ssa.Store)
			if !ok {
				continue
			}
			f := core.FieldVarOfAddr(st.Addr)
			if f == nil {
				continue
			}
			if _, dup := seen[f.Name()]; !dup {
				fields = append(fields, f.Name())
			}
			seen[f.Name()] = st.Pos()
		}
	}
	sort.Strings(fields)
	for _, f := range fields {
		n++
		c.Check(allowed[f], fmt.Sprintf("makeQuickCode / assignment to Code.%s only changes the instruction stream", f), seen[f],
			"the quick Code gets its own %s: a pooled Runner that first served the other program keeps what it derived from that one (the backtracking-stack reserve is computed from TrackCount once), so results depend on which kind of call came first", f)
	}
	if n == 0 {
		c.Anchor("field assignments in makeQuickCode")
	}
}

// ---------------------------------------------------------------------------
// R-CIFLAG: a literal computed by a case-insensitive analysis carries its flag.
// findPrefixOrdinalCaseInsensitive returns the lower-case form of a prefix that
// matches in any case.  Stored as LiteralAfterLoop.String without
// StringIgnoreCase the finders search for it case-sensitively and skip every
// occurrence in another case.
// ---------------------------------------------------------------------------

func RCiFlag(c *core.Ctx) {
	c.Rule("R-CIFLAG", "every LiteralAfterLoop whose String comes from findPrefixOrdinalCaseInsensitive is built with StringIgnoreCase: true (and no other one sets that flag)", 1)
	p := c.P
	syn := p.Pkg("syntax")
	info := syn.TypesInfo
	ci := p.LookupFunc("syntax", "findPrefixOrdinalCaseInsensitive")
	if ci == nil {
		c.Anchor("syntax.findPrefixOrdinalCaseInsensitive")
		return
	}
	n := 0
	for _, fd := range p.FuncDecls(syn) {
		if fd.Body == nil || p.IsTestFile(fd.Pos()) {
			continue
		}
		// locals assigned from the case-insensitive analysis
		ciVars := map[types.Object]bool{}
		ast.Inspect(fd.Body, func(x ast.Node) bool {
			if as, ok := x.(*ast.AssignStmt); ok && len(as.Lhs) == len(as.Rhs) {
				for i, r := range as.Rhs {
					if call, ok := ast.Unparen(r).(*ast.CallExpr); ok && core.Callee(info, call) == ci {
						if id, ok := as.Lhs[i].(*ast.Ident); ok {
							ciVars[info.ObjectOf(id)] = true
						}
					}
				}
			}
			return true
		})
		name := core.DeclName(syn, fd)
		ast.Inspect(fd.Body, func(x ast.Node) bool {
			cl, ok := x.(*ast.CompositeLit)
			if !ok {
				return true
			}
			if _, nm := core.NamedOf(info.TypeOf(cl)); nm != "LiteralAfterLoop" {
				return true
			}
			fromCI, flag, hasString := false, false, false
			for _, e := range cl.Elts {
				kv, ok := e.(*ast.KeyValueExpr)
				if !ok {
					continue
				}
				key, _ := kv.Key.(*ast.Ident)
				if key == nil {
					continue
				}
				switch key.Name {
				case "String":
					hasString = true
					if id, ok := ast.Unparen(kv.Value).(*ast.Ident); ok && ciVars[info.ObjectOf(id)] {
						fromCI = true
					}
					if call, ok := ast.Unparen(kv.Value).(*ast.CallExpr); ok && core.Callee(info, call) == ci {
						fromCI = true
					}
				case "StringIgnoreCase":
					if tv, ok := info.Types[kv.Value]; ok && tv.Value != nil && tv.Value.String() == "true" {
						flag = true
					}
				}
			}
			if !hasString {
				return true
			}
			n++
			c.Visit(name)
			c.Check(fromCI == flag, fmt.Sprintf("%s / LiteralAfterLoop #%d: StringIgnoreCase agrees with where String comes from", name, n), cl.Pos(),
				"String from the case-insensitive prefix analysis: %v; StringIgnoreCase set: %v — the finders search a case-insensitive prefix case-sensitively (or the reverse)", fromCI, flag)
			return true
		})
	}
	if n == 0 {
		c.Anchor("LiteralAfterLoop literals with a String")
	}
}

// ---------------------------------------------------------------------------
// R-BMDIR: the Boyer-Moore tables are built in the direction of the search.
// newBmPrefix serves both directions with one body: `last`, `beforefirst` and
// `bump` are set from the direction once and every walk over the pattern moves
// by bump.  A walk with a constant step computes, for the other direction, the
// tables of the mirrored search (rightmost instead of leftmost occurrence) and
// the scanner then shifts too far.
// ---------------------------------------------------------------------------

func RBmDir(c *core.Ctx) {
	c.Rule("R-BMDIR", "in newBmPrefix every variable that indexes b.pattern is only ever moved by the direction step (± bump, the variable assigned +1 / -1 in the two arms of the direction test) or assigned from last / another such variable, never incremented or decremented by a constant", 1)
	p := c.P
	syn := p.Pkg("syntax")
	info := syn.TypesInfo
	fd, _ := p.DeclOf(p.LookupFunc("syntax", "newBmPrefix"))
	patF := p.LookupField("syntax", "BmPrefix", "pattern")
	if fd == nil || patF == nil {
		c.Anchor("syntax.newBmPrefix / BmPrefix.pattern")
		return
	}
	c.Visit("syntax.newBmPrefix")
	// index variables of b.pattern
	idxVars := map[types.Object]bool{}
	ast.Inspect(fd.Body, func(x ast.Node) bool {
		if ie, ok := x.(*ast.IndexExpr); ok && core.FieldOf(info, ie.X) == patF {
			if id, ok := ast.Unparen(ie.Index).(*ast.Ident); ok {
				if obj := info.ObjectOf(id); obj != nil {
					idxVars[obj] = true
				}
			}
		}
		return true
	})
	// an element-wise in-place map over the whole pattern (`for i := …; i++ { b.pattern[i] = f(b.pattern[i]) }`)
	// has no direction: its loop variable is not a walk of the algorithm
	ast.Inspect(fd.Body, func(x ast.Node) bool {
		fs, ok := x.(*ast.ForStmt)
		if !ok || fs.Init == nil || len(fs.Body.List) != 1 {
			return true
		}
		init, ok := fs.Init.(*ast.AssignStmt)
		if !ok || len(init.Lhs) != 1 {
			return true
		}
		iv, ok := init.Lhs[0].(*ast.Ident)
		if !ok {
			return true
		}
		as, ok := fs.Body.List[0].(*ast.AssignStmt)
		if !ok || len(as.Lhs) != 1 {
			return true
		}
		if ie, ok := as.Lhs[0].(*ast.IndexExpr); ok && core.FieldOf(info, ie.X) == patF {
			if id, ok := ast.Unparen(ie.Index).(*ast.Ident); ok && info.ObjectOf(id) == info.ObjectOf(iv) {
				delete(idxVars, info.ObjectOf(iv))
			}
		}
		return true
	})
	if len(idxVars) == 0 {
		c.Anchor("variables indexing b.pattern in newBmPrefix")
		return
	}
	n := 0
	report := func(pos token.Pos, v types.Object, how string) {
		n++
		c.Bad(fmt.Sprintf("newBmPrefix / %s walks the pattern in the direction of the search (#%d)", v.Name(), n), pos,
			"%s is %s: for the other direction this builds the tables of the mirrored search (the occurrence nearest the wrong end), and the scanner skips real matches", v.Name(), how)
	}
	ok := 0
	ast.Inspect(fd.Body, func(x ast.Node) bool {
		switch s := x.(type) {
		case *ast.IncDecStmt:
			if id, isId := ast.Unparen(s.X).(*ast.Ident); isId && idxVars[info.ObjectOf(id)] {
				report(s.Pos(), info.ObjectOf(id), "stepped with "+s.Tok.String())
			}
		case *ast.AssignStmt:
			if len(s.Lhs) != 1 || len(s.Rhs) != 1 {
				return true
			}
			id, isId := ast.Unparen(s.Lhs[0]).(*ast.Ident)
			if !isId || !idxVars[info.ObjectOf(id)] {
				return true
			}
			switch s.Tok {
			case token.ADD_ASSIGN, token.SUB_ASSIGN:
				if _, isC := core.ConstInt(info, s.Rhs[0]); isC {
					report(s.Pos(), info.ObjectOf(id), "moved by a constant")
				} else {
					ok++
				}
			case token.ASSIGN, token.DEFINE:
				// v = len(...) - 1 / v = 0: a fixed end instead of last / beforefirst
				fixed := false
				ast.Inspect(s.Rhs[0], func(y ast.Node) bool {
					if call, isCall := y.(*ast.CallExpr); isCall {
						if f, isF := call.Fun.(*ast.Ident); isF && f.Name == "len" {
							fixed = true
						}
					}
					return true
				})
				if _, isC := core.ConstInt(info, s.Rhs[0]); isC {
					fixed = true
				}
				if fixed {
					report(s.Pos(), info.ObjectOf(id), "started at a fixed end ("+types.ExprString(s.Rhs[0])+") instead of the direction-dependent one")
				} else {
					ok++
				}
			}
		}
		return true
	})
	if n == 0 {
		c.OK("newBmPrefix / every walk over the pattern follows the search direction", fd.Pos(), "%d index variables, %d direction-relative updates, no constant step", len(idxVars), ok)
	}
}

// ---------------------------------------------------------------------------
// R-RUNEBYTE: a rune goes into a byte buffer through the encoder.
// byte(r) of a rune >= 0x80 is one byte of Latin-1, not UTF-8: written into a
// buffer that is later read as a string it is an invalid sequence.  A
// conversion rune -> byte is acceptable only under a dominating r < 0x80.
// ---------------------------------------------------------------------------

func RRuneByte(c *core.Ctx) {
	c.Rule("R-RUNEBYTE", "in package syntax every conversion of a rune-typed value to a byte whose result is written to a buffer or appended to a []byte is dominated by a test that the rune is below 0x80 (utf8.RuneSelf): larger values need WriteRune / AppendRune", 1)
	p := c.P
	n, examined := 0, 0
	for _, fn := range p.ModuleFuncs() {
		if core.FnPkgPath(fn) != core.PkgSyntax {
			continue
		}
		name := core.SSAName(fn)
		for _, b := range fn.Blocks {
			for _, ins := range b.Instrs {
				cv, ok := ins.(*ssa.Convert)
				if !ok {
					continue
				}
				to, ok1 := cv.Type().Underlying().(*types.Basic)
				from, ok2 := cv.X.Type().Underlying().(*types.Basic)
				if !ok1 || !ok2 || to.Kind() != types.Uint8 || from.Kind() != types.Int32 {
					continue
				}
				// used as an argument of a write / append
				sink := false
				for _, r := range core.Referrers(cv) {
					if call, ok := r.(ssa.CallInstruction); ok {
						if cal := call.Common().StaticCallee(); cal != nil && (core.BaseName(cal) == "WriteByte") {
							sink = true
						}
						if bi, ok := call.Common().Value.(*ssa.Builtin); ok && bi.Name() == "append" {
							sink = true
						}
					}
				}
				if !sink {
					continue
				}
				examined++
				ascii := false
				for _, f := range core.FactsAtBlock(b) {
					x, y, op, ok := core.CmpNorm(f)
					if !ok || x != cv.X {
						continue
					}
					if k, isC := core.IntConst(y); isC && ((op == token.LSS && k <= 128) || (op == token.LEQ && k <= 127)) {
						ascii = true
					}
				}
				n++
				c.Visit(name)
				c.Check(ascii, fmt.Sprintf("%s / byte(rune) written to a buffer #%d is ASCII", name, n), cv.Pos(),
					"the rune is written as ONE byte without a dominating `< 0x80` test: for U+0080..U+00FF this is Latin-1, not UTF-8, and the resulting string is invalid (Unescape(Escape(\"10\\u00a0km\")) = \"10\\xa0km\")")
			}
		}
	}
	if n == 0 {
		c.OK("syntax / no rune is written to a buffer as a single byte", token.NoPos, "no byte(rune) conversion feeds WriteByte / append in package syntax")
	}
}

// ---------------------------------------------------------------------------
// R-ERRFALLBACK: the lenient fallback applies to failures only.
// Under ECMAScript a malformed \x / \u / \c escape is read as the literal
// letter: scanCharEscape rewinds (p.textto(saved position)) and returns the
// letter.  That path must be taken only when the strict decoding failed
// (err != nil); taken unconditionally it discards every well-formed escape.
// ---------------------------------------------------------------------------

func RErrFallback(c *core.Ctx) {
	c.Rule("R-ERRFALLBACK", "in scanCharEscape every rewind of the scanner to a saved position (p.textto(v) with v a local assigned from p.textpos()) happens only where the strict decoding is known to have failed (a dominating `err != nil`)", 1)
	p := c.P
	fn := p.SSAFunc(p.LookupFunc("syntax", "parser.scanCharEscape"))
	textto := p.SSAFunc(p.LookupFunc("syntax", "parser.textto"))
	textpos := p.SSAFunc(p.LookupFunc("syntax", "parser.textpos"))
	if fn == nil || textto == nil || textpos == nil {
		c.Anchor("parser.scanCharEscape / textto / textpos")
		return
	}
	c.Visit(core.SSAName(fn))
	n := 0
	for _, b := range fn.Blocks {
		for _, ins := range b.Instrs {
			call, ok := ins.(*ssa.Call)
			if !ok || call.Call.StaticCallee() != textto || len(call.Call.Args) < 2 {
				continue
			}
			// argument comes from p.textpos()
			saved := false
			for _, l := range append(leaves(call.Call.Args[1]), call.Call.Args[1]) {
				if c2, ok := l.(*ssa.Call); ok && c2.Call.StaticCallee() == textpos {
					saved = true
				}
			}
			if !saved {
				continue
			}
			n++
			failed := false
			for _, f := range core.FactsAtBlock(b) {
				bin, ok := f.Cond.(*ssa.BinOp)
				if !ok {
					continue
				}
				isErr := func(v ssa.Value) bool {
					return v.Type().String() == "error"
				}
				if (bin.Op == token.NEQ && f.Val || bin.Op == token.EQL && !f.Val) && (isErr(bin.X) && core.IsNilConst(bin.Y) || isErr(bin.Y) && core.IsNilConst(bin.X)) {
					failed = true
				}
			}
			c.Check(failed, fmt.Sprintf("scanCharEscape / rewind #%d happens only after a failed decoding", n), call.Pos(),
				"the scanner rewinds and returns the escape letter as a literal without a dominating `err != nil`: a well-formed \\xHH / \\uHHHH is then read as the letter followed by its digits (under ECMAScript, Escape(\"\\x1b[0m\") matches the text \"x1b[0m\")")
		}
	}
	if n == 0 {
		c.Anchor("rewinds to a saved position in scanCharEscape")
	}
}

// ---------------------------------------------------------------------------
// R-OPTCACHE: inline options are read where they are used.
// (?x) / (?n) change p.options in the middle of a scan.  A value of
// p.useOptionX() / useOptionN() … taken before a loop and used inside it keeps
// the compile-time setting for the whole pattern, and the pre-scan then
// disagrees with the main scan, which reads the option at every use.
// ---------------------------------------------------------------------------

func ROptCache(c *core.Ctx) {
	c.Rule("R-OPTCACHE", "in the parser functions that call scanOptions / pushOptions / popOptions (so options can change while they run) no local variable assigned from a p.useOption…() call is used inside a loop that does not contain the assignment: option predicates are evaluated at each use", 2)
	p := c.P
	syn := p.Pkg("syntax")
	info := syn.TypesInfo
	changers := map[*types.Func]bool{}
	for _, nm := range []string{"scanOptions", "pushOptions", "popOptions", "popKeepOptions"} {
		if f := p.LookupFunc("syntax", "parser."+nm); f != nil {
			changers[f] = true
		}
	}
	n := 0
	for _, fd := range p.FuncDecls(syn) {
		if fd.Body == nil || fd.Recv == nil || p.IsTestFile(fd.Pos()) {
			continue
		}
		changes := false
		ast.Inspect(fd.Body, func(x ast.Node) bool {
			if call, ok := x.(*ast.CallExpr); ok && changers[core.Callee(info, call)] {
				changes = true
			}
			return true
		})
		if !changes {
			continue
		}
		name := core.DeclName(syn, fd)
		n++
		c.Visit(name)
		// cached predicates
		type def struct {
			obj types.Object
			pos token.Pos
		}
		var defs []def
		ast.Inspect(fd.Body, func(x ast.Node) bool {
			as, ok := x.(*ast.AssignStmt)
			if !ok || len(as.Lhs) != len(as.Rhs) {
				return true
			}
			for i, r := range as.Rhs {
				call, ok := ast.Unparen(r).(*ast.CallExpr)
				if !ok {
					continue
				}
				cal := core.Callee(info, call)
				if cal == nil || len(cal.Name()) < 10 || cal.Name()[:9] != "useOption" {
					continue
				}
				if id, ok := as.Lhs[i].(*ast.Ident); ok {
					defs = append(defs, def{info.ObjectOf(id), as.Pos()})
				}
			}
			return true
		})
		bad := ""
		for _, d := range defs {
			var loops []*ast.ForStmt
			var stack []ast.Node
			ast.Inspect(fd.Body, func(x ast.Node) bool {
				if x == nil {
					stack = stack[:len(stack)-1]
					return true
				}
				stack = append(stack, x)
				id, ok := x.(*ast.Ident)
				if !ok || info.ObjectOf(id) != d.obj || id.Pos() == d.pos {
					return true
				}
				for _, a := range stack {
					if fs, ok := a.(*ast.ForStmt); ok && !(fs.Pos() <= d.pos && d.pos < fs.End()) {
						loops = append(loops, fs)
					}
					if rs, ok := a.(*ast.RangeStmt); ok && !(rs.Pos() <= d.pos && d.pos < rs.End()) {
						loops = append(loops, nil)
					}
				}
				return true
			})
			if len(loops) > 0 {
				bad = fmt.Sprintf("%s (assigned at %s from a useOption predicate) is used inside a loop that does not re-evaluate it", d.obj.Name(), p.Pos(d.pos))
			}
		}
		c.Check(bad == "", name+" / option predicates are not cached across a loop", fd.Pos(), "%s: an inline (?x) / (?n) inside the pattern changes the option while this function runs, but the cached value keeps the setting the scan started with", bad)
	}
	if n == 0 {
		c.Anchor("parser functions that change the option stack")
	}
}

// ---------------------------------------------------------------------------
// R-ATOMFLAGS: the two switches of canBeMadeAtomic.
//   iterateNullableSubsequent  look past successors that may match nothing
//   allowLazy                  also answer for lazy loops
// A lazy loop stops at its minimum when nothing REQUIRED follows; looking past
// optional successors ("a+?b*" ... end of pattern / end of atomic group) and
// then turning it into a greedy atomic loop changes what it matches.  So no
// call may pass both switches as true.  And the helper that finds the last
// expression of a loop body hands its result to makeLoopAtomic (through
// eliminateEndingBacktracking), which collapses a lazy loop to its minimum —
// wrong inside a loop that iterates again — so that helper must not ask for
// lazy loops.
// ---------------------------------------------------------------------------

func RAtomFlags(c *core.Ctx) {
	c.Rule("R-ATOMFLAGS", "every call of canBeMadeAtomic passes constant switches (or its own parameters on), never iterateNullableSubsequent = true together with allowLazy = true; FindLastExpressionInLoopForAutoAtomic passes allowLazy = false because a caller applies makeLoopAtomic to its result without looking at the kind", 4)
	p := c.P
	syn := p.Pkg("syntax")
	info := syn.TypesInfo
	target := p.LookupFunc("syntax", "RegexNode.canBeMadeAtomic")
	if target == nil {
		c.Anchor("syntax.RegexNode.canBeMadeAtomic")
		return
	}
	n := 0
	for _, fd := range p.FuncDecls(syn) {
		if fd.Body == nil || p.IsTestFile(fd.Pos()) {
			continue
		}
		name := core.DeclName(syn, fd)
		for i, call := range core.CallsIn(info, fd.Body, target) {
			if len(call.Args) != 3 {
				continue
			}
			n++
			c.Visit(name)
			val := func(e ast.Expr) string {
				if tv, ok := info.Types[e]; ok && tv.Value != nil {
					return tv.Value.String()
				}
				return types.ExprString(e)
			}
			iter, lazy := val(call.Args[1]), val(call.Args[2])
			key := fmt.Sprintf("%s / canBeMadeAtomic call #%d does not combine look-past-optional with lazy loops", name, i+1)
			c.Check(!(iter == "true" && lazy == "true"), key, call.Pos(),
				"iterateNullableSubsequent and allowLazy are both true: a lazy loop followed only by optional items (a+?b* at the end of the pattern or of an atomic group) is then upgraded to a greedy atomic loop although it has to stop at its minimum")
			if fd.Name.Name == "FindLastExpressionInLoopForAutoAtomic" {
				c.Check(lazy == "false", fmt.Sprintf("%s / canBeMadeAtomic call #%d does not ask for lazy loops", name, i+1), call.Pos(),
					"allowLazy = %s: the node returned here reaches makeLoopAtomic through eliminateEndingBacktracking, which sets a lazy loop's maximum to its minimum; inside a loop body that iterates again ((?:ab??){2}) the lazy loop can then no longer grow", lazy)
			}
		}
	}
	if n == 0 {
		c.Anchor("calls of canBeMadeAtomic")
	}
}

// ---------------------------------------------------------------------------
// R-LAZYBUF: a lazily started builder is fed under the flag it is read under.
// Scanners that usually return a slice of the pattern switch to a
// strings.Builder when the first escape is met: they copy what was scanned so
// far, set a flag, and from then on append EVERY character; at the end the
// flag decides between sb.String() and the slice.  Appending under some other
// condition (only the escaped characters) returns a name with holes in it.
// ---------------------------------------------------------------------------

func RLazyBuf(c *core.Ctx) {
	c.Rule("R-LAZYBUF", "in package syntax, wherever a function returns builder.String() under `if F` (F a local bool) and something else otherwise, every write to that builder is guarded by a condition on the same F (`if F`, or the `if !F` block that starts the builder): what is appended and what is returned are decided by one flag", 1)
	p := c.P
	syn := p.Pkg("syntax")
	info := syn.TypesInfo
	n := 0
	for _, fd := range p.FuncDecls(syn) {
		if fd.Body == nil || p.IsTestFile(fd.Pos()) {
			continue
		}
		// if F { return sb.String(), … }
		var flag, builder types.Object
		ast.Inspect(fd.Body, func(x ast.Node) bool {
			ifs, ok := x.(*ast.IfStmt)
			if !ok {
				return true
			}
			id, ok := ast.Unparen(ifs.Cond).(*ast.Ident)
			if !ok || len(ifs.Body.List) != 1 {
				return true
			}
			ret, ok := ifs.Body.List[0].(*ast.ReturnStmt)
			if !ok || len(ret.Results) == 0 {
				return true
			}
			call, ok := ast.Unparen(ret.Results[0]).(*ast.CallExpr)
			if !ok {
				return true
			}
			se, ok := call.Fun.(*ast.SelectorExpr)
			if !ok || se.Sel.Name != "String" {
				return true
			}
			bid, ok := ast.Unparen(se.X).(*ast.Ident)
			if !ok {
				return true
			}
			if _, nm := core.NamedOf(info.TypeOf(bid)); nm != "Builder" && nm != "Buffer" {
				return true
			}
			flag, builder = info.ObjectOf(id), info.ObjectOf(bid)
			return true
		})
		if flag == nil || builder == nil {
			continue
		}
		name := core.DeclName(syn, fd)
		c.Visit(name)
		var stack []ast.Node
		cnt := 0
		ast.Inspect(fd.Body, func(x ast.Node) bool {
			if x == nil {
				stack = stack[:len(stack)-1]
				return true
			}
			stack = append(stack, x)
			call, ok := x.(*ast.CallExpr)
			if !ok {
				return true
			}
			se, ok := call.Fun.(*ast.SelectorExpr)
			if !ok || len(se.Sel.Name) < 5 || se.Sel.Name[:5] != "Write" {
				return true
			}
			bid, ok := ast.Unparen(se.X).(*ast.Ident)
			if !ok || info.ObjectOf(bid) != builder {
				return true
			}
			cnt++
			n++
			guard := ""
			okGuard := false
			for i := len(stack) - 2; i >= 0; i-- {
				ifs, ok := stack[i].(*ast.IfStmt)
				if !ok || !(ifs.Body.Pos() <= call.Pos() && call.End() <= ifs.Body.End()) {
					continue
				}
				guard = types.ExprString(ifs.Cond)
				mentions := false
				ast.Inspect(ifs.Cond, func(y ast.Node) bool {
					if id, ok := y.(*ast.Ident); ok && info.ObjectOf(id) == flag {
						mentions = true
					}
					return true
				})
				if mentions {
					okGuard = true
				}
				break
			}
			c.Check(okGuard, fmt.Sprintf("%s / write #%d to the lazily started builder is decided by %s", name, cnt, flag.Name()), call.Pos(),
				"the builder's content is returned when %s is set, but this write is guarded by `%s`: characters scanned while %s is set and that condition is false are missing from the result", flag.Name(), guard, flag.Name())
			return true
		})
	}
	if n == 0 {
		c.Anchor("functions returning builder.String() under a flag")
	}
}

// ---------------------------------------------------------------------------
// R-GAPRUNE: the rune that is asked about is the rune that is excluded.
// canonicalize reduces "categories + every rune but g" either to "anything"
// (when the categories contain g) or to [^g].  Both arms talk about the one
// missing rune g: the membership test and the range built in the other arm
// must use the same expression.
// ---------------------------------------------------------------------------

func RGapRune(c *core.Ctx) {
	c.Rule("R-GAPRUNE", "in canonicalize, where `if c.charInCategories(E) { everything } else { negate; ranges = [E', E'] }` decides how a class missing one rune is normalised, E and E' are the same expression (the missing rune)", 1)
	p := c.P
	syn := p.Pkg("syntax")
	info := syn.TypesInfo
	fd, _ := p.DeclOf(p.LookupFunc("syntax", "CharSet.canonicalize"))
	cic := p.LookupFunc("syntax", "CharSet.charInCategories")
	if fd == nil || cic == nil {
		c.Anchor("CharSet.canonicalize / charInCategories")
		return
	}
	c.Visit("syntax.(*CharSet).canonicalize")
	n := 0
	ast.Inspect(fd.Body, func(x ast.Node) bool {
		ifs, ok := x.(*ast.IfStmt)
		if !ok || ifs.Else == nil {
			return true
		}
		call, ok := ast.Unparen(ifs.Cond).(*ast.CallExpr)
		if !ok || core.Callee(info, call) != cic || len(call.Args) != 1 {
			return true
		}
		tested := types.ExprString(ast.Unparen(call.Args[0]))
		// composite literal SingleRange{A, B} in the else arm
		ast.Inspect(ifs.Else, func(y ast.Node) bool {
			cl, ok := y.(*ast.CompositeLit)
			if !ok || len(cl.Elts) != 2 {
				return true
			}
			if _, nm := core.NamedOf(info.TypeOf(cl)); nm != "SingleRange" {
				return true
			}
			a, b := types.ExprString(ast.Unparen(cl.Elts[0])), types.ExprString(ast.Unparen(cl.Elts[1]))
			n++
			c.Check(a == tested && b == tested, fmt.Sprintf("canonicalize / the rune tested against the categories is the rune excluded (#%d)", n), call.Pos(),
				"charInCategories is asked about `%s` but the other arm excludes `%s`: the decision between 'anything' and 'all but one rune' is made for a neighbouring rune", tested, a)
			return true
		})
		return true
	})
	if n == 0 {
		c.Anchor("the single-missing-rune normalisation in canonicalize")
	}
}

// ---------------------------------------------------------------------------
// R-SELFSHIFT: shifting a slice right inside itself copies ALL of the old
// content: copy(s[k:], s).  copy(s[k:], s[:k]) moves only the first k elements;
// when more than k were there the tail keeps stale data.
// ---------------------------------------------------------------------------

func RSelfShift(c *core.Ctx) {
	c.Rule("R-SELFSHIFT", "every copy whose destination and source are slices of the same field-held slice (an in-place shift) takes the whole old content as source; the source is never the prefix [:k] of the very k the destination starts at", 1)
	p := c.P
	n := 0
	baseOf := func(v ssa.Value) (ssa.Value, *ssa.Slice) {
		if sl, ok := v.(*ssa.Slice); ok {
			return sl.X, sl
		}
		return v, nil
	}
	for _, fn := range p.ModuleFuncs() {
		name := core.SSAName(fn)
		cnt := 0
		for _, b := range fn.Blocks {
			for _, ins := range b.Instrs {
				call, ok := ins.(*ssa.Call)
				if !ok {
					continue
				}
				bi, ok := call.Call.Value.(*ssa.Builtin)
				if !ok || bi.Name() != "copy" {
					continue
				}
				db, ds := baseOf(call.Call.Args[0])
				sb, ss := baseOf(call.Call.Args[1])
				if ds == nil || ds.Low == nil {
					continue
				}
				if !(db == sb || core.SameValue(db, sb)) {
					continue
				}
				if ld, ok := db.(*ssa.UnOp); !ok || core.FieldVarOfAddr(ld.X) == nil {
					continue // a local scratch slice (the doubling idiom copy(r[n:], r[:n]) fills a fresh buffer)
				}
				cnt++
				n++
				c.Visit(name)
				bad := ss != nil && ss.Low == nil && ss.High != nil && (ss.High == ds.Low || core.SameValue(ss.High, ds.Low))
				c.Check(!bad, fmt.Sprintf("%s / in-place shift #%d copies the whole old content", name, cnt), call.Pos(),
					"copy(s[k:], s[:k]) moves only the first k elements to the right; if the slice held more than k elements before it was extended, the rest keeps stale data (the merged literal \"ab.cd\" becomes \"ab.cb\")")
			}
		}
	}
	if n == 0 {
		c.Anchor("in-place shifts (copy within one slice)")
	}
}

// ---------------------------------------------------------------------------
// R-LOOPMATCH: the runner's own Match is read, not cached on.
// Replace and the find-all calls keep one Runner for the whole operation and
// look at the *Match that scan refills for every match.  That object is reset
// between matches only in the fields the interpreter uses; derived state that
// a Match builds lazily for API users (Groups() -> otherGroups) survives the
// reset.  So on a scan result that is used inside such a loop — directly or
// in a helper it is passed to — no Match method that stores into the Match
// may be called.
// ---------------------------------------------------------------------------

func RLoopMatch(c *core.Ctx) {
	c.Rule("R-LOOPMATCH", "on the *Match returned by Runner.scan inside a function that calls scan in a loop (the runner and its Match are reused for every match), and in the helpers that Match is passed to, only Match methods that store nothing into the Match are called: lazily cached state (Groups(), GroupByNumber -> otherGroups) would be frozen at the first match", 3)
	p := c.P
	scan := p.SSAFunc(p.LookupFunc("", "Runner.scan"))
	if scan == nil {
		c.Anchor("regexp2.Runner.scan")
		return
	}
	// Match methods that may store into their receiver (transitively through receiver calls)
	var matchMethods []*ssa.Function
	for _, fn := range p.ModuleFuncs() {
		if recv := fn.Signature.Recv(); recv != nil && core.FnPkgPath(fn) == core.PkgRoot {
			if _, nm := core.NamedOf(recv.Type()); nm == "Match" {
				matchMethods = append(matchMethods, fn)
			}
		}
	}
	mut := map[*ssa.Function]bool{}
	for changed := true; changed; {
		changed = false
		for _, fn := range matchMethods {
			if mut[fn] || len(fn.Params) == 0 {
				continue
			}
			for _, b := range fn.Blocks {
				for _, ins := range b.Instrs {
					switch x := ins.(type) {
					case *ssa.Store:
						if fa, ok := x.Addr.(*ssa.FieldAddr); ok && fa.X == ssa.Value(fn.Params[0]) {
							mut[fn] = true
						}
					case ssa.CallInstruction:
						if cal := x.Common().StaticCallee(); cal != nil && mut[cal] && len(x.Common().Args) > 0 && x.Common().Args[0] == ssa.Value(fn.Params[0]) {
							mut[fn] = true
						}
					}
				}
			}
			if mut[fn] {
				changed = true
			}
		}
	}
	// seeds: scan results in functions that call scan on a cycle
	type fv struct {
		fn *ssa.Function
		v  ssa.Value
	}
	var work []fv
	for _, fn := range p.ModuleFuncs() {
		if fn == scan {
			continue
		}
		for _, b := range fn.Blocks {
			if !onCycle(b) {
				continue
			}
			for _, ins := range b.Instrs {
				if call, ok := ins.(*ssa.Call); ok && call.Call.StaticCallee() == scan {
					for _, r := range core.Referrers(call) {
						if ex, ok := r.(*ssa.Extract); ok && ex.Index == 0 {
							work = append(work, fv{fn, ex})
						}
					}
				}
			}
		}
	}
	if len(work) == 0 {
		c.Anchor("functions that call Runner.scan in a loop")
		return
	}
	seen := map[fv]bool{}
	n := 0
	for len(work) > 0 {
		cur := work[0]
		work = work[1:]
		if seen[cur] {
			continue
		}
		seen[cur] = true
		name := core.SSAName(cur.fn)
		// values equal to cur.v through phis
		vals := map[ssa.Value]bool{cur.v: true}
		for changed := true; changed; {
			changed = false
			for _, b := range cur.fn.Blocks {
				for _, ins := range b.Instrs {
					if phi, ok := ins.(*ssa.Phi); ok && !vals[phi] {
						for _, e := range phi.Edges {
							if vals[e] {
								vals[phi] = true
								changed = true
							}
						}
					}
				}
			}
		}
		for _, b := range cur.fn.Blocks {
			for _, ins := range b.Instrs {
				call, ok := ins.(ssa.CallInstruction)
				if !ok {
					continue
				}
				cal := call.Common().StaticCallee()
				if cal == nil {
					continue
				}
				for i, a := range call.Common().Args {
					if !vals[a] {
						continue
					}
					isMatchMethod := false
					for _, mm := range matchMethods {
						if mm == cal && i == 0 {
							isMatchMethod = true
						}
					}
					if isMatchMethod {
						n++
						c.Visit(name)
						c.Check(!mut[cal], fmt.Sprintf("%s / Match.%s on the runner's reused Match stores nothing (#%d)", name, cal.Name(), n), ins.Pos(),
							"%s stores into the Match (lazily built, cached state); the runner refills this same Match for the next match without clearing that state, so every later match in the loop — and later calls on the pooled runner — see the first one's groups", cal.Name())
					} else if core.InModule(cal) && i < len(cal.Params) && cal != scan {
						work = append(work, fv{cal, cal.Params[i]})
					}
				}
			}
		}
	}
	if n == 0 {
		c.Anchor("Match method calls on scan results inside loops")
	}
}

// ---------------------------------------------------------------------------
// R-WHOLETEXT: the interpreter always sees the whole input.
// A candidate from the raw-string filter (or a caller's start offset) moves
// where the scan STARTS; lookbehind, \b, \B, ^ and \G still look at the text
// before it.  The decode helpers must therefore be given the caller's whole
// string, never a slice of it.
// ---------------------------------------------------------------------------

func RWholeText(c *core.Ctx) {
	c.Rule("R-WHOLETEXT", "every call of Runner.decodeString / decodeStringWithStart and Regexp.getRunesAndStart in package regexp2 receives the function's own string parameter unsliced: a start position is passed as an offset, never by cutting the text", 6)
	p := c.P
	targets := map[*ssa.Function]int{}
	for nm, idx := range map[string]int{"Runner.decodeString": 1, "Runner.decodeStringWithStart": 1, "Regexp.getRunesAndStart": 1} {
		if f := p.SSAFunc(p.LookupFunc("", nm)); f != nil {
			targets[f] = idx
		} else {
			c.Anchor("regexp2." + nm)
		}
	}
	n := 0
	for _, fn := range p.ModuleFuncs() {
		if core.FnPkgPath(fn) != core.PkgRoot {
			continue
		}
		name := core.SSAName(fn)
		cnt := 0
		for _, b := range fn.Blocks {
			for _, ins := range b.Instrs {
				call, ok := ins.(ssa.CallInstruction)
				if !ok {
					continue
				}
				idx, ok := targets[call.Common().StaticCallee()]
				if !ok || idx >= len(call.Common().Args) {
					continue
				}
				cnt++
				n++
				c.Visit(name)
				arg := call.Common().Args[idx]
				// directly, or on some path (the parameter re-assigned to a slice of itself arrives as a phi)
				sliced := false
				for _, l := range append(leaves(arg), arg) {
					if _, isSl := l.(*ssa.Slice); isSl {
						sliced = true
					}
				}
				c.Check(!sliced, fmt.Sprintf("%s / decode call #%d is given the whole input", name, cnt), ins.Pos(),
					"the text handed to the decoder is %s, a slice of the input: what precedes the cut is invisible to lookbehind, \\b and anchors, so this entry point answers differently from the ones that decode the whole string", arg.String())
			}
		}
	}
	if n == 0 {
		c.Anchor("decode calls in package regexp2")
	}
}

// ---------------------------------------------------------------------------
// R-FOLDEXIT: ReplaceFunc walks the whole match sequence.
// The evaluator loops of replace() are folds over FindStringMatch /
// FindNextMatch: they end when the sequence ends (m == nil) or when `count`
// matches were replaced.  Any other exit ("the input is used up") drops
// matches the sequence still contains — the empty match at the very end.
// ---------------------------------------------------------------------------

func RFoldExit(c *core.Ctx) {
	c.Rule("R-FOLDEXIT", "in replace() every `break` out of a `for m != nil` evaluator loop is guarded by a condition that mentions only the replacement count: the loop otherwise ends only when FindNextMatch returns nil", 2)
	p := c.P
	pk := p.Pkg("")
	info := pk.TypesInfo
	fd, _ := p.DeclOf(p.LookupFunc("", "replace"))
	if fd == nil {
		c.Anchor("regexp2.replace")
		return
	}
	c.Visit("regexp2.replace")
	var countObj types.Object
	for _, f := range fd.Type.Params.List {
		for _, nm := range f.Names {
			if nm.Name == "count" {
				countObj = info.Defs[nm]
			}
		}
	}
	if countObj == nil {
		c.Anchor("parameter count of replace")
		return
	}
	n := 0
	// replace() itself, and the helpers it hands its count to (the evaluator loops factored out per direction)
	type unit struct {
		fd    *ast.FuncDecl
		count types.Object
	}
	units := []unit{{fd, countObj}}
	ast.Inspect(fd.Body, func(x ast.Node) bool {
		call, ok := x.(*ast.CallExpr)
		if !ok {
			return true
		}
		fn := core.Callee(info, call)
		if fn == nil || fn.Pkg() != pk.Types {
			return true
		}
		cd, _ := p.DeclOf(fn)
		if cd == nil || cd.Body == nil || cd == fd || cd.Type.Params == nil {
			return true
		}
		// the parameter that receives count
		var prms []types.Object
		for _, f := range cd.Type.Params.List {
			for _, nm := range f.Names {
				prms = append(prms, info.ObjectOf(nm))
			}
		}
		for i, a := range call.Args {
			if id, ok := ast.Unparen(a).(*ast.Ident); ok && info.ObjectOf(id) == countObj && i < len(prms) {
				dup := false
				for _, u := range units {
					if u.fd == cd {
						dup = true
					}
				}
				if !dup {
					units = append(units, unit{cd, prms[i]})
				}
			}
		}
		return true
	})
	for _, u := range units {
		fd, countObj := u.fd, u.count
		ast.Inspect(fd.Body, func(x ast.Node) bool {
			fs, ok := x.(*ast.ForStmt)
			if !ok || fs.Cond == nil {
				return true
			}
			be, ok := ast.Unparen(fs.Cond).(*ast.BinaryExpr)
			if !ok || be.Op != token.NEQ {
				return true
			}
			if tv, ok := info.Types[be.Y]; !ok || !tv.IsNil() {
				return true
			}
			var stack []ast.Node
			ast.Inspect(fs.Body, func(y ast.Node) bool {
				if y == nil {
					stack = stack[:len(stack)-1]
					return true
				}
				stack = append(stack, y)
				if _, isLoop := y.(*ast.ForStmt); isLoop {
					return false
				}
				br, ok := y.(*ast.BranchStmt)
				if !ok || br.Tok != token.BREAK {
					return true
				}
				n++
				guard := "unconditional"
				okGuard := false
				for i := len(stack) - 2; i >= 0; i-- {
					if ifs, ok := stack[i].(*ast.IfStmt); ok {
						guard = types.ExprString(ifs.Cond)
						only := true
						ast.Inspect(ifs.Cond, func(z ast.Node) bool {
							if id, ok := z.(*ast.Ident); ok {
								if obj := info.ObjectOf(id); obj != nil && obj != countObj {
									if _, isVar := obj.(*types.Var); isVar {
										only = false
									}
								}
							}
							if _, isCall := z.(*ast.CallExpr); isCall {
								only = false
							}
							return true
						})
						okGuard = only
						break
					}
				}
				c.Check(okGuard, fmt.Sprintf("replace / break #%d of an evaluator loop depends on the count only", n), br.Pos(),
					"the loop is left under `%s`: ending the fold on anything but the count or the end of the match sequence drops matches that FindNextMatch would still deliver (the empty match at the end of the input after a match that reaches it)", guard)
				return true
			})
			return true
		})
	}
	if n == 0 {
		c.Anchor("break statements in the evaluator loops of replace()")
	}
}

// ---------------------------------------------------------------------------
// R-SCRATCH: a scratch buffer that serves every iteration starts each one empty.
// A bytes.Buffer / strings.Builder declared before a loop, filled inside it and
// read back in the same iteration (Bytes / String / Len) describes "this
// iteration's data" only if it is Reset (or re-created) before the fill;
// otherwise iteration k sees the leftovers of iterations 1..k-1 — the common
// prefix of an alternation is then computed against branch 2's text for every
// later branch.
// ---------------------------------------------------------------------------

func RScratch(c *core.Ctx) {
	c.Rule("R-SCRATCH", "in packages syntax and regexp2 every bytes.Buffer / strings.Builder that is declared outside a loop, filled inside the loop body (a Write… call or being passed to a callee) and read back inside the same body outside a return statement (Bytes / String / Len) is emptied somewhere in the body (Reset, Truncate or re-assignment: before the fill, or after its content was consumed)", 1)
	p := c.P
	n := 0
	for _, pk := range []*packages.Package{p.Pkg("syntax"), p.Pkg("")} {
		info := pk.TypesInfo
		for _, fd := range p.FuncDecls(pk) {
			if fd.Body == nil || p.IsTestFile(fd.Pos()) {
				continue
			}
			name := core.DeclName(pk, fd)
			isBuf := func(obj types.Object) bool {
				if obj == nil {
					return false
				}
				_, nm := core.NamedOf(obj.Type())
				return nm == "Buffer" || nm == "Builder"
			}
			var loops []ast.Stmt
			ast.Inspect(fd.Body, func(x ast.Node) bool {
				switch x.(type) {
				case *ast.ForStmt, *ast.RangeStmt:
					loops = append(loops, x.(ast.Stmt))
				}
				return true
			})
			for _, lp := range loops {
				var body *ast.BlockStmt
				switch l := lp.(type) {
				case *ast.ForStmt:
					body = l.Body
				case *ast.RangeStmt:
					body = l.Body
				}
				// buffers used in the body but declared outside the loop
				type use struct {
					firstFill, firstRead, firstReset token.Pos
				}
				uses := map[types.Object]*use{}
				get := func(obj types.Object) *use {
					if uses[obj] == nil {
						uses[obj] = &use{}
					}
					return uses[obj]
				}
				min := func(a *token.Pos, b token.Pos) {
					if *a == token.NoPos || b < *a {
						*a = b
					}
				}
				inReturn := map[token.Pos]bool{}
				ast.Inspect(body, func(x ast.Node) bool {
					if ret, ok := x.(*ast.ReturnStmt); ok {
						ast.Inspect(ret, func(z ast.Node) bool {
							if z != nil {
								inReturn[z.Pos()] = true
							}
							return true
						})
					}
					return true
				})
				ast.Inspect(body, func(x ast.Node) bool {
					switch y := x.(type) {
					case *ast.CallExpr:
						if se, ok := y.Fun.(*ast.SelectorExpr); ok {
							if id, ok := ast.Unparen(se.X).(*ast.Ident); ok && isBuf(info.ObjectOf(id)) {
								obj := info.ObjectOf(id)
								if obj.Pos() >= lp.Pos() && obj.Pos() < lp.End() {
									return true
								}
								switch {
								case strings.HasPrefix(se.Sel.Name, "Write"):
									min(&get(obj).firstFill, y.Pos())
								case se.Sel.Name == "Reset" || se.Sel.Name == "Truncate":
									min(&get(obj).firstReset, y.Pos())
								case se.Sel.Name == "Bytes" || se.Sel.Name == "String" || se.Sel.Name == "Len":
									if !inReturn[y.Pos()] { // the final value of an accumulator returned from inside the loop is not a per-iteration read
										min(&get(obj).firstRead, y.Pos())
									}
								}
							}
						}
						for _, a := range y.Args {
							if id, ok := ast.Unparen(a).(*ast.Ident); ok && isBuf(info.ObjectOf(id)) {
								obj := info.ObjectOf(id)
								if !(obj.Pos() >= lp.Pos() && obj.Pos() < lp.End()) {
									min(&get(obj).firstFill, y.Pos())
								}
							}
							if ue, ok := ast.Unparen(a).(*ast.UnaryExpr); ok && ue.Op == token.AND {
								if id, ok := ast.Unparen(ue.X).(*ast.Ident); ok && isBuf(info.ObjectOf(id)) {
									obj := info.ObjectOf(id)
									if !(obj.Pos() >= lp.Pos() && obj.Pos() < lp.End()) {
										min(&get(obj).firstFill, y.Pos())
									}
								}
							}
						}
					case *ast.AssignStmt:
						for _, l := range y.Lhs {
							if id, ok := ast.Unparen(l).(*ast.Ident); ok && isBuf(info.ObjectOf(id)) {
								min(&get(info.ObjectOf(id)).firstReset, y.Pos())
							}
						}
					}
					return true
				})
				for obj, u := range uses {
					if u.firstFill == token.NoPos || u.firstRead == token.NoPos {
						continue
					}
					// an accumulator that is only read after the loop is not concerned; this one is read inside
					n++
					c.Visit(name)
					// emptied before the fill, or emptied after having been consumed (flush idiom): either way an iteration never
					// sees data it did not itself put there or deliberately carried over
					c.Check(u.firstReset != token.NoPos, fmt.Sprintf("%s / scratch buffer %s is emptied at the start of each iteration", name, obj.Name()), lp.Pos(),
						"%s is filled and read back inside the loop at %s but never emptied in it: from the second iteration on it still holds the previous iterations' data", obj.Name(), p.Pos(lp.Pos()))
				}
			}
		}
	}
	if n == 0 {
		c.Anchor("scratch buffers filled and read inside a loop")
	}
}

// ---------------------------------------------------------------------------
// R-PROTOCOPY: class prototypes are handed out as deep copies.
// The predefined classes (\w, \s, \d, their ECMAScript / RE2 forms) are built
// once and served by closures.  `local := c; return &local` copies the struct
// but shares c.ranges / c.categories with the prototype and with every other
// user: a pattern being compiled merges and canonicalizes IN PLACE (writes
// c.ranges[j]) while compiled patterns on other goroutines read the same
// backing array during a match — a data race on process-wide state.
// ---------------------------------------------------------------------------

func RProtoCopy(c *core.Ctx) {
	c.Rule("R-PROTOCOPY", "every closure in package syntax that serves a predefined CharSet (a func() *CharSet literal returning the address of a value derived from a captured CharSet) obtains that value through CharSet.Copy (deep copy), not by plain assignment of the captured struct, whose slices stay shared with the prototype", 2)
	p := c.P
	syn := p.Pkg("syntax")
	info := syn.TypesInfo
	copyFn := p.LookupFunc("syntax", "CharSet.Copy")
	if copyFn == nil {
		c.Anchor("syntax.CharSet.Copy")
		return
	}
	n := 0
	for _, fd := range p.FuncDecls(syn) {
		if fd.Body == nil || p.IsTestFile(fd.Pos()) {
			continue
		}
		name := core.DeclName(syn, fd)
		ast.Inspect(fd.Body, func(x ast.Node) bool {
			fl, ok := x.(*ast.FuncLit)
			if !ok || fl.Type.Results == nil || len(fl.Type.Results.List) != 1 || (fl.Type.Params != nil && len(fl.Type.Params.List) > 0) {
				return true
			}
			rt := info.TypeOf(fl.Type.Results.List[0].Type)
			pt, ok := rt.(*types.Pointer)
			if !ok {
				return true
			}
			if _, nm := core.NamedOf(pt.Elem()); nm != "CharSet" {
				return true
			}
			n++
			c.Visit(name)
			deep := len(core.CallsIn(info, fl.Body, copyFn)) > 0
			c.Check(deep, fmt.Sprintf("%s / prototype closure #%d returns a deep copy", name, n), fl.Pos(),
				"the closure returns the address of a struct copy of the captured prototype: ranges and categories are still the prototype's slices, so canonicalize / sort running on one user's class (during Compile) writes into memory that matches on other goroutines are reading")
			return true
		})
	}
	if n == 0 {
		c.Anchor("closures serving predefined classes")
	}
}
