// Package rules holds the repository-specific rules.  Each rule inspects the
// loaded program of /repo's current working tree and reports obligations.
package rules

import "regexlint/internal/core"

// Prop describes how one property is decided.
type Prop struct {
	ID          string
	Rules       []func(*core.Ctx)
	Explanation string
	Assumptions []string
}

var common = []string{
	"go/packages + go/types give the same view of /repo as the compiler for the analysed build configuration",
	"rules decide structural necessary conditions only; the behavioural statement of the property over all inputs is NOT decided (see DESIGN.md, per-property 'Not decided')",
}

// Props is the registry: property id -> rules.
var Props = map[string]*Prop{}

func register(p *Prop) { p.Assumptions = append(p.Assumptions, common...); Props[p.ID] = p }

func init() {
	register(&Prop{
		ID:    "C01",
		Rules: []func(*core.Ctx){ROp, RStk, RBracket, REmptyIter, RSib, RMask, RCrawlPair, RRuneStr, REnumPos, RStackRel, REndZLatest, RCondUnwrap, RNoShortcut, REnumFull, RRepKind, RBmFallback},
		Explanation: "Static analysis of the bytecode contract between syntax/writer.go (emit sites), syntax/code.go (opcodeSize, opcodeBacktracks, constant blocks) and runner.go (executeDefault's switch): " +
			"R-OP1 handler/size exists for every emitted opcode; R-OP2 operand/advance constants agree with opcodeSize; R-OP3 backtracking frame shape (push arity vs pop arity vs existence of Back/Back2 clauses, path-enumerated per clause on go/cfg); " +
			"R-OP4 numeric identity NodeType==InstOp and family strides used by retyping arithmetic; R-OP5 debug tables; R-STK grouping-stack balance of every emitFragment bracket pair. " +
			"This is a necessary condition of C01 (a desynchronised stream breaks every pattern using the opcode); the search semantics themselves are not decided.",
	})
	register(&Prop{
		ID:    "C06",
		Rules: []func(*core.Ctx){RSurface, RByteUnit, RUnsetPair, RNZero, RPrevInit, RDialectSib, RTentative, RPosixASCII, RUnitCmp, ROffTable, RLazyTable, rDirFoldOnly, RMapState, rCountNOnly, RNodeOpts, RTextSlice, RNilEmpty, RRepKind, RSpaceArgs},
		Explanation: "Structural necessary conditions of the adapter agreeing with the standard library: R-SURFACE (method-set and signature agreement with *regexp.Regexp, on go/types), R-BYTEUNIT (no rune position reaches an []int the adapter fills or a bound of a byte slice: SSA taint from Capture.RuneIndex / RuneLength, sanitised only by indexing an offset table), R-UNSETPAIR (groups without captures give -1 pairs / nil / \"\"), R-NZERO (n == 0 gives nil), R-PREVINIT (the first empty match is not dropped), R-DIALECTSIB (\\w \\d \\s \\b and their forms inside a class pick their ASCII dialect under the same option predicates), R-UNITCMP, R-LAZYTABLE, R-DIRFOLD (shared with C07/C08). " +
			"That the adapter returns what the standard library returns for a pattern and input is an equality between two engines and is NOT decided.",
	})
	register(&Prop{
		ID:    "C10",
		Rules: []func(*core.Ctx){RGuard, RPanic, RFatal, RNilMatch, RCatTable, rDirFoldOnly, RIdxSib, RGrowCmp, REmptyIter, RRuneWidth, RMakeArg, RLim5, RUnits, RStartRange, RRuneIdx, RCrawlPair, RErrProp, RTextIdx, RCrawlGuard, RReplMask},
		Explanation: "R-GUARD: abstract interpretation (lower bound on charsRight(), difference bounds for mirror variables, saved positions) over go/cfg of every function of package syntax that uses the parser's position primitives: each pattern read is proven to be preceded on every path by a sufficient length test; who-may-index p.pattern / who-may-write currentPos; _category index bounds. " +
			"Decides the parser part of 'no panic on any pattern'. Not decided: index arithmetic outside the parser, non-termination.",
	})
	register(&Prop{
		ID:    "C13",
		Rules: []func(*core.Ctx){RLim, RLim5, RQuickSame, RErrProp, RErrIdent, RStackRel, RReleaseOwn, RTrackGrow, RTakeAll, RCrawlGuard},
		Explanation: "R-LIM1 who-may-allocate the backtracking stack and SSA proof that every allocation length is clamped by the limit; R-LIM2 who-may-read the limit and forward slice of its value (sizes, bounds, branch conditions, bool result only) plus the end-relative copy/shift shape; R-LIM3 error discipline of ensureStorage/goTo/backtrack/execute and single producer of ErrBacktrackingStackLimit; R-LIM4 push budget per opcode and per emitFragment path against the ensureStorage multiplier, capacity-check comparisons, who-writes runtrack[...]. " +
			"These are the static ingredients of 'never more than L slots, never a panic, no other influence'. The runtime invariant (free >= K*TrackCount at each backward jump suffices until the next) is NOT proven.",
	})
	register(&Prop{
		ID:    "C12",
		Rules: []func(*core.Ctx){RStale, RPool, RQuickSame, RSelfRun, RLoopMatch, RCachePair, RStackRel, RStartSet, RRunmatchOwn, RReleaseOwn, RUnits, RResetAll, RCrawlGuard, RTakeAll},
		Explanation: "R-STALE: interprocedural must-write / may-read-before-write analysis on SSA over every field of the pooled Runner and of the Match it owns, starting at (*Runner).scan with all non-persistent fields stale; R-RESTORE, R-DETACH, R-BUFLEN, R-CACHEKEY: pairing / ordering checks on the pool return path, the detach of handed-out matches, pooled buffer re-slicing and the replacement cache key. " +
			"Necessary for history independence (a field read before written leaks the previous call). Equality with a fresh Regexp as such is NOT decided.",
	})
	register(&Prop{
		ID:    "C11",
		Rules: []func(*core.Ctx){RFx, RLock, RClockEnd, ROwn, RProtoCopy, RUnlock, RNoAlias, RExitFresh, RReleaseOwn, RNoUnsafe, RBufEscape, RFreshRE},
		Explanation: "R-FX effect confinement: whole-program shared-derived taint on SSA over everything reachable from the match-time API; every write whose target derives from a shared Regexp / Code / global must be one of the lock- or atomic-protected structures. R-LOCK lockset dataflow for those structures. R-OWN ownership of pooled runners and buffers. " +
			"Decides data-race freedom of the enumerated shared state (a necessary condition of C11). That concurrent results equal sequential ones is NOT decided beyond race freedom plus C12's independence.",
	})
	register(&Prop{
		ID:    "C07",
		Rules: []func(*core.Ctx){RSeq, RFwdOnly, RSentinelArg, RUnitCmp, RPrevInit, RMapState, RMinLenZero, RNoMatchExit, RAnchorSrc},
		Explanation: "Structural skeleton of match iteration on SSA: R-NEXT (every continued search passes X.textpos and X.RuneLength of the same match X), R-EMPTYBUMP (after an empty previous match every path bumps before searching; stop tests use the direction-selected stoppos), R-ADVANCE (loop variant of scan's attempt loop), R-TEXTPOS (both arms of tidyMatch record the resume position), R-DIRFOLD (folds over the match sequence are direction-aware), R-COUNTN (the find-all limit is charged only for reported matches). " +
			"Necessary for ordered, terminating iteration. Strict monotonicity of the returned matches (which depends on findFirstChar/execute never moving the attempt position backwards) and the length+1 bound are NOT decided.",
	})
	register(&Prop{
		ID:    "C02",
		Rules: []func(*core.Ctx){RFunnel, RQuick, RQuickOmit, RQuickSame, RLiveOps, RWholeText, RRtlFilter, RFFFDFilter, ROrigin, RMask, RStepDecode, RTextEnd, RStartSent, RBoundDec, RNoShortcut, RScanASCII, RResetAll},
		Explanation: "All entry points reach the one scan funnel (R-FUNNEL, call graph); the capture-free quick program is active only where the returned match is merely nil-tested or read for position (R-QUICK, SSA def-use), and the liveness scan that builds it masks opcode flags (R-MASK); the left-to-right raw-string filter is never consulted for right-to-left programs (R-RTLFILTER, dominance); a filter candidate never becomes the \\G origin (R-ORIGIN, interprocedural taint). " +
			"These are structural preconditions for the entry points to agree; that scan returns the same result for the same arguments, the index conversions and the Replace/Split folds are decided elsewhere or not at all.",
	})
	register(&Prop{
		ID:    "C03",
		Rules: []func(*core.Ctx){ROrigin, RMode, RMinLen, RRtlFilter, RFixedDistSib, RTableDom, RLmMin, RDirTrunc, RSentinel, RBumpWalk, RDeadCopy, RFwdOnly, RCaseBit, RLmAlt, RFailProp, RMinLenZero, RCiExact, RNoMatchExit, RLmStart, RGapKind, RSearchStep, RKeepLook, REndZLatest, RRefZero, RSameHay, RByteCand, RBmFallback},
		Explanation: "R-ORIGIN (a candidate proposed by the accelerator never becomes the \\G origin: interprocedural taint from the filter result to scan's textstart), R-MODE (producer/consumer agreement on the find-mode record: every field a finder arm reads is assigned before the mode is set; accepted modes have a finder), R-MINLEN (the minimum-length fact is used only as a bound on the remaining length), R-RTLFILTER, R-TABLEDOM (every entry the Boyer-Moore builder records is within reach of the scanner's lookups: writer/reader guard agreement), R-LMMIN (the landmark-chain search continues from the minimal, not the greedy, end of a landmark). " +
			"Structural conditions for the accelerator to be a pure accelerator. The arithmetic of each finder and the truth of the facts (C04) are NOT decided.",
	})
	register(&Prop{
		ID:    "C05",
		Rules: []func(*core.Ctx){RDirCtx, RAtomCtx, RAtomSucc, ROverlapNeg, RMinLenUse, RAtomFlags, ROptLoop, RXField, RAtomMerge, RAtomRep, RSelfShift, REndChild, RBoundSet, RDistinct, RAnchorSrc, REolNl, RLoopOnce, RRuneStr, RBalTransp, REndDir, REqSub, RCondUnwrap, REnumFull, RRepKind, RRepCap},
		Explanation: "R-DIRCTX (left-to-right-only reasoning about a Multi's first rune is confined to left-to-right context: local dominance by a direction test or a guarded-call-site fixpoint over the static call graph), R-ATOMCTX (ending-backtracking elimination is invoked only from the five contexts nothing can backtrack into), R-OPTLOOP (a loop's child is treated as following content only under M > 0). " +
			"These are side conditions every rewrite must respect; the substance of the property (class disjointness, nullability, equality with the un-rewritten pattern) is NOT decided.",
	})
	register(&Prop{
		ID:    "C04",
		Rules: []func(*core.Ctx){RAcc, RAccCap, RNarrow, RAltMerge, ROptLoop, RNegChars, RDefault, RCompl, RNegFresh, RAltAll, RByteRune, RRuneCut, RMaxAsMin, RCatsToo, RScratch, RFailFirst, RFailProp, RLoopSib, RLookFact, RBufAlias, RDistAdd, RGapKind, RSetComplete, RDirTrunc, RRefZero, RMonoFlag},
		Explanation: "Shape conditions every prefix / set / length analysis must meet for what it publishes to be an over-approximation: R-ACC (accumulate-until-stop protocol on SSA paths), R-ACCCAP (a capped loop expansion reports 'fully processed' only through the cap), R-NARROW (the shared prefix of an alternation only shrinks), R-ALTMERGE (an offset is common to all branches only if every branch was merged), R-OPTLOOP (a loop's child is required only under M > 0), R-NEGCHARS (callers of GetSetChars consult IsNegated), R-DEFAULT (unknown node kinds yield 'know nothing'), R-COMPL (complement-of-one-character constructions guard each half by its own constant end), R-NEGFRESH (the negate flag is set only on sets created on the spot or known empty). " +
			"That the recorded strings, sets and lengths are right for the pattern's language is a semantic property and is NOT decided.",
	})
	register(&Prop{
		ID:    "C15",
		Rules: []func(*core.Ctx){RDirAcc, RDirBits, RReverse, RLookDir, RDirCtx, RDirTrunc, RNonNegLen, RAnchorSib, RBmDir, RSib, rDirFoldOnly, RLookFact, REndChild, RTextEnd, REndDir, RDirCount, RStartSent, RRoomLTR, RExclEnd},
		Explanation: "Structural carriers of direction: R-DIRACC (who may move the text position), R-DIRBITS (every text-consuming emit carries the node's Rtl bit), R-REVERSE (concatenations are attached reversed), R-LOOKDIR (lookahead clears / lookbehind sets the direction), R-DIRCTX (left-to-right-only reasoning stays in left-to-right context), R-SIB (sibling handlers agree, including on bump()), R-DIRFOLD (folds over the match sequence are direction-aware). " +
			"That each right-to-left branch computes the mirrored result is NOT decided.",
	})
	register(&Prop{
		ID:    "C16",
		Rules: []func(*core.Ctx){RSub, RSubFirst, RBitmap, RCaseRecur, RRangeFlush, RCatTable, RNegChars, RFlipAdd, RNegFresh, RKeyInj, ROr20, RWordSib, RCopyAll, RUnionRet, RGapRune, RSetCodec, RCatsToo, RDialectSib, RCatPred, RRangePend, RTentative, RPosixASCII, RUnionNeg, RAnySub, RAddMono, RDistinct, REscLiteral, RNegClear, REnumPos, REqSub, RCatEq, RNegToggle, RSpaceArgs},
		Explanation: "R-SUB (no observer or transformer of a class ignores its subtraction; canonicalize rewrites only under sub == nil; addSet / enumeration operands are tested), R-BITMAP (the ASCII fast path is charInSlow tabulated over exactly 0..127, guarded, never copied, never stale), R-CASERECUR (a subtraction is parsed with the same case flag), R-CATTABLE (a category name is accepted only with a table), R-NEGCHARS (callers of GetSetChars honour negation), R-FLIPADD (members are never added to a class after canonicalize has rewritten it in negated form without restoring the positive form first), R-NEGFRESH (negate is switched on only for sets created on the spot or known empty). " +
			"Membership itself — range arithmetic, the lowercase tables, category evaluation order — is NOT decided.",
	})
	register(&Prop{
		ID:    "C17",
		Rules: []func(*core.Ctx){RSlot, RCapsKey, RCapNode, RSkipTaken, ROptStack, RIgnParen, RDigitAcc, RLazyBuf, RLazyFull, RNameOnce, RParserFresh, RNoAlias, RPrescanSib, ROptWrite, RNumCheck, RMapOK, RDigitName, RPrescanState, RNameStart, RTakeAll, RDenseEq},
		Explanation: "R-SLOT (group numbers reach slot indexes only through the number->slot maps, in the writer, the replacement data, GroupByNumber and initMatch; internal GroupByNumber callers pass numbers, not dense indexes), R-CAPNODE (every capture node created by the main parse accounts for its slot like the pre-scan does), R-SKIPTAKEN (a named group gets the next number that is not taken). " +
			"That the pre-scan and the main parse assign the same numbers in every case, name ordering and duplicate-name rules are NOT decided.",
	})
	register(&Prop{
		ID:    "C18",
		Rules: []func(*core.Ctx){RTopOnly, ROptStack, ROptSign, ROptCache, RNodeOpts, RParserFresh, ROptMemo, RPrescanSib, ROptWrite, RInlineMask, RPrescanState},
		Explanation: "R-TOPONLY (compile-time option words are only handed on whole or masked with options that cannot be set inline, so every inline-settable option is read from where inline groups put it), R-OPTSTACK (push/pop discipline of the option stack in both passes: pop kinds per arm, and per-path balance against opened groups). " +
			"That the three spellings produce the same tree is NOT decided.",
	})
	register(&Prop{
		ID:    "C19",
		Rules: []func(*core.Ctx){RCodec, REscAll, REscLetters, RUnits, RRuneByte, RErrFallback, RKeyInj, RSelfShift, RTrunc, RRangeByte, RDirTrunc, RRuneErr, REscapeOne, REscForms},
		Explanation: "R-CODEC: the writer's decision tree (escape) and the reader's switch (scanCharEscape) are evaluated from the source and compared: named escapes pairwise, hex digit counts from the value interval and padding on each path against the reader's fixed widths, bare-backslash escapes against the reader's default arm, and `meta` against the parser's character-class table. R-ESCALL: Escape cannot bypass escape(). R-UNITS: byte offsets never become rune positions (taint from strings.Index* / range-string keys to []rune indexes and the parser position). " +
			"That ^Escape(s)$ matches exactly s needs the parser and engine and is NOT decided.",
	})
	register(&Prop{
		ID:    "C20",
		Rules: []func(*core.Ctx){RSub, RSubFirst, RCaseRecur, RAsciiFold, RCiRef, RNegChars, RAddMono, RFoldSib, RLetterRange, ROr20, RCatIdent, RCopyAll, RCiFlag, RCaseBit, RNodeOpts, RUnionNeg, RLcTable, RAnySub, RCiExact, RFoldPair, RFoldWalk},
		Explanation: "R-SUB on the case transformers (case equivalences reach a class's subtraction), R-CASERECUR (a subtraction is parsed with the same case flag), R-ASCIIFOLD (ASCII-only ignore-case search helpers only on ASCII-tested needles), R-CIREF (reduce clears IgnoreCase on everything but backreferences; refmatch folds both sides alike), R-NEGCHARS. " +
			"The invariance of match outcomes under case changes is NOT decided.",
	})
	register(&Prop{
		ID:    "C08",
		Rules: []func(*core.Ctx){RCapNorm, RLastCap, RNonNegLen, RRuneWidth, RLazyTable, RStepDecode, RStrText, RUnits, RUnitCmp, RRuneLenNeg, RCompactSib, RLazyFull, RMapState, RValidFlag, RRefDepth, RRangeByte, ROffTable, RLastLE, RStrRunes},
		Explanation: "R-CAPNORM (capture lengths are computed after the end<start swap), R-LASTCAP (a group's embedded capture is its last one; group 0 has exactly one capture from matches[0]: affine evaluation of the index expressions), R-RUNEWIDTH (every byte mapper that sizes runes with RuneLen re-decodes under RuneError), R-STRTEXT (string entry points build match text from the original string), R-UNITS (byte offsets never become rune positions). " +
			"0 <= index <= index+length <= len for every capture (which depends on the interpreter's positions), balancing compaction and value-for-value agreement of the mappers are NOT decided.",
	})
	register(&Prop{
		ID:    "C09",
		Rules: []func(*core.Ctx){RRepConst, RRepCases, RRepID, RFoldExit, RCommitPos, RCompact, RLoopMatch, rDirFoldOnly, RSlot, RCapsKey, RCachePair, RCompactSib, RFoldSrc, RWholeText, RErrProp, RSplitStride, RRewindFirst, RDollarLit, RUnitCmp, RStartSent, RUnits, RNameStart, RRoomLTR, RCountDec, RReplMask},
		Explanation: "R-REPCONST (encoder and decoder of replacement rules are the same affine map over equal constants), R-REPCASES (every special token has an arm in both expansion functions; the right-to-left expansion collects pieces last-to-first), R-COMPACT (balancing compaction precedes every expansion of the reused match; count discipline of the replace loops), R-DIRFOLD (Split and the replace drivers are direction-aware), R-SLOT (group numbers reach slots through the maps, including inside Split). " +
			"That the pieces are concatenated with the right text in between, $-grammar ambiguities and identity of $& are NOT decided.",
	})
	register(&Prop{
		ID:    "C14",
		Rules: []func(*core.Ctx){RLock, RClockEnd, RClockState, RRestart, RPoll, RPeriod, REndCover, RFreshRead, RTickSum, RSelfRun, rStaleOnly, RSentConst, RErrProp, RExitFresh, RNoWrap, RErrIdent, RStartSet, RIgnoreTO, RPadPeriod, RFreshRE, RTimeoutSrc},
		Explanation: "Structural skeleton of the timeout machinery only: R-LOCK (fast.start/running under fast.mu, the clock word through sync/atomic), R-CLOCKEND (the clock's end is only raised, under the lock), R-CLOCKSTATE (one place spawns the clock goroutine, under !running; only runClock clears running, after its loop), R-RESTART (a deadline beyond the clock's end always extends the clock), R-POLL (the deadline is polled in scan's and the interpreter's loops), R-STALE (timeout state of a pooled Runner is re-established per call). " +
			"Every timing statement of the property (no earlier than d, no later than d + a few periods, the stale-clock refresh being right, the goroutine exiting) is NOT decided.",
	})
}

func rStaleOnly(c *core.Ctx) { RStale(c) }

func rDirFoldOnly(c *core.Ctx) { rDirFold(c) }

func rCountNOnly(c *core.Ctx) { rCountN(c) }
