package rules

import (
	"fmt"
	"go/ast"
	"go/token"
	"go/types"
	"strings"

	"golang.org/x/tools/go/ssa"

	"regexlint/internal/core"
)

// R-SIB: the interpreter clauses of sibling opcodes — the One / Notone / Set
// member of the same kind (plain, rep, loop, lazy, loopatomic) with the same
// Back flags — perform the same sequence of position / stack / track
// operations with the same argument expressions.  They differ only in the
// character test.  (Cross-checking siblings: a slip such as `pos+1` instead of
// `pos+r.bump()` in one of three otherwise identical handlers is a deviation
// from the other two.)
func RSib(c *core.Ctx) {
	c.Rule("R-SIB", "interpreter clauses of sibling opcodes (One/Notone/Set of the same kind and Back flag) perform the same sequence of position, grouping-stack and backtracking-stack operations with the same argument expressions; only the character test differs", 12)
	m := buildOpModel(c)
	if !m.ok {
		c.Anchor("bytecode model")
		return
	}
	p := c.P
	info := p.Pkg("").TypesInfo
	runnerT, _ := p.LookupObj("", "Runner").(*types.TypeName)
	tracked := map[string]bool{}
	for _, n := range []string{"trackPush", "trackPush1", "trackPush2", "trackPush3", "trackPushNeg1", "trackPushNeg2", "trackPop", "trackPopN", "trackPeek", "trackPeekN",
		"stackPush", "stackPush2", "stackPop", "stackPopN", "stackPeek", "stackPeekN", "textto", "advance", "backwardnext", "goTo", "forwardchars", "bump", "textPos", "trackto"} {
		if p.LookupFunc("", "Runner."+n) == nil {
			c.Anchor("regexp2.Runner." + n)
			return
		}
		tracked[n] = true
	}
	skeleton := func(cl *clause) []string {
		var out []string
		for _, st := range cl.cc.Body {
			ast.Inspect(st, func(n ast.Node) bool {
				switch x := n.(type) {
				case *ast.CallExpr:
					fn := core.Callee(info, x)
					if fn == nil {
						return true
					}
					sig := fn.Type().(*types.Signature)
					if sig.Recv() == nil || !core.IsNamed(sig.Recv().Type(), core.PkgRoot, runnerT.Name()) || !tracked[fn.Name()] {
						return true
					}
					var args []string
					for _, a := range x.Args {
						args = append(args, types.ExprString(a))
					}
					out = append(out, fn.Name()+"("+strings.Join(args, ", ")+")")
				case *ast.BranchStmt:
					out = append(out, x.Tok.String())
				case *ast.ForStmt:
					out = append(out, "for")
				}
				return true
			})
		}
		return out
	}
	find := func(op int64, back, back2 bool) (*clause, clauseLabel, bool) {
		for _, cl := range m.clauses {
			for _, l := range cl.labels {
				if l.op == op && l.back == back && l.back2 == back2 {
					return cl, l, true
				}
			}
		}
		return nil, clauseLabel{}, false
	}
	for _, kind := range []string{"", "rep", "loop", "lazy", "loopatomic"} {
		for _, flags := range [][2]bool{{false, false}, {true, false}, {false, true}} {
			var ref []string
			var refName string
			var have int
			for _, fam := range []string{"One", "Notone", "Set"} {
				op, ok := m.opByNm[fam+kind]
				if !ok {
					c.Anchor("syntax." + fam + kind)
					continue
				}
				cl, l, ok := find(op, flags[0], flags[1])
				if !ok {
					continue
				}
				have++
				sk := skeleton(cl)
				name := m.opLabel(l)
				if ref == nil {
					ref, refName = sk, name
					continue
				}
				same := strings.Join(sk, " ; ") == strings.Join(ref, " ; ")
				diff := ""
				if !same {
					for i := 0; i < len(sk) || i < len(ref); i++ {
						a, b := "<none>", "<none>"
						if i < len(sk) {
							a = sk[i]
						}
						if i < len(ref) {
							b = ref[i]
						}
						if a != b {
							diff = fmt.Sprintf("first difference at operation %d: %s has %s, %s has %s", i, name, a, refName, b)
							break
						}
					}
				}
				c.Check(same, "executeDefault / "+name+" agrees with sibling "+refName, cl.cc.Pos(), "%d operations compared; %s", len(sk), diff)
			}
			if have > 0 && have < 3 {
				suffix := ""
				if flags[0] {
					suffix = "|Back"
				} else if flags[1] {
					suffix = "|Back2"
				}
				c.Bad("executeDefault / sibling set One/Notone/Set"+kind+suffix+" complete", m.execSw.Pos(), "only %d of the three sibling opcodes have a clause with these flags", have)
			}
		}
	}
}

// R-MASK: a value compared against a flag-free opcode constant has had its
// modifier bits removed.
func RMask(c *core.Ctx) {
	c.Rule("R-MASK", "every comparison of a value with a flag-free opcode constant (including switch cases) is on a value from which the Rtl/Ci/Back/Back2 bits were masked off, or on Runner.operator (which setOperator strips of Rtl/Ci and which is compared with Back-flagged labels by design)", 40)
	p := c.P
	m := buildOpModel(c)
	if !m.ok {
		c.Anchor("bytecode model")
		return
	}
	instOp, _ := p.Pkg("syntax").Types.Scope().Lookup("InstOp").(*types.TypeName)
	opField := p.LookupField("", "Runner", "operator")
	flags := m.rtl | m.ci | m.back | m.back2
	var flagFree func(v ssa.Value, depth int) bool
	flagFree = func(v ssa.Value, depth int) bool {
		if depth > 6 {
			return false
		}
		switch x := v.(type) {
		case *ssa.Const:
			k, ok := core.IntConst(x)
			return ok && k&flags == 0
		case *ssa.BinOp:
			if x.Op == token.AND {
				if k, ok := core.IntConst(x.Y); ok && k&flags == 0 {
					return true
				}
				if k, ok := core.IntConst(x.X); ok && k&flags == 0 {
					return true
				}
			}
			if x.Op == token.AND_NOT {
				if k, ok := core.IntConst(x.Y); ok && k&flags == flags {
					return true
				}
			}
			if x.Op == token.ADD || x.Op == token.SUB || x.Op == token.OR {
				return flagFree(x.X, depth+1) && flagFree(x.Y, depth+1)
			}
		case *ssa.Phi:
			for _, e := range x.Edges {
				if !flagFree(e, depth+1) {
					return false
				}
			}
			return true
		case *ssa.Convert:
			return flagFree(x.X, depth+1)
		case *ssa.ChangeType:
			return flagFree(x.X, depth+1)
		case *ssa.UnOp:
			if x.Op == token.MUL {
				if _, ok := core.LoadOfField(x, opField); ok {
					return true
				}
			}
		}
		return false
	}
	ord := map[string]int{}
	for _, fn := range p.ModuleFuncs() {
		name := core.SSAName(fn)
		for _, b := range fn.Blocks {
			for _, ins := range b.Instrs {
				bin, ok := ins.(*ssa.BinOp)
				if !ok || (bin.Op != token.EQL && bin.Op != token.NEQ) {
					continue
				}
				var k *ssa.Const
				var other ssa.Value
				if cst, ok := bin.Y.(*ssa.Const); ok {
					k, other = cst, bin.X
				} else if cst, ok := bin.X.(*ssa.Const); ok {
					k, other = cst, bin.Y
				}
				if k == nil || !types.Identical(k.Type(), instOp.Type()) {
					continue
				}
				kv, ok := core.IntConst(k)
				if !ok || kv < 0 || kv >= m.mask {
					continue // flagged label: compared with Runner.operator
				}
				// `(op & Ci) != 0` is a flag test, not an opcode comparison (Onerep == 0)
				if ab, ok := other.(*ssa.BinOp); ok && ab.Op == token.AND && kv == 0 {
					kx, okx := core.IntConst(ab.X)
					ky, oky := core.IntConst(ab.Y)
					if (okx && kx&flags != 0) || (oky && ky&flags != 0) {
						continue
					}
				}
				ord[name]++
				c.Visit(name)
				c.Check(flagFree(other, 0), fmt.Sprintf("%s / compare with %s #%d", name, m.opName[kv], ord[name]), bin.Pos(),
					"the compared value must have its modifier bits masked off (else `%s|Ci` or `|Rtl` instructions are not recognised)", m.opName[kv])
			}
		}
	}
}
